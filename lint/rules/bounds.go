package rules

import (
	"fmt"
	"go/token"
	"go/types"
	"os"
	"strings"

	"golang.org/x/tools/go/ssa"

	"lv/an"
)

// Rule P9s: slice and index bounds inside the filter package, discharged by
// a small difference-bound prover over the SSA form (guards, phis evaluated
// per incoming edge, lengths, clamps, range indices).

func init() {
	register("P9s", "every slice expression and every index with a non-trivial bound in the filter package is within bounds on every path (0 <= lo <= hi <= len)", runP9s)
}

// term is value+offset; a nil value is the constant offset alone.
type term struct {
	v   ssa.Value
	off int64
}

func (t term) String(p *an.Prog) string {
	if t.v == nil {
		return fmt.Sprint(t.off)
	}
	if t.off == 0 {
		return describe(p, t.v)
	}
	return fmt.Sprintf("%s%+d", describe(p, t.v), t.off)
}

func norm(v ssa.Value) term {
	var off int64
	for depth := 0; depth < 8; depth++ {
		if c, ok := an.ConstInt(v); ok {
			return term{nil, off + c}
		}
		switch x := v.(type) {
		case *ssa.BinOp:
			if c, ok := an.ConstInt(x.Y); ok && (x.Op == token.ADD || x.Op == token.SUB) {
				if x.Op == token.ADD {
					off += c
				} else {
					off -= c
				}
				v = x.X
				continue
			}
			if c, ok := an.ConstInt(x.X); ok && x.Op == token.ADD {
				off += c
				v = x.Y
				continue
			}
		case *ssa.Convert:
			if bt, ok := x.X.Type().Underlying().(*types.Basic); ok && bt.Info()&types.IsInteger != 0 {
				if bt2, ok := x.Type().Underlying().(*types.Basic); ok && bt2.Info()&types.IsInteger != 0 {
					v = x.X
					continue
				}
			}
		case *ssa.Call:
			// len(make([]T, n)) is n
			if b, ok := x.Call.Value.(*ssa.Builtin); ok && b.Name() == "len" {
				if ms, ok := x.Call.Args[0].(*ssa.MakeSlice); ok {
					v = ms.Len
					continue
				}
			}
		}
		break
	}
	return term{v, off}
}

// eqVal: structural equality good enough for bounds: same value, same field
// loads, len/cap of the same operand.
func eqVal(a, b ssa.Value) bool {
	if sameValue(a, b) {
		return true
	}
	ca, ok1 := a.(*ssa.Call)
	cb, ok2 := b.(*ssa.Call)
	if ok1 && ok2 {
		ba, ok3 := ca.Call.Value.(*ssa.Builtin)
		bb, ok4 := cb.Call.Value.(*ssa.Builtin)
		if ok3 && ok4 && ba.Name() == bb.Name() && (ba.Name() == "len" || ba.Name() == "cap") {
			return eqVal(ca.Call.Args[0], cb.Call.Args[0])
		}
	}
	return false
}

// fact: x + xo <= y + yo.
type fact struct {
	x, y term
}

type prover struct {
	p  *an.Prog
	nn *nonNeg
}

// factsFromCond turns a branch condition into difference facts.
func factsFromCond(cond ssa.Value, taken bool) []fact {
	for {
		u, ok := cond.(*ssa.UnOp)
		if !ok || u.Op != token.NOT {
			break
		}
		cond, taken = u.X, !taken
	}
	b, ok := cond.(*ssa.BinOp)
	if !ok {
		return nil
	}
	if bt, ok := b.X.Type().Underlying().(*types.Basic); !ok || bt.Info()&types.IsInteger == 0 {
		return nil
	}
	x, y := norm(b.X), norm(b.Y)
	op := b.Op
	if !taken {
		switch op {
		case token.LSS:
			op = token.GEQ
		case token.LEQ:
			op = token.GTR
		case token.GTR:
			op = token.LEQ
		case token.GEQ:
			op = token.LSS
		case token.EQL:
			op = token.NEQ
		case token.NEQ:
			op = token.EQL
		default:
			return nil
		}
	}
	switch op {
	case token.LSS: // x < y  =>  x+1 <= y
		return []fact{{term{x.v, x.off + 1}, y}}
	case token.LEQ:
		return []fact{{x, y}}
	case token.GTR: // y < x
		return []fact{{term{y.v, y.off + 1}, x}}
	case token.GEQ:
		return []fact{{y, x}}
	case token.EQL:
		return []fact{{x, y}, {y, x}}
	case token.NEQ:
		// v != c for a value known >= c means v >= c+1 (handled by the caller via neFacts)
		return nil
	}
	return nil
}

// neZero: the condition establishes v != 0 (used with v >= 0 to get v >= 1).
func neFacts(cond ssa.Value, taken bool) []term {
	for {
		u, ok := cond.(*ssa.UnOp)
		if !ok || u.Op != token.NOT {
			break
		}
		cond, taken = u.X, !taken
	}
	b, ok := cond.(*ssa.BinOp)
	if !ok {
		return nil
	}
	if (b.Op == token.NEQ && taken) || (b.Op == token.EQL && !taken) {
		x, y := norm(b.X), norm(b.Y)
		if y.v == nil {
			return []term{{x.v, x.off - y.off}} // x.v + (x.off - y.off) != 0
		}
		if x.v == nil {
			return []term{{y.v, y.off - x.off}}
		}
	}
	return nil
}

// point is a program point: a block entry plus (optionally) one more edge condition.
type point struct {
	blk   *ssa.BasicBlock
	extra []fact
	ne    []term
}

func (pr *prover) factsAt(pt point) ([]fact, []term) {
	var fs []fact
	var ne []term
	for _, g := range an.GuardsAt(pt.blk) {
		fs = append(fs, factsFromCond(g.Cond, g.True)...)
		ne = append(ne, neFacts(g.Cond, g.True)...)
	}
	fs = append(fs, pt.extra...)
	ne = append(ne, pt.ne...)
	return fs, ne
}

// edgePoint: the program point "at the end of pred, taking the edge to succ".
func edgePoint(pred, succ *ssa.BasicBlock) point {
	pt := point{blk: pred}
	if ifi, ok := pred.Instrs[len(pred.Instrs)-1].(*ssa.If); ok && len(pred.Succs) == 2 && pred.Succs[0] != pred.Succs[1] {
		taken := pred.Succs[0] == succ
		pt.extra = factsFromCond(ifi.Cond, taken)
		pt.ne = neFacts(ifi.Cond, taken)
	}
	return pt
}

// lowerBound: a constant L with v >= L provable at pt (ok=false if none).
func (pr *prover) lowerBound(v ssa.Value, pt point, depth int) (int64, bool) {
	if v == nil {
		return 0, true
	}
	if depth > 6 {
		return 0, false
	}
	fs, ne := pr.factsAt(pt)
	best, have := int64(0), false
	upd := func(l int64) {
		if !have || l > best {
			best, have = l, true
		}
	}
	for _, f := range fs {
		// c <= v + o  => v >= c - o
		if f.x.v == nil && f.y.v != nil && eqVal(f.y.v, v) {
			upd(f.x.off - f.y.off)
		}
	}
	// structural non-negativity
	last := pt.blk.Instrs[len(pt.blk.Instrs)-1]
	if pr.nn.value(v, last, 0) {
		upd(0)
	}
	switch x := v.(type) {
	case virtualLen:
		upd(0)
	case *ssa.Call:
		if cn := an.CallName(&x.Call); strings.HasPrefix(cn, "strings.Index") || strings.HasPrefix(cn, "strings.LastIndex") {
			upd(-1) // documented: an index into the string, or -1
		}
		if _, lo, ok := indexHelper(pr.p, x); ok {
			upd(lo)
		}
	case *ssa.Extract:
		if c, ok := x.Tuple.(*ssa.Call); ok && x.Index == 1 {
			if cn := an.CallName(&c.Call); cn == "unicode/utf8.DecodeRuneInString" || cn == "unicode/utf8.DecodeLastRuneInString" {
				upd(0) // documented: width in bytes, 0..len(s)
			}
		}
		// index of a range over a string: 0 <= k
		if nx, ok := x.Tuple.(*ssa.Next); ok && nx.IsString && x.Index == 1 {
			upd(0)
		}
	case *ssa.Phi:
		all := true
		var minL int64
		first := true
		for i, e := range x.Edges {
			if e == ssa.Value(x) {
				continue
			}
			et := norm(e)
			if et.v == ssa.Value(x) && et.off >= 0 {
				continue // induction step that only increases
			}
			l, ok := pr.lowerBound(et.v, edgePoint(x.Block().Preds[i], x.Block()), depth+1)
			if !ok {
				all = false
				break
			}
			l += et.off
			if first || l < minL {
				minL, first = l, false
			}
		}
		if all && !first {
			upd(minL)
		}
	}
	if have {
		// v != best  and v >= best  =>  v >= best+1
		for _, n := range ne {
			if n.v != nil && eqVal(n.v, v) && -n.off == best {
				best++
			}
		}
	}
	return best, have
}

// le proves a <= b at pt.
func (pr *prover) le(a, b term, pt point, depth int, seen map[[2]ssa.Value]bool) bool {
	if depth > 10 {
		return false
	}
	if a.v == nil && b.v == nil {
		return a.off <= b.off
	}
	if a.v != nil && b.v != nil && eqVal(a.v, b.v) {
		return a.off <= b.off
	}
	key := [2]ssa.Value{a.v, b.v}
	if seen[key] && depth > 0 {
		// already being proved on this path (loop-carried phi): assume
		return true
	}
	// constant <= b + off : lower bound of b
	if a.v == nil {
		if l, ok := pr.lowerBound(b.v, pt, 0); ok && a.off <= l+b.off {
			return true
		}
	}
	fs, _ := pr.factsAt(pt)
	// direct guard, or guard + one more step
	for _, f := range fs {
		if f.x.v != nil && a.v != nil && eqVal(f.x.v, a.v) {
			// a + f.x.off <= f.y  =>  a + a.off <= f.y + (a.off - f.x.off)
			mid := term{f.y.v, f.y.off + a.off - f.x.off}
			if (mid.v == nil && b.v == nil && mid.off <= b.off) || (mid.v != nil && b.v != nil && eqVal(mid.v, b.v) && mid.off <= b.off) {
				return true
			}
			if depth < 4 && pr.le(mid, b, pt, depth+3, seen) {
				return true
			}
		}
		if f.y.v != nil && b.v != nil && eqVal(f.y.v, b.v) {
			// f.x <= b + f.y.off  =>  f.x + (b.off - f.y.off) <= b + b.off
			mid := term{f.x.v, f.x.off + b.off - f.y.off}
			if mid.v == nil && a.v == nil && a.off <= mid.off {
				return true
			}
			if depth < 4 && pr.le(a, mid, pt, depth+3, seen) {
				return true
			}
		}
	}
	seen2 := map[[2]ssa.Value]bool{}
	for k, v := range seen {
		seen2[k] = v
	}
	seen2[key] = true
	// structure of a
	switch x := a.v.(type) {
	case *ssa.Phi:
		ok := true
		n := 0
		for i, e := range x.Edges {
			if e == ssa.Value(x) {
				continue
			}
			n++
			et := norm(e)
			et.off += a.off
			if !pr.le(et, b, edgePoint(x.Block().Preds[i], x.Block()), depth+1, seen2) {
				ok = false
				break
			}
		}
		if ok && n > 0 {
			return true
		}
	case *ssa.BinOp:
		last := pt.blk.Instrs[len(pt.blk.Instrs)-1]
		switch x.Op {
		case token.SUB:
			if pr.nonNegAt(x.Y, pt) { // x.X - nonneg <= x.X
				xt := norm(x.X)
				xt.off += a.off
				if pr.le(xt, b, pt, depth+1, seen2) {
					return true
				}
			}
		case token.REM:
			// a % m <= m - 1 when m > 0 ; and a % m <= a when a >= 0
			mt := norm(x.Y)
			mt.off += a.off - 1
			if pr.le(mt, b, pt, depth+1, seen2) {
				if l, ok := pr.lowerBound(x.Y, pt, 0); ok && l >= 1 {
					return true
				}
			}
		case token.QUO:
			if pr.nn.value(x.X, last, 0) {
				if l, ok := pr.lowerBound(x.Y, pt, 0); ok && l >= 1 {
					xt := norm(x.X)
					xt.off += a.off
					if pr.le(xt, b, pt, depth+1, seen2) {
						return true
					}
				}
			}
		}
	case *ssa.Call:
		if arg, _, ok := indexHelper(pr.p, x); ok && b.v != nil {
			// result <= len(arg) - 1
			if lc, ok := b.v.(*ssa.Call); ok {
				if bi, ok := lc.Call.Value.(*ssa.Builtin); ok && bi.Name() == "len" && eqVal(lc.Call.Args[0], arg) && a.off <= b.off+1 {
					return true
				}
			}
			if vl, ok := b.v.(virtualLen); ok && eqVal(vl.x, arg) && a.off <= b.off+1 {
				return true
			}
		}
		if bi, ok := x.Call.Value.(*ssa.Builtin); ok && bi.Name() == "max" {
			all := len(x.Call.Args) > 0
			for _, arg := range x.Call.Args {
				at := norm(arg)
				at.off += a.off
				if !pr.le(at, b, pt, depth+1, seen2) {
					all = false
					break
				}
			}
			if all {
				return true
			}
		}
		if bi, ok := x.Call.Value.(*ssa.Builtin); ok && bi.Name() == "min" {
			for _, arg := range x.Call.Args {
				at := norm(arg)
				at.off += a.off
				if pr.le(at, b, pt, depth+1, seen2) {
					return true
				}
			}
		}
		if callee := x.Call.StaticCallee(); callee != nil && an.FuncName(callee) == "tags.intMin" {
			for _, arg := range x.Call.Args {
				at := norm(arg)
				at.off += a.off
				if pr.le(at, b, pt, depth+1, seen2) {
					return true
				}
			}
		}
	case *ssa.Extract:
		// width returned by utf8.DecodeRuneInString(s) is at most len(s)
		if c, ok := x.Tuple.(*ssa.Call); ok && x.Index == 1 && b.v != nil {
			if cn := an.CallName(&c.Call); cn == "unicode/utf8.DecodeRuneInString" || cn == "unicode/utf8.DecodeLastRuneInString" {
				if lc, ok := b.v.(*ssa.Call); ok {
					if bi, ok := lc.Call.Value.(*ssa.Builtin); ok && bi.Name() == "len" && eqVal(lc.Call.Args[0], c.Call.Args[0]) && a.off <= b.off {
						return true
					}
				}
				if vl, ok := b.v.(virtualLen); ok && eqVal(vl.x, c.Call.Args[0]) && a.off <= b.off {
					return true
				}
			}
		}
		// index k of `for k := range s` over a string: k <= len(s) - 1
		if nx, ok := x.Tuple.(*ssa.Next); ok && nx.IsString && x.Index == 1 {
			if rg, ok := nx.Iter.(*ssa.Range); ok && b.v != nil {
				if c, ok := b.v.(*ssa.Call); ok {
					if bi, ok := c.Call.Value.(*ssa.Builtin); ok && bi.Name() == "len" && eqVal(c.Call.Args[0], rg.X) && a.off <= b.off+1 {
						return true
					}
				}
				if vl, ok := b.v.(virtualLen); ok && eqVal(vl.x, rg.X) && a.off <= b.off+1 {
					return true
				}
			}
		}
	}
	// structure of b
	switch y := b.v.(type) {
	case *ssa.Phi:
		ok := true
		n := 0
		for i, e := range y.Edges {
			if e == ssa.Value(y) {
				continue
			}
			n++
			et := norm(e)
			et.off += b.off
			if !pr.le(a, et, edgePoint(y.Block().Preds[i], y.Block()), depth+1, seen2) {
				ok = false
				break
			}
		}
		if ok && n > 0 {
			return true
		}
	case *ssa.BinOp:
		if y.Op == token.SUB && a.v == nil {
			// c <= X - Y + o   <=   Y + (c - o) <= X
			yt := norm(y.Y)
			yt.off += a.off - b.off
			if pr.le(yt, norm(y.X), pt, depth+1, seen2) {
				return true
			}
		}
		if y.Op == token.ADD {
			// a <= X  and Y >= 0  =>  a <= X + Y
			for _, pair := range [][2]ssa.Value{{y.X, y.Y}, {y.Y, y.X}} {
				// x <= x + y needs y >= 0 AND no wrap-around: both addends must be bounded above
				// (lengths, indices, constants, or values compared against such)
				if pr.nonNegAt(pair[1], pt) && pr.boundedAbove(pair[0], pt, 0) && pr.boundedAbove(pair[1], pt, 0) {
					xt := norm(pair[0])
					xt.off += b.off
					if pr.le(a, xt, pt, depth+1, seen2) {
						return true
					}
				}
			}
		}
	case *ssa.Call:
		if bi, ok := y.Call.Value.(*ssa.Builtin); ok && bi.Name() == "max" {
			for _, arg := range y.Call.Args {
				at := norm(arg)
				at.off += b.off
				if pr.le(a, at, pt, depth+1, seen2) {
					return true
				}
			}
		}
	}
	return false
}

// lenTerm is len(x) for a slice/string/array-pointer value x, as a term
// evaluated at instruction in.
func lenOf(x ssa.Value) (term, bool) {
	// look for an existing len(x) call is not required: represent symbolically
	return term{}, false
}

func runP9s(p *an.Prog, r *an.Result) {
	roles := GetRoles(p)
	pr := &prover{p: p, nn: &nonNeg{p: p, memo: map[*ssa.Function]int{}}}
	for _, fn := range p.Funcs {
		o := an.Outermost(fn)
		if o.Pkg == nil || (an.RelPkg(o.Pkg.Pkg.Path()) != "filters" && os.Getenv("LV_P9_ALL") == "") || isMainPkg(fn) {
			continue
		}
		name := roles.Label(fn)
		// len(x) as a term: synthesise by finding any len call on an equal operand, else a virtual one
		lenTermOf := func(x ssa.Value) term {
			var found ssa.Value
			an.EachInstr(fn, func(in ssa.Instruction) {
				if c, ok := in.(*ssa.Call); ok {
					if bi, ok := c.Call.Value.(*ssa.Builtin); ok && bi.Name() == "len" && eqVal(c.Call.Args[0], x) {
						found = c
					}
				}
			})
			if found != nil {
				return norm(found)
			}
			if ms, ok := x.(*ssa.MakeSlice); ok {
				return norm(ms.Len)
			}
			return term{v: virtualLen{x}}
		}
		an.EachInstr(fn, func(in ssa.Instruction) {
			pt := point{blk: in.Block()}
			check := func(construct, what string, a, b term) {
				r.Counts["bound obligations"]++
				if pr.le(a, b, pt, 0, map[[2]ssa.Value]bool{}) {
					r.OK(name, construct+": "+what, an.InstrPos(in), "proved from dominating comparisons, clamps and length facts")
				} else {
					r.Bad(name, construct+": "+what, an.InstrPos(in), fmt.Sprintf("%s: cannot show %s (%s <= %s) on every path; an out-of-range bound panics", an.FuncName(fn), what, a.String(p), b.String(p)))
				}
			}
			switch x := in.(type) {
			case *ssa.Slice:
				base := x.X
				if pt, ok := base.Type().Underlying().(*types.Pointer); ok {
					if arr, ok := pt.Elem().Underlying().(*types.Array); ok {
						// slicing a local array: bounds are against the constant length
						lo, hi := term{nil, 0}, term{nil, arr.Len()}
						if x.Low != nil {
							lo = norm(x.Low)
						}
						if x.High != nil {
							hi = norm(x.High)
						}
						if lo.v == nil && hi.v == nil {
							return
						}
						construct := describe(p, base) + "[lo:hi]"
						check(construct, "0 <= lo", term{nil, 0}, lo)
						check(construct, "lo <= hi", lo, hi)
						check(construct, "hi <= len", hi, term{nil, arr.Len()})
						return
					}
				}
				ln := lenTermOf(base)
				lo, hi := term{nil, 0}, ln
				if x.Low != nil {
					lo = norm(x.Low)
				}
				if x.High != nil {
					hi = norm(x.High)
				}
				if x.Low == nil && x.High == nil {
					return
				}
				construct := describe(p, base) + "[" + lo.String(p) + ":" + hi.String(p) + "]"
				if lo.v != nil || lo.off != 0 {
					check(construct, "0 <= lo", term{nil, 0}, lo)
				}
				check(construct, "lo <= hi", lo, hi)
				if x.High != nil {
					check(construct, "hi <= len", hi, ln)
				}
			case *ssa.IndexAddr, *ssa.Index, *ssa.Lookup:
				var base, idx ssa.Value
				switch y := x.(type) {
				case *ssa.IndexAddr:
					base, idx = y.X, y.Index
				case *ssa.Index:
					base, idx = y.X, y.Index
				case *ssa.Lookup:
					if _, isMap := y.X.Type().Underlying().(*types.Map); isMap {
						return
					}
					base, idx = y.X, y.Index
				}
				if pt, ok := base.Type().Underlying().(*types.Pointer); ok {
					if _, ok := pt.Elem().Underlying().(*types.Array); ok {
						return // local array with compiler-checked constant index (varargs, literals)
					}
				}
				if _, ok := base.Type().Underlying().(*types.Array); ok {
					return
				}
				if sortContract(p, fn, base, idx) {
					r.Counts["bound obligations"]++
					r.OK(name, describe(p, base)+"["+describe(p, idx)+"]: sort.Interface contract", an.InstrPos(in), "Less/Swap of a sort.Interface whose Len is the length of this very field: package sort calls them with 0 <= i, j < Len()")
					return
				}
				it := norm(idx)
				ln := lenTermOf(base)
				construct := describe(p, base) + "[" + it.String(p) + "]"
				if it.v != nil || it.off < 0 {
					check(construct, "0 <= index", term{nil, 0}, it)
				}
				check(construct, "index < len", term{it.v, it.off + 1}, ln)
			}
		})
	}
	r.Floor("bound obligations", 8)
}

// virtualLen stands for len(x) where the program never computes it.
type virtualLen struct{ x ssa.Value }

func (v virtualLen) Name() string                  { return "len(" + v.x.Name() + ")" }
func (v virtualLen) String() string                { return v.Name() }
func (v virtualLen) Type() types.Type              { return types.Typ[types.Int] }
func (v virtualLen) Parent() *ssa.Function         { return v.x.Parent() }
func (v virtualLen) Referrers() *[]ssa.Instruction { return nil }
func (v virtualLen) Pos() token.Pos                { return v.x.Pos() }

// sortContract: fn is the Less or Swap method of a type implementing
// sort.Interface, idx is one of its int parameters and base is the receiver
// field whose length the type's Len method returns.
func sortContract(p *an.Prog, fn *ssa.Function, base, idx ssa.Value) bool {
	if fn.Signature.Recv() == nil || (fn.Name() != "Less" && fn.Name() != "Swap") {
		return false
	}
	par, ok := idx.(*ssa.Parameter)
	if !ok || len(fn.Params) != 3 || (par != fn.Params[1] && par != fn.Params[2]) {
		return false
	}
	rt := fn.Signature.Recv().Type()
	lenFn := methodImpl(p, rt, "Len")
	if lenFn == nil || lenFn.Blocks == nil || methodImpl(p, rt, "Less") == nil || methodImpl(p, rt, "Swap") == nil {
		return false
	}
	// what Len returns the length of: a path of field indices from the receiver (empty = the receiver itself)
	pathOf := func(f *ssa.Function, v ssa.Value) ([]int, bool) {
		var path []int
		for depth := 0; depth < 6; depth++ {
			switch x := v.(type) {
			case *ssa.Parameter:
				if len(f.Params) > 0 && x == f.Params[0] {
					return path, true
				}
				return nil, false
			case *ssa.Field:
				path = append(path, x.Field)
				v = x.X
			case *ssa.UnOp:
				fa, ok := x.X.(*ssa.FieldAddr)
				if !ok {
					return nil, false
				}
				path = append(path, fa.Field)
				v = fa.X
			case *ssa.ChangeType:
				v = x.X
			case *ssa.Alloc:
				// value receiver spilled to a local
				st := an.Stores(x)
				if len(st) == 1 && len(f.Params) > 0 && st[0] == ssa.Value(f.Params[0]) {
					return path, true
				}
				return nil, false
			default:
				return nil, false
			}
		}
		return nil, false
	}
	var lenPath []int
	found := false
	an.EachInstr(lenFn, func(in ssa.Instruction) {
		if ret, ok := in.(*ssa.Return); ok && len(ret.Results) == 1 {
			if c, ok := ret.Results[0].(*ssa.Call); ok {
				if bi, ok := c.Call.Value.(*ssa.Builtin); ok && bi.Name() == "len" {
					if pth, ok := pathOf(lenFn, c.Call.Args[0]); ok {
						lenPath, found = pth, true
					}
				}
			}
		}
	})
	if !found {
		return false
	}
	bp, ok := pathOf(fn, base)
	if !ok || len(bp) != len(lenPath) {
		return false
	}
	for i := range bp {
		if bp[i] != lenPath[i] {
			return false
		}
	}
	return true
}

// nonNegAt: v >= 0 at pt, by structure or by the prover's lower bounds.
func (pr *prover) nonNegAt(v ssa.Value, pt point) bool {
	last := pt.blk.Instrs[len(pt.blk.Instrs)-1]
	if pr.nn.value(v, last, 0) {
		return true
	}
	t := norm(v)
	if t.v == nil {
		return t.off >= 0
	}
	l, ok := pr.lowerBound(t.v, pt, 0)
	return ok && l+t.off >= 0
}

// boundedAbove: v cannot be anywhere near the largest int: it is a constant,
// a length, an index into a collection, a difference/minimum of such, or is
// compared (<, <=) against such on every path to pt. Needed wherever the
// prover reasons about sums, which wrap around in Go.
func (pr *prover) boundedAbove(v ssa.Value, pt point, depth int) bool {
	if depth > 6 {
		return false
	}
	t := norm(v)
	if t.v == nil {
		return true
	}
	v = t.v
	switch x := v.(type) {
	case virtualLen:
		return true
	case *ssa.Call:
		switch an.CallName(&x.Call) {
		case "builtin.len", "builtin.cap", "(reflect.Value).Len", "unicode/utf8.RuneCountInString", "strings.Count", "strings.Index", "strings.LastIndex":
			return true
		case "builtin.min":
			for _, a := range x.Call.Args {
				if pr.boundedAbove(a, pt, depth+1) {
					return true
				}
			}
		}
	case *ssa.Extract:
		if nx, ok := x.Tuple.(*ssa.Next); ok && nx.IsString && x.Index == 1 {
			return true
		}
		if c, ok := x.Tuple.(*ssa.Call); ok && strings.HasPrefix(an.CallName(&c.Call), "unicode/utf8.") {
			return true
		}
	case *ssa.Phi:
		for i, e := range x.Edges {
			if e == ssa.Value(x) {
				continue
			}
			et := norm(e)
			if et.v == ssa.Value(x) {
				continue
			}
			if !pr.boundedAbove(e, edgePoint(x.Block().Preds[i], x.Block()), depth+1) {
				return false
			}
		}
		return true
	case *ssa.BinOp:
		switch x.Op {
		case token.SUB:
			return pr.boundedAbove(x.X, pt, depth+1) && pr.nonNegAt(x.Y, pt)
		case token.REM, token.QUO:
			return pr.boundedAbove(x.X, pt, depth+1) || pr.boundedAbove(x.Y, pt, depth+1)
		case token.ADD:
			return pr.boundedAbove(x.X, pt, depth+1) && pr.boundedAbove(x.Y, pt, depth+1)
		}
	}
	// a guard v <= w (+c) with w bounded
	fs, _ := pr.factsAt(pt)
	for _, f := range fs {
		if f.x.v != nil && eqVal(f.x.v, v) {
			if f.y.v == nil || pr.boundedAbove(f.y.v, pt, depth+1) {
				return true
			}
		}
	}
	return false
}

// indexHelper: the call is to a module function every result of which is either a constant >= -1
// or the index variable of a range loop over one of its string parameters; returns the argument
// that is ranged over. Such a result r satisfies -1 <= r <= len(arg)-1 and is a rune boundary.
func indexHelper(p *an.Prog, v ssa.Value) (ssa.Value, int64, bool) {
	c, ok := v.(*ssa.Call)
	if !ok {
		return nil, 0, false
	}
	callee := c.Call.StaticCallee()
	if callee == nil || !p.InModule(callee) || callee.Blocks == nil || callee.Signature.Results().Len() != 1 {
		return nil, 0, false
	}
	var par *ssa.Parameter
	minConst := int64(0)
	okAll, n := true, 0
	an.EachInstr(callee, func(in ssa.Instruction) {
		ret, isRet := in.(*ssa.Return)
		if !isRet {
			return
		}
		for _, o := range an.Origins(ret.Results[0], an.StepValue) {
			n++
			if k, isC := an.ConstInt(o); isC {
				if k < -1 {
					okAll = false
				}
				if k < minConst {
					minConst = k
				}
				continue
			}
			ex, isEx := o.(*ssa.Extract)
			if !isEx || ex.Index != 1 {
				okAll = false
				continue
			}
			nx, isNx := ex.Tuple.(*ssa.Next)
			if !isNx || !nx.IsString {
				okAll = false
				continue
			}
			rg, isRg := nx.Iter.(*ssa.Range)
			if !isRg {
				okAll = false
				continue
			}
			pp, isPar := rg.X.(*ssa.Parameter)
			if !isPar || (par != nil && par != pp) {
				okAll = false
				continue
			}
			par = pp
		}
	})
	if !okAll || n == 0 || par == nil {
		return nil, 0, false
	}
	for i, pp := range callee.Params {
		if pp == par && i < len(c.Call.Args) {
			return c.Call.Args[i], minConst, true
		}
	}
	return nil, 0, false
}

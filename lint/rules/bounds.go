package rules

import (
	"fmt"
	"go/token"
	"go/types"
	"path/filepath"
	"sort"
	"strings"

	"golang.org/x/tools/go/ssa"

	"lv/an"
)

// Rule P9s: slice and index bounds inside the filter package, discharged by
// a small difference-bound prover over the SSA form (guards, phis evaluated
// per incoming edge, lengths, clamps, range indices).

func init() {
	register("P9s", "every slice expression and every index with a non-trivial bound in hand-written code (everything but the ragel/goyacc/stringer tables) is within bounds on every path (0 <= lo <= hi <= len); in the scanner by the documented contract of package regexp applied to the pattern the code compiles", func(p *an.Prog, r *an.Result) { runP9s(p, r, nil) })
	register("P9e", "the part of P9s that covers packages render and parser - where output is written and errors are located: no bound can fail while a failure is being reported", func(p *an.Prog, r *an.Result) {
		runP9s(p, r, func(fn *ssa.Function) bool {
			o := an.Outermost(fn)
			if o.Pkg == nil {
				return false
			}
			rp := an.RelPkg(o.Pkg.Pkg.Path())
			return rp == "render" || rp == "parser"
		})
		r.Floor("bound obligations", 40)
	})
	register("P9t", "the tokenizer part of P9s: every index into a match, into the matched text and into the delimiter list, and every slice of the input, is within bounds for every delimiter configuration", func(p *an.Prog, r *an.Result) {
		scan := p.Func("parser.Scan")
		if scan == nil {
			r.Bad("-", "Scan not found", token.NoPos, "anchor not resolved")
			return
		}
		unit := map[*ssa.Function]bool{}
		for _, f := range unitWithHelpers(p, scan) {
			unit[f] = true
		}
		runP9s(p, r, func(fn *ssa.Function) bool { return unit[an.Outermost(fn)] || unit[fn] })
		r.Floor("bound obligations", 40)
	})
}

// term is value+offset; a nil value is the constant offset alone.
type term struct {
	v   ssa.Value
	off int64
}

func (t term) String(p *an.Prog) string {
	if t.v == nil {
		return fmt.Sprint(t.off)
	}
	if t.off == 0 {
		return describe(p, t.v)
	}
	return fmt.Sprintf("%s%+d", describe(p, t.v), t.off)
}

func norm(v ssa.Value) term {
	var off int64
	for depth := 0; depth < 8; depth++ {
		if c, ok := an.ConstInt(v); ok {
			return term{nil, off + c}
		}
		switch x := v.(type) {
		case *ssa.BinOp:
			if c, ok := an.ConstInt(x.Y); ok && (x.Op == token.ADD || x.Op == token.SUB) {
				if x.Op == token.ADD {
					off += c
				} else {
					off -= c
				}
				v = x.X
				continue
			}
			if c, ok := an.ConstInt(x.X); ok && x.Op == token.ADD {
				off += c
				v = x.Y
				continue
			}
		case *ssa.Convert:
			if bt, ok := x.X.Type().Underlying().(*types.Basic); ok && bt.Info()&types.IsInteger != 0 {
				if bt2, ok := x.Type().Underlying().(*types.Basic); ok && bt2.Info()&types.IsInteger != 0 {
					v = x.X
					continue
				}
			}
		case *ssa.Call:
			// len(make([]T, n)) is n
			if b, ok := x.Call.Value.(*ssa.Builtin); ok && b.Name() == "len" {
				if ms, ok := x.Call.Args[0].(*ssa.MakeSlice); ok {
					v = ms.Len
					continue
				}
			}
		}
		break
	}
	return term{v, off}
}

// eqVal: structural equality good enough for bounds: same value, same field
// loads, len/cap of the same operand.
func eqVal(a, b ssa.Value) bool {
	if sameValue(a, b) || sameMatchElem(a, b) {
		return true
	}
	ca, ok1 := a.(*ssa.Call)
	cb, ok2 := b.(*ssa.Call)
	if ok1 && ok2 {
		// the numeric accessors of reflect are pure: the same accessor of the same reflect.Value
		na, nb := an.CallName(&ca.Call), an.CallName(&cb.Call)
		if na == nb && len(ca.Call.Args) == 1 && len(cb.Call.Args) == 1 {
			switch na {
			case "(reflect.Value).Int", "(reflect.Value).Uint", "(reflect.Value).Len":
				if rv, isPar := ca.Call.Args[0].(*ssa.Parameter); isPar && rv == cb.Call.Args[0] {
					return true
				}
				if sameRV(ca.Call.Args[0], cb.Call.Args[0]) {
					return true
				}
			}
		}
		ba, ok3 := ca.Call.Value.(*ssa.Builtin)
		bb, ok4 := cb.Call.Value.(*ssa.Builtin)
		if ok3 && ok4 && ba.Name() == bb.Name() && (ba.Name() == "len" || ba.Name() == "cap") {
			return eqVal(ca.Call.Args[0], cb.Call.Args[0])
		}
	}
	return false
}

// fact: x + xo <= y + yo.
type fact struct {
	x, y term
}

type prover struct {
	p  *an.Prog
	nn *nonNeg
}

// factsFromCond turns a branch condition into difference facts.
func factsFromCond(cond ssa.Value, taken bool) []fact {
	for {
		u, ok := cond.(*ssa.UnOp)
		if !ok || u.Op != token.NOT {
			break
		}
		cond, taken = u.X, !taken
	}
	b, ok := cond.(*ssa.BinOp)
	if !ok {
		return nil
	}
	if bt, ok := b.X.Type().Underlying().(*types.Basic); !ok || bt.Info()&types.IsInteger == 0 {
		return nil
	}
	x, y := norm(b.X), norm(b.Y)
	op := b.Op
	if !taken {
		switch op {
		case token.LSS:
			op = token.GEQ
		case token.LEQ:
			op = token.GTR
		case token.GTR:
			op = token.LEQ
		case token.GEQ:
			op = token.LSS
		case token.EQL:
			op = token.NEQ
		case token.NEQ:
			op = token.EQL
		default:
			return nil
		}
	}
	switch op {
	case token.LSS: // x < y  =>  x+1 <= y
		return []fact{{term{x.v, x.off + 1}, y}}
	case token.LEQ:
		return []fact{{x, y}}
	case token.GTR: // y < x
		return []fact{{term{y.v, y.off + 1}, x}}
	case token.GEQ:
		return []fact{{y, x}}
	case token.EQL:
		return []fact{{x, y}, {y, x}}
	case token.NEQ:
		// v != c for a value known >= c means v >= c+1 (handled by the caller via neFacts)
		return nil
	}
	return nil
}

// neZero: the condition establishes v != 0 (used with v >= 0 to get v >= 1).
func neFacts(cond ssa.Value, taken bool) []term {
	for {
		u, ok := cond.(*ssa.UnOp)
		if !ok || u.Op != token.NOT {
			break
		}
		cond, taken = u.X, !taken
	}
	b, ok := cond.(*ssa.BinOp)
	if !ok {
		return nil
	}
	if (b.Op == token.NEQ && taken) || (b.Op == token.EQL && !taken) {
		x, y := norm(b.X), norm(b.Y)
		if y.v == nil {
			return []term{{x.v, x.off - y.off}} // x.v + (x.off - y.off) != 0
		}
		if x.v == nil {
			return []term{{y.v, y.off - x.off}}
		}
	}
	return nil
}

// point is a program point: a block entry plus (optionally) one more edge condition.
type point struct {
	blk   *ssa.BasicBlock
	extra []fact
	ne    []term
	eq    []term // v == off, established by the edge
}

func (pr *prover) factsAt(pt point) ([]fact, []term) {
	var fs []fact
	var ne []term
	for _, g := range an.GuardsAt(pt.blk) {
		fs = append(fs, factsFromCond(g.Cond, g.True)...)
		ne = append(ne, neFacts(g.Cond, g.True)...)
	}
	fs = append(fs, pt.extra...)
	ne = append(ne, pt.ne...)
	return fs, ne
}

// edgePoint: the program point "at the end of pred, taking the edge to succ".
// trueOnlyWithNumOut: every way the boolean function h returns true passes a point where NumOut() of the
// type of its k-th parameter is known to be at least need.
func (pr *prover) trueOnlyWithNumOut(h *ssa.Function, k int, need int64, depth int) bool {
	var outs []*ssa.Call
	an.EachInstr(h, func(in ssa.Instruction) {
		if nc, ok := in.(*ssa.Call); ok && nc.Call.IsInvoke() && nc.Call.Method.Name() == "NumOut" && (isTypeOf(nc.Call.Value, h.Params[k]) || isTypeOfAny(nc.Call.Value, h.Params[k])) {
			outs = append(outs, nc)
		}
	})
	if len(outs) == 0 || h.Signature.Results().Len() != 1 {
		return false
	}
	known := func(pt point) bool {
		for _, nc := range outs {
			if l, ok := pr.lowerBound(nc, pt, depth+1); ok && l >= need {
				return true
			}
		}
		return false
	}
	good, rets := true, 0
	an.EachInstr(h, func(in ssa.Instruction) {
		ret, ok := in.(*ssa.Return)
		if !ok || !good {
			return
		}
		rets++
		v := ret.Results[0]
		if c, isC := an.ConstBool(v); isC {
			if c && !known(point{blk: ret.Block()}) {
				good = false
			}
			return
		}
		ph, isPhi := v.(*ssa.Phi)
		if !isPhi {
			good = false
			return
		}
		for i, e := range ph.Edges {
			if c, isC := an.ConstBool(e); isC && !c {
				continue
			}
			if !known(edgePoint(ph.Block().Preds[i], ph.Block())) {
				good = false
			}
		}
	})
	return good && rets > 0
}

func edgePoint(pred, succ *ssa.BasicBlock) point {
	pt := point{blk: pred}
	if ifi, ok := pred.Instrs[len(pred.Instrs)-1].(*ssa.If); ok && len(pred.Succs) == 2 && pred.Succs[0] != pred.Succs[1] {
		taken := pred.Succs[0] == succ
		pt.extra = factsFromCond(ifi.Cond, taken)
		pt.ne = neFacts(ifi.Cond, taken)
	}
	return pt
}

// lowerBound: a constant L with v >= L provable at pt (ok=false if none).
func (pr *prover) lowerBound(v ssa.Value, pt point, depth int) (int64, bool) {
	if v == nil {
		return 0, true
	}
	if depth > 6 {
		return 0, false
	}
	fs, ne := pr.factsAt(pt)
	best, have := int64(0), false
	upd := func(l int64) {
		if !have || l > best {
			best, have = l, true
		}
	}
	for _, f := range fs {
		// c <= v + o  => v >= c - o
		if f.x.v == nil && f.y.v != nil && eqVal(f.y.v, v) {
			upd(f.x.off - f.y.off)
		}
	}
	// structural non-negativity
	last := pt.blk.Instrs[len(pt.blk.Instrs)-1]
	if pr.nn.value(v, last, 0) {
		upd(0)
	}
	if l, ok := pr.matchLower(v, pt); ok {
		upd(l) // regexp contract R4
	}
	// v = w + c: the bound of w, shifted
	if t := norm(v); t.v != nil && t.v != v && t.off != 0 {
		if l, ok := pr.lowerBound(t.v, pt, depth+1); ok && l > -(1<<40) && t.off > -(1<<40) && (t.off < 0 || pr.boundedAbove(t.v, pt, 0)) {
			upd(l + t.off)
		}
	}
	switch x := v.(type) {
	case virtualLen:
		upd(0)
	case *ssa.BinOp:
		// x % n has the sign of x
		if x.Op == token.REM && pr.nonNegAt(x.X, pt) {
			upd(0)
		}
	case *ssa.Lookup:
		if nonNegMapType(pr.p, x.X.Type()) {
			upd(0)
		}
	case *ssa.Call:
		if cn := an.CallName(&x.Call); strings.HasPrefix(cn, "strings.Index") || strings.HasPrefix(cn, "strings.LastIndex") {
			upd(-1) // documented: an index into the string, or -1
		}
		if cn := an.CallName(&x.Call); strings.HasPrefix(cn, "sort.Search") {
			upd(0) // documented: an index in [0, n]
		}
		if lx := lenOperand(x); lx != nil {
			upd(0)
			if atLeastOne(lx) {
				upd(1)
			}
		}
		if _, lo, ok := indexHelper(pr.p, x); ok {
			upd(lo)
		}
	case *ssa.Extract:
		if lk, ok := x.Tuple.(*ssa.Lookup); ok && x.Index == 0 && nonNegMapType(pr.p, lk.X.Type()) {
			upd(0)
		}
		if c, ok := x.Tuple.(*ssa.Call); ok && x.Index == 1 {
			if cn := an.CallName(&c.Call); cn == "unicode/utf8.DecodeRuneInString" || cn == "unicode/utf8.DecodeLastRuneInString" {
				upd(0) // documented: width in bytes, 0..len(s)
			}
		}
		// index of a range over a string: 0 <= k
		if nx, ok := x.Tuple.(*ssa.Next); ok && nx.IsString && x.Index == 1 {
			upd(0)
		}
	case *ssa.Phi:
		// a counter that runs down while another runs up from 0 by the same step: x + y = x's start,
		// so a guard y + c <= B gives x >= start - B + c
		if init, ok := decreasingFrom(x); ok {
			for _, in := range x.Block().Instrs {
				y, isPhi := in.(*ssa.Phi)
				if !isPhi {
					break
				}
				if y == x || !countsUpFromZero(y) || len(y.Edges) != len(x.Edges) {
					continue
				}
				// the two step together: on every incoming edge both start or both step
				paired := true
				for i := range x.Edges {
					xs := norm(x.Edges[i]).v == ssa.Value(x)
					ys := norm(y.Edges[i]).v == ssa.Value(y)
					if xs != ys {
						paired = false
					}
				}
				if !paired {
					continue
				}
				for _, f := range fs {
					if f.x.v == nil || !eqVal(f.x.v, y) {
						continue
					}
					if init.v == nil && f.y.v == nil || init.v != nil && f.y.v != nil && eqVal(init.v, f.y.v) {
						upd(init.off - f.y.off + f.x.off)
					}
				}
			}
		}
		all := true
		var minL int64
		first := true
		for i, e := range x.Edges {
			if e == ssa.Value(x) {
				continue
			}
			et := norm(e)
			if et.v == ssa.Value(x) && et.off >= 0 {
				continue // induction step that only increases
			}
			l, ok := pr.lowerBound(et.v, edgePoint(x.Block().Preds[i], x.Block()), depth+1)
			if !ok {
				all = false
				break
			}
			l += et.off
			if first || l < minL {
				minL, first = l, false
			}
		}
		if all && !first {
			upd(minL)
		}
	}
	if have {
		// v != best  and v >= best  =>  v >= best+1
		for _, n := range ne {
			if n.v != nil && eqVal(n.v, v) && -n.off == best {
				best++
			}
		}
	}
	return best, have
}

// le proves a <= b at pt.
func (pr *prover) le(a, b term, pt point, depth int, seen map[[2]ssa.Value]bool) bool {
	if depth > 10 {
		return false
	}
	if a.v == nil && b.v == nil {
		return a.off <= b.off
	}
	if a.v != nil && b.v != nil && eqVal(a.v, b.v) {
		return a.off <= b.off
	}
	key := [2]ssa.Value{a.v, b.v}
	if seen[key] && depth > 0 {
		// already being proved on this path (loop-carried phi): assume
		return true
	}
	// constant <= b + off : lower bound of b
	if a.v == nil {
		if l, ok := pr.lowerBound(b.v, pt, 0); ok && a.off <= l+b.off {
			return true
		}
	}
	if pr.matchLe(a, b) {
		return true // regexp contract R2, R3
	}
	fs, _ := pr.factsAt(pt)
	// direct guard, or guard + one more step
	for _, f := range fs {
		if f.x.v != nil && a.v != nil && eqVal(f.x.v, a.v) {
			// a + f.x.off <= f.y  =>  a + a.off <= f.y + (a.off - f.x.off)
			mid := term{f.y.v, f.y.off + a.off - f.x.off}
			if (mid.v == nil && b.v == nil && mid.off <= b.off) || (mid.v != nil && b.v != nil && eqVal(mid.v, b.v) && mid.off <= b.off) {
				return true
			}
			if depth < 4 && pr.le(mid, b, pt, depth+3, seen) {
				return true
			}
		}
		if f.y.v != nil && b.v != nil && eqVal(f.y.v, b.v) {
			// f.x <= b + f.y.off  =>  f.x + (b.off - f.y.off) <= b + b.off
			mid := term{f.x.v, f.x.off + b.off - f.y.off}
			if mid.v == nil && a.v == nil && a.off <= mid.off {
				return true
			}
			if depth < 4 && pr.le(a, mid, pt, depth+3, seen) {
				return true
			}
		}
	}
	seen2 := map[[2]ssa.Value]bool{}
	for k, v := range seen {
		seen2[k] = v
	}
	seen2[key] = true
	// structure of a
	switch x := a.v.(type) {
	case *ssa.Phi:
		ok := true
		n := 0
		for i, e := range x.Edges {
			if e == ssa.Value(x) {
				continue
			}
			n++
			et := norm(e)
			et.off += a.off
			if !pr.le(et, b, edgePoint(x.Block().Preds[i], x.Block()), depth+1, seen2) {
				ok = false
				break
			}
		}
		if ok && n > 0 {
			return true
		}
	case *ssa.BinOp:
		last := pt.blk.Instrs[len(pt.blk.Instrs)-1]
		switch x.Op {
		case token.SUB:
			// x.X - nonneg <= x.X - unless the subtraction wraps around: a very negative x.X minus a length is a
			// huge positive number. With x.X >= -1 and the subtrahend an int >= 0 the difference stays in range.
			if lb, okLB := pr.lowerBound(x.X, pt, 0); pr.nonNegAt(x.Y, pt) && okLB && lb >= -1 {
				xt := norm(x.X)
				xt.off += a.off
				if pr.le(xt, b, pt, depth+1, seen2) {
					return true
				}
			}
		case token.REM:
			// a % m <= m - 1 when m > 0 ; and a % m <= a when a >= 0
			mt := norm(x.Y)
			mt.off += a.off - 1
			if pr.le(mt, b, pt, depth+1, seen2) {
				if l, ok := pr.lowerBound(x.Y, pt, 0); ok && l >= 1 {
					return true
				}
			}
		case token.QUO:
			if pr.nn.value(x.X, last, 0) {
				if l, ok := pr.lowerBound(x.Y, pt, 0); ok && l >= 1 {
					xt := norm(x.X)
					xt.off += a.off
					if pr.le(xt, b, pt, depth+1, seen2) {
						return true
					}
				}
			}
		}
	case *ssa.Call:
		if arg, _, ok := indexHelper(pr.p, x); ok && b.v != nil {
			// result <= len(arg) - 1
			if lc, ok := b.v.(*ssa.Call); ok {
				if bi, ok := lc.Call.Value.(*ssa.Builtin); ok && bi.Name() == "len" && eqVal(lc.Call.Args[0], arg) && a.off <= b.off+1 {
					return true
				}
			}
			if vl, ok := b.v.(virtualLen); ok && eqVal(vl.x, arg) && a.off <= b.off+1 {
				return true
			}
		}
		if bi, ok := x.Call.Value.(*ssa.Builtin); ok && bi.Name() == "max" {
			all := len(x.Call.Args) > 0
			for _, arg := range x.Call.Args {
				at := norm(arg)
				at.off += a.off
				if !pr.le(at, b, pt, depth+1, seen2) {
					all = false
					break
				}
			}
			if all {
				return true
			}
		}
		if bi, ok := x.Call.Value.(*ssa.Builtin); ok && bi.Name() == "min" {
			for _, arg := range x.Call.Args {
				at := norm(arg)
				at.off += a.off
				if pr.le(at, b, pt, depth+1, seen2) {
					return true
				}
			}
		}
		if callee := x.Call.StaticCallee(); callee != nil && an.FuncName(callee) == "tags.intMin" {
			for _, arg := range x.Call.Args {
				at := norm(arg)
				at.off += a.off
				if pr.le(at, b, pt, depth+1, seen2) {
					return true
				}
			}
		}
	case *ssa.Extract:
		// width returned by utf8.DecodeRuneInString(s) is at most len(s)
		if c, ok := x.Tuple.(*ssa.Call); ok && x.Index == 1 && b.v != nil {
			if cn := an.CallName(&c.Call); cn == "unicode/utf8.DecodeRuneInString" || cn == "unicode/utf8.DecodeLastRuneInString" {
				if lc, ok := b.v.(*ssa.Call); ok {
					if bi, ok := lc.Call.Value.(*ssa.Builtin); ok && bi.Name() == "len" && eqVal(lc.Call.Args[0], c.Call.Args[0]) && a.off <= b.off {
						return true
					}
				}
				if vl, ok := b.v.(virtualLen); ok && eqVal(vl.x, c.Call.Args[0]) && a.off <= b.off {
					return true
				}
			}
		}
		// index k of `for k := range s` over a string: k <= len(s) - 1
		if nx, ok := x.Tuple.(*ssa.Next); ok && nx.IsString && x.Index == 1 {
			if rg, ok := nx.Iter.(*ssa.Range); ok && b.v != nil {
				if c, ok := b.v.(*ssa.Call); ok {
					if bi, ok := c.Call.Value.(*ssa.Builtin); ok && bi.Name() == "len" && eqVal(c.Call.Args[0], rg.X) && a.off <= b.off+1 {
						return true
					}
				}
				if vl, ok := b.v.(virtualLen); ok && eqVal(vl.x, rg.X) && a.off <= b.off+1 {
					return true
				}
			}
		}
	}
	// a constant against a length that is a known constant at this point
	if a.v == nil && b.v != nil {
		if x := lenOperand(b.v); x != nil {
			if n, ok := pr.constLenAt(x, pt, 0, map[ssa.Value]bool{}); ok && a.off <= n+b.off {
				return true
			}
		}
	}
	// trimming only removes: len(strings/bytes.Trim*(s, ...)) <= len(s)
	if a.v != nil && b.v != nil {
		if ax, bx := lenOperand(a.v), lenOperand(b.v); ax != nil && bx != nil && a.off <= b.off {
			if c := an.CallOf(ax); c != nil {
				cn := an.CallName(c)
				if (strings.HasPrefix(cn, "strings.Trim") || strings.HasPrefix(cn, "bytes.Trim")) && len(c.Args) > 0 && eqVal(c.Args[0], bx) {
					return true
				}
			}
		}
	}
	// sort.SearchStrings/Ints/Float64s(a, x) <= len(a); sort.Search(n, f) <= n
	if c := an.CallOf(a.v); c != nil && b.v != nil {
		switch an.CallName(c) {
		case "sort.SearchStrings", "sort.SearchInts", "sort.SearchFloat64s":
			if lx := lenOperand(b.v); lx != nil && eqVal(lx, c.Args[0]) && a.off <= b.off {
				return true
			}
		case "sort.Search":
			nt := norm(c.Args[0])
			if nt.v != nil && eqVal(nt.v, b.v) && a.off+0 <= b.off-nt.off+0 {
				return true
			}
		}
	}
	// a constant against a length with a documented minimum (strings.Split with a non-empty separator)
	if a.v == nil && b.v != nil {
		if lx := lenOperand(b.v); lx != nil && atLeastOne(lx) && a.off <= 1+b.off {
			return true
		}
	}
	// reflect: fv.Call(args) returns fv.Type().NumOut() values
	if a.v == nil && b.v != nil {
		if x := lenOperand(b.v); x != nil {
			if c := an.CallOf(x); c != nil && an.CallName(c) == "(reflect.Value).Call" {
				found := false
				an.EachInstr(pt.blk.Parent(), func(in ssa.Instruction) {
					nc, ok := in.(*ssa.Call)
					if found || !ok || !nc.Call.IsInvoke() || nc.Call.Method.Name() != "NumOut" {
						return
					}
					if !(isTypeOf(nc.Call.Value, c.Args[0]) || isTypeOfAny(nc.Call.Value, c.Args[0])) {
						return
					}
					if l, ok := pr.lowerBound(nc, pt, depth+1); ok && a.off <= l+b.off {
						found = true
					}
				})
				if found {
					return true
				}
				// ... or a module predicate over the function value, found true on the way here, that answers
				// true only where it has seen that many results
				for _, g := range an.GuardsAt(pt.blk) {
					hc, ok := g.Cond.(*ssa.Call)
					if !ok || !g.True {
						continue
					}
					h := hc.Call.StaticCallee()
					if h == nil || !pr.p.InModule(h) || h.Blocks == nil || len(h.Params) != len(hc.Call.Args) {
						continue
					}
					for k, arg := range hc.Call.Args {
						if eqVal(arg, c.Args[0]) && pr.trueOnlyWithNumOut(h, k, a.off-b.off, depth+1) {
							return true
						}
					}
				}
			}
		}
	}
	// x % n <= n - 1 when n > 0 (and x % n >= 0 when x >= 0: lowerBound)
	if bo, ok := a.v.(*ssa.BinOp); ok && bo.Op == token.REM && b.v != nil {
		nt := norm(bo.Y)
		if nt.v != nil && eqVal(nt.v, b.v) && a.off <= b.off-nt.off+1 {
			if l, ok := pr.lowerBound(nt.v, pt, depth+1); ok && l+nt.off >= 1 {
				return true
			}
			if positiveLen(pr.p, nt.v) && nt.off == 0 {
				return true
			}
		}
	}
	// the keys of a map are as many as its length: len(rv.MapKeys()) == rv.Len(), also through a module
	// function that returns the (reordered) key list of its argument
	if a.v != nil && b.v != nil {
		if mk := mapKeysOf(pr.p, lenOperand(a.v)); mk != nil {
			if c := an.CallOf(b.v); c != nil && an.CallName(c) == "(reflect.Value).Len" && sameRV(c.Args[0], mk) && a.off <= b.off {
				return true
			}
		}
	}
	// structure of b
	switch y := b.v.(type) {
	case *ssa.Phi:
		ok := true
		n := 0
		for i, e := range y.Edges {
			if e == ssa.Value(y) {
				continue
			}
			n++
			et := norm(e)
			et.off += b.off
			if !pr.le(a, et, edgePoint(y.Block().Preds[i], y.Block()), depth+1, seen2) {
				ok = false
				break
			}
		}
		if ok && n > 0 {
			return true
		}
	case *ssa.BinOp:
		if y.Op == token.SUB && a.v == nil {
			// c <= X - Y + o   <=   Y + (c - o) <= X
			yt := norm(y.Y)
			yt.off += a.off - b.off
			if pr.le(yt, norm(y.X), pt, depth+1, seen2) {
				return true
			}
		}
		if y.Op == token.ADD {
			// a <= X  and Y >= 0  =>  a <= X + Y
			for _, pair := range [][2]ssa.Value{{y.X, y.Y}, {y.Y, y.X}} {
				// x <= x + y needs y >= 0 AND no wrap-around: both addends must be bounded above
				// (lengths, indices, constants, or values compared against such)
				if pr.nonNegAt(pair[1], pt) && pr.boundedAbove(pair[0], pt, 0) && pr.boundedAbove(pair[1], pt, 0) {
					xt := norm(pair[0])
					xt.off += b.off
					if pr.le(a, xt, pt, depth+1, seen2) {
						return true
					}
				}
			}
		}
	case *ssa.Call:
		if bi, ok := y.Call.Value.(*ssa.Builtin); ok && bi.Name() == "max" {
			for _, arg := range y.Call.Args {
				at := norm(arg)
				at.off += b.off
				if pr.le(a, at, pt, depth+1, seen2) {
					return true
				}
			}
		}
	}
	return false
}

// lenTerm is len(x) for a slice/string/array-pointer value x, as a term
// evaluated at instruction in.
func lenOf(x ssa.Value) (term, bool) {
	// look for an existing len(x) call is not required: represent symbolically
	return term{}, false
}

func runP9s(p *an.Prog, r *an.Result, only func(*ssa.Function) bool) {
	mapRangeProg = p
	roles := GetRoles(p)
	pr := &prover{p: p, nn: &nonNeg{p: p, memo: map[*ssa.Function]int{}}}
	outOfScope := map[string]int{}
	defer func() {
		var ks []string
		for k, n := range outOfScope {
			ks = append(ks, fmt.Sprintf("%s (%d functions)", k, n))
		}
		sort.Strings(ks)
		r.Notef("P9s: outside the rule's reach: %s", strings.Join(ks, "; "))
	}()
	// the block parser's frame stack: that pop finds a frame is G1's business (pop only past
	// CanHaveParent(current block) == true, which is false while no block is open)
	var stackSh *stackShape
	if pt := p.Func("(parser.Config).parseTokens"); pt != nil {
		if sh := findStackShape(pt); sh.problem == "" {
			stackSh = sh
		}
	}
	isFrameStack := func(fn *ssa.Function, base ssa.Value) bool {
		return stackSh != nil && fn == stackSh.popFn && types.Identical(base.Type(), types.NewSlice(stackSh.frameT))
	}
	for _, fn := range p.Funcs {
		o := an.Outermost(fn)
		if o.Pkg == nil || isMainPkg(fn) || only != nil && !only(fn) {
			continue
		}
		if why := p9OutOfScope(p, fn); why != "" {
			outOfScope[why]++
			continue
		}
		name := roles.Label(fn)
		// len(x) as a term: synthesise by finding any len call on an equal operand, else a virtual one
		lenTermOf := func(x ssa.Value) term {
			var found ssa.Value
			an.EachInstr(fn, func(in ssa.Instruction) {
				if c, ok := in.(*ssa.Call); ok {
					if bi, ok := c.Call.Value.(*ssa.Builtin); ok && bi.Name() == "len" && eqVal(c.Call.Args[0], x) {
						found = c
					}
				}
			})
			if found != nil {
				return norm(found)
			}
			if ms, ok := x.(*ssa.MakeSlice); ok {
				return norm(ms.Len)
			}
			return term{v: virtualLen{x}}
		}
		an.EachInstr(fn, func(in ssa.Instruction) {
			pt := point{blk: in.Block()}
			var curBase ssa.Value // the string or slice being indexed or sliced
			check := func(construct, what string, a, b term) {
				r.Counts["bound obligations"]++
				if pr.le(a, b, pt, 0, map[[2]ssa.Value]bool{}) {
					r.OK(name, construct+": "+what, an.InstrPos(in), "proved from dominating comparisons, clamps and length facts")
				} else if why := pr.matchLinear(fn, in, curBase, a, b); why != "" {
					r.OK(name, construct+": "+what, an.InstrPos(in), why)
				} else if why := pr.callerProves(fn, curBase, a, b); why != "" {
					r.OK(name, construct+": "+what, an.InstrPos(in), why)
				} else if why := pr.calleeProves(fn, in, a, b); why != "" {
					r.OK(name, construct+": "+what, an.InstrPos(in), why)
				} else {
					r.Bad(name, construct+": "+what, an.InstrPos(in), fmt.Sprintf("%s: cannot show %s (%s <= %s) on every path; an out-of-range bound panics", an.FuncName(fn), what, a.String(p), b.String(p)))
				}
			}
			switch x := in.(type) {
			case *ssa.Slice:
				base := x.X
				if pt, ok := base.Type().Underlying().(*types.Pointer); ok {
					if arr, ok := pt.Elem().Underlying().(*types.Array); ok {
						// slicing a local array: bounds are against the constant length
						lo, hi := term{nil, 0}, term{nil, arr.Len()}
						if x.Low != nil {
							lo = norm(x.Low)
						}
						if x.High != nil {
							hi = norm(x.High)
						}
						if lo.v == nil && hi.v == nil {
							return
						}
						construct := p9Base(p, base) + "[lo:hi]"
						check(construct, "0 <= lo", term{nil, 0}, lo)
						check(construct, "lo <= hi", lo, hi)
						check(construct, "hi <= len", hi, term{nil, arr.Len()})
						return
					}
				}
				if isFrameStack(fn, base) {
					r.Counts["bound obligations"]++
					r.OK(name, "frame stack [:len-1]", an.InstrPos(in), "the pop of the block parser's frame stack; rule G1 shows it is reached only when a block is open, i.e. the stack is not empty")
					return
				}
				curBase = base
				ln := lenTermOf(base)
				lo, hi := term{nil, 0}, ln
				if x.Low != nil {
					lo = norm(x.Low)
				}
				if x.High != nil {
					hi = norm(x.High)
				}
				if x.Low == nil && x.High == nil {
					return
				}
				construct := p9Base(p, base) + "[" + lo.String(p) + ":" + hi.String(p) + "]"
				if lo.v != nil || lo.off != 0 {
					check(construct, "0 <= lo", term{nil, 0}, lo)
				}
				check(construct, "lo <= hi", lo, hi)
				if x.High != nil {
					check(construct, "hi <= len", hi, ln)
				}
			case *ssa.IndexAddr, *ssa.Index, *ssa.Lookup:
				var base, idx ssa.Value
				switch y := x.(type) {
				case *ssa.IndexAddr:
					base, idx = y.X, y.Index
				case *ssa.Index:
					base, idx = y.X, y.Index
				case *ssa.Lookup:
					if _, isMap := y.X.Type().Underlying().(*types.Map); isMap {
						return
					}
					base, idx = y.X, y.Index
				}
				if pt, ok := base.Type().Underlying().(*types.Pointer); ok {
					if _, ok := pt.Elem().Underlying().(*types.Array); ok {
						return // local array with compiler-checked constant index (varargs, literals)
					}
				}
				if _, ok := base.Type().Underlying().(*types.Array); ok {
					return
				}
				if isFrameStack(fn, base) {
					r.Counts["bound obligations"]++
					r.OK(name, "frame stack [len-1]", an.InstrPos(in), "the pop of the block parser's frame stack; rule G1 shows it is reached only when a block is open, i.e. the stack is not empty")
					return
				}
				if sortContract(p, fn, base, idx) {
					r.Counts["bound obligations"]++
					r.OK(name, p9Base(p, base)+"["+describe(p, idx)+"]: sort.Interface contract", an.InstrPos(in), "Less/Swap of a sort.Interface whose Len is the length of this very field: package sort calls them with 0 <= i, j < Len()")
					return
				}
				if sliceFuncContract(fn, base, idx) {
					r.Counts["bound obligations"]++
					r.OK(name, p9Base(p, base)+"["+describe(p, idx)+"]: sort.Slice contract", an.InstrPos(in), "the less function handed to sort.Slice(x, less) indexes x itself: package sort calls it with 0 <= i, j < len(x)")
					return
				}
				if why := iterContract(p, fn, base, idx); why != "" {
					r.Counts["bound obligations"]++
					r.OK(name, p9Base(p, base)+"["+describe(p, idx)+"]: Len/Index contract", an.InstrPos(in), why)
					return
				}
				curBase = base
				it := norm(idx)
				ln := lenTermOf(base)
				construct := p9Base(p, base) + "[" + it.String(p) + "]"
				if it.v != nil || it.off < 0 {
					check(construct, "0 <= index", term{nil, 0}, it)
				}
				check(construct, "index < len", term{it.v, it.off + 1}, ln)
			}
		})
	}
	r.Floor("bound obligations", 8)
}

// virtualLen stands for len(x) where the program never computes it.
type virtualLen struct{ x ssa.Value }

func (v virtualLen) Name() string                  { return "len(" + v.x.Name() + ")" }
func (v virtualLen) String() string                { return v.Name() }
func (v virtualLen) Type() types.Type              { return types.Typ[types.Int] }
func (v virtualLen) Parent() *ssa.Function         { return v.x.Parent() }
func (v virtualLen) Referrers() *[]ssa.Instruction { return nil }
func (v virtualLen) Pos() token.Pos                { return v.x.Pos() }

// sortContract: fn is the Less or Swap method of a type implementing
// sort.Interface, idx is one of its int parameters and base is the receiver
// field whose length the type's Len method returns.
func sortContract(p *an.Prog, fn *ssa.Function, base, idx ssa.Value) bool {
	// a local helper of Less/Swap: func(i int) that every call hands one of the method's own
	// index parameters, and that reads the captured receiver
	if par := fn.Parent(); par != nil && par.Signature.Recv() != nil && (par.Name() == "Less" || par.Name() == "Swap") && len(par.Params) == 3 {
		ip, ok := idx.(*ssa.Parameter)
		if !ok {
			return false
		}
		k := -1
		for i, fp := range fn.Params {
			if fp == ip {
				k = i
			}
		}
		if k < 0 {
			return false
		}
		calls, okCalls := 0, true
		var mcs []*ssa.MakeClosure
		an.EachInstr(par, func(in ssa.Instruction) {
			if mc, ok := in.(*ssa.MakeClosure); ok && mc.Fn == ssa.Value(fn) {
				mcs = append(mcs, mc)
			}
		})
		if len(mcs) != 1 || mcs[0].Referrers() == nil {
			return false
		}
		for _, u := range *mcs[0].Referrers() {
			switch x := u.(type) {
			case *ssa.DebugRef:
			case *ssa.Call:
				if x.Call.Value != ssa.Value(mcs[0]) || k >= len(x.Call.Args) || (x.Call.Args[k] != ssa.Value(par.Params[1]) && x.Call.Args[k] != ssa.Value(par.Params[2])) {
					okCalls = false
				}
				calls++
			default:
				okCalls = false // the helper escapes
			}
		}
		if !okCalls || calls == 0 {
			return false
		}
		// base: a field path from the captured receiver; compare with Len's path
		fa, ok := baseFieldAddr(base)
		if !ok {
			return false
		}
		fv, ok := fa.X.(*ssa.FreeVar)
		if !ok {
			return false
		}
		cell, ok := cellOfFreeVar(par, fn, fv).(*ssa.Alloc)
		if !ok {
			return false
		}
		if st := an.Stores(cell); len(st) != 1 || st[0] != ssa.Value(par.Params[0]) {
			return false
		}
		lenFn := methodImpl(p, par.Signature.Recv().Type(), "Len")
		if lenFn == nil || lenFn.Blocks == nil {
			return false
		}
		okLen := false
		an.EachInstr(lenFn, func(in ssa.Instruction) {
			if ret, ok := in.(*ssa.Return); ok && len(ret.Results) == 1 {
				if x := lenOperand(ret.Results[0]); x != nil {
					if lfa, ok := baseFieldAddr(x); ok && lfa.Field == fa.Field && recvOf(lenFn, lfa.X) {
						okLen = true
					}
					if f, ok := x.(*ssa.Field); ok && f.Field == fa.Field && recvOf(lenFn, f.X) {
						okLen = true
					}
				}
			}
		})
		return okLen
	}
	if fn.Signature.Recv() == nil {
		return false
	}
	par, ok := idx.(*ssa.Parameter)
	if !ok {
		return false
	}
	if fn.Name() != "Less" && fn.Name() != "Swap" {
		// a helper method of the same type that Less/Swap hand one of their own indices and their own receiver
		k := -1
		for i, fp := range fn.Params {
			if fp == par && i > 0 {
				k = i
			}
		}
		sites := callSitesOf(p, fn)
		if k < 0 || len(sites) == 0 {
			return false
		}
		for _, cs := range sites {
			caller := cs.Parent()
			if caller.Signature.Recv() == nil || (caller.Name() != "Less" && caller.Name() != "Swap") || len(caller.Params) != 3 ||
				!types.Identical(caller.Signature.Recv().Type(), fn.Signature.Recv().Type()) {
				return false
			}
			if a := cs.Call.Args[k]; a != ssa.Value(caller.Params[1]) && a != ssa.Value(caller.Params[2]) {
				return false
			}
			if !recvOf(caller, cs.Call.Args[0]) {
				return false
			}
		}
	} else if len(fn.Params) != 3 || (par != fn.Params[1] && par != fn.Params[2]) {
		return false
	}
	rt := fn.Signature.Recv().Type()
	lenFn := methodImpl(p, rt, "Len")
	if lenFn == nil || lenFn.Blocks == nil || methodImpl(p, rt, "Less") == nil || methodImpl(p, rt, "Swap") == nil {
		return false
	}
	// what Len returns the length of: a path of field indices from the receiver (empty = the receiver itself)
	pathOf := func(f *ssa.Function, v ssa.Value) ([]int, bool) {
		var path []int
		for depth := 0; depth < 6; depth++ {
			switch x := v.(type) {
			case *ssa.Parameter:
				if len(f.Params) > 0 && x == f.Params[0] {
					return path, true
				}
				return nil, false
			case *ssa.Field:
				path = append(path, x.Field)
				v = x.X
			case *ssa.UnOp:
				fa, ok := x.X.(*ssa.FieldAddr)
				if !ok {
					return nil, false
				}
				path = append(path, fa.Field)
				v = fa.X
			case *ssa.ChangeType:
				v = x.X
			case *ssa.Alloc:
				// value receiver spilled to a local
				st := an.Stores(x)
				if len(st) == 1 && len(f.Params) > 0 && st[0] == ssa.Value(f.Params[0]) {
					return path, true
				}
				return nil, false
			default:
				return nil, false
			}
		}
		return nil, false
	}
	var lenPath []int
	found := false
	an.EachInstr(lenFn, func(in ssa.Instruction) {
		if ret, ok := in.(*ssa.Return); ok && len(ret.Results) == 1 {
			if c, ok := ret.Results[0].(*ssa.Call); ok {
				if bi, ok := c.Call.Value.(*ssa.Builtin); ok && bi.Name() == "len" {
					if pth, ok := pathOf(lenFn, c.Call.Args[0]); ok {
						lenPath, found = pth, true
					}
				}
			}
		}
	})
	if !found {
		return false
	}
	bp, ok := pathOf(fn, base)
	if !ok || len(bp) != len(lenPath) {
		return false
	}
	for i := range bp {
		if bp[i] != lenPath[i] {
			return false
		}
	}
	return true
}

// nonNegAt: v >= 0 at pt, by structure or by the prover's lower bounds.
func (pr *prover) nonNegAt(v ssa.Value, pt point) bool {
	last := pt.blk.Instrs[len(pt.blk.Instrs)-1]
	if pr.nn.value(v, last, 0) {
		return true
	}
	t := norm(v)
	if t.v == nil {
		return t.off >= 0
	}
	l, ok := pr.lowerBound(t.v, pt, 0)
	return ok && l+t.off >= 0
}

// boundedAbove: v cannot be anywhere near the largest int: it is a constant,
// a length, an index into a collection, a difference/minimum of such, or is
// compared (<, <=) against such on every path to pt. Needed wherever the
// prover reasons about sums, which wrap around in Go.
func (pr *prover) boundedAbove(v ssa.Value, pt point, depth int) bool {
	if depth > 6 {
		return false
	}
	t := norm(v)
	if t.v == nil {
		return true
	}
	v = t.v
	switch x := v.(type) {
	case virtualLen:
		return true
	case *ssa.Call:
		switch an.CallName(&x.Call) {
		case "builtin.len", "builtin.cap", "(reflect.Value).Len", "unicode/utf8.RuneCountInString", "strings.Count", "strings.Index", "strings.LastIndex":
			return true
		case "builtin.min":
			for _, a := range x.Call.Args {
				if pr.boundedAbove(a, pt, depth+1) {
					return true
				}
			}
		}
	case *ssa.Extract:
		if nx, ok := x.Tuple.(*ssa.Next); ok && nx.IsString && x.Index == 1 {
			return true
		}
		if c, ok := x.Tuple.(*ssa.Call); ok && strings.HasPrefix(an.CallName(&c.Call), "unicode/utf8.") {
			return true
		}
	case *ssa.Phi:
		for i, e := range x.Edges {
			if e == ssa.Value(x) {
				continue
			}
			et := norm(e)
			if et.v == ssa.Value(x) {
				continue
			}
			if !pr.boundedAbove(e, edgePoint(x.Block().Preds[i], x.Block()), depth+1) {
				return false
			}
		}
		return true
	case *ssa.BinOp:
		switch x.Op {
		case token.SUB:
			return pr.boundedAbove(x.X, pt, depth+1) && pr.nonNegAt(x.Y, pt)
		case token.REM, token.QUO:
			return pr.boundedAbove(x.X, pt, depth+1) || pr.boundedAbove(x.Y, pt, depth+1)
		case token.ADD:
			return pr.boundedAbove(x.X, pt, depth+1) && pr.boundedAbove(x.Y, pt, depth+1)
		}
	}
	// a guard v <= w (+c) with w bounded
	fs, _ := pr.factsAt(pt)
	for _, f := range fs {
		if f.x.v != nil && eqVal(f.x.v, v) {
			if f.y.v == nil || pr.boundedAbove(f.y.v, pt, depth+1) {
				return true
			}
		}
	}
	return false
}

// indexHelper: the call is to a module function every result of which is either a constant >= -1
// or the index variable of a range loop over one of its string parameters; returns the argument
// that is ranged over. Such a result r satisfies -1 <= r <= len(arg)-1 and is a rune boundary.
func indexHelper(p *an.Prog, v ssa.Value) (ssa.Value, int64, bool) {
	c, ok := v.(*ssa.Call)
	if !ok {
		return nil, 0, false
	}
	callee := c.Call.StaticCallee()
	if callee == nil || !p.InModule(callee) || callee.Blocks == nil || callee.Signature.Results().Len() != 1 {
		return nil, 0, false
	}
	var par *ssa.Parameter
	minConst := int64(0)
	okAll, n := true, 0
	an.EachInstr(callee, func(in ssa.Instruction) {
		ret, isRet := in.(*ssa.Return)
		if !isRet {
			return
		}
		for _, o := range an.Origins(ret.Results[0], an.StepValue) {
			n++
			if k, isC := an.ConstInt(o); isC {
				if k < -1 {
					okAll = false
				}
				if k < minConst {
					minConst = k
				}
				continue
			}
			ex, isEx := o.(*ssa.Extract)
			if !isEx || ex.Index != 1 {
				okAll = false
				continue
			}
			nx, isNx := ex.Tuple.(*ssa.Next)
			if !isNx || !nx.IsString {
				okAll = false
				continue
			}
			rg, isRg := nx.Iter.(*ssa.Range)
			if !isRg {
				okAll = false
				continue
			}
			pp, isPar := rg.X.(*ssa.Parameter)
			if !isPar || (par != nil && par != pp) {
				okAll = false
				continue
			}
			par = pp
		}
	})
	if !okAll || n == 0 || par == nil {
		return nil, 0, false
	}
	for i, pp := range callee.Params {
		if pp == par && i < len(c.Call.Args) {
			return c.Call.Args[i], minConst, true
		}
	}
	return nil, 0, false
}

// p9OutOfScope names the reason a function's index arithmetic is not examined, or "".
func p9OutOfScope(p *an.Prog, fn *ssa.Function) string {
	o := an.Outermost(fn)
	file := filepath.Base(p.Fset.Position(an.FuncPos(o)).Filename)
	switch {
	case file == "y.go" || file == "yaccpar" || file == "expressions.y":
		return "goyacc-generated parser tables"
	case file == "scanner.go" && an.RelPkg(o.Pkg.Pkg.Path()) == "expressions" || file == "scanner.rl":
		return "ragel-generated lexer tables"
	case strings.HasSuffix(file, "_string.go"):
		return "stringer-generated tables"
	}
	return ""
}

// lenOperand: for a term atom that stands for len(x) - a len call or a virtual length - x.
func lenOperand(v ssa.Value) ssa.Value {
	switch x := v.(type) {
	case virtualLen:
		return x.x
	case *ssa.Call:
		if bi, ok := x.Call.Value.(*ssa.Builtin); ok && bi.Name() == "len" {
			return x.Call.Args[0]
		}
	}
	return nil
}

// mapKeysOf: x is rv.MapKeys(), or the result of a module function that returns the key list of
// its argument rv (possibly sorted in place): rv.
func mapKeysOf(p *an.Prog, x ssa.Value) ssa.Value {
	if x == nil {
		return nil
	}
	c := an.CallOf(x)
	if c == nil {
		return nil
	}
	if an.CallName(c) == "(reflect.Value).MapKeys" {
		return c.Args[0]
	}
	callee := c.StaticCallee()
	if !returnsKeyListOf(p, callee) && !returnsEntryListOf(p, callee) {
		return nil
	}
	return c.Args[0]
}

// returnsEntryListOf: fn hands back one element per entry of the map that is its first parameter: it walks
// Params[0].MapRange(), appends exactly once per step to one slice, sorts that slice and returns it.
func returnsEntryListOf(p *an.Prog, fn *ssa.Function) bool {
	if fn == nil || fn.Blocks == nil || !p.InModule(fn) || len(fn.Params) == 0 || fn.Signature.Results().Len() != 1 {
		return false
	}
	mapRangeProg = p
	its := callsNamed(fn, "(reflect.Value).MapRange")
	if len(its) == 0 {
		// collected by a helper that is handed the map, sorted here, returned
		var helper *ssa.Call
		an.EachInstr(fn, func(in ssa.Instruction) {
			if c, ok := in.(*ssa.Call); ok {
				if h := c.Call.StaticCallee(); h != nil && p.InModule(h) && h != fn && len(c.Call.Args) > 0 && c.Call.Args[0] == ssa.Value(fn.Params[0]) && collectsEntriesOf(p, h) {
					helper = c
				}
			}
		})
		if helper == nil {
			return false
		}
		if ok, _ := sortedBeforeUse(helper, nil); !ok {
			return false
		}
		okRet := true
		an.EachInstr(fn, func(in ssa.Instruction) {
			if ret, isRet := in.(*ssa.Return); isRet {
				if !an.Reaches(resultsOf(ret)[0], an.StepValue, func(v ssa.Value) bool { return v == ssa.Value(helper) }) {
					okRet = false
				}
			}
		})
		return okRet
	}
	if len(its) != 1 || its[0].Call.Args[0] != ssa.Value(fn.Params[0]) || !mapRangeCollectedAndSorted(fn, its[0]) {
		return false
	}
	// one append, in the loop that Next() drives
	var appends []*ssa.Call
	an.EachInstr(fn, func(in ssa.Instruction) {
		if c, ok := in.(*ssa.Call); ok {
			if b, isB := c.Call.Value.(*ssa.Builtin); isB && b.Name() == "append" {
				appends = append(appends, c)
			}
		}
	})
	if len(appends) != 1 || !reachesBlock(appends[0].Block(), appends[0].Block()) {
		return false
	}
	nexts := callsNamed(fn, "(*reflect.MapIter).Next")
	if len(nexts) != 1 || !an.AllPathsGuarded(appends[0].Block(), func(cond ssa.Value, taken bool) bool { return taken && cond == ssa.Value(nexts[0]) }) {
		return false
	}
	// every return hands back the accumulated slice
	ok := true
	an.EachInstr(fn, func(in ssa.Instruction) {
		if ret, isRet := in.(*ssa.Return); isRet {
			if !an.Reaches(resultsOf(ret)[0], an.StepValue, func(v ssa.Value) bool { return v == ssa.Value(appends[0]) }) {
				ok = false
			}
		}
	})
	return ok
}

// positiveLen: v is len(x.f) for a field f that is only ever assigned non-empty values (P10's invariant).
func positiveLen(p *an.Prog, v ssa.Value) bool {
	x := lenOperand(v)
	if x == nil {
		return false
	}
	ok, _ := nonEmptyFieldLen(p, v)
	return ok
}

// sliceFuncContract: fn is the function literal handed to sort.Slice / sort.SliceStable as less,
// idx one of its two parameters, base the very slice that is being sorted (a captured variable
// with a single assignment, or a captured value).
func sliceFuncContract(fn *ssa.Function, base, idx ssa.Value) bool {
	if methodComparatorContract(fn, base, idx) {
		return true
	}
	parent := fn.Parent()
	par, ok := idx.(*ssa.Parameter)
	if parent == nil || !ok || len(fn.Params) != 2 || (par != fn.Params[0] && par != fn.Params[1]) {
		return false
	}
	// the captured variable behind base
	var fv *ssa.FreeVar
	switch x := base.(type) {
	case *ssa.FreeVar:
		fv = x
	case *ssa.UnOp:
		if f, ok := x.X.(*ssa.FreeVar); ok && x.Op == token.MUL {
			fv = f
		}
	}
	if fv == nil || len(an.Stores(fv)) > 0 {
		return false
	}
	cell := cellOfFreeVar(parent, fn, fv)
	if cell == nil {
		return false
	}
	found := false
	an.EachInstr(parent, func(in ssa.Instruction) {
		c, ok := in.(*ssa.Call)
		if !ok || len(c.Call.Args) != 2 {
			return
		}
		if cn := an.CallName(&c.Call); cn != "sort.Slice" && cn != "sort.SliceStable" {
			return
		}
		mc, ok := c.Call.Args[1].(*ssa.MakeClosure)
		if !ok || mc.Fn != ssa.Value(fn) {
			return
		}
		x := an.StripIface(c.Call.Args[0])
		if mi, ok := x.(*ssa.MakeInterface); ok {
			x = mi.X
		}
		if x == cell {
			found = true
		}
		if al, ok := cell.(*ssa.Alloc); ok {
			// the slice handed to sort is the current value of the very variable the comparator indexes (the
			// comparator runs during the sort and does not assign the variable: checked above)
			if u, ok := x.(*ssa.UnOp); ok && u.Op == token.MUL && u.X == cell {
				found = true
			}
			if st := an.Stores(al); len(st) == 1 && x == st[0] {
				found = true // the load was already resolved to the one value ever stored
			}
		}
	})
	return found
}

// iterContract: fn is the Index(i) method of a type that also has Len() returning len of the
// very field that Index indexes with its parameter, and every caller of Index through the
// interface is the item loop (B10: i runs 0..Len()-1) or another implementation's Index (B11:
// the wrappers map an index in range to an index in range). Returns the argument, or "".
func iterContract(p *an.Prog, fn *ssa.Function, base, idx ssa.Value) string {
	if fn.Signature.Recv() == nil || fn.Name() != "Index" || len(fn.Params) != 2 || idx != ssa.Value(fn.Params[1]) {
		return ""
	}
	rt := fn.Signature.Recv().Type()
	lenFn := methodImpl(p, rt, "Len")
	if lenFn == nil || lenFn.Blocks == nil {
		return ""
	}
	fieldOf := func(f *ssa.Function, v ssa.Value) (int, bool) {
		for depth := 0; depth < 4; depth++ {
			switch x := v.(type) {
			case *ssa.Field:
				if recvOf(f, x.X) {
					return x.Field, true
				}
				return 0, false
			case *ssa.UnOp:
				if fa, ok := x.X.(*ssa.FieldAddr); ok && recvOf(f, fa.X) {
					return fa.Field, true
				}
				return 0, false
			case *ssa.ChangeType:
				v = x.X
			default:
				return 0, false
			}
		}
		return 0, false
	}
	lf, okL := -1, false
	an.EachInstr(lenFn, func(in ssa.Instruction) {
		if ret, ok := in.(*ssa.Return); ok && len(ret.Results) == 1 {
			if x := lenOperand(ret.Results[0]); x != nil {
				lf, okL = fieldOf(lenFn, x)
			}
		}
	})
	bf, okB := fieldOf(fn, base)
	if !okL || !okB || lf != bf {
		return ""
	}
	// callers of Index through an interface this type implements
	loop := loopFn(p)
	for _, f := range p.Funcs {
		if isMainPkg(f) {
			continue
		}
		bad := false
		an.EachInstr(f, func(in ssa.Instruction) {
			c, ok := in.(*ssa.Call)
			if !ok || !c.Call.IsInvoke() || c.Call.Method.Name() != "Index" {
				return
			}
			it, ok := c.Call.Value.Type().Underlying().(*types.Interface)
			if !ok || !(types.Implements(rt, it) || types.Implements(types.NewPointer(rt), it)) {
				return
			}
			if f == loop || (f.Name() == "Index" && f.Signature.Recv() != nil) {
				return
			}
			bad = true
		})
		if bad {
			return ""
		}
	}
	return "Index(i) of a Len/Index pair whose Len is the length of this very field; it is called only by the item loop (i = 0..Len()-1, B10) and by the modifier wrappers (index maps within range, B11)"
}

// recvOf: v is the receiver of f (directly, or its spilled copy).
func recvOf(f *ssa.Function, v ssa.Value) bool {
	if len(f.Params) == 0 {
		return false
	}
	if v == ssa.Value(f.Params[0]) {
		return true
	}
	if al, ok := v.(*ssa.Alloc); ok {
		st := an.Stores(al)
		return len(st) == 1 && st[0] == ssa.Value(f.Params[0])
	}
	if u, ok := v.(*ssa.UnOp); ok && u.Op == token.MUL {
		return recvOf(f, u.X)
	}
	return false
}

// nonNegMapType: t is a named map type of the module with integer elements into which the module
// only ever stores non-negative values: constants >= 0, or an element of a map of the same type
// plus a non-negative constant (a counter). Missing keys read as 0, so every element read is >= 0.
func nonNegMapType(p *an.Prog, t types.Type) bool {
	n, ok := t.(*types.Named)
	if !ok || !an.IsModulePkg(n.Obj().Pkg()) {
		return false
	}
	mt, ok := n.Underlying().(*types.Map)
	if !ok {
		return false
	}
	if b, ok := mt.Elem().Underlying().(*types.Basic); !ok || b.Info()&types.IsInteger == 0 {
		return false
	}
	okAll, stores := true, 0
	for _, fn := range p.Funcs {
		an.EachInstr(fn, func(in ssa.Instruction) {
			mu, isMU := in.(*ssa.MapUpdate)
			if !isMU || !types.Identical(mu.Map.Type(), t) {
				return
			}
			stores++
			vt := norm(mu.Value)
			if vt.v == nil {
				if vt.off < 0 {
					okAll = false
				}
				return
			}
			src := vt.v
			if ex, isEx := src.(*ssa.Extract); isEx && ex.Index == 0 {
				src = ex.Tuple
			}
			if lk, isLk := src.(*ssa.Lookup); isLk && types.Identical(lk.X.Type(), t) && vt.off >= 0 {
				return
			}
			okAll = false
		})
	}
	return okAll
}

// baseFieldAddr: v is *(&x.f): the FieldAddr.
func baseFieldAddr(v ssa.Value) (*ssa.FieldAddr, bool) {
	u, ok := v.(*ssa.UnOp)
	if !ok || u.Op != token.MUL {
		return nil, false
	}
	fa, ok := u.X.(*ssa.FieldAddr)
	return fa, ok
}

// constLenAt: the length of slice/string x is the constant n at pt.
func (pr *prover) constLenAt(x ssa.Value, pt point, depth int, seen map[ssa.Value]bool) (int64, bool) {
	if depth > 6 || seen[x] {
		return 0, false
	}
	seen[x] = true
	defer delete(seen, x)
	// a dominating (or edge) test len(x) == n
	conds := []struct {
		c ssa.Value
		t bool
	}{}
	for _, g := range an.GuardsAt(pt.blk) {
		conds = append(conds, struct {
			c ssa.Value
			t bool
		}{g.Cond, g.True})
	}
	for _, f := range pt.eq {
		if lx := lenOperand(f.v); lx != nil && eqVal(lx, x) {
			return f.off, true
		}
	}
	for _, g := range conds {
		c, taken := g.c, g.t
		for {
			u, ok := c.(*ssa.UnOp)
			if !ok || u.Op != token.NOT {
				break
			}
			c, taken = u.X, !taken
		}
		b, ok := c.(*ssa.BinOp)
		if !ok || !(b.Op == token.EQL && taken || b.Op == token.NEQ && !taken) {
			continue
		}
		for _, pair := range [][2]ssa.Value{{b.X, b.Y}, {b.Y, b.X}} {
			if lx := lenOperand(pair[0]); lx != nil && eqVal(lx, x) {
				if n, ok := an.ConstInt(pair[1]); ok {
					return n, true
				}
			}
		}
	}
	if n, ok := matchLen(pr.p, x); ok {
		return n, true // regexp contract R1
	}
	switch v := x.(type) {
	case *ssa.UnOp:
		// a package-level slice that is assigned once, in the initialiser, from a literal
		if g, ok := v.X.(*ssa.Global); ok && v.Op == token.MUL {
			var lens []int64
			okAll := true
			for _, f := range pr.p.Funcs {
				an.EachInstr(f, func(in ssa.Instruction) {
					st, isSt := in.(*ssa.Store)
					if !isSt || st.Addr != ssa.Value(g) {
						return
					}
					if !an.IsInit(f) {
						okAll = false
						return
					}
					if n, ok := pr.constLenAt(st.Val, point{blk: st.Block()}, depth+1, seen); ok {
						lens = append(lens, n)
					} else {
						okAll = false
					}
				})
			}
			if okAll && len(lens) == 1 {
				return lens[0], true
			}
		}
	case *ssa.Const:
		if s, ok := an.ConstString(v); ok {
			return int64(len(s)), true
		}
	case *ssa.Slice:
		if al, ok := v.X.(*ssa.Alloc); ok && v.Low == nil && v.High == nil {
			if arr, ok := al.Type().Underlying().(*types.Pointer).Elem().Underlying().(*types.Array); ok {
				return arr.Len(), true
			}
		}
		if v.Low == nil && v.High == nil {
			return pr.constLenAt(v.X, pt, depth+1, seen)
		}
		if _, ok := v.X.(*ssa.Alloc); ok && v.High != nil {
			// make([]T, n) with a constant n: a slice [:n] of a fresh array
			lo := int64(0)
			if v.Low != nil {
				c, ok := an.ConstInt(v.Low)
				if !ok {
					return 0, false
				}
				lo = c
			}
			if hi, ok := an.ConstInt(v.High); ok && hi >= lo {
				return hi - lo, true
			}
		}
	case *ssa.MakeSlice:
		if n, ok := an.ConstInt(v.Len); ok {
			return n, true
		}
	case *ssa.Call:
		if bi, ok := v.Call.Value.(*ssa.Builtin); ok && bi.Name() == "append" && len(v.Call.Args) == 2 {
			n1, ok1 := pr.constLenAt(v.Call.Args[0], pt, depth+1, seen)
			n2, ok2 := pr.constLenAt(v.Call.Args[1], pt, depth+1, seen)
			if ok1 && ok2 {
				return n1 + n2, true
			}
		}
		// a module function all of whose returns have the same constant length
		if callee := v.Call.StaticCallee(); callee != nil && callee.Blocks != nil && pr.p.InModule(callee) && callee.Signature.Results().Len() == 1 {
			var n int64
			cnt := 0
			okAll := true
			an.EachInstr(callee, func(in ssa.Instruction) {
				ret, isRet := in.(*ssa.Return)
				if !isRet || !okAll {
					return
				}
				m, ok := pr.constLenAt(resultsOf(ret)[0], point{blk: ret.Block()}, depth+1, seen)
				if !ok || (cnt > 0 && m != n) {
					okAll = false
					return
				}
				n = m
				cnt++
			})
			if okAll && cnt > 0 {
				return n, true
			}
		}
	case *ssa.Phi:
		var n int64
		first := true
		for i, e := range v.Edges {
			if e == ssa.Value(v) {
				continue
			}
			m, ok := pr.constLenAt(e, edgePointEq(v.Block().Preds[i], v.Block()), depth+1, seen)
			if !ok || (!first && m != n) {
				return 0, false
			}
			n, first = m, false
		}
		if !first {
			return n, true
		}
	case *ssa.Parameter:
		fn := v.Parent()
		if fn == nil || fn.Object() == nil || fn.Object().Exported() {
			return 0, false
		}
		idx := -1
		for i, fp := range fn.Params {
			if fp == v {
				idx = i
			}
		}
		sites := callSitesOf(pr.p, fn)
		if idx < 0 || len(sites) == 0 {
			return 0, false
		}
		var n int64
		for i, cs := range sites {
			m, ok := pr.constLenAt(cs.Call.Args[idx], point{blk: cs.Block()}, depth+1, seen)
			if !ok || (i > 0 && m != n) {
				return 0, false
			}
			n = m
		}
		return n, true
	}
	return 0, false
}

// edgePointEq is edgePoint plus the equalities len(x) == n that the edge establishes.
func edgePointEq(pred, succ *ssa.BasicBlock) point {
	pt := edgePoint(pred, succ)
	if ifi, ok := pred.Instrs[len(pred.Instrs)-1].(*ssa.If); ok && len(pred.Succs) == 2 && pred.Succs[0] != pred.Succs[1] {
		taken := pred.Succs[0] == succ
		c := ifi.Cond
		for {
			u, ok := c.(*ssa.UnOp)
			if !ok || u.Op != token.NOT {
				break
			}
			c, taken = u.X, !taken
		}
		if b, ok := c.(*ssa.BinOp); ok && (b.Op == token.EQL && taken || b.Op == token.NEQ && !taken) {
			for _, pair := range [][2]ssa.Value{{b.X, b.Y}, {b.Y, b.X}} {
				if n, ok := an.ConstInt(pair[1]); ok {
					pt.eq = append(pt.eq, term{pair[0], n})
				}
			}
		}
	}
	return pt
}

// atLeastOne: x is strings.Split / SplitN / Fields-like with a documented non-empty result:
// strings.Split(s, sep) with a constant non-empty separator returns at least one element.
func atLeastOne(x ssa.Value) bool {
	c := an.CallOf(x)
	if c == nil {
		return false
	}
	switch an.CallName(c) {
	case "strings.Split", "strings.SplitAfter":
		if sep, ok := an.ConstString(c.Args[1]); ok && sep != "" {
			return true
		}
	}
	return false
}

// decreasingFrom: the phi has one starting edge and otherwise only edges phi-1; the start is returned.
func decreasingFrom(ph *ssa.Phi) (term, bool) {
	var init term
	inits, steps := 0, 0
	for _, e := range ph.Edges {
		et := norm(e)
		switch {
		case et.v == ssa.Value(ph) && et.off == -1:
			steps++
		case et.v == ssa.Value(ph):
			return term{}, false
		default:
			inits++
			init = et
		}
	}
	return init, inits == 1 && steps >= 1
}

// countsUpFromZero: the phi starts at 0 and otherwise only takes phi+1.
func countsUpFromZero(ph *ssa.Phi) bool {
	inits, steps := 0, 0
	for _, e := range ph.Edges {
		et := norm(e)
		switch {
		case et.v == nil && et.off == 0:
			inits++
		case et.v == ssa.Value(ph) && et.off == 1:
			steps++
		default:
			return false
		}
	}
	return inits == 1 && steps >= 1
}

// p9Base names the base of an index or slice expression in an obligation key: a parameter, a field
// or a package-level variable by its name; anything local (a named result, a temporary, a call
// result, a phi) by its type, so that renaming or dropping a local does not rename the obligation.
func p9Base(p *an.Prog, v ssa.Value) string {
	switch x := v.(type) {
	case *ssa.Parameter:
		return describe(p, v)
	case *ssa.UnOp:
		switch x.X.(type) {
		case *ssa.FieldAddr, *ssa.Global:
			return describe(p, v)
		}
		if _, isFree := x.X.(*ssa.FreeVar); isFree {
			return describe(p, v)
		}
	case *ssa.Field:
		return describe(p, v)
	case *ssa.Call:
		if _, isB := x.Call.Value.(*ssa.Builtin); !isB {
			return describe(p, v)
		}
	}
	return an.TypeName(v.Type())
}

// collectsEntriesOf: h walks Params[0].MapRange() and appends exactly once per step to the slice it returns.
func collectsEntriesOf(p *an.Prog, h *ssa.Function) bool {
	if h.Blocks == nil || len(h.Params) == 0 || h.Signature.Results().Len() != 1 {
		return false
	}
	its := callsNamed(h, "(reflect.Value).MapRange")
	if len(its) != 1 || its[0].Call.Args[0] != ssa.Value(h.Params[0]) {
		return false
	}
	var appends []*ssa.Call
	an.EachInstr(h, func(in ssa.Instruction) {
		if c, ok := in.(*ssa.Call); ok {
			if b, isB := c.Call.Value.(*ssa.Builtin); isB && b.Name() == "append" {
				appends = append(appends, c)
			}
		}
	})
	nexts := callsNamed(h, "(*reflect.MapIter).Next")
	if len(appends) != 1 || len(nexts) != 1 || !reachesBlock(appends[0].Block(), appends[0].Block()) {
		return false
	}
	if !an.AllPathsGuarded(appends[0].Block(), func(cond ssa.Value, taken bool) bool { return taken && cond == ssa.Value(nexts[0]) }) {
		return false
	}
	ok := true
	an.EachInstr(h, func(in ssa.Instruction) {
		if ret, isRet := in.(*ssa.Return); isRet {
			if !an.Reaches(resultsOf(ret)[0], an.StepValue, func(v ssa.Value) bool { return v == ssa.Value(appends[0]) }) {
				ok = false
			}
		}
	})
	return ok
}

// methodComparatorContract: fn is a method less(i, j) of a slice type that indexes its receiver, and its only
// use in the module is as the comparator `T(x).less` of sort.Slice / sort.SliceStable applied to x itself:
// package sort calls it with 0 <= i, j < len(x).
func methodComparatorContract(fn *ssa.Function, base, idx ssa.Value) bool {
	if fn.Signature.Recv() == nil || len(fn.Params) != 3 {
		return false
	}
	isRecv := base == ssa.Value(fn.Params[0])
	if u, ok := base.(*ssa.UnOp); ok && u.Op == token.MUL {
		if al, ok := u.X.(*ssa.Alloc); ok {
			if st := an.Stores(al); len(st) == 1 && st[0] == ssa.Value(fn.Params[0]) {
				isRecv = true // the spilled receiver
			}
		}
	}
	if !isRecv {
		return false
	}
	par, ok := idx.(*ssa.Parameter)
	if !ok || (par != fn.Params[1] && par != fn.Params[2]) {
		return false
	}
	if _, isSlice := fn.Params[0].Type().Underlying().(*types.Slice); !isSlice {
		return false
	}
	prog := mapRangeProg
	if prog == nil {
		return false
	}
	uses, good := 0, true
	for _, f := range prog.Funcs {
		an.EachInstr(f, func(in ssa.Instruction) {
			switch x := in.(type) {
			case *ssa.MakeClosure:
				bf, ok := x.Fn.(*ssa.Function)
				if !ok || unwrapBound(bf) != fn || bf == fn {
					return
				}
				uses++
				if len(x.Bindings) != 1 || x.Referrers() == nil {
					good = false
					return
				}
				recv := x.Bindings[0]
				for _, u := range *x.Referrers() {
					c, isCall := u.(*ssa.Call)
					if !isCall {
						if _, dbg := u.(*ssa.DebugRef); !dbg {
							good = false
						}
						continue
					}
					cn := an.CallName(&c.Call)
					if (cn != "sort.Slice" && cn != "sort.SliceStable") || len(c.Call.Args) != 2 || c.Call.Args[1] != ssa.Value(x) {
						good = false
						continue
					}
					sorted := an.StripIface(c.Call.Args[0])
					if mi, ok := sorted.(*ssa.MakeInterface); ok {
						sorted = mi.X
					}
					src := recv
					if ct, ok := recv.(*ssa.ChangeType); ok {
						src = ct.X
					}
					if sorted != src && sorted != recv && !sameValue(sorted, src) {
						good = false
					}
				}
			case *ssa.Call:
				if x.Call.StaticCallee() == fn {
					good = false // called directly: no contract about the indices
				}
			}
		})
	}
	return good && uses > 0
}

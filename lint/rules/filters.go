package rules

import (
	"fmt"
	"go/token"
	"go/types"
	"sort"
	"strings"

	"golang.org/x/tools/go/ssa"

	"lv/an"
)

func init() {
	register("F1", "the registered filter signatures fit the call layer: 1-2 results with error second; array filters take []any, string filters string, numeric filters float64; ceil/floor return int; divided_by and modulo can refuse and test the divisor for zero before dividing; no map-typed parameter", runF1)
	register("X2", "a switch over reflect kinds or numeric types that handles several integer or float widths handles every width, signed and unsigned", runX2)
	register("P11", "a type switch over a module interface whose default arm panics lists every implementer", runP11)
}

var arrayFilterNames = []string{"sort", "reverse", "uniq", "compact", "concat", "first", "last", "join", "map", "sort_natural"}
var stringFilterNames = []string{"append", "prepend", "upcase", "downcase", "capitalize", "strip", "lstrip", "rstrip", "replace", "replace_first", "remove", "remove_first", "split", "slice", "truncate", "truncatewords", "escape", "escape_once", "url_encode", "url_decode", "strip_html", "strip_newlines", "newline_to_br"}
var numericFilterNames = []string{"plus", "minus", "times", "divided_by", "modulo", "abs", "ceil", "floor", "round"}

func basicKind(t types.Type) types.BasicKind {
	if b, ok := t.Underlying().(*types.Basic); ok {
		return b.Kind()
	}
	return types.Invalid
}

func isAnySlice(t types.Type) bool {
	s, ok := t.(*types.Slice)
	if !ok {
		return false
	}
	it, ok := s.Elem().Underlying().(*types.Interface)
	return ok && it.NumMethods() == 0
}

func runF1(p *an.Prog, r *an.Result) {
	roles := GetRoles(p)
	for _, pr := range roles.FilterProblems {
		r.Bad("-", "roles: "+pr, token.NoPos, "an anchor the rule needs could not be resolved")
	}
	byName := map[string]*Filter{}
	for _, f := range roles.Filters {
		byName[f.Name] = f
	}
	r.Counts["filters"] = len(roles.Filters)
	for _, f := range roles.Filters {
		sig := f.Sig
		label := f.Label()
		switch {
		case sig.Params().Len() < 1:
			r.Bad(label, "signature", f.Pos, "a filter needs at least one parameter (the receiver)")
		case sig.Results().Len() < 1 || sig.Results().Len() > 2:
			r.Bad(label, "signature", f.Pos, "a filter has one or two results")
		case sig.Results().Len() == 2 && !an.IsErrorType(sig.Results().At(1).Type()):
			r.Bad(label, "signature", f.Pos, "the second result of a filter must be error: convertCallResults panics on any other non-nil second result")
		default:
			r.Triv(label, "signature "+sig.String(), f.Pos, "1-2 results, error second")
		}
		for i := 0; i < sig.Params().Len(); i++ {
			if _, isMap := sig.Params().At(i).Type().Underlying().(*types.Map); isMap {
				r.Bad(label, fmt.Sprintf("map-typed parameter %d", i), f.Pos, "values.Convert's map arm indexes the source map with a key converted to the target key type; it is safe only because no standard filter takes a map")
			}
		}
	}
	need := func(names []string, what string, ok func(t types.Type) bool) {
		for _, n := range names {
			f := byName[n]
			if f == nil {
				r.Bad("filter:"+n, "registration", token.NoPos, fmt.Sprintf("the standard filter %q is not registered in AddStandardFilters", n))
				continue
			}
			t := f.Sig.Params().At(0).Type()
			if ok(t) {
				r.OK(f.Label(), "receiver type "+an.TypeName(t), f.Pos, what)
			} else {
				r.Bad(f.Label(), "receiver type "+an.TypeName(t), f.Pos, fmt.Sprintf("the receiver of %q must be %s so that the call layer normalises every representation before the filter sees it", n, what))
			}
		}
	}
	need(arrayFilterNames, "[]any: typed slices, arrays, ranges and ordered maps are converted by values.Convert", isAnySlice)
	need(stringFilterNames, "string: numbers, booleans and nil are converted to text by values.Convert", func(t types.Type) bool { return basicKind(t) == types.String })
	need(numericFilterNames, "float64: integers of every width, floats and numeric strings are converted by values.Convert", func(t types.Type) bool { return basicKind(t) == types.Float64 })
	for _, n := range []string{"ceil", "floor"} {
		if f := byName[n]; f != nil {
			if k := basicKind(f.Sig.Results().At(0).Type()); k == types.Int || k == types.Int64 {
				r.OK(f.Label(), "result type", f.Pos, "returns an integer")
			} else {
				r.Bad(f.Label(), "result type", f.Pos, n+" must return an integer")
			}
		}
	}
	// the two filters that must be able to refuse
	for _, n := range []string{"divided_by", "modulo"} {
		f := byName[n]
		if f == nil {
			continue
		}
		if f.Sig.Results().Len() != 2 {
			r.Bad(f.Label(), "error result", f.Pos, fmt.Sprintf("%q has no error result: a zero divisor cannot be reported and produces Inf/NaN output", n))
			continue
		}
		if !f.InMod {
			r.Bad(f.Label(), "zero test", f.Pos, "the filter is a library function; no zero test can be shown")
			continue
		}
		divs := 0
		for _, fn := range unitWithHelpers(p, f.Fn) {
			an.EachInstr(fn, func(in ssa.Instruction) {
				var divisor ssa.Value
				switch x := in.(type) {
				case *ssa.BinOp:
					if x.Op == token.QUO || x.Op == token.REM {
						divisor = x.Y
					}
				case *ssa.Call:
					if cn := an.CallName(&x.Call); cn == "math.Mod" || cn == "math.Remainder" {
						divisor = x.Call.Args[1]
					}
				}
				if divisor == nil {
					return
				}
				if _, isConst := divisor.(*ssa.Const); isConst {
					return
				}
				divs++
				construct := "division by " + describe(p, divisor)
				guarded := false
				for _, g := range an.GuardsAtInstr(in) {
					b, ok := g.Cond.(*ssa.BinOp)
					if !ok {
						continue
					}
					zero := func(v ssa.Value) bool {
						c, ok := v.(*ssa.Const)
						if !ok || c.Value == nil {
							return false
						}
						if c.IsNil() {
							return false
						}
						return c.Value.String() == "0"
					}
					if (sameValue(b.X, divisor) && zero(b.Y)) || (sameValue(b.Y, divisor) && zero(b.X)) {
						if b.Op == token.NEQ && g.True || b.Op == token.EQL && !g.True {
							guarded = true
						}
					}
				}
				if guarded {
					r.OK(f.Label(), construct, an.InstrPos(in), "dominated by a test that the divisor is not zero")
				} else {
					r.Bad(f.Label(), construct, an.InstrPos(in), fmt.Sprintf("%q divides without first testing the divisor for zero", n))
				}
			})
		}
		if divs == 0 {
			r.Bad(f.Label(), "no division found", f.Pos, "the division the filter is named after was not found in its body")
		}
	}
	r.Floor("filters", 40)
}

// ---------------------------------------------------------------------------
// X2

var kindNames = map[int64]string{2: "Int", 3: "Int8", 4: "Int16", 5: "Int32", 6: "Int64", 7: "Uint", 8: "Uint8", 9: "Uint16", 10: "Uint32", 11: "Uint64", 12: "Uintptr", 13: "Float32", 14: "Float64"}

func familyVerdict(has map[string]bool) (bool, []string) {
	signed := []string{"Int", "Int8", "Int16", "Int32", "Int64"}
	unsigned := []string{"Uint", "Uint8", "Uint16", "Uint32", "Uint64"}
	floats := []string{"Float32", "Float64"}
	count := func(xs []string) int {
		n := 0
		for _, x := range xs {
			if has[x] {
				n++
			}
		}
		return n
	}
	var missing []string
	req := func(xs []string) {
		for _, x := range xs {
			if !has[x] {
				missing = append(missing, x)
			}
		}
	}
	if count(signed) >= 2 {
		req(signed)
		req(unsigned)
	}
	if count(unsigned) >= 1 {
		req(unsigned)
	}
	if count(floats) >= 1 {
		req(floats)
	}
	missing = dedup(missing)
	return len(missing) == 0, missing
}

// callersDispatchFamily: v is a kind parameter of the unexported function fn, every use of fn is a call, and
// at every call the kind handed in was found - on every path - to be one of a set of numeric kinds that,
// together with the kinds fn names itself, makes up whole families: fn's default arm sees nothing else.
func callersDispatchFamily(p *an.Prog, fn *ssa.Function, v ssa.Value, has map[string]bool) bool {
	par, ok := v.(*ssa.Parameter)
	if !ok || par.Parent() != fn {
		return false
	}
	idx := -1
	for i, pp := range fn.Params {
		if pp == par {
			idx = i
		}
	}
	sites, only := onlyCalled(p, fn)
	if !only || idx < 0 || len(sites) == 0 {
		return false
	}
	all := map[string]bool{}
	for k := range has {
		all[k] = true
	}
	for _, s := range sites {
		if idx >= len(s.Call.Args) {
			return false
		}
		arg := s.Call.Args[idx]
		seen := map[int64]bool{}
		guarded := an.AllPathsGuarded(s.Block(), func(cond ssa.Value, taken bool) bool {
			kv, in, known := kindTestOnEdge(p, cond, taken)
			if !known || !(sameTypeExpr(kv, arg) || sameValue(kv, arg)) || len(in) == 0 {
				return false
			}
			for k := range in {
				if _, numeric := kindNames[k]; !numeric {
					return false
				}
			}
			for k := range in {
				seen[k] = true
			}
			return true
		})
		if !guarded {
			return false
		}
		for k := range seen {
			all[kindNames[k]] = true
		}
	}
	okFam, _ := familyVerdict(all)
	return okFam
}

func runX2(p *an.Prog, r *an.Result) {
	roles := GetRoles(p)
	basicName := map[types.BasicKind]string{
		types.Int: "Int", types.Int8: "Int8", types.Int16: "Int16", types.Int32: "Int32", types.Int64: "Int64",
		types.Uint: "Uint", types.Uint8: "Uint8", types.Uint16: "Uint16", types.Uint32: "Uint32", types.Uint64: "Uint64",
		types.Float32: "Float32", types.Float64: "Float64",
	}
	for _, fn := range p.Funcs {
		if isMainPkg(fn) || p.IsGenerated(an.FuncPos(fn)) {
			continue
		}
		name := roles.Label(fn)
		kindSw := map[ssa.Value]map[string]bool{}
		kindPos := map[ssa.Value]token.Pos{}
		firstCmp := map[ssa.Value]*ssa.BinOp{}
		typeSw := map[ssa.Value]map[string]bool{}
		typePos := map[ssa.Value]token.Pos{}
		an.EachInstr(fn, func(in ssa.Instruction) {
			switch x := in.(type) {
			case *ssa.BinOp:
				if x.Op != token.EQL {
					return
				}
				for _, pair := range [][2]ssa.Value{{x.X, x.Y}, {x.Y, x.X}} {
					if !isPkgType(pair[0].Type(), "reflect", "Kind") {
						continue
					}
					c, ok := an.ConstInt(pair[1])
					if !ok {
						continue
					}
					kn, ok := kindNames[c]
					if !ok {
						continue
					}
					if kindSw[pair[0]] == nil {
						kindSw[pair[0]] = map[string]bool{}
						kindPos[pair[0]] = x.Pos()
						firstCmp[pair[0]] = x
					}
					kindSw[pair[0]][kn] = true
				}
			case *ssa.TypeAssert:
				if !x.CommaOk {
					return
				}
				b, ok := x.AssertedType.(*types.Basic)
				if !ok {
					return
				}
				bn, ok := basicName[b.Kind()]
				if !ok {
					return
				}
				if typeSw[x.X] == nil {
					typeSw[x.X] = map[string]bool{}
					typePos[x.X] = x.Pos()
				}
				typeSw[x.X][bn] = true
			}
		})
		report := func(kind string, v ssa.Value, has map[string]bool, pos token.Pos) {
			n := 0
			for range has {
				n++
			}
			if n < 2 {
				return // a single width is not a family dispatch
			}
			r.Counts["numeric dispatches"]++
			var names []string
			for k := range has {
				names = append(names, k)
			}
			sort.Strings(names)
			construct := fmt.Sprintf("%s on %s", kind, describe(p, v))
			if ok, missing := familyVerdict(has); ok {
				r.OK(name, construct, pos, "handles "+strings.Join(names, ", "))
			} else if outer := enclosingCompleteDispatch(v, firstCmp[v], kindSw); outer != nil {
				r.OK(name, construct, pos, "a nested dispatch inside an arm of a dispatch on the same kind that lists the whole family: its default arm stays within the family")
				_ = missing
			} else if kind == "kind switch" && callersDispatchFamily(p, fn, v, has) {
				r.OK(name, construct, pos, "a helper reached only under a dispatch on the same kind that lists the whole family: its default arm stays within the family")
			} else {
				r.Bad(name, construct, pos, fmt.Sprintf("%s dispatches on %s but not on %s: values of the missing widths take another path, so equal numbers of different widths behave differently", an.FuncName(fn), strings.Join(names, ", "), strings.Join(missing, ", ")))
			}
		}
		for v, has := range kindSw {
			report("kind switch", v, has, kindPos[v])
		}
		for v, has := range typeSw {
			report("type switch", v, has, typePos[v])
		}
		// CanInt alone is "a signed integer": a decision about integers made with it leaves the unsigned widths out
		// unless the same value is also asked CanUint
		an.EachInstr(fn, func(in ssa.Instruction) {
			c, ok := in.(*ssa.Call)
			if !ok || an.CallName(&c.Call) != "(reflect.Value).CanInt" || len(c.Call.Args) != 1 {
				return
			}
			r.Counts["numeric dispatches"]++
			hasU := false
			an.EachInstr(fn, func(in2 ssa.Instruction) {
				if c2, ok := in2.(*ssa.Call); ok && an.CallName(&c2.Call) == "(reflect.Value).CanUint" && len(c2.Call.Args) == 1 && (c2.Call.Args[0] == c.Call.Args[0] || sameRV(c2.Call.Args[0], c.Call.Args[0])) {
					hasU = true
				}
			})
			if hasU {
				r.OK(name, "CanInt beside CanUint", c.Pos(), "")
			} else {
				r.Bad(name, "CanInt without CanUint", c.Pos(), fmt.Sprintf("%s asks a value whether it is a signed integer and never whether it is an unsigned one: uint8(65) takes the other path (and converts to \"A\" where int(65) gives \"65\")", an.FuncName(fn)))
			}
		})
	}
	r.Floor("numeric dispatches", 5)
}

// ---------------------------------------------------------------------------
// P11

func runP11(p *an.Prog, r *an.Result) {
	for _, fn := range p.Funcs {
		if isMainPkg(fn) || p.IsGenerated(an.FuncPos(fn)) {
			continue
		}
		name := an.FuncName(fn)
		sw := map[ssa.Value][]*ssa.TypeAssert{}
		an.EachInstr(fn, func(in ssa.Instruction) {
			if ta, ok := in.(*ssa.TypeAssert); ok && ta.CommaOk {
				if n, ok := ta.X.Type().(*types.Named); ok && an.IsInterface(n) && an.IsModulePkg(n.Obj().Pkg()) {
					sw[ta.X] = append(sw[ta.X], ta)
				}
			}
		})
		for x, tas := range sw {
			if len(tas) < 2 {
				continue
			}
			// the fall-through of the last assertion must reach a panic for this rule to apply
			last := tas[len(tas)-1]
			var fall *ssa.BasicBlock
			if last.Referrers() != nil {
				for _, u := range *last.Referrers() {
					if ex, ok := u.(*ssa.Extract); ok && ex.Index == 1 && ex.Referrers() != nil {
						for _, uu := range *ex.Referrers() {
							if ifi, ok := uu.(*ssa.If); ok {
								fall = ifi.Block().Succs[1]
							}
						}
					}
				}
			}
			if fall == nil || !blockPanics(fall) {
				continue
			}
			r.Counts["panicking type switches"]++
			it := x.Type().Underlying().(*types.Interface)
			covered := func(t types.Type) bool {
				for _, ta := range tas {
					if types.Identical(ta.AssertedType, t) || (an.IsInterface(ta.AssertedType) && types.AssignableTo(t, ta.AssertedType)) {
						return true
					}
				}
				return false
			}
			// the kinds that are ever converted to this interface anywhere in the module
			var missing []string
			impls := 0
			seenT := map[string]bool{}
			for _, f2 := range p.Funcs {
				an.EachInstr(f2, func(in ssa.Instruction) {
					mi, ok := in.(*ssa.MakeInterface)
					if !ok || !types.Identical(mi.Type(), x.Type()) {
						return
					}
					tn := an.TypeName(mi.X.Type())
					if seenT[tn] {
						return
					}
					seenT[tn] = true
					impls++
					if !covered(mi.X.Type()) {
						missing = append(missing, tn)
					}
				})
			}
			_ = it
			sort.Strings(missing)
			construct := "type switch on " + an.TypeName(x.Type())
			if len(missing) == 0 {
				r.OK(name, construct, last.Pos(), fmt.Sprintf("all %d concrete types that are converted to %s anywhere in the module have an arm", impls, an.TypeName(x.Type())))
			} else {
				r.Bad(name, construct, last.Pos(), fmt.Sprintf("%s has no arm for %s, which falls into the panicking default", name, strings.Join(missing, ", ")))
			}
		}
	}
	r.Floor("panicking type switches", 1)
}

// blockPanics: b ends in (or unconditionally leads to) a panic.
func blockPanics(b *ssa.BasicBlock) bool {
	for depth := 0; depth < 4 && b != nil; depth++ {
		if _, ok := b.Instrs[len(b.Instrs)-1].(*ssa.Panic); ok {
			return true
		}
		if len(b.Succs) != 1 {
			return false
		}
		b = b.Succs[0]
	}
	return false
}

// enclosingCompleteDispatch: the comparisons on kind expression v start in a block that is reached
// only through an arm of another dispatch, on an equal kind expression, whose family is complete.
func enclosingCompleteDispatch(v ssa.Value, first *ssa.BinOp, all map[ssa.Value]map[string]bool) ssa.Value {
	if first == nil {
		return nil
	}
	sameKindExpr := func(a, b ssa.Value) bool {
		ca, cb := an.CallOf(a), an.CallOf(b)
		if ca == nil || cb == nil || an.CallName(ca) != an.CallName(cb) || !strings.HasSuffix(an.CallName(ca), ").Kind") {
			return false
		}
		ra, rb := an.Args(ca), an.Args(cb)
		return len(ra) > 0 && len(rb) > 0 && sameValue(ra[0], rb[0])
	}
	for w, has := range all {
		if w == v || !sameKindExpr(w, v) {
			continue
		}
		if ok, _ := familyVerdict(has); !ok {
			continue
		}
		if an.AllPathsGuarded(first.Block(), func(cond ssa.Value, taken bool) bool {
			b, ok := cond.(*ssa.BinOp)
			if !ok || b.Op != token.EQL || !taken {
				return false
			}
			return b.X == w || b.Y == w
		}) {
			return w
		}
	}
	return nil
}

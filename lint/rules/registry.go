// Package rules holds the repository-specific rules and the mapping from
// properties to rules.
package rules

import (
	"fmt"
	"runtime/debug"
	"sort"

	"lv/an"
)

// A Rule is one template instantiated from the repository.
type Rule struct {
	ID  string
	Doc string
	Run func(p *an.Prog, r *an.Result)
	// Thorough marks rules that only run in the thorough tier.
	Thorough bool
}

var all = map[string]*Rule{}

func register(id, doc string, run func(p *an.Prog, r *an.Result)) *Rule {
	if all[id] != nil {
		panic("duplicate rule " + id)
	}
	r := &Rule{ID: id, Doc: doc, Run: run}
	all[id] = r
	return r
}

// Get returns a rule by id.
func Get(id string) *Rule { return all[id] }

// IDs lists the registered rule ids.
func IDs() []string {
	var ids []string
	for id := range all {
		ids = append(ids, id)
	}
	sort.Strings(ids)
	return ids
}

// RunRule runs one rule, converting a crash of the rule into a violated
// obligation: an analysis that could not be completed decides nothing.
func RunRule(p *an.Prog, rule *Rule) (res *an.Result) {
	res = an.NewResult(p, rule.ID)
	defer func() {
		if x := recover(); x != nil {
			res.Bad("-", "rule-crash", 0, fmt.Sprintf("rule %s could not be evaluated on this tree: %v\n%s", rule.ID, x, debug.Stack()))
		}
	}()
	rule.Run(p, res)
	return res
}

// A Prop maps a property to the rules that decide its structural clauses.
type Prop struct {
	ID          string
	Rules       []string
	Explanation string
	Assumptions []string
}

var props = map[string]*Prop{}

func property(id string, rules []string, explanation string, assumptions ...string) {
	props[id] = &Prop{ID: id, Rules: rules, Explanation: explanation, Assumptions: assumptions}
}

// GetProp returns the property spec.
func GetProp(id string) *Prop { return props[id] }

// PropIDs lists the properties that have at least one registered rule.
func PropIDs() []string {
	var ids []string
	for id := range props {
		ids = append(ids, id)
	}
	sort.Strings(ids)
	return ids
}

// common assumptions
var baseAssumptions = []string{
	"Go type checker and go/ssa lowering of golang.org/x/tools v0.29.0 are correct",
	"the standard library, gopkg.in/yaml.v2 and osteele/tuesday honour their documented contracts",
	"caller-supplied code reached through interfaces/reflection (Drops, custom filters and tags, struct methods, the io.Writer) is outside the model",
	"no cgo, unsafe, go:linkname or build constraints in the module (asserted on every load)",
}

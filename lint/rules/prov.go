package rules

import (
	"go/token"
	"go/types"
	"sort"

	"golang.org/x/tools/go/ssa"

	"lv/an"
)

// TypeSet is a set of concrete dynamic types an interface value may hold;
// Top means "anything".
type TypeSet struct {
	Top    bool
	TopWhy string
	Types  []types.Type
}

func (s *TypeSet) add(t types.Type) {
	for _, x := range s.Types {
		if types.Identical(x, t) {
			return
		}
	}
	s.Types = append(s.Types, t)
}

func (s *TypeSet) union(o TypeSet) {
	if o.Top && !s.Top {
		s.Top, s.TopWhy = true, o.TopWhy
	}
	for _, t := range o.Types {
		s.add(t)
	}
}

func (s TypeSet) String() string {
	var n []string
	for _, t := range s.Types {
		n = append(n, an.TypeName(t))
	}
	sort.Strings(n)
	out := ""
	for i, x := range n {
		if i > 0 {
			out += "|"
		}
		out += x
	}
	if s.Top {
		if out != "" {
			out += "|"
		}
		out += "⊤"
	}
	if out == "" {
		out = "∅"
	}
	return out
}

type provKey struct {
	fn  *ssa.Function
	idx int
}

// Prov computes, per (function, result index), the concrete types an
// interface-typed result can hold (error-type provenance, DESIGN 3.4).
type Prov struct {
	p      *an.Prog
	memo   map[provKey]*TypeSet
	approx map[provKey]*TypeSet
	final  map[provKey]*TypeSet
	state  map[provKey]int // 1 = in progress
	depth  int
	cycle  bool
}

func newProv(p *an.Prog) *Prov {
	return &Prov{p: p, memo: map[provKey]*TypeSet{}, approx: map[provKey]*TypeSet{}, final: map[provKey]*TypeSet{}, state: map[provKey]int{}}
}

var provCache = map[*an.Prog]*Prov{}

func getProv(p *an.Prog) *Prov {
	if v := provCache[p]; v != nil {
		return v
	}
	v := newProv(p)
	provCache[p] = v
	return v
}

// cellStores returns every value stored into a local cell, including stores
// made by closures that captured the cell.
func cellStores(a *ssa.Alloc) []ssa.Value {
	out := an.Stores(a)
	refs := a.Referrers()
	if refs == nil {
		return out
	}
	for _, r := range *refs {
		mc, ok := r.(*ssa.MakeClosure)
		if !ok {
			continue
		}
		fn := mc.Fn.(*ssa.Function)
		for i, b := range mc.Bindings {
			if b == a && i < len(fn.FreeVars) {
				out = append(out, freeVarStores(fn, fn.FreeVars[i], 0)...)
			}
		}
	}
	return out
}

func freeVarStores(fn *ssa.Function, fv *ssa.FreeVar, depth int) []ssa.Value {
	out := an.Stores(fv)
	if depth > 4 || fv.Referrers() == nil {
		return out
	}
	for _, r := range *fv.Referrers() {
		if mc, ok := r.(*ssa.MakeClosure); ok {
			inner := mc.Fn.(*ssa.Function)
			for i, b := range mc.Bindings {
				if b == fv && i < len(inner.FreeVars) {
					out = append(out, freeVarStores(inner, inner.FreeVars[i], depth+1)...)
				}
			}
		}
	}
	return out
}

// ValueTypes returns the concrete types the interface value v may hold.
func (pv *Prov) ValueTypes(v ssa.Value) TypeSet {
	var ts TypeSet
	seen := map[ssa.Value]bool{}
	var walk func(v ssa.Value)
	walk = func(v ssa.Value) {
		if v == nil || seen[v] {
			return
		}
		seen[v] = true
		switch x := v.(type) {
		case *ssa.Const:
			if x.Value == nil && an.IsInterface(x.Type()) {
				return // nil interface
			}
			ts.add(x.Type())
		case *ssa.MakeInterface:
			if an.IsInterface(x.X.Type()) {
				walk(x.X)
			} else {
				ts.add(x.X.Type())
			}
		case *ssa.ChangeInterface:
			walk(x.X)
		case *ssa.ChangeType:
			walk(x.X)
		case *ssa.Phi:
			for _, e := range x.Edges {
				walk(e)
			}
		case *ssa.TypeAssert:
			if !an.IsInterface(x.AssertedType) {
				ts.add(x.AssertedType)
			} else {
				walk(x.X)
			}
		case *ssa.Extract:
			switch t := x.Tuple.(type) {
			case *ssa.TypeAssert:
				if x.Index == 0 {
					walk(t)
					return
				}
			case *ssa.Call:
				ts.union(pv.callResult(&t.Call, x.Index))
				return
			}
			ts.Top, ts.TopWhy = true, "value extracted from "+x.Tuple.Name()
		case *ssa.Call:
			ts.union(pv.callResult(&x.Call, 0))
		case *ssa.UnOp:
			if x.Op == token.MUL {
				switch a := x.X.(type) {
				case *ssa.Alloc:
					st := cellStores(a)
					if len(st) > 0 {
						for _, s := range st {
							walk(s)
						}
						return
					}
				case *ssa.Global:
					st := an.GlobalStores(a)
					if len(st) > 0 {
						for _, s := range st {
							walk(s)
						}
						return
					}
				}
			}
			ts.Top, ts.TopWhy = true, "loaded from memory ("+x.X.Name()+")"
		default:
			if !an.IsInterface(v.Type()) {
				ts.add(v.Type())
				return
			}
			ts.Top, ts.TopWhy = true, "unknown origin "+v.Name()
		}
	}
	walk(v)
	return ts
}

func (pv *Prov) callResult(c *ssa.CallCommon, idx int) TypeSet {
	callee := c.StaticCallee()
	if callee == nil || !pv.p.InModule(callee) {
		name := an.CallName(c)
		// a few standard constructors with a known concrete result
		switch name {
		case "errors.New":
			return TypeSet{Types: []types.Type{types.NewPointer(lookupType(pv.p, "errors", "errorString"))}}
		case "fmt.Errorf":
			return TypeSet{Top: true, TopWhy: "fmt.Errorf (*fmt.wrapError / *errors.errorString)"}
		}
		// a call of a function parameter of an unexported module function that is only ever called:
		// what comes back is what one of the functions passed for it at those calls returns
		if par, ok := c.Value.(*ssa.Parameter); ok && !c.IsInvoke() && pv.p.InModule(par.Parent()) {
			if cands := paramFuncCandidates(pv.p, par); len(cands) > 0 {
				var ts TypeSet
				for _, cand := range cands {
					ts.union(*pv.Result(cand, idx))
				}
				return ts
			}
		}
		return TypeSet{Top: true, TopWhy: "result of " + nonEmpty(name, "a dynamic call")}
	}
	return *pv.Result(callee, idx)
}

// paramFuncCandidates: the module functions (named, closures, method values) passed for the function
// parameter par at the calls of its function, when that function is only ever called directly; nil
// when any argument is something else.
func paramFuncCandidates(p *an.Prog, par *ssa.Parameter) []*ssa.Function {
	owner := par.Parent()
	idx := -1
	for i, pp := range owner.Params {
		if pp == par {
			idx = i
		}
	}
	sites, only := onlyCalled(p, owner)
	if !only || idx < 0 || len(sites) == 0 {
		return nil
	}
	var out []*ssa.Function
	for _, s := range sites {
		if idx >= len(s.Call.Args) {
			return nil
		}
		var f *ssa.Function
		switch a := an.Strip(s.Call.Args[idx]).(type) {
		case *ssa.Function:
			f = a
		case *ssa.MakeClosure:
			if f = boundMethodOf(a); f == nil {
				f, _ = a.Fn.(*ssa.Function)
			}
		}
		if f == nil || !p.InModule(f) || f.Blocks == nil {
			return nil
		}
		out = append(out, f)
	}
	return out
}

func lookupType(p *an.Prog, pkg, name string) types.Type {
	for _, sp := range p.SSA.AllPackages() {
		if sp.Pkg.Path() == pkg {
			if o := sp.Pkg.Scope().Lookup(name); o != nil {
				return o.Type()
			}
		}
	}
	return types.Typ[types.Invalid]
}

// Result returns the provenance of result idx of fn (a fixpoint over the
// module: recursive functions are iterated until their sets stop growing).
func (pv *Prov) Result(fn *ssa.Function, idx int) *TypeSet {
	k := provKey{fn, idx}
	if pv.depth > 0 {
		return pv.result(k)
	}
	if ts := pv.final[k]; ts != nil {
		return ts
	}
	for iter := 0; iter < 12; iter++ {
		pv.cycle = false
		pv.memo = map[provKey]*TypeSet{}
		pv.depth++
		ts := pv.result(k)
		pv.depth--
		changed := false
		for mk, mts := range pv.memo {
			old := pv.approx[mk]
			if old == nil {
				old = &TypeSet{}
				pv.approx[mk] = old
			}
			before := len(old.Types)
			wasTop := old.Top
			old.union(*mts)
			if len(old.Types) != before || old.Top != wasTop {
				changed = true
			}
		}
		if !pv.cycle || !changed {
			for mk, mts := range pv.memo {
				if !pv.cycle {
					pv.final[mk] = mts
				}
			}
			pv.final[k] = ts
			return ts
		}
	}
	return &TypeSet{Top: true, TopWhy: "provenance fixpoint did not converge"}
}

func (pv *Prov) result(k provKey) *TypeSet {
	if ts := pv.final[k]; ts != nil {
		return ts
	}
	if ts := pv.memo[k]; ts != nil {
		return ts
	}
	if pv.state[k] == 1 {
		pv.cycle = true
		if a := pv.approx[k]; a != nil {
			c := *a
			return &c
		}
		return &TypeSet{}
	}
	pv.state[k] = 1
	pv.depth++
	ts := &TypeSet{}
	an.EachInstr(k.fn, func(in ssa.Instruction) {
		ret, ok := in.(*ssa.Return)
		if !ok || k.idx >= len(ret.Results) {
			return
		}
		ts.union(pv.ValueTypes(ret.Results[k.idx]))
	})
	pv.depth--
	pv.state[k] = 0
	pv.memo[k] = ts
	return ts
}

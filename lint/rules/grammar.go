package rules

import (
	"fmt"
	"go/token"
	"go/types"
	"sort"
	"strings"

	"golang.org/x/tools/go/ssa"

	"lv/an"
)

// Rules G1–G4: the block grammar.

func init() {
	register("G1", "the block parser pushes a frame only for a block start, pops only for an end tag, attaches clauses only for clause tags, and all three happen only past the test that rejects a clause/end tag whose parent is not the innermost open block; pop restores exactly what push saved", runG1)
	register("G2", "every piece of parser state that means \"something is still open\" is tested between the end of the token loop and the successful return", runG2)
	register("G3", "the standard grammar registers if/unless/case/for/tablerow/capture/comment/raw with the clause admissions the property states, and every block except comment and raw has a compiler", runG3)
	register("G4", "compilation mirrors the parsed tree: a block's Body and Clauses are the compiled Body and Clauses, children are compiled in order", runG4)
}

func guardCalls(in ssa.Instruction, method string, want bool) bool {
	pred := func(cond ssa.Value, taken bool) bool {
		c := an.CallOf(cond)
		return c != nil && c.IsInvoke() && c.Method.Name() == method && taken == want
	}
	for _, g := range an.GuardsAtInstr(in) {
		if pred(g.Cond, g.True) {
			return true
		}
	}
	return an.AllPathsGuarded(in.Block(), pred)
}

func runG1(p *an.Prog, r *an.Result) {
	fn := p.Func("(parser.Config).parseTokens")
	if fn == nil {
		r.Bad("-", "parseTokens not found", token.NoPos, "anchor not resolved")
		return
	}
	name := an.FuncName(fn)
	sh := findStackShape(fn)
	if sh.problem != "" {
		r.Bad(name, "frame stack not found", an.FuncPos(fn), sh.problem)
		return
	}
	pushSites, popSites := sh.pushSites, sh.popSites
	// clause attach: stores into a .Clauses field
	var clauseSites []ssa.Instruction
	an.EachInstr(fn, func(in ssa.Instruction) {
		if st, ok := in.(*ssa.Store); ok {
			if fa, ok := st.Addr.(*ssa.FieldAddr); ok && strings.HasSuffix(describe(p, fa), ".Clauses") {
				clauseSites = append(clauseSites, st)
			}
		}
	})
	if len(clauseSites) == 0 {
		r.Bad(name, "clause attachment not found", an.FuncPos(fn), "no store into a Clauses field")
	}
	pastReject := func(in ssa.Instruction) bool {
		pred := func(cond ssa.Value, taken bool) bool {
			c := an.CallOf(cond)
			if c == nil || !c.IsInvoke() {
				return false
			}
			return (c.Method.Name() == "RequiresParent" && !taken) || (c.Method.Name() == "CanHaveParent" && taken)
		}
		return an.AllPathsGuarded(in.Block(), pred)
	}
	type siteKind struct {
		sites  []ssa.Instruction
		what   string
		method string
	}
	for _, sk := range []siteKind{{pushSites, "push", "IsBlockStart"}, {popSites, "pop", "IsBlockEnd"}, {clauseSites, "clause attach", "IsClause"}} {
		for _, s := range sk.sites {
			r.Counts["stack operations"]++
			if guardCalls(s, sk.method, true) {
				r.OK(name, sk.what+" only under "+sk.method+"()", an.InstrPos(s), "every path to it takes the true edge of that test")
			} else {
				r.Bad(name, sk.what+" not under "+sk.method+"()", an.InstrPos(s), fmt.Sprintf("the %s happens on a path where %s() was not established", sk.what, sk.method))
			}
			if pastReject(s) {
				r.OK(name, sk.what+" only past the parent check", an.InstrPos(s), "every path passes RequiresParent()==false or CanHaveParent(current)==true")
			} else {
				r.Bad(name, sk.what+" reachable without the parent check", an.InstrPos(s), fmt.Sprintf("the %s can happen for a tag that requires a parent without CanHaveParent(current block) having been established: a misplaced clause or end tag is accepted (and pop may see an empty stack)", sk.what))
			}
		}
	}
	// the reject edge returns an error
	rejects := 0
	an.EachInstr(fn, func(in ssa.Instruction) {
		c, ok := in.(*ssa.Call)
		if !ok || !c.Call.IsInvoke() || c.Call.Method.Name() != "CanHaveParent" || c.Referrers() == nil {
			return
		}
		rejects++
		{
			// every path on which CanHaveParent returned false must end in an error return
			// before any stack operation: check from the blocks reached when it is false
			okRej := true
			var starts []*ssa.BasicBlock
			var collect func(v ssa.Value, pol bool, depth int)
			collect = func(v ssa.Value, pol bool, depth int) {
				if v.Referrers() == nil || depth > 4 {
					return
				}
				for _, u := range *v.Referrers() {
					switch x := u.(type) {
					case *ssa.If:
						if pol {
							starts = append(starts, x.Block().Succs[1])
						} else {
							starts = append(starts, x.Block().Succs[0])
						}
					case *ssa.UnOp:
						if x.Op == token.NOT {
							collect(x, !pol, depth+1)
						}
					case *ssa.Phi:
						// boolean phi feeding an If in its own block: the value flows unchanged
						collect(x, pol, depth+1)
					}
				}
			}
			collect(c, true, 0)
			if len(starts) == 0 {
				okRej = false
			}
			var ifi *ssa.If
			_ = ifi
			seen := map[*ssa.BasicBlock]bool{}
			var dfs func(b *ssa.BasicBlock)
			dfs = func(b *ssa.BasicBlock) {
				if seen[b] {
					return
				}
				seen[b] = true
				for _, x := range b.Instrs {
					if ret, ok := x.(*ssa.Return); ok {
						res := resultsOf(ret)
						if an.IsNilConst(res[len(res)-1]) {
							okRej = false
						}
						return
					}
					for _, s := range append(append(append([]ssa.Instruction{}, pushSites...), popSites...), clauseSites...) {
						if s == x {
							okRej = false
						}
					}
				}
				for _, s := range b.Succs {
					if s == fn.Blocks[0] {
						continue
					}
					// do not follow the loop back edge
					if s.Dominates(b) {
						okRej = false // falls back into the loop without returning
						continue
					}
					dfs(s)
				}
			}
			for _, st := range starts {
				dfs(st)
			}
			// the argument is the current block's syntax
			if okRej {
				r.OK(name, "CanHaveParent()==false returns an error", c.Pos(), "the false edge leads only to error returns")
			} else {
				r.Bad(name, "CanHaveParent()==false does not reject", c.Pos(), "a tag whose parent is not the innermost open block must be a parse error")
			}
		}
	})
	if rejects == 0 {
		r.Bad(name, "no CanHaveParent test", an.FuncPos(fn), "the parser never checks that a clause or end tag names the innermost open block")
	}
	// push saves what pop restores, field for field
	var fields []int
	for k := range sh.saved {
		fields = append(fields, k)
	}
	sort.Ints(fields)
	if len(fields) < 2 {
		r.Bad(name, "push saves fewer than two variables", sh.pushPos, "the frame must save the current syntax, node and append position")
	}
	restoredTo := func(k int, v ssa.Value) bool {
		for _, x := range sh.restored[k] {
			if x == v {
				return true
			}
		}
		return false
	}
	for _, k := range fields {
		if restoredTo(k, sh.saved[k]) {
			r.OK(name, fmt.Sprintf("frame field %d saved from and restored to the same variable", k), sh.popPos, "push/pop pairing")
		} else {
			r.Bad(name, fmt.Sprintf("frame field %d is not restored to the variable it was saved from", k), sh.popPos, "after an end tag the parser must continue exactly where the enclosing block left off")
		}
	}
	// every parser variable that a block start assigns (in push or right after it) is restored by pop
	// from a frame field that push saved from that same variable
	var avars []ssa.Value
	for v := range sh.assigned {
		avars = append(avars, v)
	}
	sort.Slice(avars, func(i, j int) bool { return varName(avars[i]) < varName(avars[j]) })
	for _, v := range avars {
		nm := varName(v)
		okR := false
		for _, k := range fields {
			if sh.saved[k] == v && restoredTo(k, v) {
				okR = true
			}
		}
		if okR {
			r.OK(name, "variable "+nm+" assigned at block start is restored from the frame", sh.popPos, "")
		} else {
			r.Bad(name, "variable "+nm+" assigned at block start is not restored from the frame", sh.popPos, fmt.Sprintf("a block start changes %s but the end tag does not put back the value saved when the block opened: content after a nested block is attached in the wrong place", nm))
		}
	}
	// the popped frame is the top of the stack
	if sh.top {
		r.OK(name, "pop reads stack[len-1]", sh.popPos, "")
	} else {
		r.Bad(name, "pop does not read the top of the stack", sh.popPos, "the frame restored must be the innermost one")
	}
	// CanHaveParent itself
	chp := p.Func("(*render.blockSyntax).CanHaveParent")
	if chp == nil {
		r.Bad("(*render.blockSyntax).CanHaveParent", "not found", token.NoPos, "anchor not resolved")
	} else {
		eqStart, inParents := false, false
		an.EachInstr(chp, func(in ssa.Instruction) {
			switch x := in.(type) {
			case *ssa.BinOp:
				if x.Op == token.EQL {
					for _, pair := range [][2]ssa.Value{{x.X, x.Y}, {x.Y, x.X}} {
						if c := an.CallOf(pair[0]); c != nil && c.IsInvoke() && c.Method.Name() == "TagName" && strings.HasSuffix(describe(p, pair[1]), ".startName") {
							eqStart = guardedNonNil(x, c.Value)
						}
					}
				}
			case *ssa.Lookup:
				if strings.HasSuffix(describe(p, x.X), ".parents") {
					if c := an.CallOf(x.Index); c != nil && c.IsInvoke() && c.Method.Name() == "TagName" {
						inParents = guardedNonNil(x, c.Value)
					}
				}
			}
		})
		if eqStart && inParents {
			r.OK(an.FuncName(chp), "end tag: parent.TagName() == startName; clause: parents[parent.TagName()]; both under parent != nil", an.FuncPos(chp), "")
		} else {
			r.Bad(an.FuncName(chp), "parent test", an.FuncPos(chp), fmt.Sprintf("CanHaveParent must compare the parent's name with the end tag's start name (%v) and look a clause's parent up in its parents set (%v), under parent != nil", eqStart, inParents))
		}
	}
	r.Floor("stack operations", 3)
}

// cellOfFreeVar resolves a closure's free variable to the cell of the parent it is bound to.
func cellOfFreeVar(parent, cl *ssa.Function, fv *ssa.FreeVar) ssa.Value {
	var out ssa.Value
	an.EachInstr(parent, func(in ssa.Instruction) {
		if mc, ok := in.(*ssa.MakeClosure); ok && mc.Fn == ssa.Value(cl) {
			for i, b := range mc.Bindings {
				if i < len(cl.FreeVars) && cl.FreeVars[i] == fv {
					out = b
				}
			}
		}
	})
	return out
}

// ---------------------------------------------------------------------------
// G2

func runG2(p *an.Prog, r *an.Result) {
	fn := p.Func("(parser.Config).parseTokens")
	if fn == nil {
		r.Bad("-", "parseTokens not found", token.NoPos, "anchor not resolved")
		return
	}
	name := an.FuncName(fn)
	// success returns
	var success []*ssa.Return
	an.EachInstr(fn, func(in ssa.Instruction) {
		if ret, ok := in.(*ssa.Return); ok {
			res := resultsOf(ret)
			if an.IsNilConst(res[len(res)-1]) {
				success = append(success, ret)
			}
		}
	})
	if len(success) == 0 {
		r.Bad(name, "no success return", an.FuncPos(fn), "anchor not resolved")
		return
	}
	// open-state flags: loop-carried booleans that some arm sets true and another false
	var flags []*ssa.Phi
	an.EachInstr(fn, func(in ssa.Instruction) {
		ph, ok := in.(*ssa.Phi)
		if !ok {
			return
		}
		if b, ok := ph.Type().Underlying().(*types.Basic); !ok || b.Kind() != types.Bool {
			return
		}
		hasT, hasF, self := false, false, false
		for _, e := range ph.Edges {
			if c, ok := an.ConstBool(e); ok {
				if c {
					hasT = true
				} else {
					hasF = true
				}
			} else if e == ssa.Value(ph) {
				self = true
			}
		}
		if hasT && hasF && self {
			flags = append(flags, ph)
		}
	})
	// the pointer to the current block: the variable that a block start sets to a fresh node
	var openCells []ssa.Value
	if sh := findStackShape(fn); sh.problem == "" {
		for v, val := range sh.assigned {
			if isFreshAlloc(val) {
				openCells = append(openCells, v)
			}
		}
		sort.Slice(openCells, func(i, j int) bool { return varName(openCells[i]) < varName(openCells[j]) })
	}
	r.Counts["open-state variables"] = len(flags) + len(openCells)
	for _, ret := range success {
		for _, ph := range flags {
			construct := "flag " + nonEmpty(ph.Comment, ph.Name()) + " tested before the successful return"
			pred := func(cond ssa.Value, taken bool) bool {
				return condMentions(cond, func(v ssa.Value) bool { return v == ssa.Value(ph) }, 0)
			}
			if an.AllPathsGuarded(ret.Block(), func(cond ssa.Value, taken bool) bool {
				// only tests made after the loop count: the test's block is not inside the loop
				return pred(cond, taken)
			}) && testedAfterLoop(fn, ph, ret) {
				r.OK(name, construct, ret.Pos(), "every path from the loop exit to the return branches on it")
			} else {
				r.Bad(name, "flag "+nonEmpty(ph.Comment, ph.Name())+" not tested at end of input", ret.Pos(), fmt.Sprintf("parseTokens sets %s when a block opens and clears it when it closes, but accepts the template without looking at it: an unterminated block swallows the rest of the input silently", nonEmpty(ph.Comment, ph.Name())))
			}
		}
		for _, cell := range openCells {
			nm := varName(cell)
			okT := an.AllPathsGuarded(ret.Block(), func(cond ssa.Value, taken bool) bool {
				return condMentions(cond, func(v ssa.Value) bool {
					return isReadOf(cell, v)
				}, 0)
			})
			if okT {
				r.OK(name, "open block pointer "+nm+" tested before the successful return", ret.Pos(), "non-empty stack at end of input is an error")
			} else {
				r.Bad(name, "open block pointer "+nm+" not tested at end of input", ret.Pos(), "an unterminated block is accepted")
			}
		}
	}
	// a comment or raw block is a leaf: when its flag is set it is the innermost open construct, so it
	// must be reported before an enclosing open block is
	var cellTests, flagTests []*ssa.If
	an.EachInstr(fn, func(in ssa.Instruction) {
		ifi, ok := in.(*ssa.If)
		if !ok || reachesBlock(ifi.Block(), ifi.Block()) {
			return // inside the loop
		}
		for _, cell := range openCells {
			if condMentions(ifi.Cond, func(v ssa.Value) bool { return isReadOf(cell, v) }, 0) {
				cellTests = append(cellTests, ifi)
			}
		}
		for _, ph := range flags {
			if condMentions(ifi.Cond, func(v ssa.Value) bool { return v == ssa.Value(ph) }, 0) {
				flagTests = append(flagTests, ifi)
			}
		}
	})
	for _, ct := range cellTests {
		for _, ft := range flagTests {
			if ct.Block().Dominates(ft.Block()) && ct != ft {
				r.Bad(name, "open-block test comes before the comment/raw test", ct.Pos(), "when a comment or raw block is left open inside another block, the error must name the comment/raw tag (the innermost open construct), not the enclosing block")
			}
		}
	}
	if len(cellTests) > 0 && len(flagTests) > 0 {
		bad := false
		for _, o := range r.Obs {
			if o.Status == an.Violated {
				bad = true
			}
		}
		if !bad {
			r.OK(name, "comment/raw flags are tested before the open-block pointer", flagTests[0].Pos(), "the innermost open construct is reported first")
		}
	}
	// a pointer that the loop tests against nil as a piece of state must be able to become nil again:
	// a variable that is set when a block opens and never cleared makes the test true for the rest of
	// the input (content of a later comment would be appended to an earlier raw block)
	type stateVar struct {
		v      ssa.Value
		tested token.Pos
	}
	var svars []stateVar
	inLoop := func(b *ssa.BasicBlock) bool { return reachesBlock(b, b) }
	an.EachInstr(fn, func(in ssa.Instruction) {
		ifi, ok := in.(*ssa.If)
		if !ok || !inLoop(ifi.Block()) {
			return
		}
		condMentions(ifi.Cond, func(v ssa.Value) bool {
			b, ok := v.(*ssa.BinOp)
			if !ok || (b.Op != token.EQL && b.Op != token.NEQ) {
				return false
			}
			for _, pair := range [][2]ssa.Value{{b.X, b.Y}, {b.Y, b.X}} {
				if !an.IsNilConst(pair[1]) {
					continue
				}
				if _, isPtr := pair[0].Type().Underlying().(*types.Pointer); !isPtr {
					continue
				}
				switch x := pair[0].(type) {
				case *ssa.Phi:
					if inLoop(x.Block()) {
						svars = append(svars, stateVar{x, an.InstrPos(ifi)})
					}
				case *ssa.UnOp:
					if al, ok := x.X.(*ssa.Alloc); ok && al.Heap && x.Op == token.MUL {
						svars = append(svars, stateVar{al, an.InstrPos(ifi)})
					}
				}
			}
			return false
		}, 0)
	})
	seenSV := map[ssa.Value]bool{}
	for _, sv := range svars {
		if seenSV[sv.v] {
			continue
		}
		seenSV[sv.v] = true
		setFresh, cleared := false, false
		note := func(val ssa.Value, at *ssa.BasicBlock) {
			switch {
			case an.IsNilConst(val):
				cleared = true
			case isFreshAlloc(val):
				// lazy initialisation (assigned only where the variable was found nil) is not state
				lazy := an.AllPathsGuarded(at, func(cond ssa.Value, taken bool) bool {
					b, ok := cond.(*ssa.BinOp)
					if !ok {
						return false
					}
					isV := func(x ssa.Value) bool { return x == sv.v || isReadOf(sv.v, x) }
					return (b.Op == token.EQL && taken || b.Op == token.NEQ && !taken) && (isV(b.X) && an.IsNilConst(b.Y) || isV(b.Y) && an.IsNilConst(b.X))
				})
				if !lazy {
					setFresh = true
				}
			default:
				if val != sv.v {
					cleared = true // restored from somewhere else (a saved frame): may be nil
				}
			}
		}
		switch x := sv.v.(type) {
		case *ssa.Phi:
			for i, e := range x.Edges {
				if !x.Block().Dominates(x.Block().Preds[i]) {
					continue // entry edge
				}
				note(e, x.Block().Preds[i])
			}
		case *ssa.Alloc:
			for _, f := range append([]*ssa.Function{fn}, fn.AnonFuncs...) {
				an.EachInstr(f, func(in ssa.Instruction) {
					st, ok := in.(*ssa.Store)
					if !ok {
						return
					}
					addr := st.Addr
					if fv, ok := addr.(*ssa.FreeVar); ok {
						addr = cellOfFreeVar(fn, f, fv)
					}
					if addr == ssa.Value(x) && (f != fn || inLoop(st.Block())) {
						note(st.Val, st.Block())
					}
				})
			}
		}
		if !setFresh {
			continue
		}
		r.Counts["state pointers"]++
		if cleared {
			r.OK(name, "state pointer "+varName(sv.v)+" can become nil again", sv.tested, "the loop both sets it to a new node and clears or restores it")
		} else {
			r.Bad(name, "state pointer "+varName(sv.v)+" is never cleared", sv.tested, fmt.Sprintf("the token loop tests %s against nil but, once a block has set it, nothing ever sets it back: the test stays true for every later token", varName(sv.v)))
		}
	}
	r.Floor("open-state variables", 1)
}

// testedAfterLoop: some If that mentions ph lies outside the loop that carries ph and dominates ret.
func testedAfterLoop(fn *ssa.Function, ph *ssa.Phi, ret *ssa.Return) bool {
	found := false
	an.EachInstr(fn, func(in ssa.Instruction) {
		ifi, ok := in.(*ssa.If)
		if !ok {
			return
		}
		if !condMentions(ifi.Cond, func(v ssa.Value) bool { return v == ssa.Value(ph) }, 0) {
			return
		}
		// outside the loop: the phi's block does not get reached again from the If's block
		if !reachesBlock(ifi.Block(), ph.Block()) && ifi.Block().Dominates(ret.Block()) {
			found = true
		}
	})
	return found
}

func reachesBlock(from, to *ssa.BasicBlock) bool {
	seen := map[*ssa.BasicBlock]bool{}
	var dfs func(b *ssa.BasicBlock) bool
	dfs = func(b *ssa.BasicBlock) bool {
		if seen[b] {
			return false
		}
		seen[b] = true
		for _, s := range b.Succs {
			if s == to || dfs(s) {
				return true
			}
		}
		return false
	}
	return dfs(from)
}

// ---------------------------------------------------------------------------
// G3

func runG3(p *an.Prog, r *an.Result) {
	roles := GetRoles(p)
	for _, pr := range roles.TagProblems {
		r.Bad("-", "roles: "+pr, token.NoPos, "an anchor the rule needs could not be resolved")
	}
	want := map[string][]string{
		"if": {"else", "elsif"}, "unless": {"else"}, "case": {"else", "when"}, "for": {"else"},
		"tablerow": {}, "capture": {}, "comment": {}, "raw": {},
	}
	var names []string
	for n := range want {
		names = append(names, n)
	}
	sort.Strings(names)
	for _, n := range names {
		b := blockByName(roles, n)
		r.Counts["blocks"]++
		if b == nil {
			r.Bad("tags.AddStandardTags", "block "+n+" not registered", token.NoPos, "the standard grammar lacks a block the property names")
			continue
		}
		got := append([]string{}, b.Clauses...)
		sort.Strings(got)
		if strings.Join(got, ",") == strings.Join(want[n], ",") {
			r.OK("tags.AddStandardTags", fmt.Sprintf("block %s admits clauses {%s}", n, strings.Join(got, ",")), b.Pos, "as the property states")
		} else {
			r.Bad("tags.AddStandardTags", fmt.Sprintf("block %s admits clauses {%s}", n, strings.Join(got, ",")), b.Pos, fmt.Sprintf("the property states {%s}", strings.Join(want[n], ",")))
		}
		if n == "comment" || n == "raw" {
			continue
		}
		if b.Compiler != nil && b.Renderer != nil {
			r.OK("tags.AddStandardTags", "block "+n+" has a compiler and a renderer", b.Pos, an.FuncName(b.Compiler))
		} else {
			r.Bad("tags.AddStandardTags", "block "+n+" has no compiler", b.Pos, "a block without compiler renders as an internal error")
		}
	}
	for _, tn := range []string{"assign", "include", "break", "continue", "cycle"} {
		r.Counts["tags"]++
		if t := tagByName(roles, tn); t == nil || t.Renderer == nil {
			r.Bad("tags.AddStandardTags", "tag "+tn+" not registered", token.NoPos, "the standard grammar lacks a tag the properties name")
		} else {
			r.OK("tags.AddStandardTags", "tag "+tn+" registered", t.Pos, an.FuncName(t.Compiler))
		}
	}
}

// ---------------------------------------------------------------------------
// G4

func runG4(p *an.Prog, r *an.Result) {
	fn := p.Func("(render.Config).compileNode")
	if fn == nil {
		r.Bad("-", "compileNode not found", token.NoPos, "anchor not resolved")
		return
	}
	name := an.FuncName(fn)
	okBody, okClauses, okToken := false, false, false
	for _, uf := range unitWithHelpers(p, fn) {
		an.EachInstr(uf, func(in ssa.Instruction) {
			st, ok := in.(*ssa.Store)
			if !ok {
				return
			}
			fa, ok := st.Addr.(*ssa.FieldAddr)
			if !ok || !isNamedIn(fa.X.Type().Underlying().(*types.Pointer).Elem(), "render", "BlockNode") {
				return
			}
			field := describe(p, fa)
			fromCall := func(callee, argSuffix string) bool {
				for _, o := range an.Origins(st.Val, an.StepValue) {
					if ex, ok := o.(*ssa.Extract); ok && ex.Index == 0 {
						if c, ok := ex.Tuple.(*ssa.Call); ok && strings.HasSuffix(an.CallName(&c.Call), callee) {
							return strings.HasSuffix(describe(p, c.Call.Args[len(c.Call.Args)-1]), argSuffix)
						}
					}
				}
				return false
			}
			switch {
			case strings.HasSuffix(field, ".Body"):
				okBody = fromCall(".compileNodes", ".Body") || builtByAppend(st.Val)
			case strings.HasSuffix(field, ".Clauses"):
				okClauses = fromCall(".compileBlocks", ".Clauses") || builtByAppend(st.Val)
			case strings.HasSuffix(field, ".Token"):
				okToken = strings.HasSuffix(describe(p, st.Val), ".Token")
			}
		})
	}
	for _, c := range []struct {
		ok   bool
		what string
	}{{okBody, "BlockNode.Body = compileNodes(n.Body)"}, {okClauses, "BlockNode.Clauses = compileBlocks(n.Clauses)"}, {okToken, "BlockNode.Token = n.Token"}} {
		if c.ok {
			r.OK(name, c.what, an.FuncPos(fn), "")
		} else {
			r.Bad(name, "not "+c.what, an.FuncPos(fn), "the render tree must mirror the parsed tree")
		}
	}
	// the two lists are compiled element by element: by the helper, or - where the helper has been
	// inlined - by a loop over n.Body / n.Clauses in the compile function itself
	type listCheck struct {
		label   string
		helper  string
		field   string
		isInput func(h *ssa.Function, v ssa.Value) bool
	}
	for _, lc := range []listCheck{{"compileNodes", "(render.Config).compileNodes", "Body", nil}, {"compileBlocks", "(render.Config).compileBlocks", "Clauses", nil}} {
		h := p.Func(lc.helper)
		var isInput func(v ssa.Value) bool
		if h != nil {
			hh := h
			isInput = func(v ssa.Value) bool { return len(hh.Params) > 1 && v == ssa.Value(hh.Params[1]) }
		} else if lc.field == "Clauses" || lc.field == "Body" {
			// inlined: the loop is in the unit of compileNode and ranges over a load of the field
			field := lc.field
			for _, uf := range unitWithHelpers(p, fn) {
				found := false
				an.EachInstr(uf, func(in ssa.Instruction) {
					if ia, ok := in.(*ssa.IndexAddr); ok && isForwardRangeIndex(ia.Index) {
						if ld, ok := ia.X.(*ssa.UnOp); ok {
							if fa, ok := ld.X.(*ssa.FieldAddr); ok && fieldName(fa) == field && isNamedIn(fa.X.Type().Underlying().(*types.Pointer).Elem(), "parser", "ASTBlock") {
								found = true
							}
						}
					}
				})
				if found {
					h = uf
				}
			}
			isInput = func(v ssa.Value) bool {
				if ld, ok := v.(*ssa.UnOp); ok {
					if fa, ok := ld.X.(*ssa.FieldAddr); ok && fieldName(fa) == field && isNamedIn(fa.X.Type().Underlying().(*types.Pointer).Elem(), "parser", "ASTBlock") {
						return true
					}
				}
				return false
			}
		}
		hn := lc.helper
		if h == nil {
			r.Bad(hn, "not found", token.NoPos, "neither the helper nor a loop over the "+lc.field+" of a block in the compile function: anchor not resolved")
			continue
		}
		// the loop may live in a helper that is handed the list and the compile function
		// (compileEach(items, c.compileNode)): follow the list into it
		hasLoop := false
		an.EachInstr(h, func(in ssa.Instruction) {
			if ia, ok := in.(*ssa.IndexAddr); ok && isInput(ia.X) {
				hasLoop = true
			}
		})
		if !hasLoop {
			an.EachInstr(h, func(in ssa.Instruction) {
				c, ok := in.(*ssa.Call)
				if !ok || hasLoop {
					return
				}
				g := c.Call.StaticCallee()
				if g != nil {
					if o := g.Origin(); o != nil {
						g = o // an instance of a generic helper
					}
				}
				if g == nil || g.Blocks == nil || !p.InModule(g) {
					return
				}
				for i, a := range c.Call.Args {
					if isInput(a) && i < len(g.Params) {
						gp := g.Params[i]
						h = g
						isInput = func(v ssa.Value) bool { return v == ssa.Value(gp) }
						hasLoop = true
						return
					}
				}
			})
		}
		fwd, atEnd, perChild := false, false, false
		var body, appendAt *ssa.BasicBlock
		an.EachInstr(h, func(in ssa.Instruction) {
			switch x := in.(type) {
			case *ssa.IndexAddr:
				if isInput(x.X) && isForwardRangeIndex(x.Index) {
					fwd = true
					body = x.Block()
				}
			case *ssa.Call:
				if b, ok := x.Call.Value.(*ssa.Builtin); ok && b.Name() == "append" {
					if _, isPhi := x.Call.Args[0].(*ssa.Phi); isPhi {
						// appending a compiled child: the appended element derives from a compile call on the input's element
						atEnd = true
						appendAt = x.Block()
					}
				}
				// the child of this iteration is handed to a compile function of the module (or to the
				// function the helper was given for that purpose)
				_, viaParam := x.Call.Value.(*ssa.Parameter)
				if callee := x.Call.StaticCallee(); callee != nil && p.InModule(callee) || viaParam {
					for _, a := range x.Call.Args {
						for _, o := range an.Origins(a, an.StepValue) {
							if ld, ok := o.(*ssa.UnOp); ok {
								if ia, ok := ld.X.(*ssa.IndexAddr); ok && isInput(ia.X) && isForwardRangeIndex(ia.Index) {
									perChild = true
								}
							}
						}
					}
				}
			case *ssa.Store:
				// out[i] = compiled, with i the index of the forward range and out made with the input's length
				if ia, ok := x.Addr.(*ssa.IndexAddr); ok && isForwardRangeIndex(ia.Index) {
					if ms, ok := ia.X.(*ssa.MakeSlice); ok {
						if c := an.CallOf(ms.Len); c != nil && an.CallName(c) == "builtin.len" && isInput(c.Args[0]) {
							atEnd = true
							appendAt = x.Block()
						}
					}
				}
			}
		})
		if h != fn && p.Func(lc.helper) == nil || h == fn {
			// inlined: the right append is the one in the loop over this field
			if body != nil {
				var inLoop *ssa.BasicBlock
				an.EachInstr(h, func(in ssa.Instruction) {
					if c, ok := in.(*ssa.Call); ok {
						if b, ok := c.Call.Value.(*ssa.Builtin); ok && b.Name() == "append" && body.Dominates(c.Block()) {
							if _, isPhi := c.Call.Args[0].(*ssa.Phi); isPhi && inLoop == nil {
								inLoop = c.Block()
							}
						}
					}
				})
				if inLoop != nil {
					appendAt = inLoop
				}
			}
		}
		// one-to-one: no iteration gets back to the loop header without having appended
		skips := body != nil && appendAt != nil && iterationCanSkip(body, map[*ssa.BasicBlock]bool{appendAt: true})
		if fwd && atEnd && perChild && !skips {
			r.OK(an.FuncName(h), lc.label+": compiles each child in order and appends the result at the end", an.FuncPos(h), "forward range + append(acc, compiled) on every iteration that does not return")
		} else {
			r.Bad(an.FuncName(h), lc.label+": children not compiled one-to-one in order", an.FuncPos(h), fmt.Sprintf("forward range: %v, append at end: %v, compile call per child: %v, an iteration can skip the append: %v", fwd, atEnd, perChild, skips))
		}
	}
}

// iterationCanSkip: starting at the first block of a loop body, some path gets back to the loop
// header (a block that dominates the body) without passing through one of the marked blocks.
func iterationCanSkip(body *ssa.BasicBlock, marked map[*ssa.BasicBlock]bool) bool {
	if marked[body] {
		return false
	}
	skips := false
	seen := map[*ssa.BasicBlock]bool{}
	var dfs func(b *ssa.BasicBlock)
	dfs = func(b *ssa.BasicBlock) {
		if seen[b] || marked[b] || skips {
			return
		}
		seen[b] = true
		for _, s := range b.Succs {
			if s.Dominates(body) && s != body {
				skips = true
				return
			}
			dfs(s)
		}
	}
	dfs(body)
	return skips
}

// ---------------------------------------------------------------------------
// G7

func init() {
	register("G7", "outside comment and raw every text, object and trim token becomes a node: on the arm of the block parser's loop that a token type selects, no path gets back to the loop without appending the node of that kind (or returning an error)", runG7)
}

func runG7(p *an.Prog, r *an.Result) {
	fn := p.Func("(parser.Config).parseTokens")
	if fn == nil {
		r.Bad("-", "parseTokens not found", token.NoPos, "anchor not resolved")
		return
	}
	name := an.FuncName(fn)
	kinds := []struct {
		konst, node string
	}{{"TextTokenType", "ASTText"}, {"ObjTokenType", "ASTObject"}, {"TrimLeftTokenType", "ASTTrim"}, {"TrimRightTokenType", "ASTTrim"}}
	// blocks that append a node of a given AST type to a node list
	// closures of the parser that append their parameter to a node list (emit(n))
	appenders := map[*ssa.Function]int{}
	for _, uf := range unitOf(fn) {
		if uf == fn {
			continue
		}
		for i, par := range uf.Params {
			if paramAppend(par) != nil {
				appenders[uf] = i
			}
		}
	}
	isNodeOf := func(v ssa.Value, node string) bool {
		for _, o := range an.Origins(v, func(v ssa.Value) []ssa.Value {
			if mi, ok := v.(*ssa.MakeInterface); ok {
				return []ssa.Value{mi.X}
			}
			return an.StepValue(v)
		}) {
			if pt, ok := o.Type().Underlying().(*types.Pointer); ok && isNamedIn(pt.Elem(), "parser", node) {
				return true
			}
		}
		return false
	}
	appends := func(node string) map[*ssa.BasicBlock]bool {
		out := map[*ssa.BasicBlock]bool{}
		an.EachInstr(fn, func(in ssa.Instruction) {
			c, ok := in.(*ssa.Call)
			if !ok {
				return
			}
			if callee := c.Call.StaticCallee(); callee != nil {
				if i, isApp := appenders[callee]; isApp && i < len(c.Call.Args) && isNodeOf(c.Call.Args[i], node) {
					out[c.Block()] = true
				}
				return
			}
			if b, ok := c.Call.Value.(*ssa.Builtin); !ok || b.Name() != "append" || len(c.Call.Args) != 2 {
				return
			}
			// the appended element: a varargs array holding one interface made from *node
			sl, ok := c.Call.Args[1].(*ssa.Slice)
			if !ok {
				return
			}
			al, ok := sl.X.(*ssa.Alloc)
			if !ok || al.Referrers() == nil {
				return
			}
			for _, u := range *al.Referrers() {
				ia, ok := u.(*ssa.IndexAddr)
				if !ok {
					continue
				}
				for _, sv := range an.Stores(ia) {
					for _, o := range an.Origins(sv, func(v ssa.Value) []ssa.Value {
						if mi, ok := v.(*ssa.MakeInterface); ok {
							return []ssa.Value{mi.X}
						}
						return an.StepValue(v)
					}) {
						if pt, ok := o.Type().Underlying().(*types.Pointer); ok && isNamedIn(pt.Elem(), "parser", node) {
							out[c.Block()] = true
						}
					}
				}
			}
		})
		return out
	}
	returns := map[*ssa.BasicBlock]bool{}
	an.EachInstr(fn, func(in ssa.Instruction) {
		if _, ok := in.(*ssa.Return); ok {
			returns[in.Block()] = true
		}
	})
	for _, k := range kinds {
		kc, ok := pkgConst(p, "parser", k.konst)
		if !ok {
			r.Bad(name, k.konst+" not found", an.FuncPos(fn), "anchor not resolved")
			continue
		}
		// the arm: the true successor of `tok.Type == K`
		var arms []*ssa.BasicBlock
		for _, b := range fn.Blocks {
			ifi, ok := b.Instrs[len(b.Instrs)-1].(*ssa.If)
			if !ok {
				continue
			}
			cmp, ok := ifi.Cond.(*ssa.BinOp)
			if !ok || cmp.Op != token.EQL {
				continue
			}
			for _, pair := range [][2]ssa.Value{{cmp.X, cmp.Y}, {cmp.Y, cmp.X}} {
				c, isC := an.ConstInt(pair[1])
				if !isC || c != kc || !isNamedIn(pair[1].Type(), "parser", "TokenType") {
					continue
				}
				ld, ok := pair[0].(*ssa.UnOp)
				if !ok {
					continue
				}
				if fa, ok := ld.X.(*ssa.FieldAddr); ok && fieldName(fa) == "Type" {
					// the token of this iteration, not a neighbour looked at ahead
					if ia, isIA := fa.X.(*ssa.IndexAddr); isIA && !isForwardRangeIndex(ia.Index) {
						continue
					}
					// only tests that are not themselves inside another token-type arm's body (the
					// comment/raw end-tag tests look at TagTokenType and are not in this list)
					arms = append(arms, b.Succs[0])
				}
			}
		}
		if len(arms) == 0 {
			r.Bad(name, "no arm for "+k.konst, an.FuncPos(fn), "the rule looks for the branch taken when tok.Type == "+k.konst)
			continue
		}
		marked := appends(k.node)
		for b := range returns {
			marked[b] = true
		}
		for _, arm := range arms {
			r.Counts["token arms"]++
			if iterationCanSkip(arm, marked) {
				r.Bad(name, k.konst+" arm can skip its node", arm.Instrs[0].Pos(), fmt.Sprintf("a path through the %s arm returns to the loop without appending an %s: the token leaves no trace in the tree - text disappears from the output, or a trim marker has nothing in front of it to flush", k.konst, k.node))
			} else {
				r.OK(name, k.konst+" arm always appends an "+k.node, arm.Instrs[0].Pos(), "every path from the arm back to the loop passes the append or returns an error")
			}
		}
	}
	r.Floor("token arms", 4)
}

// builtByAppend: every origin of the slice is nil/empty or the result of an append onto itself: a list
// accumulated by a loop of this function (what fills it is decided by the one-to-one check).
func builtByAppend(v ssa.Value) bool {
	n := 0
	for _, o := range an.Origins(v, func(x ssa.Value) []ssa.Value {
		if c, ok := x.(*ssa.Call); ok {
			if b, ok := c.Call.Value.(*ssa.Builtin); ok && b.Name() == "append" {
				return c.Call.Args[:1]
			}
		}
		return an.StepValue(x)
	}) {
		switch y := o.(type) {
		case *ssa.Const:
		case *ssa.MakeSlice:
		case *ssa.Call:
			if b, ok := y.Call.Value.(*ssa.Builtin); !ok || b.Name() != "append" {
				return false
			}
			n++
		default:
			return false
		}
	}
	return true
}

package rules

import (
	"fmt"
	"go/token"
	"go/types"
	"sort"

	"golang.org/x/tools/go/ssa"

	"lv/an"
)

// Roles are the registries the rules read from the code instead of
// hard-coding (DESIGN.md section 1.2). They are recomputed on every run.
type Roles struct {
	Filters        []*Filter
	FilterByFn     map[*ssa.Function]*Filter
	Tags           []*Tag
	Blocks         []*Block
	Renderers      []*ssa.Function // anonymous func(io.Writer, render.Context) error
	Evaluators     []*ssa.Function // anonymous func(expressions.Context) values.Value
	Boundaries     []*Boundary
	inFilters      bool
	Problems       []string // anchors that could not be resolved (all registries)
	FilterProblems []string
	TagProblems    []string
}

// Filter is one registration in filters.AddStandardFilters.
type Filter struct {
	Name  string
	Fn    *ssa.Function
	Sig   *types.Signature
	Pos   token.Pos
	InMod bool
}

// Label is the stable name of the filter function used in keys.
func (f *Filter) Label() string { return "filter:" + f.Name }

// Tag is one AddTag registration in tags.AddStandardTags.
type Tag struct {
	Name     string
	Compiler *ssa.Function
	Renderer *ssa.Function // the closure the compiler returns
	Pos      token.Pos
}

// Block is one AddBlock registration.
type Block struct {
	Name         string
	Clauses      []string
	Compiler     *ssa.Function // function taking the BlockNode; nil if none
	CompilerArgs []ssa.Value   // arguments of the factory call (ifTagCompiler(true))
	Renderer     *ssa.Function
	Pos          token.Pos
}

// Boundary is a function whose deferred closure recovers.
type Boundary struct {
	Fn         *ssa.Function
	Closure    *ssa.Function
	Handled    []types.Type // asserted types whose arm does not re-panic
	DeferEarly bool         // the defer is registered before any call
}

func (b *Boundary) handles(t types.Type) bool {
	for _, h := range b.Handled {
		if types.Identical(h, t) {
			return true
		}
		if an.IsInterface(h) && types.AssignableTo(t, h) {
			return true
		}
	}
	return false
}

var rolesCache = map[*an.Prog]*Roles{}

// GetRoles resolves the roles for a program (cached per program).
func GetRoles(p *an.Prog) *Roles {
	if r := rolesCache[p]; r != nil {
		return r
	}
	r := &Roles{FilterByFn: map[*ssa.Function]*Filter{}}
	r.inFilters = true
	r.resolveFilters(p)
	r.inFilters = false
	r.resolveTags(p)
	r.resolveClosures(p)
	r.resolveBoundaries(p)
	rolesCache[p] = r
	return r
}

func (r *Roles) problem(format string, a ...any) {
	msg := fmt.Sprintf(format, a...)
	r.Problems = append(r.Problems, msg)
	if r.inFilters {
		r.FilterProblems = append(r.FilterProblems, msg)
	} else {
		r.TagProblems = append(r.TagProblems, msg)
	}
}

// constStrings resolves the constant strings a value may take: a constant, or
// an element of a local literal of constant strings (for _, name := range []string{...}).
func constStrings(v ssa.Value) ([]string, bool) {
	if s, ok := an.ConstString(v); ok {
		return []string{s}, true
	}
	u, ok := an.Deref(v).(*ssa.UnOp)
	if !ok {
		return nil, false
	}
	ia, ok := u.X.(*ssa.IndexAddr)
	if !ok {
		return nil, false
	}
	var arr *ssa.Alloc
	switch x := ia.X.(type) {
	case *ssa.Slice:
		arr, _ = x.X.(*ssa.Alloc)
	case *ssa.Alloc:
		arr = x
	}
	if arr == nil || arr.Referrers() == nil {
		return nil, false
	}
	var out []string
	for _, ru := range *arr.Referrers() {
		ea, ok := ru.(*ssa.IndexAddr)
		if !ok || ea.Referrers() == nil {
			continue
		}
		for _, uu := range *ea.Referrers() {
			if st, ok := uu.(*ssa.Store); ok {
				s, isC := an.ConstString(st.Val)
				if !isC {
					return nil, false
				}
				out = append(out, s)
			}
		}
	}
	return out, len(out) > 0
}

// funcValue resolves a value to the function it denotes: a function, a
// closure literal, or either wrapped in conversions/interfaces.
func funcValue(v ssa.Value) *ssa.Function {
	switch x := an.Strip(v).(type) {
	case *ssa.Function:
		return x
	case *ssa.MakeClosure:
		return x.Fn.(*ssa.Function)
	}
	return nil
}

func (r *Roles) resolveFilters(p *an.Prog) {
	fn := p.Func("filters.AddStandardFilters")
	if fn == nil {
		r.problem("filters.AddStandardFilters not found")
		return
	}
	eachCallInUnit(p, fn, func(ci ssa.CallInstruction) {
		c := ci.Common()
		name := ""
		if c.IsInvoke() {
			name = c.Method.Name()
		} else if f := c.StaticCallee(); f != nil {
			name = f.Name()
		}
		if name != "AddFilter" || len(c.Args) != 2 {
			return
		}
		fname, ok := an.ConstString(c.Args[0])
		if !ok {
			// registered from a table of {name, function} rows
			if rows := tableRows(c.Args[0], c.Args[1]); len(rows) > 0 {
				for _, row := range rows {
					flt := &Filter{Name: row.name, Fn: row.fn, Sig: row.fn.Signature, Pos: ci.Pos(), InMod: p.InModule(row.fn)}
					r.Filters = append(r.Filters, flt)
					if r.FilterByFn[row.fn] == nil {
						r.FilterByFn[row.fn] = flt
					}
				}
				return
			}
			r.problem("AddFilter with a non-constant name at %s", p.Pos(ci.Pos()))
			return
		}
		f := funcValue(c.Args[1])
		if f == nil {
			// an adapter: a function of the module that returns the filter as a closure
			if ac := an.CallOf(an.Strip(c.Args[1])); ac != nil {
				if callee := ac.StaticCallee(); callee != nil && p.InModule(callee) {
					f = returnedClosure(callee)
				}
			}
		}
		if f == nil {
			r.problem("AddFilter(%q): function value not resolved at %s", fname, p.Pos(ci.Pos()))
			return
		}
		flt := &Filter{Name: fname, Fn: f, Sig: f.Signature, Pos: ci.Pos(), InMod: p.InModule(f)}
		r.Filters = append(r.Filters, flt)
		if r.FilterByFn[f] == nil {
			r.FilterByFn[f] = flt
		}
	})
	sort.Slice(r.Filters, func(i, j int) bool { return r.Filters[i].Name < r.Filters[j].Name })
}

// returnedClosure finds the closure literal that fn returns as its first
// result (looking through a named result cell).
func returnedClosure(fn *ssa.Function) *ssa.Function {
	if fn == nil || fn.Blocks == nil {
		return nil
	}
	var found *ssa.Function
	an.EachInstr(fn, func(in ssa.Instruction) {
		ret, ok := in.(*ssa.Return)
		if !ok || len(ret.Results) == 0 {
			return
		}
		for _, o := range an.Origins(ret.Results[0], an.StepValue) {
			if mc, ok := o.(*ssa.MakeClosure); ok {
				found = unwrapBound(mc.Fn.(*ssa.Function))
			} else if f, ok := o.(*ssa.Function); ok {
				found = unwrapBound(f) // a literal without captures, or a named function returned as the renderer
			}
		}
	})
	return found
}

// unwrapBound: a method value x.m is a closure over a synthetic wrapper that only calls the
// method; the role belongs to the method.
func unwrapBound(fn *ssa.Function) *ssa.Function {
	for depth := 0; depth < 3 && fn != nil && fn.Synthetic != "" && fn.Blocks != nil; depth++ {
		var callee *ssa.Function
		n := 0
		an.EachInstr(fn, func(in ssa.Instruction) {
			if c, ok := in.(*ssa.Call); ok {
				n++
				callee = c.Call.StaticCallee()
			}
		})
		if n != 1 || callee == nil {
			return fn
		}
		fn = callee
	}
	return fn
}

func (r *Roles) resolveTags(p *an.Prog) {
	fn := p.Func("tags.AddStandardTags")
	if fn == nil {
		r.problem("tags.AddStandardTags not found")
		return
	}
	blocks := map[ssa.Value][]*Block{} // builder value -> block(s) registered by that call
	eachCallInUnit(p, fn, func(ci ssa.CallInstruction) {
		c := ci.Common()
		callee := c.StaticCallee()
		if callee == nil {
			return
		}
		switch callee.Name() {
		case "AddTag":
			args := c.Args
			if len(args) != 3 {
				return
			}
			names, ok := constStrings(args[1])
			comp := funcValue(args[2])
			if !ok || comp == nil {
				// registration from a table: for _, t := range []struct{name; compiler}{...} { AddTag(t.name, t.compiler) }
				if rows := tableRows(args[1], args[2]); len(rows) > 0 {
					for _, row := range rows {
						r.Tags = append(r.Tags, &Tag{Name: row.name, Compiler: row.fn, Renderer: returnedClosure(row.fn), Pos: ci.Pos()})
					}
					return
				}
				r.problem("AddTag not resolved at %s", p.Pos(ci.Pos()))
				return
			}
			for _, name := range names {
				r.Tags = append(r.Tags, &Tag{Name: name, Compiler: comp, Renderer: returnedClosure(comp), Pos: ci.Pos()})
			}
		case "AddBlock":
			names, ok := constStrings(c.Args[len(c.Args)-1])
			if !ok {
				r.problem("AddBlock with non-constant name at %s", p.Pos(ci.Pos()))
				return
			}
			var group []*Block
			for _, name := range names {
				b := &Block{Name: name, Pos: ci.Pos()}
				r.Blocks = append(r.Blocks, b)
				group = append(group, b)
			}
			if v := ci.Value(); v != nil {
				blocks[v] = group
			}
		case "Clause":
			group := blocks[c.Args[0]]
			names, ok := constStrings(c.Args[len(c.Args)-1])
			if group == nil || !ok {
				r.problem("Clause call not resolved at %s", p.Pos(ci.Pos()))
				return
			}
			for _, b := range group {
				b.Clauses = append(b.Clauses, names...)
			}
			if v := ci.Value(); v != nil {
				blocks[v] = group
			}
		case "Compiler":
			group := blocks[c.Args[0]]
			if group == nil {
				r.problem("Compiler call not resolved at %s", p.Pos(ci.Pos()))
				return
			}
			arg := an.Strip(c.Args[len(c.Args)-1])
			var compiler *ssa.Function
			var cargs []ssa.Value
			if comp := funcValue(arg); comp != nil {
				compiler = comp
			} else if call, ok := arg.(*ssa.Call); ok && call.Call.StaticCallee() != nil {
				// factory: ifTagCompiler(true) returns the compiler closure
				compiler = returnedClosure(call.Call.StaticCallee())
				cargs = call.Call.Args
			}
			if compiler == nil {
				r.problem("block %q: compiler not resolved at %s", group[0].Name, p.Pos(ci.Pos()))
				return
			}
			for _, b := range group {
				b.Compiler, b.CompilerArgs = compiler, cargs
				b.Renderer = returnedClosure(compiler)
			}
		}
	})
}

func isNamedIn(t types.Type, pkgRel, name string) bool {
	n, ok := t.(*types.Named)
	if !ok {
		return false
	}
	return n.Obj().Name() == name && n.Obj().Pkg() != nil && an.IsModulePkg(n.Obj().Pkg()) && an.RelPkg(n.Obj().Pkg().Path()) == pkgRel
}

func isPkgType(t types.Type, pkgPath, name string) bool {
	n, ok := t.(*types.Named)
	if !ok {
		return false
	}
	return n.Obj().Name() == name && n.Obj().Pkg() != nil && n.Obj().Pkg().Path() == pkgPath
}

// IsRendererSig: func(io.Writer, render.Context) error.
func IsRendererSig(s *types.Signature) bool {
	if s.Params().Len() != 2 || s.Results().Len() != 1 {
		return false
	}
	return isPkgType(s.Params().At(0).Type(), "io", "Writer") &&
		isNamedIn(s.Params().At(1).Type(), "render", "Context") &&
		an.IsErrorType(s.Results().At(0).Type())
}

// IsEvaluatorSig: func(expressions.Context) values.Value.
func IsEvaluatorSig(s *types.Signature) bool {
	if s.Params().Len() != 1 || s.Results().Len() != 1 {
		return false
	}
	return isNamedIn(s.Params().At(0).Type(), "expressions", "Context") &&
		isNamedIn(s.Results().At(0).Type(), "values", "Value")
}

func (r *Roles) resolveClosures(p *an.Prog) {
	for _, f := range p.Funcs {
		if f.Parent() == nil {
			continue
		}
		if IsRendererSig(f.Signature) {
			r.Renderers = append(r.Renderers, f)
		}
		if IsEvaluatorSig(f.Signature) {
			r.Evaluators = append(r.Evaluators, f)
		}
	}
}

// reachesPanic reports whether a Panic instruction is reachable from block b
// (inclusive) without leaving the function.
func reachesPanic(b *ssa.BasicBlock) bool {
	seen := map[*ssa.BasicBlock]bool{}
	var dfs func(*ssa.BasicBlock) bool
	dfs = func(b *ssa.BasicBlock) bool {
		if seen[b] {
			return false
		}
		seen[b] = true
		for _, in := range b.Instrs {
			if _, ok := in.(*ssa.Panic); ok {
				return true
			}
		}
		for _, s := range b.Succs {
			if dfs(s) {
				return true
			}
		}
		return false
	}
	return dfs(b)
}

func (r *Roles) resolveBoundaries(p *an.Prog) {
	for _, f := range p.Funcs {
		var b *Boundary
		sawCall := false
		an.EachInstr(f, func(in ssa.Instruction) {
			switch x := in.(type) {
			case *ssa.Defer:
				cl := funcValue(x.Call.Value)
				if cl == nil || !p.InModule(cl) {
					return
				}
				var rec ssa.Value
				an.EachInstr(cl, func(in ssa.Instruction) {
					if c, ok := in.(*ssa.Call); ok {
						if bi, ok := c.Call.Value.(*ssa.Builtin); ok && bi.Name() == "recover" {
							rec = c
						}
					}
				})
				if rec == nil {
					return
				}
				b = &Boundary{Fn: f, Closure: cl, DeferEarly: !sawCall && in.Block() == f.Blocks[0]}
				// handled set: comma-ok assertions on the recovered value
				an.EachInstr(cl, func(in ssa.Instruction) {
					ta, ok := in.(*ssa.TypeAssert)
					if !ok || !ta.CommaOk {
						return
					}
					if !an.Reaches(ta.X, an.StepValue, func(v ssa.Value) bool { return v == rec }) {
						return
					}
					// find the If on the ok component
					refs := ta.Referrers()
					if refs == nil {
						return
					}
					for _, u := range *refs {
						ex, ok := u.(*ssa.Extract)
						if !ok || ex.Index != 1 || ex.Referrers() == nil {
							continue
						}
						for _, uu := range *ex.Referrers() {
							if ifi, ok := uu.(*ssa.If); ok {
								if !reachesPanic(ifi.Block().Succs[0]) {
									b.Handled = append(b.Handled, ta.AssertedType)
								}
							}
						}
					}
				})
			case *ssa.Call:
				sawCall = true
			}
		})
		if b != nil {
			r.helperHandled(p, b)
			r.Boundaries = append(r.Boundaries, b)
		}
	}
}

// helperHandled: the boundary's closure hands the recovered value to a module function that sorts
// panics into those that become an error (a non-nil result for the types it recognises) and the rest
// (nil), and returns that error when it is not nil. The recognised types are handled types.
func (r *Roles) helperHandled(p *an.Prog, b *Boundary) {
	cl := b.Closure
	var rec ssa.Value
	an.EachInstr(cl, func(in ssa.Instruction) {
		if c, ok := in.(*ssa.Call); ok {
			if bi, ok := c.Call.Value.(*ssa.Builtin); ok && bi.Name() == "recover" {
				rec = c
			}
		}
	})
	if rec == nil {
		return
	}
	an.EachInstr(cl, func(in ssa.Instruction) {
		c, ok := in.(*ssa.Call)
		if !ok {
			return
		}
		h := c.Call.StaticCallee()
		if h == nil || h.Blocks == nil || !p.InModule(h) {
			return
		}
		if h.Signature.Results().Len() == 2 {
			r.helperHandledOK(p, b, c, h, rec)
			return
		}
		if h.Signature.Results().Len() != 1 {
			return
		}
		argIdx := -1
		for i, a := range c.Call.Args {
			if an.Reaches(a, an.StepValue, func(v ssa.Value) bool { return v == rec }) {
				argIdx = i
			}
		}
		if argIdx < 0 || argIdx >= len(h.Params) {
			return
		}
		// the result is tested against nil and the non-nil side does not panic
		usedAsError := false
		if c.Referrers() != nil {
			for _, u := range *c.Referrers() {
				bo, ok := u.(*ssa.BinOp)
				if !ok || bo.Referrers() == nil || !(an.IsNilConst(bo.X) || an.IsNilConst(bo.Y)) {
					continue
				}
				for _, uu := range *bo.Referrers() {
					if ifi, ok := uu.(*ssa.If); ok {
						nonNil := ifi.Block().Succs[0]
						if bo.Op == token.EQL {
							nonNil = ifi.Block().Succs[1]
						}
						if !reachesPanic(nonNil) {
							usedAsError = true
						}
					}
				}
			}
		}
		if !usedAsError {
			return
		}
		par := h.Params[argIdx]
		an.EachInstr(h, func(in ssa.Instruction) {
			ta, ok := in.(*ssa.TypeAssert)
			if !ok || !ta.CommaOk || ta.X != ssa.Value(par) || ta.Referrers() == nil {
				return
			}
			for _, u := range *ta.Referrers() {
				ex, ok := u.(*ssa.Extract)
				if !ok || ex.Index != 1 || ex.Referrers() == nil {
					continue
				}
				for _, uu := range *ex.Referrers() {
					ifi, ok := uu.(*ssa.If)
					if !ok {
						continue
					}
					// on the ok side every return carries a value that is not the nil constant
					okSide := ifi.Block().Succs[0]
					good, n := true, 0
					an.EachInstr(h, func(in2 ssa.Instruction) {
						ret, isRet := in2.(*ssa.Return)
						if !isRet || !okSide.Dominates(ret.Block()) {
							return
						}
						n++
						if an.IsNilConst(resultsOf(ret)[0]) {
							good = false
						}
					})
					if good && n > 0 {
						b.Handled = append(b.Handled, ta.AssertedType)
					}
				}
			}
		})
	})
}

// BoundaryOf returns the boundary record of fn, if fn is one.
func (r *Roles) BoundaryOf(fn *ssa.Function) *Boundary {
	for _, b := range r.Boundaries {
		if b.Fn == fn {
			return b
		}
	}
	return nil
}

// Label names a function by its role when it has one (stable under
// renumbering of anonymous functions), else by its short name.
func (r *Roles) Label(fn *ssa.Function) string {
	if f := r.FilterByFn[fn]; f != nil {
		return f.Label()
	}
	for _, t := range r.Tags {
		if t.Renderer == fn {
			return "tag:" + t.Name + " renderer"
		}
		if t.Compiler == fn {
			return "tag:" + t.Name + " compiler"
		}
	}
	for _, b := range r.Blocks {
		if b.Renderer == fn {
			return "block:" + b.Name + " renderer"
		}
	}
	return an.FuncName(fn)
}

// eachCallInUnit visits the calls of fn and of the helpers only it uses (a registration routine
// split into several functions).
func eachCallInUnit(p *an.Prog, fn *ssa.Function, f func(ssa.CallInstruction)) {
	for _, u := range unitWithHelpers(p, fn) {
		an.EachCall(u, f)
	}
}

type tableRow struct {
	name string
	fn   *ssa.Function
}

// tableRows: nameArg and fnArg are two fields of the element of a range over a slice literal of
// structs; the rows of the literal, each with a constant name and a function, are returned.
func tableRows(nameArg, fnArg ssa.Value) []tableRow {
	elemField := func(v ssa.Value) (*ssa.Alloc, int, bool) {
		// v = *(&elem.field) or Field(elemValue, k), with elem = literal[rangeindex]
		v = an.Strip(v)
		var base ssa.Value
		field := -1
		switch x := v.(type) {
		case *ssa.UnOp:
			if fa, ok := x.X.(*ssa.FieldAddr); ok {
				base, field = fa.X, fa.Field
			}
		case *ssa.Field:
			base, field = x.X, x.Field
		}
		if base == nil {
			return nil, 0, false
		}
		// the element: a local copy of literal[i], or &literal[i], or the loaded value
		for _, o := range an.Origins(base, func(v ssa.Value) []ssa.Value {
			if al, ok := v.(*ssa.Alloc); ok {
				return an.Stores(al)
			}
			return an.StepValue(v)
		}) {
			var ia *ssa.IndexAddr
			switch y := o.(type) {
			case *ssa.IndexAddr:
				ia = y
			case *ssa.UnOp:
				if z, ok := y.X.(*ssa.IndexAddr); ok {
					ia = z
				}
			}
			if ia == nil || !isForwardRangeIndex(ia.Index) {
				continue
			}
			if sl, ok := ia.X.(*ssa.Slice); ok {
				if al, ok := sl.X.(*ssa.Alloc); ok {
					return al, field, true
				}
			}
			// a package-level table: the literal is built by the package initialiser
			if ld, ok := ia.X.(*ssa.UnOp); ok {
				if g, ok := ld.X.(*ssa.Global); ok && g.Pkg != nil {
					if init := g.Pkg.Func("init"); init != nil {
						var lit *ssa.Alloc
						n := 0
						an.EachInstr(init, func(in ssa.Instruction) {
							if st, ok := in.(*ssa.Store); ok && st.Addr == ssa.Value(g) {
								n++
								if sl, ok := st.Val.(*ssa.Slice); ok {
									if al, ok := sl.X.(*ssa.Alloc); ok {
										lit = al
									}
								}
							}
						})
						if lit != nil && n == 1 && len(an.GlobalStores(g)) == 1 {
							return lit, field, true
						}
					}
				}
			}
		}
		return nil, 0, false
	}
	lit, nameField, ok1 := elemField(nameArg)
	lit2, fnField, ok2 := elemField(fnArg)
	if !ok1 || !ok2 || lit != lit2 || lit.Referrers() == nil {
		return nil
	}
	byRow := map[int64]*tableRow{}
	complete := true
	for _, u := range *lit.Referrers() {
		ia, ok := u.(*ssa.IndexAddr)
		if !ok || ia.Referrers() == nil {
			continue
		}
		k, isC := an.ConstInt(ia.Index)
		if !isC {
			complete = false
			continue
		}
		for _, uu := range *ia.Referrers() {
			fa, ok := uu.(*ssa.FieldAddr)
			if !ok {
				continue
			}
			for _, sv := range an.Stores(fa) {
				row := byRow[k]
				if row == nil {
					row = &tableRow{}
					byRow[k] = row
				}
				switch fa.Field {
				case nameField:
					if n, ok := an.ConstString(sv); ok {
						row.name = n
					}
				case fnField:
					row.fn = funcValue(sv)
				}
			}
		}
	}
	if !complete {
		return nil
	}
	var out []tableRow
	for k := int64(0); k < int64(len(byRow)); k++ {
		row := byRow[k]
		if row == nil || row.name == "" || row.fn == nil {
			return nil
		}
		out = append(out, *row)
	}
	return out
}

// helperHandledOK: the classifier shape `err, ok := classify(r); if !ok { panic(r) }; result = err`: the
// helper answers (error, true) for the types it recognises and (nil, false) for the rest; the boundary
// re-panics exactly when ok is false.
func (r *Roles) helperHandledOK(p *an.Prog, b *Boundary, c *ssa.Call, h *ssa.Function, rec ssa.Value) {
	if !isBoolType(h.Signature.Results().At(1).Type()) {
		return
	}
	argIdx := -1
	for i, a := range c.Call.Args {
		if an.Reaches(a, an.StepValue, func(v ssa.Value) bool { return v == rec }) {
			argIdx = i
		}
	}
	if argIdx < 0 || argIdx >= len(h.Params) || c.Referrers() == nil {
		return
	}
	// the ok result decides: its true side does not panic
	decided := false
	for _, u := range *c.Referrers() {
		ex, ok := u.(*ssa.Extract)
		if !ok || ex.Index != 1 || ex.Referrers() == nil {
			continue
		}
		for _, uu := range *ex.Referrers() {
			if ifi, ok := uu.(*ssa.If); ok && !reachesPanic(ifi.Block().Succs[0]) {
				decided = true
			}
			if un, ok := uu.(*ssa.UnOp); ok && un.Op == token.NOT && un.Referrers() != nil {
				for _, u3 := range *un.Referrers() {
					if ifi, ok := u3.(*ssa.If); ok && !reachesPanic(ifi.Block().Succs[1]) {
						decided = true
					}
				}
			}
		}
	}
	if !decided {
		return
	}
	par := h.Params[argIdx]
	// type-switch arms (comma-ok assertions of the parameter) on whose ok side every return answers true
	an.EachInstr(h, func(in ssa.Instruction) {
		ta, ok := in.(*ssa.TypeAssert)
		if !ok || !ta.CommaOk || ta.X != ssa.Value(par) || ta.Referrers() == nil {
			return
		}
		for _, u := range *ta.Referrers() {
			ex, ok := u.(*ssa.Extract)
			if !ok || ex.Index != 1 || ex.Referrers() == nil {
				continue
			}
			for _, uu := range *ex.Referrers() {
				ifi, ok := uu.(*ssa.If)
				if !ok {
					continue
				}
				okSide := ifi.Block().Succs[0]
				good, n := true, 0
				an.EachInstr(h, func(in2 ssa.Instruction) {
					ret, isRet := in2.(*ssa.Return)
					if !isRet || !okSide.Dominates(ret.Block()) {
						return
					}
					n++
					res := resultsOf(ret)
					if cb, isC := an.ConstBool(res[1]); !isC || !cb {
						good = false
					}
				})
				if good && n > 0 {
					b.Handled = append(b.Handled, ta.AssertedType)
				}
			}
		}
	})
}

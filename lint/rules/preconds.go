package rules

import (
	"fmt"
	"go/token"
	"go/types"
	"strings"

	"golang.org/x/tools/go/ssa"

	"lv/an"
)

// Rules P3–P8, P10: preconditions of operations that panic, on values that
// may hold caller data.

func init() {
	register("P3", "a single-result type assertion on a value that may hold caller data is preceded by a test establishing that exact type", runP3)
	register("P4", "a method is never called on reflect.TypeOf(v) (nor a content accessor on reflect.ValueOf(v)) when v may be nil", runP4)
	register("P5", "the key handed to reflect.Value.MapIndex is established assignable to the map's key type", runP5)
	register("P6", "== / != / map indexing on two interface values is never evaluated when both may hold the same uncomparable dynamic type", runP6)
	register("P7", "regexp.MustCompile outside package initialisers takes a constant, or a pattern assembled only from constants and QuoteMeta results", runP7)
	register("P8", "a non-constant size given to make/reflect.MakeSlice is non-negative", runP8)
	register("P10", "an integer division or remainder with a non-constant divisor is guarded against zero", runP10)
}

// sameValue: a and b denote the same runtime value: identical SSA values, or
// loads of the same local cell / free variable.
func sameValue(a, b ssa.Value) bool {
	return sameValueD(a, b, 0)
}

func sameValueD(a, b ssa.Value, depth int) bool {
	if a == b {
		return true
	}
	if depth > 4 {
		return false
	}
	switch x := a.(type) {
	case *ssa.UnOp:
		y, ok := b.(*ssa.UnOp)
		if !ok || x.Op != token.MUL || y.Op != token.MUL {
			return false
		}
		if x.X == y.X {
			switch x.X.(type) {
			case *ssa.Alloc, *ssa.FreeVar:
				return true
			}
		}
		// loads of the same field of the same object, with no store to that field in the function
		fx, ok1 := x.X.(*ssa.FieldAddr)
		fy, ok2 := y.X.(*ssa.FieldAddr)
		if ok1 && ok2 && fx.Field == fy.Field && sameValueD(fx.X, fy.X, depth+1) {
			return !fieldWritten(x.Parent(), fx)
		}
	case *ssa.Field:
		y, ok := b.(*ssa.Field)
		return ok && x.Field == y.Field && sameValueD(x.X, y.X, depth+1)
	case *ssa.FieldAddr:
		// the address of the same field of the same object (a path through nested structs)
		y, ok := b.(*ssa.FieldAddr)
		return ok && x.Field == y.Field && sameValueD(x.X, y.X, depth+1)
	}
	return false
}

// fieldWritten: some store in fn targets the same field of the same struct type.
func fieldWritten(fn *ssa.Function, fa *ssa.FieldAddr) bool {
	found := false
	an.EachInstr(fn, func(in ssa.Instruction) {
		if st, ok := in.(*ssa.Store); ok {
			if f2, ok := st.Addr.(*ssa.FieldAddr); ok && f2.Field == fa.Field && types.Identical(f2.X.Type(), fa.X.Type()) {
				found = true
			}
		}
	})
	return found
}

// nonNilKnown: v is statically known not to be a nil interface.
func nonNilKnown(v ssa.Value) bool {
	switch x := v.(type) {
	case *ssa.MakeInterface:
		return true
	case *ssa.Const:
		return x.Value != nil
	case *ssa.Phi:
		for _, e := range x.Edges {
			if !nonNilKnown(e) {
				return false
			}
		}
		return true
	}
	return false
}

// guardedNonNil: on every path to in, v != nil.
func guardedNonNil(in ssa.Instruction, v ssa.Value) bool {
	if nonNilKnown(v) {
		return true
	}
	for _, g := range an.GuardsAtInstr(in) {
		b, ok := g.Cond.(*ssa.BinOp)
		if !ok {
			continue
		}
		wantTrue := b.Op == token.NEQ
		if b.Op != token.NEQ && b.Op != token.EQL {
			continue
		}
		if g.True != wantTrue {
			continue
		}
		if (sameValue(b.X, v) && an.IsNilConst(b.Y)) || (sameValue(b.Y, v) && an.IsNilConst(b.X)) {
			return true
		}
	}
	// a successful comma-ok assertion or a type-switch arm also proves non-nil
	for _, g := range an.GuardsAtInstr(in) {
		if ex, ok := g.Cond.(*ssa.Extract); ok && ex.Index == 1 && g.True {
			if ta, ok := ex.Tuple.(*ssa.TypeAssert); ok && sameValue(ta.X, v) {
				return true
			}
		}
	}
	// a module helper that answers true for nil said false: `if x, ok := interned(v); ok { return x }`
	for _, g := range an.GuardsAtInstr(in) {
		if g.True {
			continue
		}
		ex, ok := g.Cond.(*ssa.Extract)
		if !ok {
			continue
		}
		call, ok := ex.Tuple.(*ssa.Call)
		if !ok {
			continue
		}
		h := call.Call.StaticCallee()
		if h == nil || h.Blocks == nil {
			continue
		}
		for i, a := range call.Call.Args {
			if i < len(h.Params) && (a == v || sameValue(a, v)) && trueForNil(h, i, ex.Index) {
				return true
			}
		}
	}
	return false
}

// trueForNil: whenever parameter pi of h is nil, result ri of h is true: every return either carries the
// constant true there, or is reached only past a failed comparison of the parameter with nil.
func trueForNil(h *ssa.Function, pi, ri int) bool {
	par := h.Params[pi]
	if !an.IsInterface(par.Type()) {
		return false
	}
	notNil := func(cond ssa.Value, taken bool) bool {
		b, ok := cond.(*ssa.BinOp)
		if !ok {
			return false
		}
		if !(b.Op == token.EQL && !taken || b.Op == token.NEQ && taken) {
			return false
		}
		return b.X == ssa.Value(par) && an.IsNilConst(b.Y) || b.Y == ssa.Value(par) && an.IsNilConst(b.X)
	}
	good, n := true, 0
	an.EachInstr(h, func(in ssa.Instruction) {
		ret, ok := in.(*ssa.Return)
		if !ok {
			return
		}
		n++
		res := resultsOf(ret)
		if ri >= len(res) {
			good = false
			return
		}
		if c, isC := an.ConstBool(res[ri]); isC && c {
			return
		}
		if !an.AllPathsGuarded(ret.Block(), notNil) {
			good = false
		}
	})
	return good && n > 0
}

// ---------------------------------------------------------------------------
// P3

func runP3(p *an.Prog, r *an.Result) {
	roles := GetRoles(p)
	noClosureParams := len(closureParamFilters(p, roles)) == 0
	for _, fn := range p.Funcs {
		if isMainPkg(fn) {
			continue
		}
		name := roles.Label(fn)
		an.EachInstr(fn, func(in ssa.Instruction) {
			ta, ok := in.(*ssa.TypeAssert)
			if !ok || ta.CommaOk {
				return
			}
			r.Counts["single-result assertions"]++
			construct := fmt.Sprintf("%s.(%s)", describe(p, ta.X), an.TypeName(ta.AssertedType))
			xt := ta.X.Type()
			it, _ := xt.Underlying().(*types.Interface)
			if it != nil && it.NumMethods() > 0 && !an.IsErrorType(xt) {
				// a module interface: fine when the asserted type is its only implementer
				impls := 0
				okImpl := false
				for _, n := range moduleNamedTypes(p) {
					if an.IsInterface(n) {
						continue
					}
					for _, tt := range []types.Type{n, types.NewPointer(n)} {
						if types.Implements(tt, it) {
							impls++
							if types.Identical(tt, ta.AssertedType) {
								okImpl = true
							}
							break
						}
					}
				}
				if okImpl && impls == 1 {
					r.OK(name, construct, ta.Pos(), "the asserted type is the only implementer of "+an.TypeName(xt)+" in the module")
					return
				}
				if why := resultTypeByArgument(p, ta); why != "" {
					r.OK(name, construct, ta.Pos(), why)
					return
				}
				r.Bad(name, construct, ta.Pos(), fmt.Sprintf("unchecked assertion on %s, which has %d implementers: which one arrives is decided at run time", an.TypeName(xt), impls))
				return
			}
			// operand of type any/error: statically known dynamic type?
			known := true
			for _, o := range an.Origins(ta.X, an.StepValue) {
				mi, ok := o.(*ssa.MakeInterface)
				if !ok || !types.Identical(mi.X.Type(), ta.AssertedType) {
					known = false
				}
			}
			if known {
				r.Triv(name, construct, ta.Pos(), "the operand is made from a value of that type in this function")
				return
			}
			// a value handed back by a library container the module filled itself (sync.Pool,
			// sync.Map, atomic.Value, context) is module data, not caller data
			lib := true
			for _, o := range an.Origins(ta.X, an.StepValue) {
				c := an.CallOf(o)
				if ex, ok := o.(*ssa.Extract); ok {
					c = an.CallOf(ex.Tuple)
				}
				if c == nil {
					lib = false
					continue
				}
				cn := an.CallName(c)
				if !(strings.HasPrefix(cn, "(*sync.") || strings.HasPrefix(cn, "(*sync/atomic.") || strings.HasPrefix(cn, "(context.") || strings.HasPrefix(cn, "(*container/")) {
					lib = false
				}
			}
			if lib {
				r.Triv(name, construct, ta.Pos(), "the operand comes out of a library container that only the module fills")
				return
			}
			for _, g := range an.GuardsAtInstr(ta) {
				if g.True && impliesClosureType(p, g.Cond, 0) && noClosureParams {
					r.OK(name, construct, ta.Pos(), "dead: control-dependent on isClosureInterfaceType(param type), false for every registered filter signature (rule F4)")
					return
				}
				// dominated by a successful comma-ok assertion of the same value to the same type
				if ex, ok := g.Cond.(*ssa.Extract); ok && ex.Index == 1 && g.True {
					if t2, ok := ex.Tuple.(*ssa.TypeAssert); ok && sameValue(t2.X, ta.X) && types.Identical(t2.AssertedType, ta.AssertedType) {
						r.OK(name, construct, ta.Pos(), "dominated by a successful checked assertion to the same type")
						return
					}
				}
			}
			// asserting an interface under a type switch whose arms are types that implement it
			if it2, isIface := ta.AssertedType.Underlying().(*types.Interface); isIface {
				if an.AllPathsGuarded(ta.Block(), func(cond ssa.Value, taken bool) bool {
					ex, ok := cond.(*ssa.Extract)
					if !ok || ex.Index != 1 || !taken {
						return false
					}
					t2, ok := ex.Tuple.(*ssa.TypeAssert)
					if !ok || !sameValue(t2.X, ta.X) {
						return false
					}
					return types.Implements(t2.AssertedType, it2)
				}) {
					r.OK(name, construct, ta.Pos(), "every path passed a successful type test of the same value for a type that implements the asserted interface")
					return
				}
			}
			r.Bad(name, construct, ta.Pos(), fmt.Sprintf("%s asserts %s without a type test on the same value; the operand can hold caller data (a reflect.Kind test does not establish the type: named types share kinds), so a binding of another type panics here", an.FuncName(fn), construct))
		})
	}
}

// ---------------------------------------------------------------------------
// P4

var reflectValuePanicsOnZero = map[string]bool{
	"Type": true, "Len": true, "Index": true, "MapIndex": true, "MapKeys": true, "MapRange": true, "Interface": true,
	"Convert": true, "IsNil": true, "Elem": true, "Field": true, "NumField": true, "FieldByName": true, "Call": true,
	"Int": true, "Uint": true, "Float": true, "Bool": true, "Cap": true, "Slice": true, "Set": true, "NumMethod": true, "MethodByName": true,
}

// kindGuarded: a dominating test involves Kind() of a reflect value/type
// derived from v, or IsValid() of rv.
func kindGuarded(in ssa.Instruction, rv ssa.Value) bool {
	pred := func(cond ssa.Value, taken bool) bool {
		return condMentions(cond, func(x ssa.Value) bool {
			c := an.CallOf(x)
			if c == nil {
				return false
			}
			n := an.CallName(c)
			if n == "(reflect.Value).Kind" || n == "(reflect.Value).IsValid" {
				return sameValue(c.Args[0], rv) || c.Args[0] == rv
			}
			return false
		}, 0)
	}
	for _, g := range an.GuardsAtInstr(in) {
		if pred(g.Cond, g.True) {
			return true
		}
	}
	return an.AllPathsGuarded(in.Block(), pred)
}

// condMentions walks the operands of a condition expression.
func condMentions(v ssa.Value, pred func(ssa.Value) bool, depth int) bool {
	if v == nil || depth > 6 {
		return false
	}
	if pred(v) {
		return true
	}
	switch x := v.(type) {
	case *ssa.BinOp:
		return condMentions(x.X, pred, depth+1) || condMentions(x.Y, pred, depth+1)
	case *ssa.UnOp:
		return condMentions(x.X, pred, depth+1)
	case *ssa.Phi:
		for _, e := range x.Edges {
			if condMentions(e, pred, depth+1) {
				return true
			}
		}
	case *ssa.Call:
		for _, a := range an.Args(&x.Call) {
			if condMentions(a, pred, depth+1) {
				return true
			}
		}
	case *ssa.Convert:
		return condMentions(x.X, pred, depth+1)
	case *ssa.ChangeType:
		return condMentions(x.X, pred, depth+1)
	}
	return false
}

func runP4(p *an.Prog, r *an.Result) {
	roles := GetRoles(p)
	runReach := reach(p, roles, runPhaseEntries(p), nil)
	shared := sharedTypes(p)
	// configOrigin: the value is looked up in a map held by a configuration struct
	configOrigin := func(v ssa.Value) bool {
		found := false
		for _, o := range an.Origins(v, an.StepValue) {
			var m ssa.Value
			switch x := o.(type) {
			case *ssa.Lookup:
				m = x.X
			case *ssa.Extract:
				if l, ok := x.Tuple.(*ssa.Lookup); ok {
					m = l.X
				}
			}
			if m == nil {
				return false
			}
			info := ownersOf(m, true)
			hit := false
			for _, n := range info.shared {
				if shared[n] {
					hit = true
				}
			}
			if !hit {
				return false
			}
			found = true
		}
		return found
	}
	for _, fn := range p.Funcs {
		if isMainPkg(fn) || an.IsInit(fn) {
			continue
		}
		if _, ok := runReach[fn]; !ok {
			r.Counts["functions not reachable at run phase (skipped)"]++
			continue
		}
		name := roles.Label(fn)
		an.EachInstr(fn, func(in ssa.Instruction) {
			call, ok := in.(*ssa.Call)
			if !ok {
				return
			}
			cn := an.CallName(&call.Call)
			if cn != "reflect.TypeOf" && cn != "reflect.ValueOf" {
				return
			}
			arg := call.Call.Args[0]
			refs := call.Referrers()
			if refs == nil {
				return
			}
			for _, u := range *refs {
				uc, ok := u.(*ssa.Call)
				if !ok {
					continue
				}
				ucn := an.CallName(&uc.Call)
				var method string
				switch {
				case cn == "reflect.TypeOf" && uc.Call.IsInvoke() && uc.Call.Value == ssa.Value(call):
					method = uc.Call.Method.Name()
				case cn == "reflect.ValueOf" && strings.HasPrefix(ucn, "(reflect.Value).") && len(uc.Call.Args) > 0 && uc.Call.Args[0] == ssa.Value(call):
					method = strings.TrimPrefix(ucn, "(reflect.Value).")
					if !reflectValuePanicsOnZero[method] {
						continue
					}
				default:
					continue
				}
				r.Counts["reflect receivers"]++
				construct := fmt.Sprintf("%s(%s).%s()", cn, describe(p, arg), method)
				switch {
				case !an.IsInterface(arg.Type()) || nonNilKnown(an.StripIface(arg)):
					r.Triv(name, construct, uc.Pos(), "the argument is statically non-nil")
				case configOrigin(arg):
					r.Triv(name, construct, uc.Pos(), "the argument is an entry of a configuration registry, not caller data")
				case guardedNonNil(uc, arg) || guardedNonNil(uc, an.StripIface(arg)):
					r.OK(name, construct, uc.Pos(), "dominated by a nil test (or a successful type test) on the argument")
				case cn == "reflect.ValueOf" && kindGuarded(uc, call):
					r.OK(name, construct, uc.Pos(), "dominated by a Kind()/IsValid() test of the same reflect.Value (the zero Value has Kind Invalid)")
				case wrapperKindInvariant(p, arg):
					r.OK(name, construct, uc.Pos(), "the argument is the value field of a container wrapper, which ValueOf constructs only for non-nil values of the matching kind (rule X7)")
				case allCallSites(p, arg, func(a ssa.Value, at ssa.Instruction) bool {
					return !an.IsInterface(a.Type()) || nonNilKnown(an.StripIface(a)) || wrapperKindInvariant(p, a) || guardedNonNil(at, a)
				}):
					r.OK(name, construct, uc.Pos(), "the argument is a parameter of an unexported function, non-nil at every call site (a container wrapper's value field, a statically non-nil value, or under a nil test)")
				default:
					what := "reflect.TypeOf(nil) is a nil Type"
					if cn == "reflect.ValueOf" {
						what = "reflect.ValueOf(nil) is the zero Value"
					}
					r.Bad(name, construct, uc.Pos(), fmt.Sprintf("%s: %s, and calling %s on it panics; nothing on the path establishes that %s is non-nil", an.FuncName(fn), what, method, describe(p, arg)))
				}
			}
		})
	}
	r.Floor("reflect receivers", 10)
	p4Elem(p, r)
}

// wrapperKindInvariant: v is a load of the `value` field of one of the
// values wrappers (arrayValue, mapValue, stringValue, structValue), or the
// result of their Interface() method on such a receiver.
func wrapperKindInvariant(p *an.Prog, v ssa.Value) bool {
	v = an.StripIface(v)
	isWrapper := func(t types.Type) bool {
		for _, n := range []string{"arrayValue", "mapValue", "stringValue", "structValue"} {
			if isNamedIn(t, "values", n) {
				return true
			}
		}
		return false
	}
	switch x := v.(type) {
	case *ssa.Field:
		// x.X is wrapperValue field of a container wrapper
		if f, ok := x.X.(*ssa.Field); ok {
			return isWrapper(f.X.Type())
		}
		if u, ok := x.X.(*ssa.UnOp); ok {
			if fa, ok := u.X.(*ssa.FieldAddr); ok {
				return isWrapper(fa.X.Type().Underlying().(*types.Pointer).Elem())
			}
		}
	case *ssa.UnOp:
		if fa, ok := x.X.(*ssa.FieldAddr); ok {
			if fa2, ok := fa.X.(*ssa.FieldAddr); ok {
				return isWrapper(fa2.X.Type().Underlying().(*types.Pointer).Elem())
			}
		}
	case *ssa.Call:
		if an.CallName(&x.Call) == "(values.wrapperValue).Interface" && len(x.Call.Args) == 1 {
			if f, ok := x.Call.Args[0].(*ssa.Field); ok {
				return isWrapper(f.X.Type())
			}
			if u, ok := x.Call.Args[0].(*ssa.UnOp); ok {
				if fa, ok := u.X.(*ssa.FieldAddr); ok {
					return isWrapper(fa.X.Type().Underlying().(*types.Pointer).Elem())
				}
			}
		}
	}
	return false
}

// ---------------------------------------------------------------------------
// P5

// typeOfValue: v is rv.Type() for the reflect.Value rv.
func isTypeOf(v ssa.Value, rv ssa.Value) bool {
	c := an.CallOf(v)
	return c != nil && an.CallName(c) == "(reflect.Value).Type" && sameRV(c.Args[0], rv)
}

func sameRV(a, b ssa.Value) bool {
	if sameValue(a, b) {
		return true
	}
	// reflect.ValueOf of the same argument
	ca, cb := an.CallOf(a), an.CallOf(b)
	if ca != nil && cb != nil && an.CallName(ca) == "reflect.ValueOf" && an.CallName(cb) == "reflect.ValueOf" {
		return sameValue(ca.Args[0], cb.Args[0])
	}
	return false
}

// isKeyTypeOf: v is m.Type().Key().
func isKeyTypeOf(v ssa.Value, m ssa.Value) bool {
	c := an.CallOf(v)
	if c == nil || an.CallName(c) != "(reflect.Type).Key" {
		return false
	}
	return isTypeOf(c.Value, m) || isTypeOfAny(c.Value, m)
}

func isTypeOfAny(v ssa.Value, m ssa.Value) bool {
	// phi / cell indirections
	for _, o := range an.Origins(v, an.StepValue) {
		if isTypeOf(o, m) {
			return true
		}
	}
	return false
}

func runP5(p *an.Prog, r *an.Result) {
	roles := GetRoles(p)
	for _, fn := range p.Funcs {
		if isMainPkg(fn) {
			continue
		}
		name := roles.Label(fn)
		an.EachInstr(fn, func(in ssa.Instruction) {
			call, ok := in.(*ssa.Call)
			if !ok || an.CallName(&call.Call) != "(reflect.Value).MapIndex" {
				return
			}
			r.Counts["MapIndex sites"]++
			m, k := call.Call.Args[0], call.Call.Args[1]
			construct := fmt.Sprintf("%s.MapIndex(%s)", describe(p, m), describe(p, k))
			// (a) key comes from the same map's key list
			fromKeys := false
			for _, o := range an.Origins(k, an.StepBase) {
				if c := an.CallOf(o); c != nil {
					n := an.CallName(c)
					if (n == "(reflect.Value).MapKeys" || c.StaticCallee() != nil && returnsKeyListOf(p, c.StaticCallee())) && sameRV(c.Args[0], m) {
						fromKeys = true
					}
				}
			}
			if fromKeys {
				r.OK(name, construct, call.Pos(), "the key is an element of the same map's key list")
				return
			}
			// (b) key is Convert(m.Type().Key())
			for _, o := range an.Origins(k, an.StepValue) {
				if c := an.CallOf(o); c != nil && an.CallName(c) == "(reflect.Value).Convert" {
					kt := c.Args[1]
					okT := false
					for _, ko := range an.Origins(kt, an.StepValue) {
						if isKeyTypeOf(ko, m) {
							okT = true
						}
					}
					if okT {
						r.OK(name, construct, call.Pos(), "the key is the result of Convert(map.Type().Key())")
						return
					}
				}
			}
			// (c) dominated by m.Type().Key() == k.Type(), or key kind String with a string-typed key
			for _, g := range an.GuardsAtInstr(call) {
				b, ok := g.Cond.(*ssa.BinOp)
				if !ok || !(b.Op == token.EQL && g.True || b.Op == token.NEQ && !g.True) {
					continue
				}
				for _, pair := range [][2]ssa.Value{{b.X, b.Y}, {b.Y, b.X}} {
					if isKeyTypeOf(pair[0], m) && isTypeOf(pair[1], k) {
						r.OK(name, construct, call.Pos(), "dominated by map.Type().Key() == key.Type()")
						return
					}
					// (a test that the key *kind* is String is not enough for a key made from a Go string: MapIndex
					// wants a value assignable to the key type, and a named string type is another type - this
					// clause used to accept it, and sort: "k" on a map[Name]any panicked; section 6)
				}
			}
			// (d) the key is the validated result of a helper (key, ok), used under ok: every successful
			// return of the helper yields a key of the type the helper was given, which is the map's key type
			if h := guardedHelperResult(p, k, call); h != nil {
				all := len(h.rets) > 0
				for _, ret := range h.rets {
					kv := resultsOf(ret)[0]
					okRet := false
					isKT := func(v ssa.Value) bool {
						prm, isP := v.(*ssa.Parameter)
						if !isP {
							return false
						}
						for i, fp := range h.fn.Params {
							if fp == prm && i < len(h.call.Call.Args) {
								return isKeyTypeOf(h.call.Call.Args[i], m)
							}
						}
						return false
					}
					if c := an.CallOf(kv); c != nil && an.CallName(c) == "(reflect.Value).Convert" && isKT(c.Args[1]) {
						okRet = true
					}
					if !okRet {
						okRet = an.AllPathsGuarded(ret.Block(), func(cond ssa.Value, taken bool) bool {
							b, ok := cond.(*ssa.BinOp)
							if !ok || !(b.Op == token.EQL && taken || b.Op == token.NEQ && !taken) {
								return false
							}
							for _, pair := range [][2]ssa.Value{{b.X, b.Y}, {b.Y, b.X}} {
								if isKT(pair[0]) && (isTypeOf(pair[1], kv) || isTypeOfAny(pair[1], kv)) {
									return true
								}
							}
							return false
						})
					}
					if !okRet {
						all = false
					}
				}
				if all {
					r.OK(name, construct, call.Pos(), "the key is the result of "+an.FuncName(h.fn)+", every successful return of which is Convert(key type) or passes key.Type() == key type")
					return
				}
			}
			r.Bad(name, construct, call.Pos(), fmt.Sprintf("%s calls MapIndex with a key whose type is not established assignable to the map's key type (no key-type comparison, no Convert to the key type, not one of the map's own keys): reflect panics for a map with another key type", an.FuncName(fn)))
		})
	}
	r.Floor("MapIndex sites", 2)
}

// ---------------------------------------------------------------------------
// P6

func comparableKnown(p *an.Prog, v ssa.Value) (bool, string) {
	// a value of a type parameter whose constraint admits basic types only (cmp.Ordered): == cannot panic
	if v == nil {
		return false, ""
	}
	if tp, ok := v.Type().(*types.TypeParam); ok && basicOnlyConstraint(tp) {
		return true, "a type parameter constrained to basic types"
	}
	switch x := v.(type) {
	case *ssa.Const:
		return true, "constant"
	case *ssa.MakeInterface:
		t := x.X.Type()
		if _, isStruct := t.Underlying().(*types.Struct); isStruct {
			// comparable struct types may still hold interface fields; accept only when built from a global of constants
			if u, ok := x.X.(*ssa.UnOp); ok {
				if g, ok := u.X.(*ssa.Global); ok && types.Comparable(t) && globalOfConstants(g) {
					return true, "module global " + g.Name() + " initialised from constants"
				}
			}
			return false, ""
		}
		if types.Comparable(t) && !an.IsInterface(t) {
			return true, "made from comparable type " + an.TypeName(t)
		}
	case *ssa.UnOp:
		if g, ok := x.X.(*ssa.Global); ok && x.Op == token.MUL {
			st := an.GlobalStores(g)
			if len(st) > 0 {
				all := true
				for _, s := range st {
					if ok, _ := comparableKnown(p, s); !ok {
						if c := an.CallOf(an.Strip(s)); c == nil || (an.CallName(c) != "errors.New" && an.CallName(c) != "fmt.Errorf") {
							all = false
						}
					}
				}
				if all {
					return true, "package-level variable " + g.Name() + " holding an errors.New value (a pointer)"
				}
			}
		}
	case *ssa.ChangeInterface:
		return comparableKnown(p, x.X)
	}
	return false, ""
}

func globalOfConstants(g *ssa.Global) bool {
	// every store into the global (whole or field-wise) is a constant
	pkg := g.Package()
	ok := true
	found := false
	for _, m := range pkg.Members {
		fn, isFn := m.(*ssa.Function)
		if !isFn {
			continue
		}
		an.EachInstr(fn, func(in ssa.Instruction) {
			st, isSt := in.(*ssa.Store)
			if !isSt {
				return
			}
			root := st.Addr
			for {
				if fa, isFA := root.(*ssa.FieldAddr); isFA {
					root = fa.X
					continue
				}
				break
			}
			if root != ssa.Value(g) {
				return
			}
			found = true
			if _, isConst := an.Strip(st.Val).(*ssa.Const); !isConst {
				ok = false
			}
		})
	}
	// a zero-initialised global (no stores) is also constant
	return ok || !found
}

func runP6(p *an.Prog, r *an.Result) {
	roles := GetRoles(p)
	rtype := func(t types.Type) bool { return isPkgType(t, "reflect", "Type") }
	for _, fn := range p.Funcs {
		if isMainPkg(fn) {
			continue
		}
		name := roles.Label(fn)
		check := func(in ssa.Instruction, a, b ssa.Value, construct string) {
			r.Counts["interface comparisons"]++
			if ok, _ := comparableKnown(p, a); ok {
				r.Counts["against a constant or comparable value"]++
				return
			}
			if ok, _ := comparableKnown(p, b); ok {
				r.Counts["against a constant or comparable value"]++
				return
			}
			if b != nil && rtype(a.Type()) && rtype(b.Type()) {
				r.OK(name, construct, an.InstrPos(in), "both operands are reflect.Type values (documented comparable)")
				return
			}
			if an.IsErrorType(a.Type()) && b != nil && an.IsErrorType(b.Type()) {
				// errors compared with sentinel errors: one side must be a sentinel global (handled above)
			}
			// per-path nil: every predecessor edge is the true edge of `x == nil` on an operand
			blk := in.Block()
			if b != nil && len(blk.Preds) > 0 {
				all := true
				for _, pr := range blk.Preds {
					ifi, ok := pr.Instrs[len(pr.Instrs)-1].(*ssa.If)
					if !ok {
						all = false
						break
					}
					cond, isBin := ifi.Cond.(*ssa.BinOp)
					taken := pr.Succs[0] == blk
					if !isBin || !(cond.Op == token.EQL && taken || cond.Op == token.NEQ && !taken) {
						all = false
						break
					}
					okOp := false
					for _, op := range []ssa.Value{a, b} {
						if (sameValue(cond.X, op) && an.IsNilConst(cond.Y)) || (sameValue(cond.Y, op) && an.IsNilConst(cond.X)) {
							okOp = true
						}
					}
					if !okOp {
						all = false
						break
					}
				}
				if all {
					r.OK(name, construct, an.InstrPos(in), "on every incoming path one operand is known to be nil")
					return
				}
			}
			// comparability guard on an operand: every path takes the true edge of a
			// Comparable() call on a reflect.Value/Type of one operand (one comparable side suffices)
			pred := func(cond ssa.Value, taken bool) bool {
				if bo, ok := cond.(*ssa.BinOp); ok && (bo.Op == token.EQL && taken || bo.Op == token.NEQ && !taken) {
					// the path establishes that an operand is nil: comparing (hashing) nil never panics
					for _, op := range []ssa.Value{a, b} {
						if op != nil && ((sameValue(bo.X, op) && an.IsNilConst(bo.Y)) || (sameValue(bo.Y, op) && an.IsNilConst(bo.X))) {
							return true
						}
					}
				}
				if !taken {
					return false
				}
				c := an.CallOf(cond)
				if c == nil {
					return false
				}
				n := an.CallName(c)
				// a module predicate that answers true only for nil or a comparable value: isMapKey(v)
				if callee := c.StaticCallee(); callee != nil && callee.Blocks != nil && p.InModule(callee) && len(callee.Params) == 1 && len(c.Args) == 1 && comparablePredicate(callee) {
					for _, op := range []ssa.Value{a, b} {
						if op != nil && (sameValue(c.Args[0], op) || derivesFromOperand(c.Args[0], op)) {
							return true
						}
					}
				}
				// only the value-level test is sound: reflect.Type.Comparable is true for arrays and
				// structs with interface elements, whose comparison still panics when an element
				// holds a slice or map
				if n != "(reflect.Value).Comparable" {
					return false
				}
				recv := an.Args(c)[0]
				for _, op := range []ssa.Value{a, b} {
					if op != nil && derivesFromOperand(recv, op) {
						return true
					}
					// the operand is rv.Interface() (possibly of a converted rv) and the test is on rv
					if op != nil {
						if rv := rvBehind(op); rv != nil && sameRV(recv, rv) {
							return true
						}
					}
				}
				return false
			}
			if an.AllPathsGuarded(in.Block(), pred) {
				r.OK(name, construct, an.InstrPos(in), "every path passes a successful Comparable() test of an operand, or a test that an operand is nil")
				return
			}
			r.Bad(name, construct, an.InstrPos(in), fmt.Sprintf("%s compares (or hashes) two interface values neither of which has a statically comparable dynamic type, with no comparability test: when both hold the same slice, map or function type the operation panics", an.FuncName(fn)))
		}
		an.EachInstr(fn, func(in ssa.Instruction) {
			switch x := in.(type) {
			case *ssa.BinOp:
				if (x.Op == token.EQL || x.Op == token.NEQ) && an.IsInterface(x.X.Type()) && an.IsInterface(x.Y.Type()) {
					check(in, x.X, x.Y, fmt.Sprintf("%s %s %s", describe(p, x.X), x.Op, describe(p, x.Y)))
				}
			case *ssa.Lookup:
				if mt, ok := x.X.Type().Underlying().(*types.Map); ok && an.IsInterface(mt.Key()) {
					check(in, x.Index, nil, fmt.Sprintf("%s[%s]", describe(p, x.X), describe(p, x.Index)))
				}
			case *ssa.Call:
				// reflective map access hashes the key just like m[k] does
				cn := an.CallName(&x.Call)
				if cn != "(reflect.Value).MapIndex" && cn != "(reflect.Value).SetMapIndex" {
					return
				}
				k := x.Call.Args[1]
				construct := fmt.Sprintf("%s hashes %s", strings.TrimPrefix(cn, "(reflect.Value)."), describe(p, k))
				r.Counts["interface comparisons"]++
				// the key before any Convert
				base := k
				for i := 0; i < 4; i++ {
					if c := an.CallOf(base); c != nil && an.CallName(c) == "(reflect.Value).Convert" {
						base = c.Args[0]
						continue
					}
					break
				}
				for _, o := range an.Origins(base, an.StepBase) {
					if c := an.CallOf(o); c != nil {
						n := an.CallName(c)
						if n == "(reflect.Value).MapKeys" || n == "values.SortedMapKeys" || n == "(*reflect.MapIter).Key" {
							r.OK(name, construct, an.InstrPos(in), "the key is a key of a map already: it was hashed when it was inserted")
							return
						}
						if n == "reflect.ValueOf" {
							if t := an.Strip(c.Args[0]).Type(); types.Comparable(t) && !an.IsInterface(t) && !hasInterfacePart(t, 0) {
								r.OK(name, construct, an.InstrPos(in), "the key is made from a value of a statically hashable type")
								return
							}
						}
					}
				}
				cmpGuard := func(blk *ssa.BasicBlock, key ssa.Value) bool {
					kb := convertBase(key)
					return an.AllPathsGuarded(blk, func(cond ssa.Value, taken bool) bool {
						c := an.CallOf(cond)
						if !taken || c == nil || an.CallName(c) != "(reflect.Value).Comparable" {
							return false
						}
						return sameRV(c.Args[0], kb) || sameRV(c.Args[0], key)
					})
				}
				if cmpGuard(in.Block(), k) {
					r.OK(name, construct, an.InstrPos(in), "every path passes reflect.Value.Comparable() of the key")
					return
				}
				// the key is the validated result of a helper: (key, ok) with the use under ok
				if h := guardedHelperResult(p, k, in); h != nil {
					all := len(h.rets) > 0
					for _, ret := range h.rets {
						if !cmpGuard(ret.Block(), resultsOf(ret)[0]) {
							all = false
						}
					}
					if all {
						r.OK(name, construct, an.InstrPos(in), "the key is the result of "+an.FuncName(h.fn)+", every successful return of which passes reflect.Value.Comparable() of the key")
						return
					}
				}
				r.Bad(name, construct, an.InstrPos(in), fmt.Sprintf("%s looks a key up reflectively without having established that the key value is hashable (reflect.Value.Comparable; Type.Comparable is not enough): a key holding a slice or map inside an interface-typed array or struct panics with \"hash of unhashable type\"", an.FuncName(fn)))
			case *ssa.MapUpdate:
				if mt, ok := x.Map.Type().Underlying().(*types.Map); ok && an.IsInterface(mt.Key()) {
					check(in, x.Key, nil, fmt.Sprintf("%s[%s] = …", describe(p, x.Map), describe(p, x.Key)))
				}
			}
		})
	}
	r.Floor("interface comparisons", 100)
}

// derivesFromOperand: recv is reflect.TypeOf(op) / reflect.ValueOf(op) or a
// Type()/Elem() of those.
func derivesFromOperand(recv, op ssa.Value) bool {
	seen := 0
	for recv != nil && seen < 6 {
		seen++
		c := an.CallOf(recv)
		if c == nil {
			return sameValue(recv, op)
		}
		n := an.CallName(c)
		switch n {
		case "reflect.TypeOf", "reflect.ValueOf":
			return sameValue(an.StripIface(c.Args[0]), an.StripIface(op)) || sameValue(c.Args[0], op)
		case "(reflect.Value).Type", "(reflect.Value).Elem":
			recv = c.Args[0]
		default:
			return false
		}
	}
	return false
}

// ---------------------------------------------------------------------------
// P7

func runP7(p *an.Prog, r *an.Result) {
	roles := GetRoles(p)
	for _, fn := range p.Funcs {
		if isMainPkg(fn) {
			continue
		}
		name := roles.Label(fn)
		an.EachCall(fn, func(ci ssa.CallInstruction) {
			c := ci.Common()
			cn := an.CallName(c)
			if cn != "regexp.MustCompile" && cn != "regexp.MustCompilePOSIX" && cn != "text/template.Must" && cn != "html/template.Must" {
				return
			}
			r.Counts["Must-compile sites"]++
			construct := cn + "(" + describe(p, c.Args[0]) + ")"
			if an.IsInit(fn) {
				r.Triv(name, construct, ci.Pos(), "package initialiser: evaluated once at start-up with fixed operands")
				return
			}
			if raw := rawPatternParts(c.Args[0]); len(raw) == 0 {
				r.OK(name, construct, ci.Pos(), "the pattern is assembled only from constants and regexp.QuoteMeta results")
			} else {
				r.Bad(name, construct, ci.Pos(), fmt.Sprintf("%s compiles a pattern at run time that contains unquoted run-time text (%s): MustCompile panics when that text does not form a valid expression", an.FuncName(fn), strings.Join(raw, ", ")))
			}
		})
	}
	r.Floor("Must-compile sites", 2)
}

// rawPatternParts returns descriptions of the parts of a string value that
// are neither constant, integer-formatted nor QuoteMeta results.
func rawPatternParts(v ssa.Value) []string {
	var raw []string
	// a module helper that returns (part of) the pattern is read through: its results are walked with
	// its parameters standing for the arguments of the call being expanded
	type key struct {
		v    ssa.Value
		site *ssa.Call
	}
	seen := map[key]bool{}
	var frames []*ssa.Call
	site := func() *ssa.Call {
		if len(frames) == 0 {
			return nil
		}
		return frames[len(frames)-1]
	}
	var walk func(v ssa.Value)
	elementsOf := func(sl ssa.Value) {
		// every value stored into / appended to the slice
		for _, o := range an.Origins(sl, func(v ssa.Value) []ssa.Value {
			switch x := v.(type) {
			case *ssa.Slice:
				return []ssa.Value{x.X}
			case *ssa.Phi:
				return x.Edges
			case *ssa.Call:
				if b, ok := x.Call.Value.(*ssa.Builtin); ok && b.Name() == "append" {
					return x.Call.Args[:1]
				}
			}
			return nil
		}) {
			_ = o
		}
		var collect func(s ssa.Value)
		sseen := map[ssa.Value]bool{}
		collect = func(s ssa.Value) {
			if s == nil || sseen[s] {
				return
			}
			sseen[s] = true
			switch x := s.(type) {
			case *ssa.Slice:
				collect(x.X)
			case *ssa.Phi:
				for _, e := range x.Edges {
					collect(e)
				}
			case *ssa.Call:
				if b, ok := x.Call.Value.(*ssa.Builtin); ok && b.Name() == "append" {
					collect(x.Call.Args[0])
					for _, a := range x.Call.Args[1:] {
						if _, isSlice := a.Type().Underlying().(*types.Slice); isSlice {
							collect(a)
						} else {
							walk(a)
						}
					}
					return
				}
				raw = append(raw, "slice from "+nonEmpty(an.CallName(&x.Call), "a call"))
			case *ssa.Alloc:
				// array backing a literal / varargs: element stores
				if x.Referrers() != nil {
					for _, u := range *x.Referrers() {
						if ia, ok := u.(*ssa.IndexAddr); ok && ia.Referrers() != nil {
							for _, uu := range *ia.Referrers() {
								if st, ok := uu.(*ssa.Store); ok && st.Addr == ia {
									walk(st.Val)
								}
							}
						}
					}
				}
			case *ssa.MakeSlice:
				// element stores through IndexAddr on the slice and its aliases
				for _, u := range allIndexStores(x) {
					walk(u)
				}
			case *ssa.Const:
			default:
				raw = append(raw, "slice "+s.Name())
			}
		}
		collect(sl)
	}
	walk = func(v ssa.Value) {
		if v == nil || seen[key{v, site()}] {
			return
		}
		seen[key{v, site()}] = true
		switch x := v.(type) {
		case *ssa.Parameter:
			// a parameter of the helper being expanded: the argument at the call
			for k := len(frames) - 1; k >= 0; k-- {
				callee := frames[k].Call.StaticCallee()
				if callee != x.Parent() {
					continue
				}
				for i, par := range callee.Params {
					if par == x && i < len(frames[k].Call.Args) {
						saved := frames
						frames = frames[:k]
						walk(saved[k].Call.Args[i])
						frames = saved
						return
					}
				}
			}
			raw = append(raw, "parameter "+x.Name())
		case *ssa.Const:
		case *ssa.BinOp:
			if x.Op == token.ADD {
				walk(x.X)
				walk(x.Y)
				return
			}
			raw = append(raw, "expression "+x.Name())
		case *ssa.Phi:
			for _, e := range x.Edges {
				walk(e)
			}
		case *ssa.MakeInterface:
			walk(x.X)
		case *ssa.ChangeType:
			walk(x.X)
		case *ssa.Convert:
			// integer <-> integer conversions are digits once formatted; rune/byte -> string is raw text
			if bt, ok := x.Type().Underlying().(*types.Basic); ok && bt.Info()&types.IsString != 0 {
				raw = append(raw, "string("+x.X.Name()+")")
				return
			}
			walk(x.X)
		case *ssa.UnOp:
			if x.Op == token.MUL {
				if a, ok := x.X.(*ssa.Alloc); ok {
					for _, s := range an.Stores(a) {
						walk(s)
					}
					return
				}
				if ia, ok := x.X.(*ssa.IndexAddr); ok {
					// element of a slice built in this function
					elementsOf(ia.X)
					return
				}
			}
			raw = append(raw, "loaded value "+x.Name())
		case *ssa.Call:
			cn := an.CallName(&x.Call)
			switch cn {
			case "regexp.QuoteMeta":
				return
			case "fmt.Sprintf", "fmt.Sprint":
				for _, a := range x.Call.Args {
					if _, isSlice := a.Type().Underlying().(*types.Slice); isSlice {
						elementsOf(a)
					} else {
						walk(a)
					}
				}
				return
			case "strings.Join":
				elementsOf(x.Call.Args[0])
				walk(x.Call.Args[1])
				return
			}
			if callee := x.Call.StaticCallee(); callee != nil && callee.Blocks != nil && callee.Pkg != nil && an.IsModulePkg(callee.Pkg.Pkg) && len(frames) < 4 {
				if b, ok := x.Type().Underlying().(*types.Basic); ok && b.Info()&types.IsString != 0 {
					frames = append(frames, x)
					an.EachInstr(callee, func(in ssa.Instruction) {
						if ret, ok := in.(*ssa.Return); ok {
							walk(resultsOf(ret)[0])
						}
					})
					frames = frames[:len(frames)-1]
					return
				}
			}
			raw = append(raw, "result of "+nonEmpty(cn, "a call"))
		default:
			// integers are raw too: a run-time repeat count ({2000}, {-1}) makes a pattern invalid
			raw = append(raw, fmt.Sprintf("%s %s", strings.TrimPrefix(fmt.Sprintf("%T", v), "*ssa."), v.Name()))
		}
	}
	walk(v)
	return dedup(raw)
}

// allIndexStores returns the values stored into elements of a slice value
// and its aliases (phis, reslices, append results).
func allIndexStores(sl ssa.Value) []ssa.Value {
	var out []ssa.Value
	seen := map[ssa.Value]bool{}
	var visit func(v ssa.Value)
	visit = func(v ssa.Value) {
		if v == nil || seen[v] || v.Referrers() == nil {
			return
		}
		seen[v] = true
		for _, u := range *v.Referrers() {
			switch x := u.(type) {
			case *ssa.IndexAddr:
				if x.Referrers() != nil {
					for _, uu := range *x.Referrers() {
						if st, ok := uu.(*ssa.Store); ok && st.Addr == x {
							out = append(out, st.Val)
						}
					}
				}
			case *ssa.Phi:
				visit(x)
			case *ssa.Slice:
				visit(x)
			case *ssa.Call:
				if b, ok := x.Call.Value.(*ssa.Builtin); ok && b.Name() == "append" && x.Call.Args[0] == v {
					for _, a := range x.Call.Args[1:] {
						if sl, isSl := a.(*ssa.Slice); isSl {
							if al, isAl := sl.X.(*ssa.Alloc); isAl && al.Referrers() != nil {
								// variadic argument list: the values stored into its backing array
								for _, au := range *al.Referrers() {
									if ia, ok := au.(*ssa.IndexAddr); ok && ia.Referrers() != nil {
										for _, uu := range *ia.Referrers() {
											if st, ok := uu.(*ssa.Store); ok && st.Addr == ia {
												out = append(out, st.Val)
											}
										}
									}
								}
								continue
							}
						}
						out = append(out, a)
					}
					visit(x)
				}
			}
		}
	}
	visit(sl)
	return out
}

// ---------------------------------------------------------------------------
// P8

type nonNeg struct {
	p    *an.Prog
	memo map[*ssa.Function]int // 1 in progress, 2 yes, 3 no
}

func (nn *nonNeg) fnNonNeg(fn *ssa.Function) bool {
	switch nn.memo[fn] {
	case 1, 2:
		return true
	case 3:
		return false
	}
	nn.memo[fn] = 1
	ok := fn.Blocks != nil
	n := 0
	an.EachInstr(fn, func(in ssa.Instruction) {
		if ret, isRet := in.(*ssa.Return); isRet && len(ret.Results) > 0 {
			n++
			if !nn.value(ret.Results[0], ret, 0) {
				ok = false
			}
		}
	})
	if n == 0 {
		ok = false
	}
	if ok {
		nn.memo[fn] = 2
	} else {
		nn.memo[fn] = 3
	}
	return ok
}

// value reports whether v >= 0 at instruction at.
func (nn *nonNeg) value(v ssa.Value, at ssa.Instruction, depth int) bool {
	if depth > 8 {
		return false
	}
	if c, ok := an.ConstInt(v); ok {
		return c >= 0
	}
	// guard v >= 0 / !(v < 0) / v > k
	for _, g := range an.GuardsAtInstr(at) {
		b, ok := g.Cond.(*ssa.BinOp)
		if !ok {
			continue
		}
		x, y, op := b.X, b.Y, b.Op
		if !g.True {
			switch op {
			case token.LSS:
				op = token.GEQ
			case token.LEQ:
				op = token.GTR
			case token.GTR:
				op = token.LEQ
			case token.GEQ:
				op = token.LSS
			default:
				continue
			}
		}
		// normalise to v on the left
		if sameValue(y, v) {
			x, y = y, x
			switch op {
			case token.LSS:
				op = token.GTR
			case token.LEQ:
				op = token.GEQ
			case token.GTR:
				op = token.LSS
			case token.GEQ:
				op = token.LEQ
			}
		}
		if !sameValue(x, v) {
			continue
		}
		if (op == token.GEQ || op == token.GTR) && nn.value(y, at, depth+1) {
			return true
		}
		if op == token.EQL && nn.value(y, at, depth+1) {
			return true
		}
	}
	switch x := v.(type) {
	case *ssa.Call:
		cn := an.CallName(&x.Call)
		// the length/count accessors of library types ((*bytes.Buffer).Len, (*strings.Builder).Len,
		// (*list.List).Len, ...) return a count
		if f := x.Call.StaticCallee(); f != nil && f.Pkg != nil && !an.IsModulePkg(f.Pkg.Pkg) && f.Signature.Recv() != nil && f.Signature.Params().Len() == 0 {
			switch f.Name() {
			case "Len", "Cap", "Size", "Buffered", "Available":
				return true
			}
		}
		switch cn {
		case "builtin.len", "builtin.cap", "(reflect.Value).Len", "(reflect.Value).Cap", "(reflect.Type).NumIn", "(reflect.Type).NumOut", "(reflect.Type).NumField", "(reflect.Value).NumField", "utf8.RuneCountInString", "unicode/utf8.RuneCountInString", "strings.Count":
			return true
		case "builtin.max":
			for _, a := range x.Call.Args {
				if nn.value(a, at, depth+1) {
					return true
				}
			}
			return false
		case "builtin.min":
			for _, a := range x.Call.Args {
				if !nn.value(a, at, depth+1) {
					return false
				}
			}
			return true
		}
		if callee := x.Call.StaticCallee(); callee != nil && nn.p.InModule(callee) {
			return nn.fnNonNeg(callee)
		}
		if x.Call.IsInvoke() {
			// every module implementation must be non-negative
			impls := (&mutAnalysis{p: nn.p}).implementers(&x.Call)
			if len(impls) == 0 {
				return false
			}
			for _, f := range impls {
				if !nn.fnNonNeg(f) {
					return false
				}
			}
			return true
		}
	case *ssa.BinOp:
		switch x.Op {
		case token.ADD, token.MUL:
			return nn.value(x.X, at, depth+1) && nn.value(x.Y, at, depth+1)
		case token.REM, token.QUO, token.SHR:
			return nn.value(x.X, at, depth+1)
		case token.SUB:
			// x - y >= 0 when a guard establishes x' >= y for x = x' + c, c >= 0
			xs := x.X
			if add, ok := xs.(*ssa.BinOp); ok && add.Op == token.ADD {
				if c, isC := an.ConstInt(add.Y); isC && c >= 0 {
					xs = add.X
				} else if c, isC := an.ConstInt(add.X); isC && c >= 0 {
					xs = add.Y
				}
			}
			// ... and y itself is not negative: with a very negative y the difference wraps around to a
			// negative number although x >= y (a range from -2 to the largest int)
			return (geGuard(at, xs, x.Y) || geGuard(at, x.X, x.Y)) && nn.value(x.Y, at, depth+1)
		case token.AND:
			return nn.value(x.X, at, depth+1) || nn.value(x.Y, at, depth+1)
		}
	case *ssa.Phi:
		for i, e := range x.Edges {
			// evaluate each edge at the end of its predecessor block
			pred := x.Block().Preds[i]
			last := pred.Instrs[len(pred.Instrs)-1]
			if e == ssa.Value(x) {
				continue
			}
			if !nn.value(e, last, depth+1) {
				// the edge itself may be conditional on a comparison in pred
				if !edgeImpliesNonNeg(pred, x.Block(), e) {
					return false
				}
			}
		}
		return true
	case *ssa.Convert:
		if bt, ok := x.X.Type().Underlying().(*types.Basic); ok && bt.Info()&types.IsInteger != 0 {
			return nn.value(x.X, at, depth+1)
		}
	case *ssa.ChangeType:
		return nn.value(x.X, at, depth+1)
	case *ssa.UnOp:
		if x.Op == token.MUL {
			if a, ok := x.X.(*ssa.Alloc); ok {
				st := an.Stores(a)
				if len(st) == 0 {
					return false
				}
				for _, s := range st {
					if !nn.value(s, at, depth+1) {
						return false
					}
				}
				return true
			}
		}
	case *ssa.Extract:
		if nx, ok := x.Tuple.(*ssa.Next); ok && x.Index == 1 {
			_ = nx
			return false
		}
	case *ssa.Field:
		// a field of a module struct holds what was stored into that field somewhere (or zero)
		return nn.fieldNonNeg(v, depth)
	case *ssa.Parameter:
		// at every call of an unexported function that is only ever called
		fn := x.Parent()
		if fn == nil || !nn.p.InModule(fn) || fn.Object() == nil || fn.Object().Exported() || nn.invoked(fn) {
			return false
		}
		idx := -1
		for i, pp := range fn.Params {
			if pp == x {
				idx = i
			}
		}
		sites := callSitesOf(nn.p, fn)
		if idx < 0 || len(sites) == 0 {
			return false
		}
		for _, s := range sites {
			if idx >= len(s.Call.Args) || !nn.value(s.Call.Args[idx], s, depth+2) {
				return false
			}
		}
		return true
	}
	if ld, ok := v.(*ssa.UnOp); ok && ld.Op == token.MUL {
		if _, isFA := ld.X.(*ssa.FieldAddr); isFA {
			return nn.fieldNonNeg(v, depth)
		}
	}
	return false
}

// invoked: fn may be reached other than by its static call sites - used as a value, bound as a method
// value, or a method some interface call of the module could dispatch to.
func (nn *nonNeg) invoked(fn *ssa.Function) bool {
	found := false
	for _, f := range nn.p.Funcs {
		an.EachInstr(f, func(in ssa.Instruction) {
			if c, ok := in.(ssa.CallInstruction); ok && c.Common().IsInvoke() && c.Common().Method.Name() == fn.Name() && fn.Signature.Recv() != nil {
				found = true
			}
			for _, op := range in.Operands(nil) {
				if *op == nil {
					continue
				}
				if *op == ssa.Value(fn) {
					if c, ok := in.(ssa.CallInstruction); !ok || c.Common().Value != ssa.Value(fn) {
						found = true
					}
				}
				if mc, ok := (*op).(*ssa.MakeClosure); ok {
					if bm := boundMethodOf(mc); bm == fn {
						found = true
					}
				}
			}
		})
	}
	return found
}

// fieldNonNeg: v reads an integer field of a struct type declared in the module, and every value the module
// stores into that field is non-negative where it is stored.
func (nn *nonNeg) fieldNonNeg(v ssa.Value, depth int) bool {
	st := fieldStoresOf(nn.p, v)
	if st == nil {
		return false
	}
	for _, s := range st {
		if !nn.value(s.Val, s, depth+2) {
			return false
		}
	}
	return true
}

// fieldStoresOf: for a read of a field of a struct type declared in the module, every store the module makes
// into that field (of any instance); nil when v is no such read, when there is no store, or when the struct's
// fields can be written by other means (the whole struct stored through a pointer from a foreign source is
// still built from these stores; unsafe and reflection are outside the model).
func fieldStoresOf(p *an.Prog, v ssa.Value) []*ssa.Store {
	var owner types.Type
	idx := -1
	switch x := v.(type) {
	case *ssa.Field:
		owner, idx = x.X.Type(), x.Field
	case *ssa.UnOp:
		if fa, ok := x.X.(*ssa.FieldAddr); ok && x.Op == token.MUL {
			owner, idx = derefT(fa.X.Type()), fa.Field
		}
	}
	if owner == nil {
		return nil
	}
	n, ok := owner.(*types.Named)
	if !ok || !an.IsModulePkg(n.Obj().Pkg()) {
		return nil
	}
	var out []*ssa.Store
	for _, f := range p.Funcs {
		an.EachInstr(f, func(in ssa.Instruction) {
			st, ok := in.(*ssa.Store)
			if !ok {
				return
			}
			if fa, ok := st.Addr.(*ssa.FieldAddr); ok && fa.Field == idx && types.Identical(derefT(fa.X.Type()), owner) {
				out = append(out, st)
			}
		})
	}
	return out
}

// edgeImpliesNonNeg: the edge pred->succ is taken only when e >= 0 (pred ends
// in an If comparing e).
func edgeImpliesNonNeg(pred, succ *ssa.BasicBlock, e ssa.Value) bool {
	ifi, ok := pred.Instrs[len(pred.Instrs)-1].(*ssa.If)
	if !ok {
		return false
	}
	b, ok := ifi.Cond.(*ssa.BinOp)
	if !ok {
		return false
	}
	taken := pred.Succs[0] == succ
	x, y, op := b.X, b.Y, b.Op
	if !taken {
		switch op {
		case token.LSS:
			op = token.GEQ
		case token.LEQ:
			op = token.GTR
		case token.GTR:
			op = token.LEQ
		case token.GEQ:
			op = token.LSS
		default:
			return false
		}
	}
	if sameValue(y, e) {
		x, y = y, x
		switch op {
		case token.LSS:
			op = token.GTR
		case token.LEQ:
			op = token.GEQ
		case token.GTR:
			op = token.LSS
		case token.GEQ:
			op = token.LEQ
		}
	}
	if !sameValue(x, e) {
		return false
	}
	c, isC := an.ConstInt(y)
	return isC && ((op == token.GEQ && c >= 0) || (op == token.GTR && c >= -1))
}

func runP8(p *an.Prog, r *an.Result) {
	roles := GetRoles(p)
	nn := &nonNeg{p: p, memo: map[*ssa.Function]int{}}
	for _, fn := range p.Funcs {
		if isMainPkg(fn) || p.IsGenerated(an.FuncPos(fn)) {
			continue
		}
		name := roles.Label(fn)
		an.EachInstr(fn, func(in ssa.Instruction) {
			var sizes []ssa.Value
			var what string
			switch x := in.(type) {
			case *ssa.MakeSlice:
				sizes, what = []ssa.Value{x.Len, x.Cap}, "make"
			case *ssa.MakeChan:
				sizes, what = []ssa.Value{x.Size}, "make(chan)"
			case *ssa.Call:
				if an.CallName(&x.Call) == "reflect.MakeSlice" {
					sizes, what = x.Call.Args[1:3], "reflect.MakeSlice"
				} else if an.CallName(&x.Call) == "strings.Repeat" {
					sizes, what = x.Call.Args[1:2], "strings.Repeat"
				}
			}
			if sizes == nil {
				return
			}
			r.Counts["allocation sites"]++
			for _, s := range sizes {
				construct := fmt.Sprintf("%s(…, %s)", what, describe(p, s))
				if _, isConst := s.(*ssa.Const); isConst {
					if c, ok := an.ConstInt(s); ok && c < 0 {
						r.Bad(name, construct, an.InstrPos(in), "negative constant size")
					}
					continue
				}
				if nn.value(s, in, 0) {
					// a size that a module function computes from numbers (the element count of a range) also needs a
					// ceiling: make panics above the largest allocation, and the process dies before that
					if why := computedSizeUnbounded(p, fn, in, s); why != "" {
						r.Bad(name, construct+": no upper bound", an.InstrPos(in), fmt.Sprintf("%s allocates %s elements, a number %s, and nothing holds it below a constant: (1..1000000000000000) makes make panic with 'cap out of range'", an.FuncName(fn), describe(p, s), why))
						continue
					}
					r.OK(name, construct, an.InstrPos(in), "the size is a length/count, a sum or product of such, a clamp, or guarded >= 0 on every path")
				} else {
					r.Bad(name, construct, an.InstrPos(in), fmt.Sprintf("%s allocates with a size that is not shown to be non-negative (%s): a negative size panics", an.FuncName(fn), describe(p, s)))
				}
			}
		})
	}
	r.Floor("allocation sites", 10)
}

// ---------------------------------------------------------------------------
// P10

func runP10(p *an.Prog, r *an.Result) {
	roles := GetRoles(p)
	nonZero := func(at ssa.Instruction, v ssa.Value) (bool, string) {
		for _, g := range an.GuardsAtInstr(at) {
			b, ok := g.Cond.(*ssa.BinOp)
			if !ok {
				continue
			}
			for _, pair := range [][2]ssa.Value{{b.X, b.Y}, {b.Y, b.X}} {
				if !sameValue(pair[0], v) {
					continue
				}
				c, isC := an.ConstInt(pair[1])
				if !isC {
					continue
				}
				switch {
				case c == 0 && (b.Op == token.NEQ && g.True || b.Op == token.EQL && !g.True):
					return true, "dominated by a test that the divisor is not zero"
				case pair[0] == b.X && c >= 0 && (b.Op == token.GTR && g.True || b.Op == token.LEQ && !g.True):
					return true, "dominated by a test that the divisor is positive"
				case pair[0] == b.X && c >= 1 && (b.Op == token.GEQ && g.True || b.Op == token.LSS && !g.True):
					return true, "dominated by a test that the divisor is positive"
				}
			}
		}
		return false, ""
	}
	// type invariant: a named integer type all of whose conversions are from positive values
	positiveType := func(t types.Type) (bool, string) {
		n, ok := t.(*types.Named)
		if !ok || !an.IsModulePkg(n.Obj().Pkg()) {
			return false, ""
		}
		sites := 0
		for _, fn := range p.Funcs {
			bad := false
			an.EachInstr(fn, func(in ssa.Instruction) {
				var src ssa.Value
				switch x := in.(type) {
				case *ssa.ChangeType:
					if types.Identical(x.Type(), n) {
						src = x.X
					}
				case *ssa.Convert:
					if types.Identical(x.Type(), n) {
						src = x.X
					}
				}
				if src == nil {
					return
				}
				sites++
				if c, ok := an.ConstInt(src); ok {
					if c <= 0 {
						bad = true
					}
					return
				}
				if ok, _ := nonZero(in, src); !ok {
					bad = true
				}
			})
			if bad {
				return false, ""
			}
		}
		// constants of the type
		if sites == 0 {
			return false, ""
		}
		return true, fmt.Sprintf("type invariant: every one of the %d conversions to %s is from a positive constant or under a positivity test", sites, an.TypeName(n))
	}
	for _, fn := range p.Funcs {
		if isMainPkg(fn) || p.IsGenerated(an.FuncPos(fn)) {
			continue
		}
		name := roles.Label(fn)
		an.EachInstr(fn, func(in ssa.Instruction) {
			b, ok := in.(*ssa.BinOp)
			if !ok || (b.Op != token.QUO && b.Op != token.REM) {
				return
			}
			bt, ok := b.Type().Underlying().(*types.Basic)
			if !ok || bt.Info()&types.IsInteger == 0 {
				return
			}
			if c, ok := an.ConstInt(b.Y); ok {
				if c == 0 {
					r.Bad(name, "division by constant zero", b.Pos(), "division by zero")
				}
				return
			}
			r.Counts["integer divisions"]++
			construct := fmt.Sprintf("%s %s %s", describe(p, b.X), b.Op, describe(p, b.Y))
			if ok, why := nonZero(b, b.Y); ok {
				r.OK(name, construct, b.Pos(), why)
				return
			}
			// divisor is len(x.f) for a struct field that is non-empty by construction
			if ok, why := nonEmptyFieldLen(p, b.Y); ok {
				r.OK(name, construct, b.Pos(), why)
				return
			}
			// divisor converted from a value of a positive-by-construction type
			for _, o := range an.Origins(b.Y, an.StepValue) {
				if ok, why := positiveType(o.Type()); ok {
					r.OK(name, construct, b.Pos(), why)
					return
				}
			}
			r.Bad(name, construct, b.Pos(), fmt.Sprintf("%s divides by %s without a test that it is non-zero: integer division by zero panics", an.FuncName(fn), describe(p, b.Y)))
		})
	}
	r.Floor("integer divisions", 3)
}

// geGuard: a dominating branch establishes a >= b.
func geGuard(at ssa.Instruction, a, b ssa.Value) bool {
	for _, g := range an.GuardsAtInstr(at) {
		bo, ok := g.Cond.(*ssa.BinOp)
		if !ok {
			continue
		}
		op := bo.Op
		if !g.True {
			switch op {
			case token.LSS:
				op = token.GEQ
			case token.LEQ:
				op = token.GTR
			case token.GTR:
				op = token.LEQ
			case token.GEQ:
				op = token.LSS
			default:
				continue
			}
		}
		switch {
		case sameValue(bo.X, a) && sameValue(bo.Y, b) && (op == token.GEQ || op == token.GTR):
			return true
		case sameValue(bo.X, b) && sameValue(bo.Y, a) && (op == token.LEQ || op == token.LSS):
			return true
		}
	}
	return false
}

// nonEmptyFieldLen: v is len(x.f) where every store into field f of that
// struct type anywhere in the module is append(<literal with at least one
// element>, ...) or such a literal itself: the field is never empty.
func nonEmptyFieldLen(p *an.Prog, v ssa.Value) (bool, string) {
	c := an.CallOf(v)
	if c == nil || an.CallName(c) != "builtin.len" {
		return false, ""
	}
	var st *types.Struct
	var owner types.Type
	fieldIdx := -1
	for _, o := range an.Origins(c.Args[0], an.StepValue) {
		switch x := o.(type) {
		case *ssa.Field:
			owner, fieldIdx = x.X.Type(), x.Field
		case *ssa.UnOp:
			if fa, ok := x.X.(*ssa.FieldAddr); ok {
				owner, fieldIdx = fa.X.Type().Underlying().(*types.Pointer).Elem(), fa.Field
			} else {
				return false, ""
			}
		default:
			return false, ""
		}
	}
	if owner == nil {
		return false, ""
	}
	st, _ = owner.Underlying().(*types.Struct)
	if st == nil {
		return false, ""
	}
	nonEmptyLit := func(x ssa.Value) bool {
		sl, ok := x.(*ssa.Slice)
		if !ok {
			return false
		}
		al, ok := sl.X.(*ssa.Alloc)
		if !ok {
			return false
		}
		at, ok := al.Type().Underlying().(*types.Pointer).Elem().Underlying().(*types.Array)
		return ok && at.Len() >= 1
	}
	sites := 0
	for _, fn := range p.Funcs {
		bad := false
		an.EachInstr(fn, func(in ssa.Instruction) {
			s, ok := in.(*ssa.Store)
			if !ok {
				return
			}
			fa, ok := s.Addr.(*ssa.FieldAddr)
			if !ok || fa.Field != fieldIdx || !types.Identical(fa.X.Type().Underlying().(*types.Pointer).Elem(), owner) {
				return
			}
			sites++
			okv := false
			for _, o := range an.Origins(s.Val, an.StepValue) {
				if nonEmptyLit(o) {
					okv = true
					continue
				}
				if ac, isCall := o.(*ssa.Call); isCall {
					if bi, isB := ac.Call.Value.(*ssa.Builtin); isB && bi.Name() == "append" && nonEmptyLit(ac.Call.Args[0]) {
						okv = true
						continue
					}
				}
				okv = false
				break
			}
			if !okv {
				bad = true
			}
		})
		if bad {
			return false, ""
		}
	}
	if sites == 0 {
		return false, ""
	}
	return true, fmt.Sprintf("the divisor is the length of %s.%s, which every one of its %d constructions builds as append(non-empty literal, …): never zero", an.TypeName(owner), st.Field(fieldIdx).Name(), sites)
}

// hasInterfacePart: t is (or contains, as array element or struct field) an interface type, so that
// a value of t can be of a comparable type and still hold something unhashable.
func hasInterfacePart(t types.Type, depth int) bool {
	if depth > 5 {
		return true
	}
	switch u := t.Underlying().(type) {
	case *types.Interface:
		return true
	case *types.Array:
		return hasInterfacePart(u.Elem(), depth+1)
	case *types.Struct:
		for i := 0; i < u.NumFields(); i++ {
			if hasInterfacePart(u.Field(i).Type(), depth+1) {
				return true
			}
		}
	}
	return false
}

// convertBase strips (reflect.Value).Convert calls.
func convertBase(v ssa.Value) ssa.Value {
	for i := 0; i < 4; i++ {
		if c := an.CallOf(v); c != nil && an.CallName(c) == "(reflect.Value).Convert" {
			v = c.Args[0]
			continue
		}
		break
	}
	return v
}

// rvBehind: op is rv.Interface() for a reflect.Value rv (looking through Convert): rv.
func rvBehind(op ssa.Value) ssa.Value {
	c := an.CallOf(an.StripIface(op))
	if c == nil {
		c = an.CallOf(op)
	}
	if c == nil || an.CallName(c) != "(reflect.Value).Interface" {
		return nil
	}
	return convertBase(c.Args[0])
}

// helperResult describes a value that is result 0 of a call to a module function whose last
// result is a bool, used at a point every path to which established that bool.
type helperResult struct {
	fn   *ssa.Function
	call *ssa.Call
	rets []*ssa.Return // the returns whose bool result is not the constant false
}

func guardedHelperResult(p *an.Prog, v ssa.Value, at ssa.Instruction) *helperResult {
	ex, ok := v.(*ssa.Extract)
	if !ok || ex.Index != 0 {
		return nil
	}
	call, ok := ex.Tuple.(*ssa.Call)
	if !ok {
		return nil
	}
	fn := call.Call.StaticCallee()
	if fn == nil || fn.Blocks == nil || !p.InModule(fn) {
		return nil
	}
	res := fn.Signature.Results()
	if res.Len() < 2 {
		return nil
	}
	last := res.Len() - 1
	if b, ok := res.At(last).Type().Underlying().(*types.Basic); !ok || b.Kind() != types.Bool {
		return nil
	}
	okGuard := an.AllPathsGuarded(at.Block(), func(cond ssa.Value, taken bool) bool {
		e, isEx := cond.(*ssa.Extract)
		return taken && isEx && e.Tuple == ssa.Value(call) && e.Index == last
	})
	if !okGuard {
		return nil
	}
	h := &helperResult{fn: fn, call: call}
	an.EachInstr(fn, func(in ssa.Instruction) {
		if ret, ok := in.(*ssa.Return); ok {
			rs := resultsOf(ret)
			if c, isC := an.ConstBool(rs[last]); isC && !c {
				return
			}
			h.rets = append(h.rets, ret)
		}
	})
	return h
}

// allCallSites: v is a parameter of an unexported module function (not used as a value) and pred
// holds for the corresponding argument at every call site.
func allCallSites(p *an.Prog, v ssa.Value, pred func(arg ssa.Value, at ssa.Instruction) bool) bool {
	return allCallSitesD(p, v, pred, 0)
}

func allCallSitesD(p *an.Prog, v ssa.Value, pred func(arg ssa.Value, at ssa.Instruction) bool, depth int) bool {
	if depth > 3 {
		return false
	}
	par, ok := an.Deref(v).(*ssa.Parameter)
	if !ok {
		par, ok = v.(*ssa.Parameter)
		if !ok {
			return false
		}
	}
	fn := par.Parent()
	if fn == nil || fn.Object() == nil || fn.Object().Exported() {
		return false
	}
	idx := -1
	for i, fp := range fn.Params {
		if fp == par {
			idx = i
		}
	}
	sites := callSitesOf(p, fn)
	if idx < 0 || len(sites) == 0 {
		return false
	}
	for _, cs := range sites {
		if idx >= len(cs.Call.Args) {
			return false
		}
		if pred(cs.Call.Args[idx], cs) {
			continue
		}
		// the argument is itself a parameter handed down: the question moves one caller up
		if !allCallSitesD(p, cs.Call.Args[idx], pred, depth+1) {
			return false
		}
	}
	return true
}

// ---------------------------------------------------------------------------
// P13

func init() {
	register("P13", "the numeric accessors of reflect are called only on a value of the matching kind: Int on a signed integer, Uint on an unsigned one, Float on a float - established by a test of the value's kind (a case of a kind switch, CanInt/CanUint/CanFloat), by a conversion to a type of that class, or by the same test on a value found to have the same kind; each of them panics on any other kind", runP13)
}

func runP13(p *an.Prog, r *an.Result) {
	roles := GetRoles(p)
	classes := map[string]struct {
		kinds map[int64]bool
		can   string
		what  string
	}{
		"(reflect.Value).Int":   {map[int64]bool{2: true, 3: true, 4: true, 5: true, 6: true}, "(reflect.Value).CanInt", "a signed integer"},
		"(reflect.Value).Uint":  {map[int64]bool{7: true, 8: true, 9: true, 10: true, 11: true, 12: true}, "(reflect.Value).CanUint", "an unsigned integer"},
		"(reflect.Value).Float": {map[int64]bool{13: true, 14: true}, "(reflect.Value).CanFloat", "a float"},
	}
	kindCallOn := func(k ssa.Value) ssa.Value {
		if c := an.CallOf(k); c != nil && an.CallName(c) == "(reflect.Value).Kind" && len(c.Args) == 1 {
			return c.Args[0]
		}
		return nil
	}
	same := func(a, b ssa.Value) bool { return a == b || sameRV(a, b) }
	for _, fn := range p.Funcs {
		if fn.Blocks == nil || isMainPkg(fn) || fn.Pkg == nil || p9OutOfScope(p, fn) != "" {
			continue
		}
		name := roles.Label(fn)
		an.EachInstr(fn, func(in ssa.Instruction) {
			call, ok := in.(*ssa.Call)
			if !ok {
				return
			}
			cn := an.CallName(&call.Call)
			cl, ok := classes[cn]
			if !ok || len(call.Call.Args) != 1 {
				return
			}
			rv := call.Call.Args[0]
			r.Counts["numeric accessors"]++
			construct := cn + " on " + describe(p, rv)
			// (a) the value is the result of a conversion to a type of the class
			if c := an.CallOf(rv); c != nil && an.CallName(c) == "(reflect.Value).Convert" && len(c.Args) == 2 {
				okT := false
				for _, o := range an.Origins(c.Args[1], an.StepValue) {
					var tc *ssa.CallCommon
					if ld, isLd := o.(*ssa.UnOp); isLd {
						if g, isG := ld.X.(*ssa.Global); isG {
							for _, pf := range p.Funcs {
								an.EachInstr(pf, func(in2 ssa.Instruction) {
									if st, ok := in2.(*ssa.Store); ok && st.Addr == ssa.Value(g) {
										tc = an.CallOf(st.Val)
									}
								})
							}
						}
					} else {
						tc = an.CallOf(o)
					}
					if tc != nil && an.CallName(tc) == "reflect.TypeOf" {
						if mi, isMI := tc.Args[0].(*ssa.MakeInterface); isMI {
							if b, isB := mi.X.Type().Underlying().(*types.Basic); isB {
								switch {
								case cn == "(reflect.Value).Int" && b.Info()&types.IsInteger != 0 && b.Info()&types.IsUnsigned == 0,
									cn == "(reflect.Value).Uint" && b.Info()&types.IsUnsigned != 0,
									cn == "(reflect.Value).Float" && b.Info()&types.IsFloat != 0:
									okT = true
								}
							}
						}
					}
				}
				if okT {
					r.OK(name, construct, an.InstrPos(in), "the value was converted to a type of that class")
					return
				}
			}
			// values known to have the same kind as rv: a dominating Kind(x) != Kind(y) that failed
			alike := []ssa.Value{rv}
			for _, g := range an.GuardsAtInstr(in) {
				b, ok := g.Cond.(*ssa.BinOp)
				if !ok || !(b.Op == token.NEQ && !g.True || b.Op == token.EQL && g.True) {
					continue
				}
				x, y := kindCallOn(b.X), kindCallOn(b.Y)
				if x == nil || y == nil {
					continue
				}
				if same(x, rv) {
					alike = append(alike, y)
				} else if same(y, rv) {
					alike = append(alike, x)
				}
			}
			// ... or at every call site of this function, where rv and another parameter are handed two values
			// whose kinds were found equal (mapKeyLess tests a.Kind() != b.Kind() and then calls the comparison)
			if par, isPar := rv.(*ssa.Parameter); isPar && par.Parent() == fn {
				pi := -1
				for i, pp := range fn.Params {
					if pp == par {
						pi = i
					}
				}
				sites := callSitesOf(p, fn)
				for qi, q := range fn.Params {
					if qi == pi || pi < 0 || !isPkgType(q.Type(), "reflect", "Value") || len(sites) == 0 {
						continue
					}
					all := true
					for _, site := range sites {
						if pi >= len(site.Call.Args) || qi >= len(site.Call.Args) {
							all = false
							break
						}
						a1, a2 := site.Call.Args[pi], site.Call.Args[qi]
						eq := false
						for _, g := range an.GuardsAtInstr(site) {
							b, ok := g.Cond.(*ssa.BinOp)
							if !ok || !(b.Op == token.NEQ && !g.True || b.Op == token.EQL && g.True) {
								continue
							}
							x, y := kindCallOn(b.X), kindCallOn(b.Y)
							if x != nil && y != nil && (same(x, a1) && same(y, a2) || same(x, a2) && same(y, a1)) {
								eq = true
							}
						}
						if !eq {
							all = false
						}
					}
					if all {
						alike = append(alike, q)
					}
				}
			}
			pred := func(cond ssa.Value, taken bool) bool {
				if !taken {
					return false
				}
				if c := an.CallOf(cond); c != nil && an.CallName(c) == cl.can && len(c.Args) == 1 {
					for _, a := range alike {
						if same(c.Args[0], a) {
							return true
						}
					}
				}
				b, ok := cond.(*ssa.BinOp)
				if !ok || b.Op != token.EQL {
					return false
				}
				for _, pair := range [][2]ssa.Value{{b.X, b.Y}, {b.Y, b.X}} {
					k, isC := an.ConstInt(pair[1])
					if !isC || !cl.kinds[k] {
						continue
					}
					for _, ko := range an.Origins(pair[0], an.StepValue) {
						if x := kindCallOn(ko); x != nil {
							for _, a := range alike {
								if same(x, a) {
									return true
								}
							}
						}
					}
				}
				return false
			}
			// or by boolean inference over the dominating tests: a CanX answer kept in a variable and compared
			// with another (`aU == bU` true and `aU` true give `bU`)
			inferred := func() bool {
				known := map[ssa.Value]bool{}
				var eqs [][3]interface{}
				for _, g := range an.GuardsAtInstr(in) {
					if b, ok := g.Cond.(*ssa.BinOp); ok && (b.Op == token.EQL || b.Op == token.NEQ) && isBoolType(b.X.Type()) && isBoolType(b.Y.Type()) {
						eqs = append(eqs, [3]interface{}{b.X, b.Y, g.True == (b.Op == token.EQL)})
						continue
					}
					known[g.Cond] = g.True
				}
				for round := 0; round < 4; round++ {
					for _, e := range eqs {
						x, y, eq := e[0].(ssa.Value), e[1].(ssa.Value), e[2].(bool)
						if cb, ok := an.ConstBool(x); ok {
							known[y] = cb == eq
						}
						if cb, ok := an.ConstBool(y); ok {
							known[x] = cb == eq
						}
						if v, ok := known[x]; ok {
							known[y] = v == eq
						}
						if v, ok := known[y]; ok {
							known[x] = v == eq
						}
					}
				}
				for v, val := range known {
					if !val {
						continue
					}
					if c := an.CallOf(v); c != nil && an.CallName(c) == cl.can && len(c.Args) == 1 {
						for _, a := range alike {
							if same(c.Args[0], a) {
								return true
							}
						}
					}
				}
				return false
			}
			if an.AllPathsGuarded(call.Block(), pred) || inferred() {
				r.OK(name, construct, an.InstrPos(in), "every path here has found the value (or one of the same kind) to be "+cl.what)
			} else {
				r.Bad(name, construct, an.InstrPos(in), fmt.Sprintf("%s calls %s on a value not known to be %s on every path: reflect panics for any other kind (a *reflect.ValueError, which no recover boundary converts)", an.FuncName(fn), cn, cl.what))
			}
		})
	}
	r.Floor("numeric accessors", 6)
}

// ---------------------------------------------------------------------------
// P4 (second part): the zero Value that Elem() of a nil pointer or nil interface yields

func p4Elem(p *an.Prog, r *an.Result) {
	roles := GetRoles(p)
	for _, fn := range p.Funcs {
		if fn.Blocks == nil || isMainPkg(fn) || fn.Pkg == nil || p9OutOfScope(p, fn) != "" {
			continue
		}
		name := roles.Label(fn)
		an.EachInstr(fn, func(in ssa.Instruction) {
			ec, ok := in.(*ssa.Call)
			if !ok || an.CallName(&ec.Call) != "(reflect.Value).Elem" || len(ec.Call.Args) != 1 {
				return
			}
			x := ec.Call.Args[0]
			// every method called on the result (through phis and local cells) that panics on the zero Value
			seen := map[ssa.Value]bool{}
			var uses []*ssa.Call
			// where the Elem() result joins other values (a phi), the tests that count are those on the
			// way to the join: the block the result arrives from
			anchorOf := map[*ssa.Call]*ssa.BasicBlock{}
			var walk func(v ssa.Value, depth int, anchor *ssa.BasicBlock)
			walk = func(v ssa.Value, depth int, anchor *ssa.BasicBlock) {
				if seen[v] || depth > 4 || v.Referrers() == nil {
					return
				}
				seen[v] = true
				for _, u := range *v.Referrers() {
					switch y := u.(type) {
					case *ssa.Call:
						n := an.CallName(&y.Call)
						if strings.HasPrefix(n, "(reflect.Value).") && len(y.Call.Args) > 0 && y.Call.Args[0] == v && reflectValuePanicsOnZero[strings.TrimPrefix(n, "(reflect.Value).")] {
							uses = append(uses, y)
							anchorOf[y] = anchor
						}
					case *ssa.Phi:
						a2 := anchor
						if a2 == nil {
							for i, e := range y.Edges {
								if e == v {
									a2 = y.Block().Preds[i]
								}
							}
						}
						walk(y, depth+1, a2)
					case *ssa.Store:
						if al, ok := y.Addr.(*ssa.Alloc); ok && y.Val == v && al.Referrers() != nil {
							for _, l := range *al.Referrers() {
								if ld, ok := l.(*ssa.UnOp); ok {
									walk(ld, depth+1, anchor)
								}
							}
						}
					}
				}
			}
			walk(ec, 0, nil)
			for _, uc := range uses {
				r.Counts["uses of an Elem() result"]++
				method := strings.TrimPrefix(an.CallName(&uc.Call), "(reflect.Value).")
				construct := describe(p, x) + ".Elem()." + method + "()"
				recv := uc.Call.Args[0]
				pred := func(cond ssa.Value, taken bool) bool {
					c := an.CallOf(cond)
					if c == nil || len(c.Args) != 1 {
						return false
					}
					switch an.CallName(c) {
					case "(reflect.Value).IsNil":
						// !x.IsNil() before the Elem()
						return !taken && (c.Args[0] == x || sameRV(c.Args[0], x))
					case "(reflect.Value).IsValid":
						return taken && (c.Args[0] == recv || c.Args[0] == ssa.Value(ec) || sameRV(c.Args[0], recv))
					}
					return false
				}
				switch {
				case an.AllPathsGuarded(uc.Block(), pred) || an.AllPathsGuarded(ec.Block(), pred) || anchorOf[uc] != nil && edgeGuarded(anchorOf[uc], pred):
					r.OK(name, construct, an.InstrPos(uc), "the pointer or interface was found non-nil, or the result valid, on every path")
				case kindGuarded(uc, recv):
					r.OK(name, construct, an.InstrPos(uc), "dominated by a Kind() test of the result (the zero Value has Kind Invalid)")
				default:
					r.Bad(name, construct, an.InstrPos(uc), fmt.Sprintf("%s: Elem() of a nil pointer or nil interface is the zero Value, and %s on it panics; nothing establishes that %s is not nil (IsNil) or that the result is valid (IsValid)", an.FuncName(fn), method, describe(p, x)))
				}
			}
		})
	}
	r.Floor("uses of an Elem() result", 2)
}

// edgeGuarded: every path to the end of block b is guarded - including by b's own branch when b ends
// in an If whose taken edge leads on (the join is one of its successors).
func edgeGuarded(b *ssa.BasicBlock, pred func(cond ssa.Value, taken bool) bool) bool {
	if an.AllPathsGuarded(b, pred) {
		return true
	}
	if ifi, ok := b.Instrs[len(b.Instrs)-1].(*ssa.If); ok && len(b.Succs) == 2 {
		// a test in the arriving block itself: `if !v.IsValid() { return }` falls through to the join
		for i, s := range b.Succs {
			_ = s
			if pred(ifi.Cond, i == 0) {
				// the other successor must not lead to the join: conservatively require it to end in a return
				other := b.Succs[1-i]
				if _, isRet := other.Instrs[len(other.Instrs)-1].(*ssa.Return); isRet {
					return true
				}
			}
		}
	}
	return false
}

// comparablePredicate: h(v) bool answers true only where v is nil or reflect.ValueOf(v).Comparable():
// every origin of every result is the constant false, the Comparable() test of the parameter itself, a
// comparison of the parameter with nil, or the constant true arriving over an edge that such a test
// establishes.
func comparablePredicate(h *ssa.Function) bool {
	if h.Signature.Results().Len() != 1 {
		return false
	}
	par := h.Params[0]
	isTest := func(v ssa.Value) bool {
		if c := an.CallOf(v); c != nil && an.CallName(c) == "(reflect.Value).Comparable" {
			return derivesFromOperand(an.Args(c)[0], par)
		}
		if b, ok := v.(*ssa.BinOp); ok && b.Op == token.EQL {
			return b.X == ssa.Value(par) && an.IsNilConst(b.Y) || b.Y == ssa.Value(par) && an.IsNilConst(b.X)
		}
		return false
	}
	pred := func(cond ssa.Value, taken bool) bool { return taken && isTest(cond) }
	var okVal func(v ssa.Value, from *ssa.BasicBlock, to *ssa.BasicBlock, depth int) bool
	okVal = func(v ssa.Value, from, to *ssa.BasicBlock, depth int) bool {
		if depth > 6 {
			return false
		}
		if c, ok := an.ConstBool(v); ok {
			if !c {
				return true
			}
			// true: the edge it arrives over must be one a test establishes
			if from == nil {
				return false
			}
			if an.AllPathsGuarded(from, pred) {
				return true
			}
			if ifi, ok := from.Instrs[len(from.Instrs)-1].(*ssa.If); ok && len(from.Succs) == 2 {
				for k, s := range from.Succs {
					if s == to && pred(ifi.Cond, k == 0) {
						return true
					}
				}
			}
			return false
		}
		if isTest(v) {
			return true
		}
		if ph, ok := v.(*ssa.Phi); ok {
			for i, e := range ph.Edges {
				if !okVal(e, ph.Block().Preds[i], ph.Block(), depth+1) {
					return false
				}
			}
			return true
		}
		// a && b with b a test: the value is false or the test
		return false
	}
	good, n := true, 0
	an.EachInstr(h, func(in ssa.Instruction) {
		if ret, ok := in.(*ssa.Return); ok {
			n++
			if !okVal(resultsOf(ret)[0], ret.Block(), nil, 0) {
				good = false
			}
		}
	})
	return good && n > 0
}

// resultTypeByArgument: the operand of the assertion is the first result of a module function that
// switches on the type of the argument it was given here, and on the arm for this argument's static
// type every result is made from the asserted type - or is nil beside a non-nil error, which the
// caller has tested before asserting.
func resultTypeByArgument(p *an.Prog, ta *ssa.TypeAssert) string {
	var call *ssa.Call
	idx := 0
	switch x := ta.X.(type) {
	case *ssa.Call:
		call = x
	case *ssa.Extract:
		if c, ok := x.Tuple.(*ssa.Call); ok {
			call, idx = c, x.Index
		}
	}
	if call == nil || idx != 0 {
		return ""
	}
	callee := call.Call.StaticCallee()
	if callee == nil || callee.Blocks == nil || !p.InModule(callee) {
		return ""
	}
	// the error of the same call has been found nil
	if callee.Signature.Results().Len() == 2 {
		errOK := false
		for _, g := range an.GuardsAtInstr(ta) {
			b, ok := g.Cond.(*ssa.BinOp)
			if !ok || !(b.Op == token.NEQ && !g.True || b.Op == token.EQL && g.True) {
				continue
			}
			for _, pair := range [][2]ssa.Value{{b.X, b.Y}, {b.Y, b.X}} {
				if ex, ok := pair[0].(*ssa.Extract); ok && ex.Tuple == ssa.Value(call) && ex.Index == 1 && an.IsNilConst(pair[1]) {
					errOK = true
				}
			}
		}
		if !errOK {
			return ""
		}
	}
	// which parameter carries an argument whose static type is concrete, and is switched on in the callee
	for i, a := range call.Call.Args {
		if i >= len(callee.Params) {
			break
		}
		at := a.Type()
		if mi, ok := a.(*ssa.MakeInterface); ok {
			at = mi.X.Type()
		}
		if an.IsInterface(at) {
			continue
		}
		par := callee.Params[i]
		if !an.IsInterface(par.Type()) {
			continue
		}
		// the arm: blocks dominated by the ok edge of par.(at)
		onArm := func(in ssa.Instruction) bool {
			for _, g := range an.GuardsAtInstr(in) {
				if ex, ok := g.Cond.(*ssa.Extract); ok && g.True && ex.Index == 1 {
					if t2, ok := ex.Tuple.(*ssa.TypeAssert); ok && t2.X == ssa.Value(par) && types.Identical(t2.AssertedType, at) {
						return true
					}
				}
			}
			return false
		}
		good, n := true, 0
		an.EachInstr(callee, func(in ssa.Instruction) {
			ret, ok := in.(*ssa.Return)
			if !ok || !onArm(ret) {
				return
			}
			res := resultsOf(ret)
			for _, o := range an.Origins(res[0], stepIP(p)) {
				n++
				switch y := o.(type) {
				case *ssa.MakeInterface:
					if !types.Identical(y.X.Type(), ta.AssertedType) {
						good = false
					}
				case *ssa.Const:
					// nil: only beside an error that is not the nil constant
					if y.Value != nil || len(res) < 2 || an.IsNilConst(res[len(res)-1]) {
						good = false
					}
				case *ssa.Alloc:
					if !types.Identical(y.Type(), ta.AssertedType) {
						good = false
					}
				default:
					if !types.Identical(o.Type(), ta.AssertedType) {
						good = false
					}
				}
			}
		})
		if good && n > 0 {
			return fmt.Sprintf("%s switches on the type of its argument, which is %s here: on that arm every result is a %s, or nil beside an error that has been tested", an.FuncName(callee), an.TypeName(at), an.TypeName(ta.AssertedType))
		}
	}
	return ""
}

// returnsKeyListOf: the module function returns the keys of the map it is given - rv.MapKeys() of its
// first parameter, possibly reordered: every result originates from that call, and nothing is stored
// into an element of the list except another element of it (a swap). A list into which rebuilt values
// are put (reflect.ValueOf(k.String())) is not the map's keys any more: their type may differ.
func returnsKeyListOf(p *an.Prog, fn *ssa.Function) bool {
	if fn == nil || fn.Blocks == nil || !p.InModule(fn) || len(fn.Params) == 0 || fn.Signature.Results().Len() != 1 {
		return false
	}
	var keys []ssa.Value
	ok, n := true, 0
	an.EachInstr(fn, func(in ssa.Instruction) {
		ret, isRet := in.(*ssa.Return)
		if !isRet {
			return
		}
		n++
		for _, o := range an.Origins(resultsOf(ret)[0], an.StepValue) {
			kc := an.CallOf(o)
			if kc == nil || an.CallName(kc) != "(reflect.Value).MapKeys" || kc.Args[0] != ssa.Value(fn.Params[0]) {
				ok = false
				continue
			}
			keys = append(keys, o)
		}
	})
	if !ok || n == 0 {
		return false
	}
	isKeys := func(v ssa.Value) bool {
		for _, o := range an.Origins(v, an.StepValue) {
			for _, k := range keys {
				if o == k {
					return true
				}
			}
		}
		return false
	}
	for _, f := range unitOf(fn) {
		an.EachInstr(f, func(in ssa.Instruction) {
			st, isSt := in.(*ssa.Store)
			if !isSt {
				return
			}
			ia, isIA := st.Addr.(*ssa.IndexAddr)
			if !isIA {
				return
			}
			base := ia.X
			if fv, isFV := an.Deref(base).(*ssa.FreeVar); isFV {
				_ = fv
			}
			if !isKeys(base) {
				return
			}
			// the stored value must be an element of the list itself
			good := false
			if ld, isLd := st.Val.(*ssa.UnOp); isLd {
				if ia2, isIA2 := ld.X.(*ssa.IndexAddr); isIA2 && isKeys(ia2.X) {
					good = true
				}
			}
			if !good {
				ok = false
			}
		})
	}
	return ok
}

func isBoolType(t types.Type) bool {
	b, ok := t.Underlying().(*types.Basic)
	return ok && b.Info()&types.IsBoolean != 0
}

// computedSizeUnbounded: s is the result of a module function whose result is arithmetic on numbers that
// are not lengths of things in memory (fields, parameters), and neither a dominating test here nor one at
// every call site of fn compares that result with a constant ceiling. Returns what the size is, or "".
func computedSizeUnbounded(p *an.Prog, fn *ssa.Function, at ssa.Instruction, s ssa.Value) string {
	var call *ssa.Call
	for _, o := range an.Origins(s, an.StepValue) {
		if c, ok := o.(*ssa.Call); ok {
			if callee := c.Call.StaticCallee(); callee != nil && p.InModule(callee) && arithmeticOnFields(p, callee) {
				call = c
			}
		}
	}
	if call == nil {
		return ""
	}
	callee := call.Call.StaticCallee()
	ceiling := func(in ssa.Instruction, same func(c *ssa.Call) bool) bool {
		for _, g := range an.GuardsAtInstr(in) {
			b, ok := g.Cond.(*ssa.BinOp)
			if !ok {
				continue
			}
			for _, pr := range [][2]ssa.Value{{b.X, b.Y}, {b.Y, b.X}} {
				c, isCall := an.Strip(pr[0]).(*ssa.Call)
				if !isCall || !same(c) {
					continue
				}
				if _, isC := an.ConstInt(pr[1]); !isC {
					continue
				}
				op := b.Op
				if pr[0] == b.Y { // constant on the left: flip
					switch op {
					case token.LSS:
						op = token.GTR
					case token.LEQ:
						op = token.GEQ
					case token.GTR:
						op = token.LSS
					case token.GEQ:
						op = token.LEQ
					}
				}
				if (op == token.LSS || op == token.LEQ) && g.True || (op == token.GTR || op == token.GEQ) && !g.True {
					return true
				}
			}
		}
		return false
	}
	if ceiling(at, func(c *ssa.Call) bool {
		return c == call || c.Call.StaticCallee() == callee && len(c.Call.Args) > 0 && len(call.Call.Args) > 0 && sameValue(c.Call.Args[0], call.Call.Args[0])
	}) {
		return ""
	}
	// at every call site of fn, on the argument that is fn's receiver/parameter the size is computed from -
	// unless a template can call fn by name: a struct value offers its exported methods without arguments
	// as properties, and that call goes through reflection past every call site
	if len(call.Call.Args) > 0 && !invocableByName(fn) {
		if par, ok := an.Deref(call.Call.Args[0]).(*ssa.Parameter); ok && par.Parent() == fn {
			idx := -1
			for i, pp := range fn.Params {
				if pp == par {
					idx = i
				}
			}
			sites := callSitesOf(p, fn)
			if idx >= 0 && len(sites) > 0 {
				all := true
				for _, site := range sites {
					if idx >= len(site.Call.Args) {
						all = false
						break
					}
					arg := site.Call.Args[idx]
					if !ceiling(site, func(c *ssa.Call) bool {
						return c.Call.StaticCallee() == callee && len(c.Call.Args) > 0 && (sameValue(c.Call.Args[0], arg) || an.Deref(c.Call.Args[0]) == an.Deref(arg))
					}) {
						all = false
					}
				}
				if all {
					return ""
				}
			}
		}
	}
	return "computed by " + an.FuncName(callee) + " from its operands"
}

// invocableByName: an exported method of a struct type that takes no arguments and returns one or two
// results - what structValue.invoke calls when a template asks for the property of that name.
func invocableByName(fn *ssa.Function) bool {
	recv := fn.Signature.Recv()
	if recv == nil || fn.Object() == nil || !fn.Object().Exported() {
		return false
	}
	if _, isStruct := derefT(recv.Type()).Underlying().(*types.Struct); !isStruct {
		return false
	}
	n := fn.Signature.Results().Len()
	return fn.Signature.Params().Len() == 0 && n >= 1 && n <= 2
}

// arithmeticOnFields: some result of f is a sum or difference whose operands include a field or parameter
// read (not a length): the element count of a range.
func arithmeticOnFields(p *an.Prog, f *ssa.Function) bool {
	if f.Blocks == nil || f.Signature.Results().Len() != 1 {
		return false
	}
	if b, ok := f.Signature.Results().At(0).Type().Underlying().(*types.Basic); !ok || b.Info()&types.IsInteger == 0 {
		return false
	}
	found := false
	an.EachInstr(f, func(in ssa.Instruction) {
		ret, ok := in.(*ssa.Return)
		if !ok {
			return
		}
		for _, o := range an.Origins(ret.Results[0], an.StepValue) {
			b, ok := o.(*ssa.BinOp)
			if !ok || (b.Op != token.ADD && b.Op != token.SUB && b.Op != token.MUL) {
				continue
			}
			lf := linOf(b, 0)
			for a := range lf.coef {
				switch x := a.(type) {
				case *ssa.Field:
					if !countField(p, a) {
						found = true
					}
				case *ssa.Parameter:
					found = true
				case *ssa.UnOp:
					if _, isFA := x.X.(*ssa.FieldAddr); isFA && !countField(p, a) {
						found = true
					}
				}
			}
		}
	})
	return found
}

// countField: v reads a field that the module only ever fills with a count of things in memory (len, cap,
// NumIn, NumOut, NumField, reflect's Len): such a number is bounded by what exists, like the count itself.
func countField(p *an.Prog, v ssa.Value) bool {
	st := fieldStoresOf(p, v)
	for _, s := range st {
		c := an.CallOf(s.Val)
		if c == nil {
			return false
		}
		switch an.CallName(c) {
		case "builtin.len", "builtin.cap", "(reflect.Value).Len", "(reflect.Value).Cap", "(reflect.Type).NumIn", "(reflect.Type).NumOut", "(reflect.Type).NumField", "(reflect.Value).NumField":
		default:
			return false
		}
	}
	return len(st) > 0
}

// ---------------------------------------------------------------------------
// P14

func init() {
	register("P14", "reflect.Value.IsNil is called only on a value of a kind that can be nil (chan, func, interface, map, pointer, slice): established by a test of its kind, by what produced it (a method value, ValueOf of a statically nilable type), or at every call site of the function it is a parameter of; on any other kind IsNil panics", runP14)
}

// goValueNilable: on every path to at, the kind of the Go value gv - reflect.TypeOf(gv).Kind() or
// reflect.ValueOf(gv).Kind() - was compared equal to a kind that can be nil, or gv's static type is one.
func goValueNilable(at ssa.Instruction, gv ssa.Value) bool {
	if mi, ok := gv.(*ssa.MakeInterface); ok {
		switch mi.X.Type().Underlying().(type) {
		case *types.Pointer, *types.Map, *types.Slice, *types.Chan, *types.Signature:
			return true
		}
	}
	same := func(x ssa.Value) bool { return sameValue(an.StripIface(x), an.StripIface(gv)) }
	return an.AllPathsGuarded(at.Block(), func(cond ssa.Value, taken bool) bool {
		b, ok := cond.(*ssa.BinOp)
		if !ok || !(b.Op == token.EQL && taken || b.Op == token.NEQ && !taken) {
			return false
		}
		for _, pair := range [][2]ssa.Value{{b.X, b.Y}, {b.Y, b.X}} {
			k, isC := an.ConstInt(pair[1])
			if !isC || !nilableKinds[k] || !isPkgType(pair[0].Type(), "reflect", "Kind") {
				continue
			}
			for _, ko := range an.Origins(pair[0], an.StepValue) {
				c := an.CallOf(ko)
				if c == nil {
					continue
				}
				switch an.CallName(c) {
				case "(reflect.Value).Kind":
					if vc := an.CallOf(c.Args[0]); vc != nil && an.CallName(vc) == "reflect.ValueOf" && same(vc.Args[0]) {
						return true
					}
				case "(reflect.Type).Kind":
					tv := c.Value
					if !c.IsInvoke() && len(c.Args) > 0 {
						tv = c.Args[0]
					}
					for _, to := range an.Origins(tv, an.StepValue) {
						if tc := an.CallOf(to); tc != nil && an.CallName(tc) == "reflect.TypeOf" && same(tc.Args[0]) {
							return true
						}
					}
				}
			}
		}
		return false
	})
}

var nilableKinds = map[int64]bool{18: true, 19: true, 20: true, 21: true, 22: true, 23: true, 26: true}

func runP14(p *an.Prog, r *an.Result) {
	roles := GetRoles(p)
	var nilable func(fn *ssa.Function, at ssa.Instruction, rv ssa.Value, depth int) string
	nilable = func(fn *ssa.Function, at ssa.Instruction, rv ssa.Value, depth int) string {
		if depth > 3 {
			return ""
		}
		// (a) a test of the value's kind on every path (the arms of a case with several kinds are several tests)
		kindGuard := func(cond ssa.Value, taken bool) string {
			// a predicate over kinds of the module, read as a table: true only for kinds that can be nil
			if pc := an.CallOf(cond); pc != nil && taken && len(pc.Args) == 1 && isPkgType(pc.Args[0].Type(), "reflect", "Kind") {
				if callee := pc.StaticCallee(); callee != nil && p.InModule(callee) {
					if kc := an.CallOf(pc.Args[0]); kc != nil && an.CallName(kc) == "(reflect.Value).Kind" && len(kc.Args) == 1 && sameRef(kc.Args[0], rv) {
						if t := kindTableOf(p, callee, 0); t.ok {
							all, some := true, false
							for pr, v := range t.val {
								if v == 1 {
									some = true
									if !nilableKinds[pr[0]] {
										all = false
									}
								}
							}
							if all && some {
								return "under a predicate that is true only for kinds that can be nil"
							}
						}
					}
				}
			}
			// the kinds the value can have on this edge (through classes of kinds and joins, read as tables)
			if set, known := kindsOnEdge(p, cond, taken, rv); known && len(set) > 0 {
				all := true
				for k := range set {
					if !nilableKinds[k] {
						all = false
					}
				}
				if all {
					return "on an edge where every kind the value can have can be nil"
				}
			}
			b, ok := cond.(*ssa.BinOp)
			if !ok || !(b.Op == token.EQL && taken || b.Op == token.NEQ && !taken) {
				return ""
			}
			for _, pair := range [][2]ssa.Value{{b.X, b.Y}, {b.Y, b.X}} {
				k, isC := an.ConstInt(pair[1])
				if !isC || !nilableKinds[k] || !isPkgType(pair[0].Type(), "reflect", "Kind") {
					continue
				}
				for _, ko := range an.Origins(pair[0], an.StepValue) {
					c := an.CallOf(ko)
					if c == nil {
						continue
					}
					if an.CallName(c) == "(reflect.Value).Kind" && len(c.Args) == 1 && sameRef(c.Args[0], rv) {
						return "under a test that its kind can be nil"
					}
					// the kind of the type of the same Go value: reflect.TypeOf(x).Kind() for rv = reflect.ValueOf(x),
					// or rv.Type().Kind()
					if cn := an.CallName(c); (cn == "(reflect.Type).Kind" || cn == "(*reflect.rtype).Kind") && c.IsInvoke() || cn == "(reflect.Type).Kind" {
						tv := c.Value
						if !c.IsInvoke() && len(c.Args) > 0 {
							tv = c.Args[0]
						}
						for _, to := range an.Origins(tv, an.StepValue) {
							tc := an.CallOf(to)
							if tc == nil {
								continue
							}
							if an.CallName(tc) == "(reflect.Value).Type" && len(tc.Args) == 1 && sameRef(tc.Args[0], rv) {
								return "under a test that the kind of its type can be nil"
							}
							if an.CallName(tc) == "reflect.TypeOf" {
								for _, ro := range an.Origins(rv, an.StepValue) {
									if rc := an.CallOf(ro); rc != nil && an.CallName(rc) == "reflect.ValueOf" && sameValue(an.StripIface(rc.Args[0]), an.StripIface(tc.Args[0])) {
										return "under a test that the kind of the same value's type can be nil"
									}
								}
							}
						}
					}
					// a join of two kinds that is this kind only when both are
					if callee := c.StaticCallee(); callee != nil && p.InModule(callee) && len(c.Args) == 2 {
						if t := kindTableOf(p, callee, 0); t.ok {
							for pos, a := range c.Args {
								kc := an.CallOf(a)
								if kc == nil || an.CallName(kc) != "(reflect.Value).Kind" || len(kc.Args) != 1 || !sameRef(kc.Args[0], rv) {
									continue
								}
								all := true
								for pr, v := range t.val {
									if v == k && !nilableKinds[pr[pos]] {
										all = false
									}
								}
								if all {
									return "under a test of the joined kind, which is that kind only for two values of a kind that can be nil"
								}
							}
						}
					}
				}
			}
			return ""
		}
		why := ""
		if an.AllPathsGuarded(at.Block(), func(cond ssa.Value, taken bool) bool {
			if w := kindGuard(cond, taken); w != "" {
				why = w
				return true
			}
			return false
		}) {
			return why
		}
		// (b) what produced it
		for _, o := range an.Origins(rv, an.StepValue) {
			c := an.CallOf(o)
			if c == nil {
				continue
			}
			switch an.CallName(c) {
			case "(reflect.Value).MethodByName", "(reflect.Value).Method":
				return "a method value (kind Func)"
			case "reflect.ValueOf":
				if mi, ok := c.Args[0].(*ssa.MakeInterface); ok {
					switch mi.X.Type().Underlying().(type) {
					case *types.Pointer, *types.Map, *types.Slice, *types.Chan, *types.Signature:
						return "ValueOf a statically nilable type"
					}
				}
			}
		}
		// (c') ValueOf a parameter: at every call site the Go value handed in was found to be of such a kind
		if vc := an.CallOf(rv); vc != nil && an.CallName(vc) == "reflect.ValueOf" {
			if par, ok := an.StripIface(vc.Args[0]).(*ssa.Parameter); ok && par.Parent() == fn {
				idx := -1
				for i, pp := range fn.Params {
					if pp == par {
						idx = i
					}
				}
				sites := callSitesOf(p, fn)
				if idx >= 0 && len(sites) > 0 {
					all := true
					for _, s := range sites {
						if idx >= len(s.Call.Args) || !goValueNilable(s, s.Call.Args[idx]) {
							all = false
						}
					}
					if all {
						return "at every call site the value handed in was found to be of a kind that can be nil"
					}
				}
			}
		}
		// (c) a parameter: at every call site
		if par, ok := rv.(*ssa.Parameter); ok && par.Parent() == fn {
			idx := -1
			for i, pp := range fn.Params {
				if pp == par {
					idx = i
				}
			}
			sites := callSitesOf(p, fn)
			if idx >= 0 && len(sites) > 0 {
				for _, s := range sites {
					if idx >= len(s.Call.Args) || nilable(s.Parent(), s, s.Call.Args[idx], depth+1) == "" {
						return ""
					}
				}
				return "at every call site the argument is of a kind that can be nil"
			}
		}
		return ""
	}
	for _, fn := range p.Funcs {
		if fn.Blocks == nil || isMainPkg(fn) || fn.Pkg == nil || p.IsGenerated(an.FuncPos(fn)) {
			continue
		}
		name := roles.Label(fn)
		an.EachInstr(fn, func(in ssa.Instruction) {
			c, ok := in.(*ssa.Call)
			if !ok || an.CallName(&c.Call) != "(reflect.Value).IsNil" || len(c.Call.Args) != 1 {
				return
			}
			r.Counts["IsNil calls"]++
			rv := c.Call.Args[0]
			construct := "(reflect.Value).IsNil on " + describe(p, rv)
			if why := nilable(fn, in, rv, 0); why != "" {
				r.OK(name, construct, c.Pos(), why)
			} else {
				r.Bad(name, construct, c.Pos(), fmt.Sprintf("%s calls IsNil on a reflect.Value whose kind is not known to be one that can be nil: for an int, a string, a struct it panics (the second result of time.Time.Zone)", an.FuncName(fn)))
			}
		})
	}
	r.Floor("IsNil calls", 3)
}

// sameRef: the same reflect.Value: the same SSA value, the same derivation (sameRV), or two reads of the
// same element of the same slice at the same constant index (results[1] read twice).
func sameRef(a, b ssa.Value) bool {
	if a == b || sameRV(a, b) {
		return true
	}
	la, ok1 := a.(*ssa.UnOp)
	lb, ok2 := b.(*ssa.UnOp)
	if ok1 && ok2 && la.Op == token.MUL && lb.Op == token.MUL {
		ia, ok3 := la.X.(*ssa.IndexAddr)
		ib, ok4 := lb.X.(*ssa.IndexAddr)
		if ok3 && ok4 && ia.X == ib.X {
			ka, okA := an.ConstInt(ia.Index)
			kb, okB := an.ConstInt(ib.Index)
			return okA && okB && ka == kb
		}
	}
	return false
}

// basicOnlyConstraint: the constraint of tp is a union of (approximated) basic types and nothing else.
func basicOnlyConstraint(tp *types.TypeParam) bool {
	it, ok := tp.Constraint().Underlying().(*types.Interface)
	if !ok || it.NumMethods() != 0 {
		return false
	}
	found := false
	var walk func(t types.Type) bool
	walk = func(t types.Type) bool {
		switch u := t.(type) {
		case *types.Union:
			for i := 0; i < u.Len(); i++ {
				if !walk(u.Term(i).Type()) {
					return false
				}
			}
			return u.Len() > 0
		case *types.Interface:
			if u.NumMethods() != 0 || u.NumEmbeddeds() == 0 {
				return false
			}
			for i := 0; i < u.NumEmbeddeds(); i++ {
				if !walk(u.EmbeddedType(i)) {
					return false
				}
			}
			return true
		case *types.Named:
			return walk(u.Underlying())
		case *types.Alias:
			return walk(types.Unalias(u))
		case *types.Basic:
			found = true
			return true
		}
		return false
	}
	return walk(it) && found
}

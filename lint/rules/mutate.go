package rules

import (
	"fmt"
	"go/token"
	"go/types"
	"os"
	"sort"
	"strings"

	"golang.org/x/tools/go/ssa"

	"lv/an"
)

// Parameter-mutation summaries (DESIGN 3.4) and rule M1.
//
// For a function F (analysed together with the anonymous functions nested in
// it) and a seed value p, the analysis computes the set A of values that may
// alias storage reachable from p (p itself, sub-slices, elements and fields
// loaded from it, interface and reflect wrappers of those, results of module
// functions that return such an alias) and the set C of containers allocated
// by F into which A-values were stored (copies); loading from C yields A
// again. A mutation is a store, map update, append/copy/delete/clear, known
// mutator call, reflect setter, or call of a module function that mutates
// the corresponding parameter, applied to a value in A.

func init() {
	register("M1", "no standard filter stores through, sorts, appends to or otherwise mutates a slice, map, pointer or interface argument (including objects nested in it)", runM1)
}

type mutEvent struct {
	in   ssa.Instruction
	what string
	// the write itself (events propagated through calls keep their source)
	srcFn   *ssa.Function
	srcWhat string
	srcPos  token.Pos
	chain   string
}

// mutSource is one distinct write that a summary reports.
type mutSource struct {
	fn   *ssa.Function
	what string
	pos  token.Pos
	via  string // call chain from the summarised function
}

type mutSummary struct {
	// mutFrom[i][k]: description of a write the function performs into
	// storage at depth >= k below parameter i ("" if none), k = 0..3.
	mutFrom map[int]*[4]map[string]*mutSource
	// retFrom[i][k]: distance of the closest result when parameter i is
	// seeded at distance k (distInf if no result aliases it).
	retFrom map[int]*[4]int
}

type mutAnalysis struct {
	cells         map[cellKey]*fieldCell
	tcells        map[types.Type][]*fieldCell
	convertedInto map[types.Type]bool
	p             *an.Prog
	sums          map[*ssa.Function]*mutSummary
	// justified drops a mutation event at its source (reviewed table entries).
	justified func(fn *ssa.Function, what string) bool
	sites     map[ssa.CallInstruction][]*ssa.Function
	internal  map[types.Type]int // 1 = in progress, 2 = internal-only, 3 = may hold caller data
}

// internalOnly reports whether values of type t can only ever be (or point
// to, or contain) objects of module-declared struct types that have no slot
// for caller data: render nodes, tokens, configuration, compiled statements,
// function values. Plain-data shapes (any, interfaces with a data-holding
// module implementer, slices/maps/pointers of basic or foreign types) are not
// internal-only. Coinductive on recursive types.
func (ma *mutAnalysis) internalOnly(t types.Type) bool {
	if ma.internal == nil {
		ma.internal = map[types.Type]int{}
	}
	switch ma.internal[t] {
	case 1, 2:
		return true
	case 3:
		return false
	}
	ma.internal[t] = 1
	res := ma.internalOnly1(t)
	if res {
		ma.internal[t] = 2
	} else {
		ma.internal[t] = 3
	}
	return res
}

func (ma *mutAnalysis) internalOnly1(t types.Type) bool {
	switch x := t.(type) {
	case *types.Named:
		if isPkgType(x, "reflect", "Value") {
			return false
		}
		switch u := x.Underlying().(type) {
		case *types.Struct:
			if !an.IsModulePkg(x.Obj().Pkg()) {
				// foreign struct (time.Time, bytes.Buffer, yaml.MapItem): by structure
				return ma.internalOnly(u)
			}
			return ma.internalOnly(u)
		case *types.Interface:
			return ma.internalOnly(u)
		default:
			return ma.internalOnly(u)
		}
	case *types.Struct:
		for i := 0; i < x.NumFields(); i++ {
			ft := x.Field(i).Type()
			if b, basic := ft.Underlying().(*types.Basic); basic {
				if b.Kind() == types.UnsafePointer {
					return false // reflect.Value and the module types defined from it: points anywhere
				}
				continue
			}
			if !ma.internalOnly(ft) {
				return false
			}
		}
		return true
	case *types.Interface:
		if x.NumMethods() == 0 {
			return false
		}
		for _, n := range moduleNamedTypes(ma.p) {
			if an.IsInterface(n) {
				continue
			}
			for _, tt := range []types.Type{n, types.NewPointer(n)} {
				if types.Implements(tt, x) {
					if _, basic := n.Underlying().(*types.Basic); basic {
						continue
					}
					if !ma.internalOnly(tt) {
						return false
					}
					break
				}
			}
		}
		return true
	case *types.Signature:
		return true
	case *types.Basic:
		return false // as an element type: plain data
	case *types.Pointer:
		if _, basic := x.Elem().Underlying().(*types.Basic); basic {
			return false
		}
		return ma.internalOnly(x.Elem())
	case *types.Slice:
		if _, basic := x.Elem().Underlying().(*types.Basic); basic {
			return false
		}
		return ma.internalOnly(x.Elem())
	case *types.Array:
		if _, basic := x.Elem().Underlying().(*types.Basic); basic {
			return false
		}
		return ma.internalOnly(x.Elem())
	case *types.Map:
		if _, basic := x.Elem().Underlying().(*types.Basic); basic {
			return false
		}
		return ma.internalOnly(x.Elem())
	case *types.Chan:
		return ma.internalOnly(x.Elem())
	case *types.Tuple:
		for i := 0; i < x.Len(); i++ {
			if !ma.internalOnly(x.At(i).Type()) {
				return false
			}
		}
		return true
	}
	return false
}

// targets resolves the module functions a call may reach: the static callee,
// the implementers of an interface method, or - for a call through a
// function value - the CHA candidates of the site.
func (ma *mutAnalysis) targets(ci ssa.CallInstruction, unit map[*ssa.Function]bool) []*ssa.Function {
	c := ci.Common()
	if callee := c.StaticCallee(); callee != nil {
		if o := callee.Origin(); o != nil {
			callee = o // an instance of a generic function of the module: the generic's body and summary
		}
		if ma.p.InModule(callee) && !unit[callee] {
			return []*ssa.Function{callee}
		}
		return nil
	}
	if c.IsInvoke() {
		return ma.implementers(c)
	}
	if ma.sites == nil {
		ma.sites = map[ssa.CallInstruction][]*ssa.Function{}
		for _, n := range ma.p.CHA().Nodes {
			if n.Func == nil || !ma.p.InModule(n.Func) {
				continue
			}
			for _, e := range n.Out {
				if e.Site != nil && e.Callee.Func != nil && ma.p.InModule(e.Callee.Func) && !isMainPkg(e.Callee.Func) {
					ma.sites[e.Site] = append(ma.sites[e.Site], e.Callee.Func)
				}
			}
		}
	}
	return ma.sites[ci]
}

var mutCache = map[*an.Prog]*mutAnalysis{}

// fieldCell stands for "field f of any struct of this type" within one run of the analysis: the
// analysis is field-sensitive for the module's struct types by type, so that a context object holding
// both the bindings and the configuration, or a parser frame holding both a grammar entry and the list
// being built, does not make the one look like the other.
type fieldCell struct {
	st   *types.Struct
	f    int
	name string
}

func (c *fieldCell) Name() string                  { return c.name }
func (c *fieldCell) String() string                { return c.name }
func (c *fieldCell) Type() types.Type              { return c.st.Field(c.f).Type() }
func (c *fieldCell) Parent() *ssa.Function         { return nil }
func (c *fieldCell) Referrers() *[]ssa.Instruction { return nil }
func (c *fieldCell) Pos() token.Pos                { return c.st.Field(c.f).Pos() }

type cellKey struct {
	st *types.Struct
	f  int
}

// cellOf: the cell of field f of struct type t (a module struct, named or not); nil for foreign structs.
func (ma *mutAnalysis) cellOf(t types.Type, f int) *fieldCell {
	if p, ok := t.Underlying().(*types.Pointer); ok {
		t = p.Elem()
	}
	if n, ok := t.(*types.Named); ok {
		if !an.IsModulePkg(n.Obj().Pkg()) {
			return nil
		}
	}
	st, ok := t.Underlying().(*types.Struct)
	if !ok || f >= st.NumFields() {
		return nil
	}
	if fp := st.Field(f).Pkg(); fp != nil && !an.IsModulePkg(fp) {
		return nil
	}
	if ma.cells == nil {
		ma.cells = map[cellKey]*fieldCell{}
	}
	k := cellKey{st, f}
	if c := ma.cells[k]; c != nil {
		return c
	}
	c := &fieldCell{st: st, f: f, name: an.TypeName(t) + "." + st.Field(f).Name()}
	ma.cells[k] = c
	return c
}

// typeCells: the cells of every module struct reachable from t by type structure (not through
// interfaces: a value is bundled when it is converted to one).
func (ma *mutAnalysis) typeCells(t types.Type) []*fieldCell {
	if ma.tcells == nil {
		ma.tcells = map[types.Type][]*fieldCell{}
	}
	if cs, ok := ma.tcells[t]; ok {
		return cs
	}
	ma.tcells[t] = nil
	var out []*fieldCell
	seen := map[types.Type]bool{}
	var walk func(t types.Type)
	walk = func(t types.Type) {
		if seen[t] {
			return
		}
		seen[t] = true
		switch u := t.Underlying().(type) {
		case *types.Pointer:
			walk(u.Elem())
		case *types.Slice:
			walk(u.Elem())
		case *types.Array:
			walk(u.Elem())
		case *types.Map:
			walk(u.Key())
			walk(u.Elem())
		case *types.Chan:
			walk(u.Elem())
		case *types.Tuple:
			for i := 0; i < u.Len(); i++ {
				walk(u.At(i).Type())
			}
		case *types.Struct:
			for i := 0; i < u.NumFields(); i++ {
				if c := ma.cellOf(t, i); c != nil {
					out = append(out, c)
				}
				walk(u.Field(i).Type())
			}
		}
	}
	walk(t)
	ma.tcells[t] = out
	return out
}

func isRefType(t types.Type) bool {
	switch u := t.Underlying().(type) {
	case *types.Slice, *types.Map, *types.Pointer, *types.Interface, *types.Chan:
		return true
	case *types.Struct:
		for i := 0; i < u.NumFields(); i++ {
			if isRefType(u.Field(i).Type()) {
				return true
			}
		}
	case *types.Array:
		return isRefType(u.Elem())
	case *types.Signature:
		return false
	case *types.Tuple:
		// the results of a call: (value, error)
		for i := 0; i < u.Len(); i++ {
			if isRefType(u.At(i).Type()) {
				return true
			}
		}
	}
	if n, ok := t.(*types.Named); ok && n.Obj().Pkg() != nil && n.Obj().Pkg().Path() == "reflect" && n.Obj().Name() == "Value" {
		return true
	}
	return false
}

func unitOf(fn *ssa.Function) []*ssa.Function {
	out := []*ssa.Function{fn}
	for _, a := range fn.AnonFuncs {
		out = append(out, unitOf(a)...)
	}
	return out
}

var reflectAliasMethods = map[string]bool{
	"Index": true, "Elem": true, "MapIndex": true, "Field": true, "FieldByName": true, "FieldByIndex": true,
	"Interface": true, "Convert": true, "Slice": true, "Slice3": true, "Addr": true, "MapKeys": true, "MapRange": true,
	"Value": true, "Key": true, "Bytes": true,
}

func isReflectValue(t types.Type) bool { return isPkgType(t, "reflect", "Value") }

// Distances. dist(v) = number of loads needed to get from v to storage that
// belongs to the seed: 0 means v refers to the seed's own storage (writing
// through it mutates the caller's data); 1 is a fresh container or variable
// holding such references (a copy); and so on. Loading from a value at
// distance d yields distance max(d-1, 0) - objects nested in the seed are
// the seed's too. Storing a value at distance d into storage rooted at r
// lowers dist(r) to d+1. A write into distance-0 storage is a mutation.
const distInf = 4

// analyse runs the distance analysis over the unit rooted at fn.
func (ma *mutAnalysis) analyse(fn *ssa.Function, seeds map[ssa.Value]int, nestedParams bool) (events []mutEvent, retDist int) {
	unit := unitOf(fn)
	inUnit := map[*ssa.Function]bool{}
	for _, f := range unit {
		inUnit[f] = true
	}
	dist := map[ssa.Value]int{}
	canonOf := map[ssa.Value]ssa.Value{}
	for _, f := range unit {
		an.EachInstr(f, func(in ssa.Instruction) {
			if mc, ok := in.(*ssa.MakeClosure); ok {
				cf := mc.Fn.(*ssa.Function)
				for i, b := range mc.Bindings {
					if i < len(cf.FreeVars) {
						root := b
						if r, ok := canonOf[b]; ok {
							root = r
						}
						canonOf[cf.FreeVars[i]] = root
					}
				}
			}
		})
	}
	canon := func(v ssa.Value) ssa.Value {
		if r, ok := canonOf[v]; ok {
			return r
		}
		return v
	}
	d := func(v ssa.Value) int {
		if x, ok := dist[canon(v)]; ok {
			return x
		}
		return distInf
	}
	// b: the distance of a value where it leaves the field-sensitive view (an interface conversion, an
	// argument of another function, a result): the least of its own and of the fields of the structs
	// its type is made of.
	b := func(v ssa.Value) int {
		x := d(v)
		if x == 0 {
			return 0
		}
		m := distInf
		for _, c := range ma.typeCells(v.Type()) {
			if y, ok := dist[c]; ok && y < m {
				m = y
			}
		}
		if m < distInf {
			// a struct value is as close as what its fields hold (one load from the cell); a pointer
			// to it, or a container of it, is the storage the cell stands for
			if _, isStruct := v.Type().Underlying().(*types.Struct); isStruct {
				m--
				if m < 0 {
					m = 0
				}
			}
			if m < x {
				x = m
			}
		}
		return x
	}
	changed := true
	lower := func(v ssa.Value, x int) {
		if v == nil || x >= distInf {
			return
		}
		if x > 3 {
			x = 3
		}
		v = canon(v)
		if ma.internalOnly(v.Type()) {
			return // a value of this type cannot be, hold or point into caller data
		}
		if cur, ok := dist[v]; !ok || x < cur {
			dist[v] = x
			changed = true
		}
	}
	load := func(x int) int {
		if x >= distInf {
			return distInf
		}
		if x == 0 {
			return 0
		}
		return x - 1
	}
	for v, l := range seeds {
		lower(v, l)
	}
	if nestedParams {
		for _, f := range unit[1:] {
			for _, par := range f.Params {
				if isRefType(par.Type()) {
					lower(par, 0)
				}
			}
		}
	}
	// addrRoot: the value whose storage an address points into.
	var addrRoot func(addr ssa.Value, depth int) ssa.Value
	addrRoot = func(addr ssa.Value, depth int) ssa.Value {
		if depth > 12 {
			return addr
		}
		switch x := addr.(type) {
		case *ssa.FieldAddr:
			if c := ma.cellOf(x.X.Type(), x.Field); c != nil {
				return c
			}
			return addrRoot(x.X, depth+1)
		case *ssa.IndexAddr:
			if _, isPtr := x.X.Type().Underlying().(*types.Pointer); isPtr {
				return addrRoot(x.X, depth+1)
			}
			return x.X
		}
		return addr
	}
	for iter := 0; changed && iter < 80; iter++ {
		changed = false
		for _, f := range unit {
			an.EachInstr(f, func(in ssa.Instruction) {
				switch x := in.(type) {
				case *ssa.Slice:
					lower(x, d(x.X))
					lower(x.X, d(x)) // same storage
				case *ssa.Phi:
					for _, e := range x.Edges {
						lower(x, d(e))
					}
				case *ssa.ChangeType:
					lower(x, d(x.X))
				case *ssa.Convert:
					if isRefType(x.Type()) {
						lower(x, d(x.X))
					}
				case *ssa.MakeInterface:
					lower(x, b(x.X))
				case *ssa.ChangeInterface:
					lower(x, d(x.X))
				case *ssa.TypeAssert:
					// An unexported module type is not exempt as such: the object is module-made, but it may
					// wrap caller data - an iterator over the caller's slice, say - at the distance it was built
					// with. Only a map/slice/pointer type of which the module makes every value itself (no
					// conversion into it) is known to be storage of the module's own: a copy, distance >= 1.
					if dx := d(x.X); dx == 0 && ma.moduleMadeStorage(x.AssertedType) {
						lower(x, 1)
					} else {
						lower(x, dx)
					}
				case *ssa.Extract:
					if isRefType(x.Type()) {
						lower(x, d(x.Tuple))
					}
				case *ssa.FieldAddr:
					lower(x, d(x.X)) // address into the same storage
					if c := ma.cellOf(x.X.Type(), x.Field); c != nil {
						lower(x, d(c)) // what was stored into this field of some struct of the type
					}
				case *ssa.IndexAddr:
					lower(x, d(x.X))
				case *ssa.Field:
					if isRefType(x.Type()) {
						lower(x, d(x.X)) // a struct value is the bundle of its fields
						if c := ma.cellOf(x.X.Type(), x.Field); c != nil {
							lower(x, load(d(c)))
						}
					}
				case *ssa.Index:
					if isRefType(x.Type()) {
						lower(x, d(x.X))
					}
				case *ssa.Lookup:
					if x.CommaOk || isRefType(x.Type()) {
						lower(x, load(d(x.X)))
					}
				case *ssa.Range:
					lower(x, d(x.X))
				case *ssa.Next:
					lower(x, load(d(x.Iter)))
				case *ssa.UnOp:
					if x.Op == token.MUL && isRefType(x.Type()) {
						lower(x, load(d(x.X)))
					}
				case *ssa.Store:
					if !isRefType(x.Val.Type()) {
						return
					}
					if dv := d(x.Val); dv < distInf {
						lower(addrRoot(x.Addr, 0), dv+1)
					}
				case *ssa.MapUpdate:
					m := d(x.Value)
					if k := d(x.Key); k < m {
						m = k
					}
					if m < distInf {
						lower(x.Map, m+1)
					}
				case *ssa.Call:
					c := &x.Call
					if b, ok := c.Value.(*ssa.Builtin); ok {
						switch b.Name() {
						case "append":
							lower(x, d(c.Args[0]))
							for _, a := range c.Args[1:] {
								// appended slice: its elements (one load) end up as elements of the result
								if da := d(a); da < distInf {
									if _, isSlice := a.Type().Underlying().(*types.Slice); isSlice {
										lower(x, load(da)+1)
									} else {
										lower(x, da+1)
									}
								}
							}
						case "copy":
							if ds := d(c.Args[1]); ds < distInf {
								lower(addrRoot(c.Args[0], 0), load(ds)+1)
							}
						}
						return
					}
					name := an.CallName(c)
					args := an.Args(c)
					minArg := distInf
					for _, a := range args {
						if b(a) < minArg {
							minArg = b(a)
						}
					}
					if minArg >= distInf {
						return
					}
					callee := c.StaticCallee()
					if callee != nil && inUnit[callee] {
						// closure of this unit called directly: its parameters alias the arguments
						for i, a := range args {
							if i < len(callee.Params) && isRefType(callee.Params[i].Type()) {
								lower(callee.Params[i], d(a))
							}
						}
						if isRefType(x.Type()) {
							lower(x, minArg)
						}
						return
					}
					if tg := ma.targets(x, inUnit); len(tg) > 0 {
						if isRefType(x.Type()) {
							for _, t := range tg {
								s := ma.sums[t]
								if s == nil {
									continue
								}
								for i, a := range args {
									if da := b(a); da < distInf && s.retFrom[i] != nil {
										lower(x, s.retFrom[i][da])
									}
								}
							}
						}
						return
					}
					switch {
					case name == "reflect.ValueOf" || name == "reflect.Indirect":
						lower(x, d(args[0]))
					case name == "reflect.Append" || name == "reflect.AppendSlice":
						lower(x, d(args[0]))
						for _, a := range args[1:] {
							if d(a) < distInf {
								lower(x, d(a)+1)
							}
						}
					case strings.HasPrefix(name, "(reflect.Value)."):
						m := strings.TrimPrefix(name, "(reflect.Value).")
						if reflectAliasMethods[m] {
							switch m {
							case "MapKeys", "MapRange":
								// a fresh slice (iterator) holding copies of the keys
								lower(x, load(d(args[0]))+1)
							case "Index", "MapIndex", "Elem", "Field", "FieldByName", "FieldByIndex":
								lower(x, load(d(args[0])))
							default:
								lower(x, d(args[0]))
							}
						}
					case strings.HasPrefix(name, "(*reflect.MapIter)."):
						lower(x, load(d(args[0])))
					case name == "":
						if isRefType(x.Type()) {
							lower(x, minArg)
						}
					}
				}
			})
		}
	}
	if dbg := os.Getenv("LV_MUTDEBUG"); dbg != "" {
		for _, f := range unit {
			if !strings.Contains(an.FuncName(f), dbg) {
				continue
			}
			fmt.Fprintf(os.Stderr, "== distances in %s (unit of %s)\n", an.FuncName(f), an.FuncName(fn))
			for _, par := range f.Params {
				fmt.Fprintf(os.Stderr, "   param %s: %d\n", par.Name(), d(par))
			}
			an.EachInstr(f, func(in ssa.Instruction) {
				if v, ok := in.(ssa.Value); ok && d(v) < distInf {
					fmt.Fprintf(os.Stderr, "   %s = %s: %d\n", v.Name(), in.String(), d(v))
				}
			})
		}
	}
	add := func(in ssa.Instruction, what string) {
		if ma.justified != nil && ma.justified(in.Parent(), what) {
			return
		}
		events = append(events, mutEvent{in: in, what: what, srcFn: in.Parent(), srcWhat: what, srcPos: an.InstrPos(in)})
	}
	addVia := func(in ssa.Instruction, callee *ssa.Function, i int, srcs map[string]*mutSource) {
		for _, src := range srcs {
			via := an.FuncName(callee)
			if src.via != "" {
				via += " → " + src.via
			}
			events = append(events, mutEvent{in: in,
				what:  fmt.Sprintf("passed to %s (parameter %d), which reaches: %s in %s at %s", via, i, src.what, an.FuncName(src.fn), ma.p.Pos(src.pos)),
				srcFn: src.fn, srcWhat: src.what, srcPos: src.pos, chain: via})
		}
	}
	esc := escapes(ma.p)
	for _, f := range unit {
		if underOnceDo(esc, f) {
			continue // one-time lazy initialisation under sync.Once (rule M6) is not an observable mutation
		}
		an.EachInstr(f, func(in ssa.Instruction) {
			switch x := in.(type) {
			case *ssa.Store:
				if _, isG := x.Addr.(*ssa.Global); isG {
					return
				}
				if d(x.Addr) == 0 {
					add(in, "store into "+describe(ma.p, x.Addr))
				}
			case *ssa.MapUpdate:
				if d(x.Map) == 0 {
					add(in, "map update on "+describe(ma.p, x.Map))
				}
			case ssa.CallInstruction:
				c := x.Common()
				if b, ok := c.Value.(*ssa.Builtin); ok {
					switch b.Name() {
					case "append":
						if d(c.Args[0]) == 0 {
							add(in, "append to "+describe(ma.p, c.Args[0])+" (writes into its spare capacity and aliases it)")
						}
					case "copy", "delete", "clear":
						if d(c.Args[0]) == 0 {
							add(in, b.Name()+" into "+describe(ma.p, c.Args[0]))
						}
					}
					return
				}
				name := an.CallName(c)
				args := an.Args(c)
				for i, a := range args {
					da := b(a)
					if da >= distInf {
						continue
					}
					switch {
					case name == "sort.Sort" || name == "sort.Stable":
						// calls Swap of the dynamic type on the argument
						if i != 0 {
							continue
						}
						for _, t := range ma.concreteTypes(a) {
							if sw := methodImpl(ma.p, t, "Swap"); sw != nil && ma.p.InModule(sw) {
								if s := ma.sums[sw]; s != nil && s.mutFrom[0] != nil && len(s.mutFrom[0][da]) > 0 {
									addVia(in, sw, 0, s.mutFrom[0][da])
								}
							} else if da == 0 {
								add(in, name+" on "+describe(ma.p, a))
							}
						}
					case knownSliceMutator(name) || name == "reflect.Copy" || name == "reflect.Swapper":
						if i == 0 && da == 0 {
							add(in, name+" on "+describe(ma.p, a))
						}
					case strings.HasPrefix(name, "(reflect.Value).Set") && i == 0:
						if da == 0 {
							add(in, name+" on a reflect.Value of the argument")
						}
					default:
						for _, t := range ma.targets(x, inUnit) {
							if s := ma.sums[t]; s != nil && s.mutFrom[i] != nil && len(s.mutFrom[i][da]) > 0 {
								addVia(in, t, i, s.mutFrom[i][da])
							}
						}
					}
				}
			}
		})
	}
	retDist = distInf
	an.EachInstr(fn, func(in ssa.Instruction) {
		if ret, ok := in.(*ssa.Return); ok {
			for _, rv := range ret.Results {
				if b(rv) < retDist {
					retDist = b(rv)
				}
			}
		}
	})
	return events, retDist
}

// concreteTypes lists the concrete types an interface value was made from.
func (ma *mutAnalysis) concreteTypes(v ssa.Value) []types.Type {
	var out []types.Type
	for _, o := range an.Origins(v, func(v ssa.Value) []ssa.Value {
		switch x := v.(type) {
		case *ssa.MakeInterface:
			return []ssa.Value{x.X}
		case *ssa.ChangeInterface:
			return []ssa.Value{x.X}
		case *ssa.Phi:
			return x.Edges
		}
		return nil
	}) {
		if !an.IsInterface(o.Type()) {
			out = append(out, o.Type())
		}
	}
	return out
}

func (ma *mutAnalysis) implementers(c *ssa.CallCommon) []*ssa.Function {
	var out []*ssa.Function
	it, ok := c.Value.Type().Underlying().(*types.Interface)
	if !ok {
		return nil
	}
	for _, n := range moduleNamedTypes(ma.p) {
		if an.IsInterface(n) {
			continue
		}
		for _, t := range []types.Type{n, types.NewPointer(n)} {
			if !types.Implements(t, it) {
				continue
			}
			ms := ma.p.SSA.MethodSets.MethodSet(t)
			sel := ms.Lookup(c.Method.Pkg(), c.Method.Name())
			if sel == nil {
				continue
			}
			if f := methodImpl(ma.p, t, c.Method.Name()); f != nil && ma.p.InModule(f) {
				out = append(out, f)
			}
		}
	}
	return out
}

func (ma *mutAnalysis) run(fn *ssa.Function, seed ssa.Value, level int, nested bool) ([]mutEvent, int) {
	return ma.analyse(fn, map[ssa.Value]int{seed: level}, nested)
}

func getMut(p *an.Prog) *mutAnalysis {
	if m := mutCache[p]; m != nil {
		return m
	}
	ma := &mutAnalysis{p: p, sums: map[*ssa.Function]*mutSummary{}}
	defer ma.debugInternal()
	just, _ := an.LoadTables(verifDir())
	roles := GetRoles(p)
	ma.justified = func(fn *ssa.Function, what string) bool {
		if just == nil {
			return false
		}
		for _, je := range just.Justified {
			if je.Rule == "M" && je.Func == roles.Label(fn) && je.Construct == what {
				return true
			}
		}
		return false
	}
	var fns []*ssa.Function
	for _, f := range p.Funcs {
		if f.Blocks != nil && !isMainPkg(f) {
			hasRef := false
			for _, par := range f.Params {
				if isRefType(par.Type()) {
					hasRef = true
				}
			}
			if hasRef {
				fns = append(fns, f)
				ma.sums[f] = &mutSummary{mutFrom: map[int]*[4]map[string]*mutSource{}, retFrom: map[int]*[4]int{}}
			}
		}
	}
	for iter := 0; iter < 10; iter++ {
		changed := false
		for _, f := range fns {
			s := ma.sums[f]
			for i, par := range f.Params {
				if !isRefType(par.Type()) {
					continue
				}
				if s.mutFrom[i] == nil {
					s.mutFrom[i] = &[4]map[string]*mutSource{{}, {}, {}, {}}
					s.retFrom[i] = &[4]int{distInf, distInf, distInf, distInf}
				}
				for k := 0; k < 4; k++ {
					ev, ret := ma.run(f, par, k, false)
					for _, e := range ev {
						key := roles.Label(e.srcFn) + "|" + e.srcWhat
						if s.mutFrom[i][k][key] == nil {
							s.mutFrom[i][k][key] = &mutSource{fn: e.srcFn, what: e.srcWhat, pos: e.srcPos, via: e.chain}
							changed = true
						}
					}
					if ret < s.retFrom[i][k] {
						s.retFrom[i][k] = ret
						changed = true
					}
				}
			}
		}
		if !changed {
			break
		}
	}
	mutCache[p] = ma
	return ma
}

func runM1(p *an.Prog, r *an.Result) {
	roles := GetRoles(p)
	ma := getMut(p)
	for _, pr := range roles.FilterProblems {
		r.Bad("-", "roles: "+pr, token.NoPos, "an anchor the rule needs could not be resolved")
	}
	r.Counts["filters"] = len(roles.Filters)
	mutators := 0
	for _, s := range ma.sums {
		for _, m := range s.mutFrom {
			if len(m[0]) > 0 {
				mutators++
				break
			}
		}
	}
	r.Counts["module functions that mutate a parameter"] = mutators
	for _, f := range roles.Filters {
		label := f.Label()
		for i := 0; i < f.Sig.Params().Len(); i++ {
			pt := f.Sig.Params().At(i).Type()
			construct := fmt.Sprintf("parameter %d %s %s", i, f.Sig.Params().At(i).Name(), an.TypeName(pt))
			if !isRefType(pt) {
				r.Triv(label, construct, f.Pos, "value type: the filter receives a copy")
				continue
			}
			if _, isFn := pt.Underlying().(*types.Signature); isFn {
				r.Triv(label, construct, f.Pos, "default-supplying function parameter")
				continue
			}
			r.Counts["reference-typed parameters"]++
			if !f.InMod || f.Fn.Blocks == nil {
				r.Bad(label, construct, f.Pos, "the filter is a function outside the module taking a reference-typed parameter; its effect on the argument is not analysed")
				continue
			}
			ev, _ := ma.run(f.Fn, f.Fn.Params[i], 0, true)
			if len(ev) == 0 {
				r.OK(label, construct, an.FuncPos(f.Fn), "no store, map update, append/copy/delete, sort, reflect setter or mutating callee is applied to the argument, to anything loaded from it, or to an alias of it")
				continue
			}
			for _, e := range ev {
				r.Bad(label, construct+": "+e.what, an.InstrPos(e.in), fmt.Sprintf("filter %q mutates its argument: %s; the caller's binding (shared with every other render) changes", f.Name, e.what))
			}
		}
	}
	r.Floor("filters", 40)
	r.Floor("reference-typed parameters", 10)
	r.Floor("module functions that mutate a parameter", 3)
}

func init() {
	register("M2", "nothing reachable from an API call writes the caller's bindings: not the top-level map, not any slice, map or struct reached from it (only the per-render copy is written)", runM2)
}

// isBindingsType: liquid.Bindings or map[string]any.
func isBindingsType(t types.Type) bool {
	m, ok := t.Underlying().(*types.Map)
	if !ok {
		return false
	}
	b, ok := m.Key().Underlying().(*types.Basic)
	if !ok || b.Kind() != types.String {
		return false
	}
	it, ok := m.Elem().Underlying().(*types.Interface)
	return ok && it.NumMethods() == 0
}

func runM2(p *an.Prog, r *an.Result) {
	ma := getMut(p)
	roles := GetRoles(p)
	type hit struct {
		src     *mutSource
		entries []string
	}
	hits := map[string]*hit{}
	var order []string
	check := func(f *ssa.Function, i int) {
		name := an.FuncName(f)
		par := f.Params[i]
		construct := "bindings parameter " + par.Name()
		r.Counts["bindings entry parameters"]++
		s := ma.sums[f]
		if s == nil || s.mutFrom[i] == nil {
			r.Bad(name, construct, an.FuncPos(f), "no mutation summary was computed for this parameter")
			return
		}
		if len(s.mutFrom[i][0]) > 0 {
			for key, src := range s.mutFrom[i][0] {
				h := hits[key]
				if h == nil {
					h = &hit{src: src}
					hits[key] = h
					order = append(order, key)
				}
				h.entries = append(h.entries, name)
			}
			r.Triv(name, construct, an.FuncPos(f), "reaches a write into the caller's data; reported once at the write itself")
			return
		}
		r.OK(name, construct, an.FuncPos(f), "interprocedural distance analysis (through interface methods, renderer closures and filter helpers): every store, map update, append/copy/delete, sort and reflect setter reached from here is applied to storage allocated during the call, never to the map passed in or to objects reached from it")
	}
	for _, f := range p.Funcs {
		if f.Parent() != nil || isMainPkg(f) || f.Object() == nil {
			continue
		}
		name := an.FuncName(f)
		rootAPI := f.Pkg != nil && f.Pkg.Pkg.Path() == an.ModPath && f.Object().Exported()
		for i, par := range f.Params {
			if !isBindingsType(par.Type()) {
				continue
			}
			if rootAPI || name == "render.Render" || name == "render.newNodeContext" || name == "expressions.NewContext" {
				check(f, i)
			}
		}
	}
	sort.Strings(order)
	for _, key := range order {
		h := hits[key]
		sort.Strings(h.entries)
		r.Bad(roles.Label(h.src.fn), h.src.what, h.src.pos,
			fmt.Sprintf("%s performs a %s on data that came from the caller's bindings (reachable from: %s; one path: %s); rendering changes what the caller passed in", an.FuncName(h.src.fn), h.src.what, strings.Join(h.entries, ", "), h.src.via))
	}
	r.Floor("bindings entry parameters", 8)
}

// moduleOnlyType: an unexported, module-declared, non-interface named type
// (or a pointer to one).
// moduleMadeStorage: t is an unexported module type whose values are maps, slices or pointers, and no
// instruction of the module converts a value of another type into it: every value of the type is
// storage the module allocated (make, a composite literal, new), which the caller can neither
// construct nor have converted.
func (ma *mutAnalysis) moduleMadeStorage(t types.Type) bool {
	if !moduleOnlyType(t) {
		return false
	}
	switch t.Underlying().(type) {
	case *types.Map, *types.Slice, *types.Pointer:
	default:
		return false
	}
	if ma.convertedInto == nil {
		ma.convertedInto = map[types.Type]bool{}
		for _, f := range ma.p.Funcs {
			an.EachInstr(f, func(in ssa.Instruction) {
				switch x := in.(type) {
				case *ssa.ChangeType:
					ma.convertedInto[x.Type()] = true
				case *ssa.Convert:
					ma.convertedInto[x.Type()] = true
				}
			})
		}
	}
	for ct := range ma.convertedInto {
		if types.Identical(ct, t) {
			return false
		}
	}
	return true
}

func moduleOnlyType(t types.Type) bool {
	if p, ok := t.(*types.Pointer); ok {
		t = p.Elem()
	}
	n, ok := t.(*types.Named)
	if !ok || an.IsInterface(n) {
		return false
	}
	return an.IsModulePkg(n.Obj().Pkg()) && !n.Obj().Exported()
}

// debugInternal prints, for LV_INTDEBUG=<type substring>, why a type is not internal-only.
func (ma *mutAnalysis) debugInternal() {
	want := os.Getenv("LV_INTDEBUG")
	if want == "" {
		return
	}
	for _, n := range moduleNamedTypes(ma.p) {
		if strings.Contains(n.String(), want) {
			fmt.Fprintf(os.Stderr, "internalOnly(%s) = %v\n", n, ma.internalOnly(n))
			if st, ok := n.Underlying().(*types.Struct); ok {
				for i := 0; i < st.NumFields(); i++ {
					fmt.Fprintf(os.Stderr, "    .%s %s = %v\n", st.Field(i).Name(), st.Field(i).Type(), ma.internalOnly(st.Field(i).Type()))
				}
			}
		}
	}
}

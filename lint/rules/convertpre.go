package rules

import (
	"fmt"
	"go/token"
	"go/types"

	"golang.org/x/tools/go/ssa"

	"lv/an"
)

// P15: reflect.Value.Convert panics when the value's type is not convertible
// to the target. Every call in the library must have established that:
//
//   - a test on every path: T(v).ConvertibleTo(t) / AssignableTo(t) /
//     Implements(t) or v.CanConvert(t), T(v) being v.Type() of the same value
//     (or k for v = w.Convert(k)), t the same type expression;
//   - v was made with that type: reflect.Zero(t), reflect.New(t).Elem();
//   - a Go string wrapped with ValueOf, under t.Kind() == String;
//   - a number (kind tested, directly or through a kind function of the module
//     read as a table) to a package-level numeric type.
func init() {
	register("P15", "reflect.Value.Convert is called only where the value was found convertible: under ConvertibleTo/AssignableTo/Implements of its own type (or CanConvert) with the same target, on a value made with that type (Zero, New), on a Go string under a test that the target's kind is String, or on a value of numeric kind to a package-level numeric type; anywhere else Convert panics", runP15)
}

func runP15(p *an.Prog, r *an.Result) {
	for _, fn := range p.Funcs {
		if isMainPkg(fn) {
			continue
		}
		nth := map[string]int{}
		an.EachCall(fn, func(ci ssa.CallInstruction) {
			c := ci.Common()
			if an.CallName(c) != "(reflect.Value).Convert" || len(c.Args) != 2 {
				return
			}
			in := ci.(ssa.Instruction)
			r.Counts["reflective conversions"]++
			name := an.FuncName(fn)
			v, t := c.Args[0], c.Args[1]
			construct := describe(p, v) + ".Convert(" + describe(p, t) + ")"
			if nth[construct]++; nth[construct] > 1 {
				construct += fmt.Sprintf(" #%d", nth[construct])
			}
			if why := convertEstablished(p, in, v, t); why != "" {
				r.OK(name, construct, in.Pos(), why)
			} else {
				r.Bad(name, construct+" of a value not found convertible", in.Pos(), "reflect.Value.Convert panics when the value's type cannot be converted to the target: test ConvertibleTo (or the kinds) first")
			}
		})
	}
	r.Floor("reflective conversions", 6)
}

func convertEstablished(p *an.Prog, at ssa.Instruction, v, t ssa.Value) string {
	return convertEstablishedAt(p, at, v, t, 0)
}

func convertEstablishedAt(p *an.Prog, at ssa.Instruction, v, t ssa.Value, depth int) string {
	// made with that type
	for _, o := range an.Origins(v, an.StepValue) {
		oc := an.CallOf(o)
		if oc == nil {
			goto guards
		}
		switch an.CallName(oc) {
		case "reflect.Zero":
			if !sameTypeExpr(oc.Args[0], t) {
				goto guards
			}
		case "(reflect.Value).Elem":
			nc := an.CallOf(oc.Args[0])
			if nc == nil || an.CallName(nc) != "reflect.New" || !sameTypeExpr(nc.Args[0], t) {
				goto guards
			}
		default:
			goto guards
		}
	}
	return "the value was made with the target type"
guards:
	// T is the type of v
	typeIsOf := func(tv ssa.Value) bool {
		for _, o := range an.Origins(tv, an.StepValue) {
			tc := an.CallOf(o)
			if tc != nil && an.CallName(tc) == "(reflect.Value).Type" && len(tc.Args) == 1 && (sameRef(tc.Args[0], v) || sameValue(tc.Args[0], v)) {
				continue
			}
			// v = w.Convert(k) has type k
			if vc := an.CallOf(v); vc != nil && an.CallName(vc) == "(reflect.Value).Convert" && sameTypeExpr(vc.Args[1], o) {
				continue
			}
			return false
		}
		return true
	}
	isGoString := func() bool {
		vc := an.CallOf(v)
		if vc == nil || an.CallName(vc) != "reflect.ValueOf" {
			return false
		}
		mi, ok := vc.Args[0].(*ssa.MakeInterface)
		if !ok {
			return false
		}
		b, ok := mi.X.Type().Underlying().(*types.Basic)
		return ok && b.Info()&types.IsString != 0
	}()
	numericTarget := func() bool {
		ld, ok := t.(*ssa.UnOp)
		if !ok || ld.Op != token.MUL {
			return false
		}
		g, ok := ld.X.(*ssa.Global)
		if !ok {
			return false
		}
		st := an.GlobalStores(g)
		if len(st) != 1 {
			return false
		}
		tc := an.CallOf(st[0])
		if tc == nil || an.CallName(tc) != "reflect.TypeOf" {
			return false
		}
		mi, ok := tc.Args[0].(*ssa.MakeInterface)
		if !ok {
			return false
		}
		b, ok := mi.X.Type().(*types.Basic)
		return ok && b.Info()&types.IsNumeric != 0 && b.Info()&types.IsComplex == 0
	}()
	numericKind := func(k int64) bool { return k >= 2 && k <= 14 }
	why := ""
	ok := an.AllPathsGuarded(at.Block(), func(cond ssa.Value, taken bool) bool {
		if cc := an.CallOf(cond); cc != nil && taken {
			switch an.CallName(cc) {
			case "(reflect.Type).ConvertibleTo", "(reflect.Type).AssignableTo", "(reflect.Type).Implements":
				if cc.IsInvoke() && len(cc.Args) == 1 && sameTypeExpr(cc.Args[0], t) && typeIsOf(cc.Value) {
					why = "under a test that the value's type converts to the target"
					return true
				}
			case "(reflect.Value).CanConvert":
				if len(cc.Args) == 2 && (sameRef(cc.Args[0], v) || sameValue(cc.Args[0], v)) && sameTypeExpr(cc.Args[1], t) {
					why = "under CanConvert of the same value and target"
					return true
				}
			}
		}
		var pairs [][2]ssa.Value
		if b, isB := cond.(*ssa.BinOp); isB && (b.Op == token.EQL && taken || b.Op == token.NEQ && !taken) {
			pairs = [][2]ssa.Value{{b.X, b.Y}, {b.Y, b.X}}
		}
		for _, pair := range pairs {
			k, isC := an.ConstInt(pair[1])
			if !isC || !isPkgType(pair[0].Type(), "reflect", "Kind") {
				continue
			}
			// a Go string to a type of kind String
			if isGoString && k == 24 {
				for _, ko := range an.Origins(pair[0], an.StepValue) {
					kc := an.CallOf(ko)
					if kc != nil && an.CallName(kc) == "(reflect.Type).Kind" && kc.IsInvoke() && sameTypeExpr(kc.Value, t) {
						why = "a Go string, under a test that the target's kind is String"
						return true
					}
				}
			}
		}
		// a number to a numeric type
		if numericTarget {
			if set, known := kindsOnEdge(p, cond, taken, v); known && len(set) > 0 {
				all := true
				for k := range set {
					if !numericKind(k) {
						all = false
					}
				}
				if all {
					why = "a value of numeric kind to a package-level numeric type"
					return true
				}
			}
		}
		return false
	})
	if ok {
		return why
	}
	// a helper that converts its parameter to a package-level numeric type: the kind was tested at every call
	if par, isPar := v.(*ssa.Parameter); isPar && numericTarget && depth < 3 {
		fn := par.Parent()
		idx := -1
		for i, pp := range fn.Params {
			if pp == par {
				idx = i
			}
		}
		if sites, only := onlyCalled(p, fn); only && idx >= 0 && len(sites) > 0 {
			for _, s := range sites {
				if idx >= len(s.Call.Args) || convertEstablishedAt(p, s, s.Call.Args[idx], t, depth+1) == "" {
					return ""
				}
			}
			return "a value of numeric kind (tested at every call of the helper) to a package-level numeric type"
		}
	}
	return ""
}

// kindsOnEdge: the kinds the value v can have when the branch on cond goes the way taken, when cond is a
// test of a kind computed from v.Kind(): a comparison with a constant or a module predicate over kinds,
// of v.Kind() itself or of a module function of kinds (read as tables) with v.Kind() among its arguments.
func kindsOnEdge(p *an.Prog, cond ssa.Value, taken bool, v ssa.Value) (map[int64]bool, bool) {
	kv, in, ok := kindTestOnEdge(p, cond, taken)
	if !ok {
		return nil, false
	}
	isKindOfV := func(x ssa.Value) bool {
		kc := an.CallOf(x)
		return kc != nil && an.CallName(kc) == "(reflect.Value).Kind" && len(kc.Args) == 1 && (sameRef(kc.Args[0], v) || sameValue(kc.Args[0], v))
	}
	out := map[int64]bool{}
	for _, ko := range an.Origins(kv, an.StepValue) {
		if isKindOfV(ko) {
			for a := range in {
				out[a] = true
			}
			continue
		}
		kc := an.CallOf(ko)
		if kc == nil {
			return nil, false
		}
		h := kc.StaticCallee()
		if h == nil || !p.InModule(h) {
			return nil, false
		}
		tab := kindTableOf(p, h, 0)
		pos := -1
		for j, a := range kc.Args {
			if isKindOfV(a) {
				pos = j
			}
		}
		if !tab.ok || pos < 0 || pos > 1 {
			return nil, false
		}
		for pr, val := range tab.val {
			if in[val] {
				out[pr[pos]] = true
			}
		}
	}
	return out, true
}

// kindTestOnEdge: cond tests a reflect.Kind value kv - by comparing it with a constant, by a module predicate
// over kinds, or by comparing its class (a module function of one kind, read as a table) with a constant -
// and in is the set of kinds kv can have when the branch goes the way taken.
func kindTestOnEdge(p *an.Prog, cond ssa.Value, taken bool) (ssa.Value, map[int64]bool, bool) {
	in := map[int64]bool{}
	if b, ok := cond.(*ssa.BinOp); ok && (b.Op == token.EQL || b.Op == token.NEQ) {
		for _, pair := range [][2]ssa.Value{{b.X, b.Y}, {b.Y, b.X}} {
			k, isC := an.ConstInt(pair[1])
			if !isC {
				continue
			}
			want := (b.Op == token.EQL) == taken
			if isPkgType(pair[0].Type(), "reflect", "Kind") {
				for a := int64(0); a < kindCount; a++ {
					if (a == k) == want {
						in[a] = true
					}
				}
				return pair[0], in, true
			}
			// the class of a kind compared with a constant
			if cc := an.CallOf(pair[0]); cc != nil && len(cc.Args) == 1 && isPkgType(cc.Args[0].Type(), "reflect", "Kind") {
				callee := cc.StaticCallee()
				if callee == nil || !p.InModule(callee) {
					continue
				}
				tab := kindTableOf(p, callee, 0)
				if !tab.ok {
					continue
				}
				for pr, val := range tab.val {
					if (val == k) == want {
						in[pr[0]] = true
					}
				}
				return cc.Args[0], in, true
			}
		}
		return nil, nil, false
	}
	if pc := an.CallOf(cond); pc != nil && len(pc.Args) == 1 && isPkgType(pc.Args[0].Type(), "reflect", "Kind") {
		callee := pc.StaticCallee()
		if callee == nil || !p.InModule(callee) {
			return nil, nil, false
		}
		tab := kindTableOf(p, callee, 0)
		if !tab.ok {
			return nil, nil, false
		}
		for pr, val := range tab.val {
			if (val == 1) == taken {
				in[pr[0]] = true
			}
		}
		return pc.Args[0], in, true
	}
	return nil, nil, false
}

// P16: what values.Convert hands back with a nil error is wrapped by its callers with reflect.ValueOf and
// appended, set or passed on; reflect.ValueOf(nil) is the zero Value, on which Append and Call panic. So a
// successful return of Convert carries a value: never the nil constant, and the argument itself only where
// it was found non-nil.
func init() {
	register("P16", "values.Convert never succeeds with a nil result: every return with a nil error has a first result that is not the nil constant (its callers wrap the result with reflect.ValueOf and append or pass it; the zero reflect.Value panics there)", runP16)
}

func runP16(p *an.Prog, r *an.Result) {
	fn := p.Func("values.Convert")
	if fn == nil {
		r.Bad("values.Convert", "not found", token.NoPos, "anchor not resolved")
		return
	}
	// the result is relied on: some caller wraps it with reflect.ValueOf
	wrapped := 0
	for _, f := range p.Funcs {
		an.EachCall(f, func(ci ssa.CallInstruction) {
			c := ci.Common()
			if an.CallName(c) != "reflect.ValueOf" || len(c.Args) != 1 {
				return
			}
			for _, o := range an.Origins(c.Args[0], an.StepValue) {
				if ex, ok := o.(*ssa.Extract); ok && ex.Index == 0 {
					if cc, ok := ex.Tuple.(*ssa.Call); ok && cc.Call.StaticCallee() == fn {
						wrapped++
					}
				}
			}
		})
	}
	r.Counts["results wrapped with ValueOf"] = wrapped
	if wrapped == 0 {
		r.OK(an.FuncName(fn), "no caller wraps the result with reflect.ValueOf", an.FuncPos(fn), "nothing relies on a non-nil result")
		return
	}
	var check func(f *ssa.Function, depth int)
	seen := map[*ssa.Function]bool{}
	check = func(f *ssa.Function, depth int) {
		if seen[f] || depth > 3 {
			return
		}
		seen[f] = true
		name := an.FuncName(f)
		an.EachInstr(f, func(in ssa.Instruction) {
			ret, ok := in.(*ssa.Return)
			if !ok {
				return
			}
			res := resultsOf(ret)
			if len(res) != 2 {
				return
			}
			if !an.IsNilConst(res[1]) {
				// both results of a helper handed back as they are: the helper's successful returns count
				if e1, ok := res[1].(*ssa.Extract); ok && e1.Index == 1 {
					if e0, ok := res[0].(*ssa.Extract); ok && e0.Index == 0 && e0.Tuple == e1.Tuple {
						if cc, ok := e0.Tuple.(*ssa.Call); ok {
							if h := cc.Call.StaticCallee(); h != nil && p.InModule(h) && h != fn {
								check(h, depth+1)
							}
						}
					}
				}
				return // a failure, or an error that is passed on with whatever came with it
			}
			r.Counts["successful returns"]++
			bad := ""
			for _, o := range an.Origins(res[0], an.StepValue) {
				if an.IsNilConst(o) {
					bad = "the nil constant"
				}
				if ex, ok := o.(*ssa.Extract); ok && ex.Index == 0 {
					if cc, ok := ex.Tuple.(*ssa.Call); ok {
						if h := cc.Call.StaticCallee(); h != nil && p.InModule(h) && h != fn && h.Signature.Results().Len() == 2 {
							check(h, depth+1) // a helper whose result is returned as it is
						}
					}
				}
			}
			if bad != "" {
				r.Bad(name, "succeeds with "+bad, ret.Pos(), "a caller wraps the result with reflect.ValueOf and appends or passes it: the zero reflect.Value panics in reflect.Append and reflect.Value.Call")
			} else {
				r.OK(name, "successful return carries a value", ret.Pos(), "")
			}
		})
	}
	check(fn, 0)
	r.Floor("successful returns", 1)
}

package rules

import (
	"fmt"
	"go/token"
	"go/types"

	"golang.org/x/tools/go/ssa"

	"lv/an"
)

// P15: reflect.Value.Convert panics when the value's type is not convertible
// to the target. Every call in the library must have established that:
//
//   - a test on every path: T(v).ConvertibleTo(t) / AssignableTo(t) /
//     Implements(t) or v.CanConvert(t), T(v) being v.Type() of the same value
//     (or k for v = w.Convert(k)), t the same type expression;
//   - v was made with that type: reflect.Zero(t), reflect.New(t).Elem();
//   - a Go string wrapped with ValueOf, under t.Kind() == String;
//   - a number (kind tested, directly or through a kind function of the module
//     read as a table) to a package-level numeric type.
func init() {
	register("P15", "reflect.Value.Convert is called only where the value was found convertible: under ConvertibleTo/AssignableTo/Implements of its own type (or CanConvert) with the same target, on a value made with that type (Zero, New), on a Go string under a test that the target's kind is String, or on a value of numeric kind to a package-level numeric type; anywhere else Convert panics", runP15)
}

func runP15(p *an.Prog, r *an.Result) {
	for _, fn := range p.Funcs {
		if isMainPkg(fn) {
			continue
		}
		nth := map[string]int{}
		an.EachCall(fn, func(ci ssa.CallInstruction) {
			c := ci.Common()
			if an.CallName(c) != "(reflect.Value).Convert" || len(c.Args) != 2 {
				return
			}
			in := ci.(ssa.Instruction)
			r.Counts["reflective conversions"]++
			name := an.FuncName(fn)
			v, t := c.Args[0], c.Args[1]
			construct := describe(p, v) + ".Convert(" + describe(p, t) + ")"
			if nth[construct]++; nth[construct] > 1 {
				construct += fmt.Sprintf(" #%d", nth[construct])
			}
			if why := convertEstablished(p, in, v, t); why != "" {
				r.OK(name, construct, in.Pos(), why)
			} else {
				r.Bad(name, construct+" of a value not found convertible", in.Pos(), "reflect.Value.Convert panics when the value's type cannot be converted to the target: test ConvertibleTo (or the kinds) first")
			}
		})
	}
	r.Floor("reflective conversions", 6)
}

func convertEstablished(p *an.Prog, at ssa.Instruction, v, t ssa.Value) string {
	return convertEstablishedAt(p, at, v, t, 0)
}

func convertEstablishedAt(p *an.Prog, at ssa.Instruction, v, t ssa.Value, depth int) string {
	// made with that type
	for _, o := range an.Origins(v, an.StepValue) {
		oc := an.CallOf(o)
		if oc == nil {
			goto guards
		}
		switch an.CallName(oc) {
		case "reflect.Zero":
			if !sameTypeExpr(oc.Args[0], t) {
				goto guards
			}
		case "(reflect.Value).Elem":
			nc := an.CallOf(oc.Args[0])
			if nc == nil || an.CallName(nc) != "reflect.New" || !sameTypeExpr(nc.Args[0], t) {
				goto guards
			}
		default:
			goto guards
		}
	}
	return "the value was made with the target type"
guards:
	// T is the type of v
	typeIsOf := func(tv ssa.Value) bool {
		for _, o := range an.Origins(tv, an.StepValue) {
			tc := an.CallOf(o)
			if tc != nil && an.CallName(tc) == "(reflect.Value).Type" && len(tc.Args) == 1 && (sameRef(tc.Args[0], v) || sameValue(tc.Args[0], v)) {
				continue
			}
			// v = w.Convert(k) has type k
			if vc := an.CallOf(v); vc != nil && an.CallName(vc) == "(reflect.Value).Convert" && sameTypeExpr(vc.Args[1], o) {
				continue
			}
			return false
		}
		return true
	}
	isGoString := func() bool {
		vc := an.CallOf(v)
		if vc == nil || an.CallName(vc) != "reflect.ValueOf" {
			return false
		}
		mi, ok := vc.Args[0].(*ssa.MakeInterface)
		if !ok {
			return false
		}
		b, ok := mi.X.Type().Underlying().(*types.Basic)
		return ok && b.Info()&types.IsString != 0
	}()
	numericTarget := func() bool {
		ld, ok := t.(*ssa.UnOp)
		if !ok || ld.Op != token.MUL {
			return false
		}
		g, ok := ld.X.(*ssa.Global)
		if !ok {
			return false
		}
		st := an.GlobalStores(g)
		if len(st) != 1 {
			return false
		}
		tc := an.CallOf(st[0])
		if tc == nil || an.CallName(tc) != "reflect.TypeOf" {
			return false
		}
		mi, ok := tc.Args[0].(*ssa.MakeInterface)
		if !ok {
			return false
		}
		b, ok := mi.X.Type().(*types.Basic)
		return ok && b.Info()&types.IsNumeric != 0 && b.Info()&types.IsComplex == 0
	}()
	numericKind := func(k int64) bool { return k >= 2 && k <= 14 }
	why := ""
	ok := an.AllPathsGuarded(at.Block(), func(cond ssa.Value, taken bool) bool {
		if cc := an.CallOf(cond); cc != nil && taken {
			switch an.CallName(cc) {
			case "(reflect.Type).ConvertibleTo", "(reflect.Type).AssignableTo", "(reflect.Type).Implements":
				if cc.IsInvoke() && len(cc.Args) == 1 && sameTypeExpr(cc.Args[0], t) && typeIsOf(cc.Value) {
					why = "under a test that the value's type converts to the target"
					return true
				}
			case "(reflect.Value).CanConvert":
				if len(cc.Args) == 2 && (sameRef(cc.Args[0], v) || sameValue(cc.Args[0], v)) && sameTypeExpr(cc.Args[1], t) {
					why = "under CanConvert of the same value and target"
					return true
				}
			}
		}
		var pairs [][2]ssa.Value
		if b, isB := cond.(*ssa.BinOp); isB && (b.Op == token.EQL && taken || b.Op == token.NEQ && !taken) {
			pairs = [][2]ssa.Value{{b.X, b.Y}, {b.Y, b.X}}
		}
		for _, pair := range pairs {
			k, isC := an.ConstInt(pair[1])
			if !isC || !isPkgType(pair[0].Type(), "reflect", "Kind") {
				continue
			}
			// a Go string to a type of kind String
			if isGoString && k == 24 {
				for _, ko := range an.Origins(pair[0], an.StepValue) {
					kc := an.CallOf(ko)
					if kc != nil && an.CallName(kc) == "(reflect.Type).Kind" && kc.IsInvoke() && sameTypeExpr(kc.Value, t) {
						why = "a Go string, under a test that the target's kind is String"
						return true
					}
				}
			}
		}
		// a number to a numeric type
		if numericTarget {
			if set, known := kindsOnEdge(p, cond, taken, v); known && len(set) > 0 {
				all := true
				for k := range set {
					if !numericKind(k) {
						all = false
					}
				}
				if all {
					why = "a value of numeric kind to a package-level numeric type"
					return true
				}
			}
		}
		return false
	})
	if ok {
		return why
	}
	// a helper that converts its parameter to a package-level numeric type: the kind was tested at every call
	if par, isPar := v.(*ssa.Parameter); isPar && numericTarget && depth < 3 {
		fn := par.Parent()
		idx := -1
		for i, pp := range fn.Params {
			if pp == par {
				idx = i
			}
		}
		if sites, only := onlyCalled(p, fn); only && idx >= 0 && len(sites) > 0 {
			for _, s := range sites {
				if idx >= len(s.Call.Args) || convertEstablishedAt(p, s, s.Call.Args[idx], t, depth+1) == "" {
					return ""
				}
			}
			return "a value of numeric kind (tested at every call of the helper) to a package-level numeric type"
		}
	}
	return ""
}

// kindsOnEdge: the kinds the value v can have when the branch on cond goes the way taken, when cond is a
// test of a kind computed from v.Kind(): a comparison with a constant or a module predicate over kinds,
// of v.Kind() itself or of a module function of kinds (read as tables) with v.Kind() among its arguments.
func kindsOnEdge(p *an.Prog, cond ssa.Value, taken bool, v ssa.Value) (map[int64]bool, bool) {
	var kv ssa.Value
	in := map[int64]bool{} // the values of the tested kind on this edge
	if b, ok := cond.(*ssa.BinOp); ok && (b.Op == token.EQL || b.Op == token.NEQ) {
		for _, pair := range [][2]ssa.Value{{b.X, b.Y}, {b.Y, b.X}} {
			k, isC := an.ConstInt(pair[1])
			if !isC || !isPkgType(pair[0].Type(), "reflect", "Kind") {
				continue
			}
			kv = pair[0]
			for a := int64(0); a < kindCount; a++ {
				if (a == k) == ((b.Op == token.EQL) == taken) {
					in[a] = true
				}
			}
		}
	} else if pc := an.CallOf(cond); pc != nil && len(pc.Args) == 1 && isPkgType(pc.Args[0].Type(), "reflect", "Kind") {
		callee := pc.StaticCallee()
		if callee == nil || !p.InModule(callee) {
			return nil, false
		}
		tab := kindTableOf(p, callee, 0)
		if !tab.ok {
			return nil, false
		}
		kv = pc.Args[0]
		for pr, val := range tab.val {
			if (val == 1) == taken {
				in[pr[0]] = true
			}
		}
	}
	if kv == nil {
		return nil, false
	}
	isKindOfV := func(x ssa.Value) bool {
		kc := an.CallOf(x)
		return kc != nil && an.CallName(kc) == "(reflect.Value).Kind" && len(kc.Args) == 1 && (sameRef(kc.Args[0], v) || sameValue(kc.Args[0], v))
	}
	out := map[int64]bool{}
	for _, ko := range an.Origins(kv, an.StepValue) {
		if isKindOfV(ko) {
			for a := range in {
				out[a] = true
			}
			continue
		}
		kc := an.CallOf(ko)
		if kc == nil {
			return nil, false
		}
		h := kc.StaticCallee()
		if h == nil || !p.InModule(h) {
			return nil, false
		}
		tab := kindTableOf(p, h, 0)
		pos := -1
		for j, a := range kc.Args {
			if isKindOfV(a) {
				pos = j
			}
		}
		if !tab.ok || pos < 0 || pos > 1 {
			return nil, false
		}
		for pr, val := range tab.val {
			if in[val] {
				out[pr[pos]] = true
			}
		}
	}
	return out, true
}

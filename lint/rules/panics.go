package rules

import (
	"fmt"
	"go/token"
	"go/types"
	"sort"
	"strings"

	"golang.org/x/tools/go/ssa"

	"lv/an"
)

func init() {
	register("P1", "every explicit panic reachable at run phase raises a value whose type the enclosing recover boundary converts to an error", runP1)
	register("P2", "no node kind whose SourceLocation panics is ever passed where an error location is needed", runP2)
	register("F4", "no standard filter declares a closure-typed parameter (keeps ApplyFilter's expression-argument path dead)", runF4)
}

// closureParamFilters lists (filter, param index) whose parameter type would
// make expressions.isClosureInterfaceType true: closure converts to it and
// any does not.
func closureParamFilters(p *an.Prog, roles *Roles) []string {
	var out []string
	ex := p.Package("expressions")
	if ex == nil {
		return []string{"package expressions not found"}
	}
	ct, ok := ex.Members["closure"].(*ssa.Type)
	if !ok {
		return []string{"type expressions.closure not found"}
	}
	anyT := types.NewInterfaceType(nil, nil)
	for _, f := range roles.Filters {
		for i := 0; i < f.Sig.Params().Len(); i++ {
			t := f.Sig.Params().At(i).Type()
			if types.ConvertibleTo(ct.Type(), t) && !types.ConvertibleTo(anyT, t) {
				out = append(out, fmt.Sprintf("%s parameter %d (%s)", f.Name, i, an.TypeName(t)))
			}
		}
	}
	return out
}

func runF4(p *an.Prog, r *an.Result) {
	roles := GetRoles(p)
	r.Counts["filters"] = len(roles.Filters)
	hits := closureParamFilters(p, roles)
	if len(hits) == 0 {
		r.OK("filters.AddStandardFilters", "closure-typed filter parameters", token.NoPos, fmt.Sprintf("0 of %d registered filter signatures have a parameter to which expressions.closure converts and any does not", len(roles.Filters)))
	} else {
		for _, h := range hits {
			r.Bad("filters.AddStandardFilters", "closure-typed parameter: "+h, token.NoPos, "a closure-typed filter parameter makes ApplyFilter parse its argument as an expression at render time and re-raise the parse error as a panic")
		}
	}
	r.Floor("filters", 40)
}

// unconditionalPanic reports whether fn's body is a single unconditional panic.
func unconditionalPanic(fn *ssa.Function) bool {
	if fn == nil || len(fn.Blocks) == 0 {
		return false
	}
	b := fn.Blocks[0]
	_, ok := b.Instrs[len(b.Instrs)-1].(*ssa.Panic)
	return ok
}

// methodImpl resolves the declared function behind method name of type t
// (looking through embedding), or nil.
func methodImpl(p *an.Prog, t types.Type, name string) *ssa.Function {
	obj, _, _ := types.LookupFieldOrMethod(t, true, nil, name)
	if obj == nil {
		// unexported lookups need the package; try each module package
		for _, pkg := range p.Pkgs {
			obj, _, _ = types.LookupFieldOrMethod(t, true, pkg.Types, name)
			if obj != nil {
				break
			}
		}
	}
	f, ok := obj.(*types.Func)
	if !ok {
		return nil
	}
	return p.SSA.FuncValue(f)
}

func isSourceless(p *an.Prog, t types.Type) bool {
	return unconditionalPanic(methodImpl(p, t, "SourceLocation")) || unconditionalPanic(methodImpl(p, t, "SourceText"))
}

func isLocatable(t types.Type) bool { return isNamedIn(t, "parser", "Locatable") }

func runP2(p *an.Prog, r *an.Result) {
	var kinds []string
	for _, n := range moduleNamedTypes(p) {
		if an.IsInterface(n) {
			continue
		}
		if _, ok := n.Underlying().(*types.Struct); !ok {
			continue
		}
		if isSourceless(p, types.NewPointer(n)) {
			kinds = append(kinds, an.TypeName(n))
		}
	}
	sort.Strings(kinds)
	r.Notef("sourceless kinds (SourceLocation/SourceText panic unconditionally): %s", strings.Join(kinds, ", "))
	r.Counts["sourceless kinds"] = len(kinds)
	for _, fn := range p.Funcs {
		name := an.FuncName(fn)
		an.EachCall(fn, func(ci ssa.CallInstruction) {
			c := ci.Common()
			var sig *types.Signature
			if c.IsInvoke() {
				sig = c.Method.Type().(*types.Signature)
			} else {
				sig, _ = c.Value.Type().Underlying().(*types.Signature)
			}
			if sig == nil {
				return
			}
			for i := 0; i < sig.Params().Len() && i < len(c.Args); i++ {
				if !isLocatable(sig.Params().At(i).Type()) {
					continue
				}
				r.Counts["locatable arguments"]++
				arg := c.Args[i]
				callee := nonEmpty(an.CallName(c), "dynamic call")
				for _, o := range locOrigins(arg) {
					construct := fmt.Sprintf("%s(… %s …)", callee, an.TypeName(o.Type()))
					switch x := o.(type) {
					case *ssa.Parameter:
						if isLocatable(x.Type()) {
							r.Triv(name, construct, ci.Pos(), "forwards its own Locatable parameter; the callers are checked")
							continue
						}
					}
					t := o.Type()
					if an.IsInterface(t) {
						// any implementer of the static interface type may arrive
						bad := ""
						for _, n := range moduleNamedTypes(p) {
							if an.IsInterface(n) {
								continue
							}
							for _, tt := range []types.Type{n, types.NewPointer(n)} {
								if types.AssignableTo(tt, t) && isSourceless(p, tt) {
									bad = an.TypeName(tt)
								}
							}
						}
						if bad != "" {
							r.Bad(name, construct, ci.Pos(), fmt.Sprintf("the location argument has static type %s, which admits the sourceless kind %s; its SourceLocation panics", an.TypeName(t), bad))
						} else {
							r.OK(name, construct, ci.Pos(), "no implementer of the static type is sourceless")
						}
						continue
					}
					if isSourceless(p, t) {
						r.Bad(name, construct, ci.Pos(), fmt.Sprintf("%s passes a %s as the error location; that kind's SourceLocation/SourceText panic unconditionally, so producing this error panics instead", name, an.TypeName(t)))
					} else {
						r.OK(name, construct, ci.Pos(), an.TypeName(t)+" has a real SourceLocation")
					}
				}
			}
		})
	}
	r.Floor("locatable arguments", 12)
}

// locOrigins finds what an interface argument was made from.
func locOrigins(v ssa.Value) []ssa.Value {
	return an.Origins(v, func(v ssa.Value) []ssa.Value {
		switch x := v.(type) {
		case *ssa.MakeInterface:
			return []ssa.Value{x.X}
		case *ssa.ChangeInterface:
			return []ssa.Value{x.X}
		case *ssa.Phi:
			return x.Edges
		case *ssa.Call:
			// a module helper that picks the location: what it returns
			if callee := x.Call.StaticCallee(); callee != nil && callee.Blocks != nil && callee.Pkg != nil && an.IsModulePkg(callee.Pkg.Pkg) && callee.Signature.Results().Len() == 1 {
				var out []ssa.Value
				an.EachInstr(callee, func(in ssa.Instruction) {
					if ret, ok := in.(*ssa.Return); ok {
						out = append(out, resultsOf(ret)[0])
					}
				})
				if len(out) > 0 {
					return out
				}
			}
		case *ssa.UnOp:
			if x.Op == token.MUL {
				switch a := x.X.(type) {
				case *ssa.Global:
					if st := an.GlobalStores(a); len(st) > 0 {
						return st
					}
				case *ssa.Alloc:
					if an.IsInterface(x.Type()) {
						if st := an.Stores(a); len(st) > 0 {
							return st
						}
					}
				}
			}
		}
		return nil
	})
}

// ---------------------------------------------------------------------------
// P1

func runP1(p *an.Prog, r *an.Result) {
	roles := GetRoles(p)
	pv := getProv(p)
	for _, pr := range roles.FilterProblems {
		r.Bad("-", "roles: "+pr, token.NoPos, "an anchor the rule needs could not be resolved")
	}
	isBoundary := map[*ssa.Function]*Boundary{}
	boundaryClosure := map[*ssa.Function]bool{}
	for _, b := range roles.Boundaries {
		isBoundary[b.Fn] = b
		boundaryClosure[b.Closure] = true
		if !b.DeferEarly {
			r.Bad(an.FuncName(b.Fn), "recover boundary registered late", an.FuncPos(b.Fn), "the deferred recover is not registered before the first call of the function")
		}
	}
	r.Counts["recover boundaries"] = len(roles.Boundaries)
	entries := runPhaseEntries(p)
	runReach := reach(p, roles, entries, nil)
	uncovered := reach(p, roles, entries, func(f *ssa.Function) bool { return isBoundary[f] != nil })
	inner := map[*Boundary]map[*ssa.Function]*ssa.Function{}
	for _, b := range roles.Boundaries {
		b := b
		inner[b] = reach(p, roles, []*ssa.Function{b.Fn}, func(f *ssa.Function) bool { return f != b.Fn && isBoundary[f] != nil })
	}
	closureFilters := closureParamFilters(p, roles)

	var covered func(f *ssa.Function, t types.Type, depth int) (bool, string)
	covered = func(f *ssa.Function, t types.Type, depth int) (bool, string) {
		if depth > 6 {
			return false, "boundary nesting too deep"
		}
		if b := isBoundary[f]; b != nil {
			// a panic in the boundary function itself is under its own deferred recover
			if b.handles(t) {
				return true, "handled by " + an.FuncName(b.Fn)
			}
		} else if _, un := uncovered[f]; un {
			return false, "reachable without passing a recover boundary: " + pathTo(uncovered, f)
		}
		any := false
		why := ""
		for _, b := range roles.Boundaries {
			if _, ok := inner[b][f]; !ok {
				continue
			}
			any = true
			if b.handles(t) {
				why = "handled by " + an.FuncName(b.Fn)
				continue
			}
			// propagates out of b: b's callers must be covered
			if _, un := uncovered[b.Fn]; un {
				return false, fmt.Sprintf("%s does not handle %s and is itself reachable without an outer boundary (%s)", an.FuncName(b.Fn), an.TypeName(t), pathTo(uncovered, b.Fn))
			}
			okOuter := false
			for _, ob := range roles.Boundaries {
				if ob == b {
					continue
				}
				if _, in := inner[ob][b.Fn]; in {
					if ob.handles(t) {
						okOuter = true
						why = "propagates out of " + an.FuncName(b.Fn) + ", handled by " + an.FuncName(ob.Fn)
					} else {
						return false, fmt.Sprintf("neither %s nor the enclosing %s handles %s", an.FuncName(b.Fn), an.FuncName(ob.Fn), an.TypeName(t))
					}
				}
			}
			if !okOuter {
				return false, fmt.Sprintf("%s does not handle %s", an.FuncName(b.Fn), an.TypeName(t))
			}
		}
		if !any {
			return false, "no recover boundary covers it"
		}
		return true, why
	}

	for _, fn := range p.Funcs {
		if isMainPkg(fn) {
			continue
		}
		name := an.FuncName(fn)
		an.EachInstr(fn, func(in ssa.Instruction) {
			pn, ok := in.(*ssa.Panic)
			if !ok {
				return
			}
			r.Counts["panic sites"]++
			ts := pv.ValueTypes(pn.X)
			construct := "panic(" + ts.String() + ")"
			pos := an.InstrPos(pn)
			if boundaryClosure[fn] {
				r.Triv(name, construct, pos, "re-raise of an unhandled value inside the recover boundary itself")
				return
			}
			if _, ok := runReach[fn]; !ok {
				if isConfigPhase(fn) {
					r.Triv(name, construct, pos, "configuration-phase function, not reachable from any run-phase entry point")
				} else {
					r.Triv(name, construct, pos, "not reachable from any run-phase entry point")
				}
				return
			}
			if unconditionalPanic(fn) && (fn.Name() == "SourceLocation" || fn.Name() == "SourceText") {
				r.OK(name, construct, pos, "sourceless node accessor: rule P2 shows no sourceless kind is ever used as an error location")
				return
			}
			// registry prune: the expression-argument path of ApplyFilter
			for _, g := range an.GuardsAtInstr(pn) {
				if g.True && impliesClosureType(p, g.Cond, 0) && len(closureFilters) == 0 {
					r.OK(name, construct, pos, fmt.Sprintf("dead: control-dependent on isClosureInterfaceType(param type), false for all %d registered filter signatures (rule F4)", len(roles.Filters)))
					return
				}
			}
			if ts.Top && fromReflectiveCall(p, pn.X) {
				r.OK(name, "panic(value returned by caller-supplied code)", pos, "the panic re-raises what a function called through reflect.Value.Call returned - a struct method of a binding, or the non-error second result of a registered filter (F1 checks the standard ones; AddFilter validates the result count): caller-supplied code is outside the model, as the README documents")
				return
			}
			if ts.Top {
				r.Bad(name, construct, pos, fmt.Sprintf("%s panics with a value whose dynamic type cannot be bounded (%s); if it is not one of the types the recover boundary converts, it leaves the engine as a panic", name, ts.TopWhy))
				return
			}
			if len(ts.Types) == 0 {
				r.Triv(name, construct, pos, "panics with nil only")
				return
			}
			for _, t := range ts.Types {
				ok, why := covered(fn, t, 0)
				if !ok {
					r.Bad(name, construct, pos, fmt.Sprintf("%s panics with %s at run phase: %s", name, an.TypeName(t), why))
					return
				}
				_ = why
			}
			_, why := covered(fn, ts.Types[0], 0)
			r.OK(name, construct, pos, "every type raised is converted to an error: "+why)
		})
	}
	r.Floor("recover boundaries", 2)
	r.Floor("panic sites", 20)
}

// fromReflectiveCall: every origin of v (through element reads, Interface() and the arguments at the
// call sites of unexported functions) is the result list of a reflect.Value.Call.
func fromReflectiveCall(p *an.Prog, v ssa.Value) bool {
	ip := stepIP(p)
	seen := map[ssa.Value]bool{}
	found, ok := false, true
	var visit func(x ssa.Value, depth int)
	visit = func(x ssa.Value, depth int) {
		if x == nil || seen[x] || depth > 12 || !ok {
			return
		}
		seen[x] = true
		for _, o := range an.Origins(x, ip) {
			switch y := o.(type) {
			case *ssa.Call:
				switch an.CallName(&y.Call) {
				case "(reflect.Value).Call", "(reflect.Value).CallSlice":
					found = true
				case "(reflect.Value).Interface":
					visit(y.Call.Args[0], depth+1)
				default:
					ok = false
				}
			case *ssa.UnOp:
				if ia, isIA := y.X.(*ssa.IndexAddr); isIA && y.Op == token.MUL {
					visit(ia.X, depth+1)
				} else {
					ok = false
				}
			case *ssa.Index:
				visit(y.X, depth+1)
			case *ssa.TypeAssert:
				visit(y.X, depth+1)
			case *ssa.Extract:
				visit(y.Tuple, depth+1)
			default:
				ok = false
			}
		}
	}
	visit(v, 0)
	return found && ok
}

// impliesClosureType: v being true implies that expressions.isClosureInterfaceType answered true - v is that
// call, a conjunction containing it (phi of false and it), the result of a module function all of whose
// results are such values, or a boolean parameter that every call site fills with one.
func impliesClosureType(p *an.Prog, v ssa.Value, depth int) bool {
	if depth > 5 || v == nil {
		return false
	}
	if b, ok := an.ConstBool(v); ok {
		return !b
	}
	if an.IsCallTo(v, "expressions.isClosureInterfaceType") {
		return true
	}
	switch x := v.(type) {
	case *ssa.Phi:
		for _, e := range x.Edges {
			if !impliesClosureType(p, e, depth+1) {
				return false
			}
		}
		return len(x.Edges) > 0
	case *ssa.Call:
		callee := x.Call.StaticCallee()
		if callee == nil || !p.InModule(callee) || callee.Blocks == nil {
			return false
		}
		n := 0
		ok := true
		an.EachInstr(callee, func(in ssa.Instruction) {
			if ret, isRet := in.(*ssa.Return); isRet && len(ret.Results) == 1 {
				n++
				if !impliesClosureType(p, ret.Results[0], depth+1) {
					ok = false
				}
			}
		})
		return ok && n > 0
	case *ssa.Parameter:
		fn := x.Parent()
		idx := -1
		for i, pp := range fn.Params {
			if pp == x {
				idx = i
			}
		}
		sites := callSitesOf(p, fn)
		if idx < 0 || len(sites) == 0 {
			return false
		}
		for _, s := range sites {
			if idx >= len(s.Call.Args) || !impliesClosureType(p, s.Call.Args[idx], depth+1) {
				return false
			}
		}
		return true
	}
	return false
}

package rules

import (
	"fmt"
	"go/token"
	"go/types"
	"strings"

	"golang.org/x/tools/go/ssa"

	"lv/an"
)

// stackShape describes how a parser function keeps its stack of open blocks,
// whatever the surface form: push/pop as local closures over captured
// variables (cells), written in line on captured variables, or written in line
// on plain locals (loop-carried phis).  A "variable" is either the heap cell
// of a captured local or the loop-header phi of an uncaptured one.
type stackShape struct {
	fn        *ssa.Function
	frameT    types.Type
	stackVar  ssa.Value
	pushFn    *ssa.Function
	popFn     *ssa.Function
	pushSites []ssa.Instruction // in fn
	popSites  []ssa.Instruction // in fn
	pushPos   token.Pos
	popPos    token.Pos
	saved     map[int]ssa.Value   // frame field -> variable whose value push stores in it
	restored  map[int][]ssa.Value // frame field -> variables that pop assigns from it
	assigned  map[ssa.Value]ssa.Value
	top       bool
	problem   string
}

func varName(v ssa.Value) string {
	switch x := v.(type) {
	case *ssa.Alloc:
		if x.Comment != "" {
			return x.Comment
		}
	case *ssa.Phi:
		if x.Comment != "" {
			return x.Comment
		}
	}
	return v.Name()
}

// isReadOf: v is a read of the variable ref inside fn.
func isReadOf(ref, v ssa.Value) bool {
	if v == ref {
		_, ok := ref.(*ssa.Phi)
		return ok
	}
	if u, ok := v.(*ssa.UnOp); ok && u.Op == token.MUL {
		return u.X == ref
	}
	return false
}

func findStackShape(fn *ssa.Function) *stackShape {
	sh := &stackShape{fn: fn, saved: map[int]ssa.Value{}, restored: map[int][]ssa.Value{}, assigned: map[ssa.Value]ssa.Value{}}
	funcs := append([]*ssa.Function{fn}, fn.AnonFuncs...)
	isFrameSlice := func(t types.Type) bool {
		sl, ok := t.Underlying().(*types.Slice)
		if !ok {
			return false
		}
		st, ok := sl.Elem().Underlying().(*types.Struct)
		return ok && st.NumFields() >= 2
	}
	var pushIn, popIn ssa.Instruction
	var sliceT types.Type
	for _, f := range funcs {
		an.EachInstr(f, func(in ssa.Instruction) {
			if x, ok := in.(*ssa.Slice); ok && x.High != nil && x.Low == nil && isFrameSlice(x.X.Type()) && linOf(x.High, 0).c == -1 {
				popIn, sh.popFn, sliceT = in, f, x.X.Type()
			}
		})
	}
	if popIn == nil {
		sh.problem = "no s = s[:len(s)-1] on a slice of frames"
		return sh
	}
	for _, f := range funcs {
		an.EachInstr(f, func(in ssa.Instruction) {
			if x, ok := in.(*ssa.Call); ok {
				if b, ok := x.Call.Value.(*ssa.Builtin); ok && b.Name() == "append" && types.Identical(x.Call.Args[0].Type(), sliceT) {
					pushIn, sh.pushFn = in, f
				}
			}
		})
	}
	if pushIn == nil {
		sh.problem = "no append to the slice of frames"
		return sh
	}
	sh.frameT = sliceT.Underlying().(*types.Slice).Elem()
	sitesOf := func(f *ssa.Function, in ssa.Instruction) []ssa.Instruction {
		if f == fn {
			return []ssa.Instruction{in}
		}
		var out []ssa.Instruction
		an.EachInstr(fn, func(x ssa.Instruction) {
			if c, ok := x.(*ssa.Call); ok && c.Call.StaticCallee() == f {
				out = append(out, c)
			}
		})
		return out
	}
	sh.pushSites, sh.popSites = sitesOf(sh.pushFn, pushIn), sitesOf(sh.popFn, popIn)
	sh.pushPos, sh.popPos = an.InstrPos(pushIn), an.InstrPos(popIn)
	if len(sh.pushSites) == 0 || len(sh.popSites) == 0 {
		sh.problem = "push or pop closure is never called"
		return sh
	}
	// variables
	addrRef := func(f *ssa.Function, addr ssa.Value) ssa.Value {
		switch a := addr.(type) {
		case *ssa.FreeVar:
			return cellOfFreeVar(fn, f, a)
		case *ssa.Alloc:
			if a.Heap && f == fn {
				return a
			}
		}
		return nil
	}
	refOf := func(f *ssa.Function, v ssa.Value) ssa.Value {
		switch x := v.(type) {
		case *ssa.UnOp:
			if x.Op == token.MUL {
				return addrRef(f, x.X)
			}
		case *ssa.Phi:
			if f == fn {
				return x
			}
		}
		return nil
	}
	isFrameAddr := func(v ssa.Value) bool {
		pt, ok := v.Type().Underlying().(*types.Pointer)
		return ok && types.Identical(pt.Elem(), sh.frameT)
	}
	// the stack variable itself
	switch a0 := pushIn.(*ssa.Call).Call.Args[0].(type) {
	case *ssa.Phi:
		sh.stackVar = a0
	case *ssa.UnOp:
		sh.stackVar = addrRef(sh.pushFn, a0.X)
	}
	if sh.stackVar == nil {
		sh.problem = "the appended-to stack is neither a captured variable nor a loop-carried local"
		return sh
	}
	// push: frame{field k: variable}
	an.EachInstr(sh.pushFn, func(in ssa.Instruction) {
		st, ok := in.(*ssa.Store)
		if !ok {
			return
		}
		fa, ok := st.Addr.(*ssa.FieldAddr)
		if !ok || !isFrameAddr(fa.X) {
			return
		}
		if sh.pushFn == fn && !pushIn.Block().Dominates(in.Block()) && !in.Block().Dominates(pushIn.Block()) {
			return
		}
		if ref := refOf(sh.pushFn, st.Val); ref != nil {
			sh.saved[fa.Field] = ref
		}
	})
	// pop: variable = f.field k
	fieldOf := func(v ssa.Value) (int, bool) {
		switch x := v.(type) {
		case *ssa.Field:
			if types.Identical(x.X.Type(), sh.frameT) {
				return x.Field, true
			}
		case *ssa.UnOp:
			if fa, ok := x.X.(*ssa.FieldAddr); ok && x.Op == token.MUL && isFrameAddr(fa.X) {
				return fa.Field, true
			}
		}
		return 0, false
	}
	an.EachInstr(sh.popFn, func(in ssa.Instruction) {
		switch x := in.(type) {
		case *ssa.Store:
			if k, ok := fieldOf(x.Val); ok {
				if ref := addrRef(sh.popFn, x.Addr); ref != nil {
					sh.restored[k] = append(sh.restored[k], ref)
				}
			}
		}
		v, ok := in.(ssa.Value)
		if !ok || sh.popFn != fn {
			return
		}
		if k, ok := fieldOf(v); ok {
			// the value flows to loop-carried variables through phi edges only
			seen := map[ssa.Value]bool{}
			var walk func(w ssa.Value)
			walk = func(w ssa.Value) {
				if w.Referrers() == nil {
					return
				}
				for _, u := range *w.Referrers() {
					if ph, ok := u.(*ssa.Phi); ok && !seen[ph] {
						seen[ph] = true
						sh.restored[k] = append(sh.restored[k], ph)
						walk(ph)
					}
				}
			}
			walk(v)
		}
	})
	// variables assigned when a block starts
	inPushRegion := func(b *ssa.BasicBlock) bool {
		for _, s := range sh.pushSites {
			if s.Block().Dominates(b) {
				return true
			}
		}
		return false
	}
	if sh.pushFn != fn {
		an.EachInstr(sh.pushFn, func(in ssa.Instruction) {
			if st, ok := in.(*ssa.Store); ok {
				if ref := addrRef(sh.pushFn, st.Addr); ref != nil && ref != sh.stackVar {
					sh.assigned[ref] = st.Val
				}
			}
		})
	}
	an.EachInstr(fn, func(in ssa.Instruction) {
		if st, ok := in.(*ssa.Store); ok && inPushRegion(in.Block()) {
			if ref := addrRef(fn, st.Addr); ref != nil && ref != sh.stackVar {
				if _, had := sh.assigned[ref]; !had || isFreshAlloc(st.Val) {
					sh.assigned[ref] = st.Val
				}
			}
		}
	})
	if sp, ok := sh.stackVar.(*ssa.Phi); ok {
		for _, in := range sp.Block().Instrs {
			q, ok := in.(*ssa.Phi)
			if !ok {
				break
			}
			if q == sp || uniformStep(q) {
				continue
			}
			seen := map[*ssa.Phi]bool{}
			var walk func(x *ssa.Phi)
			walk = func(x *ssa.Phi) {
				if seen[x] {
					return
				}
				seen[x] = true
				for i, e := range x.Edges {
					if e == ssa.Value(q) {
						continue
					}
					if inPushRegion(x.Block().Preds[i]) {
						if _, had := sh.assigned[q]; !had || isFreshAlloc(e) {
							sh.assigned[q] = e
						}
					} else if ep, ok := e.(*ssa.Phi); ok && ep.Block() != sp.Block() {
						walk(ep)
					}
				}
			}
			walk(q)
		}
	}
	// the popped frame is the top of the stack
	an.EachInstr(sh.popFn, func(in ssa.Instruction) {
		if ia, ok := in.(*ssa.IndexAddr); ok && types.Identical(ia.X.Type(), sliceT) {
			if linOf(ia.Index, 0).c == -1 {
				sh.top = true
			}
		}
	})
	return sh
}

func isFreshAlloc(v ssa.Value) bool {
	al, ok := v.(*ssa.Alloc)
	return ok && al.Heap
}

// uniformStep: a loop-header phi that receives the same value on every back
// edge (a loop counter): it is advanced by the loop, not by any one arm.
func uniformStep(q *ssa.Phi) bool {
	var step ssa.Value
	for i, e := range q.Edges {
		if !q.Block().Dominates(q.Block().Preds[i]) {
			continue // entry edge
		}
		if step == nil {
			step = e
		} else if e != step {
			return false
		}
	}
	return step != nil && step != ssa.Value(q)
}

// ---------------------------------------------------------------------------
// G5

func init() {
	register("G5", "every node the block parser puts into the tree is built for the token at hand: it is a new node (not one kept from an earlier token) and, where the node kind carries a token, that token is the loop's current token", runG5)
}

func runG5(p *an.Prog, r *an.Result) {
	fn := p.Func("(parser.Config).parseTokens")
	if fn == nil {
		r.Bad("-", "parseTokens not found", token.NoPos, "anchor not resolved")
		return
	}
	name := an.FuncName(fn)
	astNode := types.Type(nil)
	if pk := p.Package("parser"); pk != nil {
		if t, ok := pk.Members["ASTNode"].(*ssa.Type); ok {
			astNode = t.Type()
		}
	}
	if astNode == nil {
		r.Bad(name, "parser.ASTNode not found", an.FuncPos(fn), "anchor not resolved")
		return
	}
	tokT := types.Type(nil)
	if pk := p.Package("parser"); pk != nil {
		if t, ok := pk.Members["Token"].(*ssa.Type); ok {
			tokT = t.Type()
		}
	}
	// the loop's current token: the element of the ranged-over parameter
	isCurrentToken := func(v ssa.Value) bool {
		for _, o := range an.Origins(v, stepIP(p)) {
			o = an.Deref(o)
			u, ok := o.(*ssa.UnOp)
			if !ok || u.Op != token.MUL {
				continue
			}
			if ia, ok := u.X.(*ssa.IndexAddr); ok && isForwardRangeIndex(ia.Index) {
				if _, isParam := ia.X.(*ssa.Parameter); isParam {
					return true
				}
			}
			// the same through a closure's free variable
			if fv, ok := u.X.(*ssa.FreeVar); ok && fv.Parent() != nil && fv.Parent().Parent() != nil {
				if cell, ok := cellOfFreeVar(fv.Parent().Parent(), fv.Parent(), fv).(*ssa.Alloc); ok {
					u = &ssa.UnOp{Op: token.MUL, X: cell}
				}
			}
			// a copy of the range element kept in a local (tok := tokens[i])
			if al, ok := u.X.(*ssa.Alloc); ok {
				for _, sv := range an.Stores(al) {
					if lu, ok := sv.(*ssa.UnOp); ok {
						if ia, ok := lu.X.(*ssa.IndexAddr); ok && isForwardRangeIndex(ia.Index) {
							return true
						}
					}
				}
			}
		}
		return false
	}
	unit := unitWithHelpers(p, fn)
	for _, f := range unit {
		an.EachInstr(f, func(in ssa.Instruction) {
			c, ok := in.(*ssa.Call)
			if !ok {
				return
			}
			bi, ok := c.Call.Value.(*ssa.Builtin)
			if !ok || bi.Name() != "append" || len(c.Call.Args) != 2 {
				return
			}
			sl, ok := c.Type().Underlying().(*types.Slice)
			if !ok || !types.Identical(sl.Elem(), astNode) && !isNamedIn(derefT(sl.Elem()), "parser", "ASTBlock") {
				return
			}
			// the appended elements
			var elems []ssa.Value
			if s2, ok := c.Call.Args[1].(*ssa.Slice); ok {
				if al, ok := s2.X.(*ssa.Alloc); ok && al.Referrers() != nil {
					for _, au := range *al.Referrers() {
						if ia, ok := au.(*ssa.IndexAddr); ok && ia.Referrers() != nil {
							for _, uu := range *ia.Referrers() {
								if st, ok := uu.(*ssa.Store); ok && st.Addr == ssa.Value(ia) {
									elems = append(elems, st.Val)
								}
							}
						}
					}
				}
			}
			for _, e := range elems {
				r.Counts["nodes appended"]++
				if mi, ok := e.(*ssa.MakeInterface); ok {
					e = mi.X
				}
				bad := ""
				var node *ssa.Alloc
				ipStep := stepIP(p)
				for _, o := range an.Origins(e, func(v ssa.Value) []ssa.Value {
					if mi, ok := v.(*ssa.MakeInterface); ok {
						return []ssa.Value{mi.X} // a node handed to an appending helper as an interface
					}
					return ipStep(v)
				}) {
					o = an.Deref(o)
					if sv := reachingStoreInBlock(o); sv != nil {
						o = sv
					}
					if al, ok := o.(*ssa.Alloc); ok && al.Heap {
						node = al
						continue
					}
					if c, isC := o.(*ssa.Const); isC && c.IsNil() {
						continue
					}
					bad = fmt.Sprintf("it can come from %s", describe(p, o))
				}
				construct := "node appended at " + p.Pos(c.Pos())
				_ = construct
				label := "appended " + an.TypeName(e.Type())
				if bad != "" || node == nil {
					r.Bad(an.FuncName(f), label+" is not a new node", c.Pos(), nonEmpty(bad, "its origin is not an allocation")+": a node kept from an earlier token carries that token's position, and shares its children")
					continue
				}
				// its token, if it has one
				okTok, hasTok := true, false
				if tokT != nil && node.Referrers() != nil {
					for _, u := range *node.Referrers() {
						fa, ok := u.(*ssa.FieldAddr)
						if !ok || !types.Identical(derefT(fa.Type()), tokT) || fa.Referrers() == nil {
							continue
						}
						for _, uu := range *fa.Referrers() {
							if st, ok := uu.(*ssa.Store); ok && st.Addr == ssa.Value(fa) {
								hasTok = true
								if !isCurrentToken(st.Val) {
									okTok = false
								}
							}
						}
					}
				}
				switch {
				case hasTok && !okTok:
					r.Bad(an.FuncName(f), label+" does not carry the current token", c.Pos(), "the node's Token is not the token of this iteration: errors would be located elsewhere")
				case hasTok:
					r.OK(an.FuncName(f), label+" is new and carries the current token", c.Pos(), "allocated in this iteration; Token = the range element")
				default:
					r.OK(an.FuncName(f), label+" is new", c.Pos(), "allocated in this iteration (the kind has no token)")
				}
			}
		})
	}
	r.Floor("nodes appended", 2)
}

func derefT(t types.Type) types.Type {
	if pt, ok := t.Underlying().(*types.Pointer); ok {
		return pt.Elem()
	}
	return t
}

// reachingStoreInBlock: v is a load of an address that the same basic block stored to earlier
// (a variable assigned and then read): the value stored last before the load.
func reachingStoreInBlock(v ssa.Value) ssa.Value {
	u, ok := v.(*ssa.UnOp)
	if !ok || u.Op != token.MUL {
		return nil
	}
	var last ssa.Value
	for _, in := range u.Block().Instrs {
		if in == ssa.Instruction(u) {
			break
		}
		if st, ok := in.(*ssa.Store); ok && st.Addr == u.X {
			last = st.Val
		}
	}
	return last
}

// ---------------------------------------------------------------------------
// G6

func init() {
	register("G6", "parsing is one pipeline: every tree that Config.Parse returns is what the block parser made of the tokens that the scanner made of the whole source with the configured delimiters - no path answers without scanning", runG6)
}

func runG6(p *an.Prog, r *an.Result) {
	fn := p.Func("(parser.Config).Parse")
	if fn == nil {
		r.Bad("-", "(parser.Config).Parse not found", token.NoPos, "anchor not resolved")
		return
	}
	name := an.FuncName(fn)
	nRet := 0
	for _, f := range unitWithHelpers(p, fn) {
		if f != fn {
			continue
		}
		an.EachInstr(f, func(in ssa.Instruction) {
			ret, ok := in.(*ssa.Return)
			if !ok {
				return
			}
			nRet++
			r.Counts["returns"]++
			res := resultsOf(ret)
			// the tree: result 0 of a call to the block parser
			var pt *ssa.Call
			for _, o := range an.Origins(res[0], an.StepValue) {
				if ex, ok := o.(*ssa.Extract); ok && ex.Index == 0 {
					if c, ok := ex.Tuple.(*ssa.Call); ok && c.Call.StaticCallee() != nil && c.Call.StaticCallee().Name() == "parseTokens" {
						pt = c
						continue
					}
				}
				if c, ok := o.(*ssa.Const); ok && c.IsNil() {
					continue
				}
				r.Bad(name, "a tree that did not come out of the block parser", ret.Pos(), fmt.Sprintf("Parse can return %s: some input is answered without tokenising and block-parsing it (under other delimiters the same text is a template)", describe(p, o)))
				return
			}
			if pt == nil {
				if an.IsNilConst(res[len(res)-1]) {
					r.Bad(name, "success without a parsed tree", ret.Pos(), "Parse returns no error and no tree from the block parser")
				} else {
					r.OK(name, "error return", ret.Pos(), "")
				}
				return
			}
			// its tokens: the scanner's result for (source, loc, c.Delims)
			okScan := false
			for _, o := range an.Origins(pt.Call.Args[len(pt.Call.Args)-1], an.StepValue) {
				sc, ok := o.(*ssa.Call)
				if !ok || sc.Call.StaticCallee() == nil || sc.Call.StaticCallee().Name() != "Scan" {
					continue
				}
				srcOK := false
				for _, so := range an.Origins(sc.Call.Args[0], an.StepValue) {
					if an.Deref(so) == ssa.Value(fn.Params[1]) || so == ssa.Value(fn.Params[1]) {
						srcOK = true
					}
				}
				delimsOK := strings.HasSuffix(describe(p, sc.Call.Args[len(sc.Call.Args)-1]), ".Delims")
				if srcOK && delimsOK {
					okScan = true
				}
			}
			if okScan {
				r.OK(name, "parseTokens(Scan(source, loc, c.Delims))", ret.Pos(), "the returned tree is the block parser's result for the scanner's tokens of the whole source under the configured delimiters")
			} else {
				r.Bad(name, "the block parser is not fed the scanner's tokens of the source", ret.Pos(), "the tokens must be Scan(source, loc, c.Delims)")
			}
		})
	}
	// and the compile step above it: every render tree comes from compiling what Parse returned for the source
	if cf := p.Func("(render.Config).Compile"); cf != nil {
		cname := an.FuncName(cf)
		an.EachInstr(cf, func(in ssa.Instruction) {
			ret, ok := in.(*ssa.Return)
			if !ok {
				return
			}
			r.Counts["returns"]++
			res := resultsOf(ret)
			fromParse, other := false, ""
			isParseResult := func(v ssa.Value) bool {
				if ex, ok := v.(*ssa.Extract); ok && ex.Index == 0 {
					if c, ok := ex.Tuple.(*ssa.Call); ok && c.Call.StaticCallee() == fn {
						return true
					}
				}
				return false
			}
			for _, o := range an.Origins(res[0], an.StepValue) {
				if c, ok := o.(*ssa.Const); ok && c.IsNil() {
					continue
				}
				// the result of a compile function of the module applied to the tree Parse returned
				var call *ssa.Call
				switch x := o.(type) {
				case *ssa.Call:
					call = x
				case *ssa.Extract:
					call, _ = x.Tuple.(*ssa.Call)
				}
				okTree := false
				if call != nil {
					if callee := call.Call.StaticCallee(); callee != nil && p.InModule(callee) {
						for _, a := range call.Call.Args {
							if an.Reaches(a, an.StepValue, isParseResult) {
								okTree = true
							}
						}
					}
				}
				if okTree {
					fromParse = true
				} else {
					other = describe(p, o)
				}
			}
			switch {
			case other != "":
				r.Bad(cname, "a render tree that was not compiled from the parsed source", ret.Pos(), fmt.Sprintf("Compile can return %s, which does not derive from what Parse returned: some source is answered without being tokenised under the configured delimiters", other))
			case fromParse:
				r.OK(cname, "compileNode(Parse(source, loc))", ret.Pos(), "")
			default:
				if an.IsNilConst(res[len(res)-1]) {
					r.Bad(cname, "success without a compiled tree", ret.Pos(), "")
				} else {
					r.OK(cname, "error return", ret.Pos(), "")
				}
			}
		})
	}
	r.Floor("returns", 1)
}

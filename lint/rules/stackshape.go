package rules

import (
	"go/token"
	"go/types"

	"golang.org/x/tools/go/ssa"

	"lv/an"
)

// stackShape describes how a parser function keeps its stack of open blocks,
// whatever the surface form: push/pop as local closures over captured
// variables (cells), written in line on captured variables, or written in line
// on plain locals (loop-carried phis).  A "variable" is either the heap cell
// of a captured local or the loop-header phi of an uncaptured one.
type stackShape struct {
	fn        *ssa.Function
	frameT    types.Type
	stackVar  ssa.Value
	pushFn    *ssa.Function
	popFn     *ssa.Function
	pushSites []ssa.Instruction // in fn
	popSites  []ssa.Instruction // in fn
	pushPos   token.Pos
	popPos    token.Pos
	saved     map[int]ssa.Value   // frame field -> variable whose value push stores in it
	restored  map[int][]ssa.Value // frame field -> variables that pop assigns from it
	assigned  map[ssa.Value]ssa.Value
	top       bool
	problem   string
}

func varName(v ssa.Value) string {
	switch x := v.(type) {
	case *ssa.Alloc:
		if x.Comment != "" {
			return x.Comment
		}
	case *ssa.Phi:
		if x.Comment != "" {
			return x.Comment
		}
	}
	return v.Name()
}

// isReadOf: v is a read of the variable ref inside fn.
func isReadOf(ref, v ssa.Value) bool {
	if v == ref {
		_, ok := ref.(*ssa.Phi)
		return ok
	}
	if u, ok := v.(*ssa.UnOp); ok && u.Op == token.MUL {
		return u.X == ref
	}
	return false
}

func findStackShape(fn *ssa.Function) *stackShape {
	sh := &stackShape{fn: fn, saved: map[int]ssa.Value{}, restored: map[int][]ssa.Value{}, assigned: map[ssa.Value]ssa.Value{}}
	funcs := append([]*ssa.Function{fn}, fn.AnonFuncs...)
	isFrameSlice := func(t types.Type) bool {
		sl, ok := t.Underlying().(*types.Slice)
		if !ok {
			return false
		}
		st, ok := sl.Elem().Underlying().(*types.Struct)
		return ok && st.NumFields() >= 2
	}
	var pushIn, popIn ssa.Instruction
	var sliceT types.Type
	for _, f := range funcs {
		an.EachInstr(f, func(in ssa.Instruction) {
			if x, ok := in.(*ssa.Slice); ok && x.High != nil && x.Low == nil && isFrameSlice(x.X.Type()) && linOf(x.High, 0).c == -1 {
				popIn, sh.popFn, sliceT = in, f, x.X.Type()
			}
		})
	}
	if popIn == nil {
		sh.problem = "no s = s[:len(s)-1] on a slice of frames"
		return sh
	}
	for _, f := range funcs {
		an.EachInstr(f, func(in ssa.Instruction) {
			if x, ok := in.(*ssa.Call); ok {
				if b, ok := x.Call.Value.(*ssa.Builtin); ok && b.Name() == "append" && types.Identical(x.Call.Args[0].Type(), sliceT) {
					pushIn, sh.pushFn = in, f
				}
			}
		})
	}
	if pushIn == nil {
		sh.problem = "no append to the slice of frames"
		return sh
	}
	sh.frameT = sliceT.Underlying().(*types.Slice).Elem()
	sitesOf := func(f *ssa.Function, in ssa.Instruction) []ssa.Instruction {
		if f == fn {
			return []ssa.Instruction{in}
		}
		var out []ssa.Instruction
		an.EachInstr(fn, func(x ssa.Instruction) {
			if c, ok := x.(*ssa.Call); ok && c.Call.StaticCallee() == f {
				out = append(out, c)
			}
		})
		return out
	}
	sh.pushSites, sh.popSites = sitesOf(sh.pushFn, pushIn), sitesOf(sh.popFn, popIn)
	sh.pushPos, sh.popPos = an.InstrPos(pushIn), an.InstrPos(popIn)
	if len(sh.pushSites) == 0 || len(sh.popSites) == 0 {
		sh.problem = "push or pop closure is never called"
		return sh
	}
	// variables
	addrRef := func(f *ssa.Function, addr ssa.Value) ssa.Value {
		switch a := addr.(type) {
		case *ssa.FreeVar:
			return cellOfFreeVar(fn, f, a)
		case *ssa.Alloc:
			if a.Heap && f == fn {
				return a
			}
		}
		return nil
	}
	refOf := func(f *ssa.Function, v ssa.Value) ssa.Value {
		switch x := v.(type) {
		case *ssa.UnOp:
			if x.Op == token.MUL {
				return addrRef(f, x.X)
			}
		case *ssa.Phi:
			if f == fn {
				return x
			}
		}
		return nil
	}
	isFrameAddr := func(v ssa.Value) bool {
		pt, ok := v.Type().Underlying().(*types.Pointer)
		return ok && types.Identical(pt.Elem(), sh.frameT)
	}
	// the stack variable itself
	switch a0 := pushIn.(*ssa.Call).Call.Args[0].(type) {
	case *ssa.Phi:
		sh.stackVar = a0
	case *ssa.UnOp:
		sh.stackVar = addrRef(sh.pushFn, a0.X)
	}
	if sh.stackVar == nil {
		sh.problem = "the appended-to stack is neither a captured variable nor a loop-carried local"
		return sh
	}
	// push: frame{field k: variable}
	an.EachInstr(sh.pushFn, func(in ssa.Instruction) {
		st, ok := in.(*ssa.Store)
		if !ok {
			return
		}
		fa, ok := st.Addr.(*ssa.FieldAddr)
		if !ok || !isFrameAddr(fa.X) {
			return
		}
		if sh.pushFn == fn && !pushIn.Block().Dominates(in.Block()) && !in.Block().Dominates(pushIn.Block()) {
			return
		}
		if ref := refOf(sh.pushFn, st.Val); ref != nil {
			sh.saved[fa.Field] = ref
		}
	})
	// pop: variable = f.field k
	fieldOf := func(v ssa.Value) (int, bool) {
		switch x := v.(type) {
		case *ssa.Field:
			if types.Identical(x.X.Type(), sh.frameT) {
				return x.Field, true
			}
		case *ssa.UnOp:
			if fa, ok := x.X.(*ssa.FieldAddr); ok && x.Op == token.MUL && isFrameAddr(fa.X) {
				return fa.Field, true
			}
		}
		return 0, false
	}
	an.EachInstr(sh.popFn, func(in ssa.Instruction) {
		switch x := in.(type) {
		case *ssa.Store:
			if k, ok := fieldOf(x.Val); ok {
				if ref := addrRef(sh.popFn, x.Addr); ref != nil {
					sh.restored[k] = append(sh.restored[k], ref)
				}
			}
		}
		v, ok := in.(ssa.Value)
		if !ok || sh.popFn != fn {
			return
		}
		if k, ok := fieldOf(v); ok {
			// the value flows to loop-carried variables through phi edges only
			seen := map[ssa.Value]bool{}
			var walk func(w ssa.Value)
			walk = func(w ssa.Value) {
				if w.Referrers() == nil {
					return
				}
				for _, u := range *w.Referrers() {
					if ph, ok := u.(*ssa.Phi); ok && !seen[ph] {
						seen[ph] = true
						sh.restored[k] = append(sh.restored[k], ph)
						walk(ph)
					}
				}
			}
			walk(v)
		}
	})
	// variables assigned when a block starts
	inPushRegion := func(b *ssa.BasicBlock) bool {
		for _, s := range sh.pushSites {
			if s.Block().Dominates(b) {
				return true
			}
		}
		return false
	}
	if sh.pushFn != fn {
		an.EachInstr(sh.pushFn, func(in ssa.Instruction) {
			if st, ok := in.(*ssa.Store); ok {
				if ref := addrRef(sh.pushFn, st.Addr); ref != nil && ref != sh.stackVar {
					sh.assigned[ref] = st.Val
				}
			}
		})
	}
	an.EachInstr(fn, func(in ssa.Instruction) {
		if st, ok := in.(*ssa.Store); ok && inPushRegion(in.Block()) {
			if ref := addrRef(fn, st.Addr); ref != nil && ref != sh.stackVar {
				if _, had := sh.assigned[ref]; !had || isFreshAlloc(st.Val) {
					sh.assigned[ref] = st.Val
				}
			}
		}
	})
	if sp, ok := sh.stackVar.(*ssa.Phi); ok {
		for _, in := range sp.Block().Instrs {
			q, ok := in.(*ssa.Phi)
			if !ok {
				break
			}
			if q == sp || uniformStep(q) {
				continue
			}
			seen := map[*ssa.Phi]bool{}
			var walk func(x *ssa.Phi)
			walk = func(x *ssa.Phi) {
				if seen[x] {
					return
				}
				seen[x] = true
				for i, e := range x.Edges {
					if e == ssa.Value(q) {
						continue
					}
					if inPushRegion(x.Block().Preds[i]) {
						if _, had := sh.assigned[q]; !had || isFreshAlloc(e) {
							sh.assigned[q] = e
						}
					} else if ep, ok := e.(*ssa.Phi); ok && ep.Block() != sp.Block() {
						walk(ep)
					}
				}
			}
			walk(q)
		}
	}
	// the popped frame is the top of the stack
	an.EachInstr(sh.popFn, func(in ssa.Instruction) {
		if ia, ok := in.(*ssa.IndexAddr); ok && types.Identical(ia.X.Type(), sliceT) {
			if linOf(ia.Index, 0).c == -1 {
				sh.top = true
			}
		}
	})
	return sh
}

func isFreshAlloc(v ssa.Value) bool {
	al, ok := v.(*ssa.Alloc)
	return ok && al.Heap
}

// uniformStep: a loop-header phi that receives the same value on every back
// edge (a loop counter): it is advanced by the loop, not by any one arm.
func uniformStep(q *ssa.Phi) bool {
	var step ssa.Value
	for i, e := range q.Edges {
		if !q.Block().Dominates(q.Block().Preds[i]) {
			continue // entry edge
		}
		if step == nil {
			step = e
		} else if e != step {
			return false
		}
	}
	return step != nil && step != ssa.Value(q)
}

package rules

import (
	"fmt"
	"go/token"
	"go/types"
	"strings"

	"golang.org/x/tools/go/ssa"

	"lv/an"
)

func init() {
	register("E4", "the error of every call that writes output is returned to the caller, never dropped and never raised as a panic", runE4)
	register("E4p", "the error of a call that writes output is never raised as a panic", func(p *an.Prog, r *an.Result) { e4Core(p, r, "panic") })
	register("E4i", "on the include path (the include renderer, RenderFile, the tag node) the error of every call that writes or renders is returned", func(p *an.Prog, r *an.Result) { e4Core(p, r, "include") })
	register("E5", "every function or interface method that is handed an io.Writer and uses it can report failure (has an error result)", runE5)
}

func isIOWriter(t types.Type) bool { return isPkgType(t, "io", "Writer") }

func isTrimWriterPtr(t types.Type) bool {
	p, ok := t.(*types.Pointer)
	return ok && isNamedIn(p.Elem(), "render", "trimWriter")
}

func isWriterType(t types.Type) bool { return isIOWriter(t) || isTrimWriterPtr(t) }

// errorLike: an interface type with an Error() string method (error,
// render.Error, parser.Error, liquid.SourceError).
func errorLike(t types.Type) bool {
	it, ok := t.Underlying().(*types.Interface)
	if !ok {
		return false
	}
	for i := 0; i < it.NumMethods(); i++ {
		m := it.Method(i)
		if m.Name() == "Error" {
			s := m.Type().(*types.Signature)
			if s.Params().Len() == 0 && s.Results().Len() == 1 {
				return true
			}
		}
	}
	return false
}

func callSig(c *ssa.CallCommon) *types.Signature {
	if c.IsInvoke() {
		return c.Method.Type().(*types.Signature)
	}
	s, _ := c.Value.Type().Underlying().(*types.Signature)
	return s
}

// errResultIndex returns the index of the last error-like result, or -1.
func errResultIndex(sig *types.Signature) int {
	for i := sig.Results().Len() - 1; i >= 0; i-- {
		if errorLike(sig.Results().At(i).Type()) {
			return i
		}
	}
	return -1
}

// writeBearing reports whether a call can perform output and fail: it returns
// an error and takes (or is invoked on) a writer.
func writeBearing(c *ssa.CallCommon) (bool, int) {
	sig := callSig(c)
	if sig == nil {
		return false, -1
	}
	ei := errResultIndex(sig)
	if ei < 0 {
		return false, -1
	}
	if c.IsInvoke() && isWriterType(c.Value.Type()) {
		return true, ei
	}
	if !c.IsInvoke() {
		if f := c.StaticCallee(); f != nil && f.Signature.Recv() != nil {
			if isWriterType(f.Signature.Recv().Type()) {
				return true, ei
			}
			// a library writer that wraps the output (bufio.NewWriter(w), ...): its Write, Flush and
			// Close report the failures of the writer underneath
			if len(c.Args) > 0 && wrapsWriter(c.Args[0], 0) {
				return true, ei
			}
		}
	}
	for i := 0; i < sig.Params().Len(); i++ {
		if isWriterType(sig.Params().At(i).Type()) {
			// writing into an in-memory buffer cannot fail
			off := 0
			if !c.IsInvoke() && sig.Recv() != nil {
				off = 1
			}
			if f := c.StaticCallee(); f != nil && f.Pkg != nil && !an.IsModulePkg(f.Pkg.Pkg) && i+off < len(c.Args) && infallibleWriter(c.Args[i+off]) {
				continue // a library printing function has no other error to report
			}
			return true, ei
		}
	}
	return false, -1
}

// infallibleWriter: the writer argument is a *strings.Builder or *bytes.Buffer, whose Write
// methods are documented to always return a nil error.
func infallibleWriter(v ssa.Value) bool {
	mi, ok := v.(*ssa.MakeInterface)
	if !ok {
		return false
	}
	t := mi.X.Type()
	if pt, ok := t.Underlying().(*types.Pointer); ok {
		t = pt.Elem()
	}
	return isPkgType(t, "strings", "Builder") || isPkgType(t, "bytes", "Buffer")
}

// wrapsWriter: v is a pointer to a library type that was constructed from an io.Writer
// (its origin is a call with a writer-typed argument that is not an in-memory buffer).
func wrapsWriter(v ssa.Value, depth int) bool {
	if depth > 4 {
		return false
	}
	pt, ok := v.Type().Underlying().(*types.Pointer)
	if !ok {
		return false
	}
	if n := an.NamedOf(pt.Elem()); n == nil || n.Obj().Pkg() == nil || an.IsModulePkg(n.Obj().Pkg()) {
		return false
	}
	for _, o := range an.Origins(v, an.StepValue) {
		c := an.CallOf(o)
		if c == nil {
			continue
		}
		sig := callSig(c)
		if sig == nil {
			continue
		}
		for i := 0; i < sig.Params().Len() && i < len(c.Args); i++ {
			if isIOWriter(sig.Params().At(i).Type()) && !infallibleWriter(c.Args[i]) {
				return true
			}
		}
	}
	return false
}

// errorValueOf returns the SSA value holding result ei of the call, or nil if
// the program never extracts it.
func errorValueOf(call *ssa.Call, ei int) ssa.Value {
	sig := callSig(&call.Call)
	if sig.Results().Len() == 1 {
		return call
	}
	refs := call.Referrers()
	if refs == nil {
		return nil
	}
	for _, r := range *refs {
		if ex, ok := r.(*ssa.Extract); ok && ex.Index == ei {
			return ex
		}
	}
	return nil
}

type errFlow struct {
	used     bool
	toReturn bool
	toPanic  token.Pos
	panicked bool
	derived  map[ssa.Value]bool    // every value that carries the error (phis, conversions, wrappers, cells)
	returns  map[*ssa.Return]bool  // the returns that hand it on
	tests    map[*ssa.If]ssa.Value // branches on a comparison of a carrier with nil
}

// flowOfError follows an error value forward: through phis, interface
// conversions, assertions, local cells (including named results) and calls
// that take the error and return an error (wrappers), to returns and panics.
func flowOfError(e ssa.Value) errFlow {
	f := errFlow{derived: map[ssa.Value]bool{}, returns: map[*ssa.Return]bool{}, tests: map[*ssa.If]ssa.Value{}}
	seen := map[ssa.Value]bool{}
	var walk func(v ssa.Value)
	walk = func(v ssa.Value) {
		if v == nil || seen[v] {
			return
		}
		seen[v] = true
		f.derived[v] = true
		refs := v.Referrers()
		if refs == nil {
			return
		}
		for _, r := range *refs {
			switch x := r.(type) {
			case *ssa.DebugRef:
				continue
			case *ssa.Return:
				f.used, f.toReturn = true, true
				f.returns[x] = true
			case *ssa.Panic:
				f.used, f.panicked, f.toPanic = true, true, x.Pos()
			case *ssa.Phi:
				f.used = true
				walk(x)
			case *ssa.MakeInterface:
				f.used = true
				walk(x)
			case *ssa.ChangeInterface:
				f.used = true
				walk(x)
			case *ssa.ChangeType:
				f.used = true
				walk(x)
			case *ssa.TypeAssert:
				f.used = true
				walk(x)
			case *ssa.Extract:
				f.used = true
				walk(x)
			case *ssa.Store:
				f.used = true
				if x.Val != v {
					continue
				}
				switch a := x.Addr.(type) {
				case *ssa.Alloc:
					if ar := a.Referrers(); ar != nil {
						for _, l := range *ar {
							if u, ok := l.(*ssa.UnOp); ok && u.Op == token.MUL {
								walk(u)
							}
						}
					}
				case *ssa.FreeVar:
					if ar := a.Referrers(); ar != nil {
						for _, l := range *ar {
							if u, ok := l.(*ssa.UnOp); ok && u.Op == token.MUL {
								walk(u)
							}
						}
					}
				case *ssa.FieldAddr:
					// stored into a struct under construction (error wrappers): follow the struct
					if al, ok := a.X.(*ssa.Alloc); ok {
						walk(al)
					}
				}
			case *ssa.Call:
				f.used = true
				sig := callSig(&x.Call)
				if sig != nil && errResultIndex(sig) >= 0 {
					// wrapper: the result carries the error
					if sig.Results().Len() == 1 {
						walk(x)
					} else if ev := errorValueOf(x, errResultIndex(sig)); ev != nil {
						walk(ev)
					}
				}
			case *ssa.BinOp:
				// comparison with nil: a use, but not a propagation
				f.used = true
				if (x.Op == token.NEQ || x.Op == token.EQL) && (an.IsNilConst(x.X) || an.IsNilConst(x.Y)) && x.Referrers() != nil {
					for _, u := range *x.Referrers() {
						if ifi, ok := u.(*ssa.If); ok {
							f.tests[ifi] = x
						}
					}
				}
			case *ssa.If:
				f.used = true
			default:
				f.used = true
			}
		}
	}
	walk(e)
	return f
}

func runE4(p *an.Prog, r *an.Result) { e4Core(p, r, "all") }

// e4Core: mode "all" = the full rule; "panic" = only errors raised as panics are reported;
// "include" = the full rule restricted to the functions on the include path.
func e4Core(p *an.Prog, r *an.Result, mode string) {
	includePath := map[string]bool{"(render.rendererContext).RenderFile": true, "(*render.TagNode).render": true}
	if roles := GetRoles(p); tagByName(roles, "include") != nil && tagByName(roles, "include").Renderer != nil {
		includePath[an.FuncName(tagByName(roles, "include").Renderer)] = true
	}
	if mode == "include" {
		for name := range includePath {
			if f := p.Func(name); f != nil {
				for _, h := range unitWithHelpers(p, f) {
					includePath[an.FuncName(h)] = true
				}
			}
		}
	}
	for _, fn := range p.Funcs {
		if isMainPkg(fn) {
			continue
		}
		name := an.FuncName(fn)
		if mode == "include" && !includePath[name] {
			continue
		}
		an.EachCall(fn, func(ci ssa.CallInstruction) {
			c := ci.Common()
			wb, ei := writeBearing(c)
			if !wb {
				return
			}
			r.Counts["write-bearing calls"]++
			callee := nonEmpty(an.CallName(c), "renderer/dynamic call")
			construct := "error of " + callee
			call, isCall := ci.(*ssa.Call)
			if !isCall {
				if mode != "panic" {
					r.Bad(name, construct, ci.Pos(), "a write is deferred or started as a goroutine: its error cannot be returned")
				}
				return
			}
			ev := errorValueOf(call, ei)
			if ev == nil {
				if mode != "panic" {
					r.Bad(name, construct, ci.Pos(), fmt.Sprintf("%s discards the error result of %s: a failing writer goes unnoticed and the render reports success", name, callee))
				} else {
					r.Triv(name, construct, ci.Pos(), "not raised as a panic")
				}
				return
			}
			fl := flowOfError(ev)
			if mode == "panic" {
				if fl.panicked {
					r.Bad(name, construct, ci.Pos(), fmt.Sprintf("%s raises the error of %s as a panic (%s) instead of returning it", name, callee, p.Pos(fl.toPanic)))
				} else {
					r.OK(name, construct, ci.Pos(), "never flows into a panic")
				}
				return
			}
			switch {
			case !fl.used:
				r.Bad(name, construct, ci.Pos(), fmt.Sprintf("%s never looks at the error of %s: a failing writer goes unnoticed", name, callee))
			case fl.panicked:
				r.Bad(name, construct, ci.Pos(), fmt.Sprintf("%s raises the error of %s as a panic (%s) instead of returning it", name, callee, p.Pos(fl.toPanic)))
			case !fl.toReturn:
				r.Bad(name, construct, ci.Pos(), fmt.Sprintf("the error of %s is tested but never reaches a return of %s: the failure is swallowed", callee, name))
			default:
				if why, pos := errorCanBeLost(fn, call, fl); why != "" {
					r.Bad(name, construct+" can be lost", pos, fmt.Sprintf("%s: %s", name, why))
				} else {
					r.OK(name, construct, ci.Pos(), "flows to a return of the enclosing function, on every path on which it is not nil")
				}
			}
		})
	}
	if mode == "include" {
		r.Floor("write-bearing calls", 2)
	} else {
		r.Floor("write-bearing calls", 25)
	}
}

func runE5(p *an.Prog, r *an.Result) {
	// functions
	for _, fn := range p.Funcs {
		if isMainPkg(fn) || fn.Signature == nil {
			continue
		}
		name := an.FuncName(fn)
		sig := fn.Signature
		hasErr := errResultIndex(sig) >= 0
		for i, par := range fn.Params {
			if fn.Signature.Recv() != nil && i == 0 {
				continue
			}
			if !isWriterType(par.Type()) {
				continue
			}
			r.Counts["writer parameters"]++
			// used: the writer (as it is, asserted, or converted) is the receiver or an argument of a
			// call; a function that only stores it in a wrapper it returns writes nothing itself
			used := false
			seen := map[ssa.Value]bool{}
			var walk func(v ssa.Value, depth int)
			walk = func(v ssa.Value, depth int) {
				if seen[v] || depth > 5 || v.Referrers() == nil || used {
					return
				}
				seen[v] = true
				for _, u := range *v.Referrers() {
					switch x := u.(type) {
					case ssa.CallInstruction:
						used = true
					case *ssa.TypeAssert:
						walk(x, depth+1)
					case *ssa.Extract:
						walk(x, depth+1)
					case *ssa.Phi:
						walk(x, depth+1)
					case *ssa.MakeInterface:
						walk(x, depth+1)
					case *ssa.ChangeInterface:
						walk(x, depth+1)
					case *ssa.MakeClosure:
						used = true // captured by a closure that may write
					case *ssa.Store:
						// a captured or spilled variable: follow its loads; a field of a fresh struct: not a use
						if al, ok := x.Addr.(*ssa.Alloc); ok && x.Val == v && al.Referrers() != nil {
							for _, l := range *al.Referrers() {
								if ld, ok := l.(*ssa.UnOp); ok {
									walk(ld, depth+1)
								}
								if _, ok := l.(*ssa.MakeClosure); ok {
									used = true
								}
							}
						}
					}
				}
			}
			walk(par, 0)
			construct := "writer parameter " + par.Name()
			switch {
			case hasErr:
				r.OK(name, construct, an.FuncPos(fn), "the function has an error result")
			case !used:
				r.Triv(name, construct, an.FuncPos(fn), "the writer is not written to here (unused, or only stored in a wrapper that is returned)")
			default:
				r.Bad(name, construct, an.FuncPos(fn), fmt.Sprintf("%s is handed a writer and uses it but has no error result: a write failure can only be dropped or raised as a panic", name))
			}
		}
	}
	// interface methods declared in the module
	for _, n := range moduleNamedTypes(p) {
		it, ok := n.Underlying().(*types.Interface)
		if !ok || n.Obj().Pkg().Name() == "main" {
			continue
		}
		for i := 0; i < it.NumExplicitMethods(); i++ {
			m := it.ExplicitMethod(i)
			sig := m.Type().(*types.Signature)
			for j := 0; j < sig.Params().Len(); j++ {
				if !isWriterType(sig.Params().At(j).Type()) {
					continue
				}
				r.Counts["writer parameters"]++
				label := an.TypeName(n) + "." + m.Name()
				if errResultIndex(sig) >= 0 {
					r.OK(label, "interface method with writer parameter", m.Pos(), "has an error result")
				} else {
					r.Bad(label, "interface method with writer parameter", m.Pos(), fmt.Sprintf("interface method %s takes a writer but has no error result: no implementation can report a failed write", label))
				}
			}
		}
	}
	r.Floor("writer parameters", 15)
}

// errorCanBeLost: although the error of the write call reaches a return on some path, there is a
// path on which it is known (or may be) non-nil and the function goes on without returning it:
// (1) from the non-nil edge of a test of the error, every path must end in a return that carries it,
//
//	except where the path recognises a sentinel (a comparison of the error's Cause() with a
//	package-level variable: break/continue, decided by B6);
//
// (2) from the call, no return is reached before the error has been tested or returned.
func errorCanBeLost(fn *ssa.Function, call *ssa.Call, fl errFlow) (string, token.Pos) {
	carries := func(ret *ssa.Return) bool {
		if fl.returns[ret] {
			return true
		}
		res := resultsOf(ret)
		return len(res) > 0 && fl.derived[res[len(res)-1]]
	}
	sentinelEdge := func(ifi *ssa.If) bool {
		// a branch on derived.Cause() == <package-level variable>
		found := false
		condMentions(ifi.Cond, func(v ssa.Value) bool {
			b, ok := v.(*ssa.BinOp)
			if !ok || (b.Op != token.EQL && b.Op != token.NEQ) {
				return false
			}
			for _, pair := range [][2]ssa.Value{{b.X, b.Y}, {b.Y, b.X}} {
				c := an.CallOf(pair[0])
				if c == nil || !c.IsInvoke() || c.Method.Name() != "Cause" || !fl.derived[c.Value] {
					continue
				}
				if u, ok := pair[1].(*ssa.UnOp); ok {
					if _, isG := u.X.(*ssa.Global); isG {
						found = true
					}
				}
			}
			return false
		}, 0)
		return found
	}
	// (1)
	for ifi, cmp := range fl.tests {
		b := cmp.(*ssa.BinOp)
		nonNil := ifi.Block().Succs[0]
		if b.Op == token.EQL {
			nonNil = ifi.Block().Succs[1]
		}
		seen := map[*ssa.BasicBlock]bool{}
		why := ""
		var pos token.Pos
		var dfs func(blk *ssa.BasicBlock)
		dfs = func(blk *ssa.BasicBlock) {
			if seen[blk] || why != "" {
				return
			}
			seen[blk] = true
			last := blk.Instrs[len(blk.Instrs)-1]
			switch x := last.(type) {
			case *ssa.Return:
				if !carries(x) {
					why, pos = "after the error was found non-nil a path returns without it", x.Pos()
				}
				return
			case *ssa.Panic:
				return
			case *ssa.If:
				if sentinelEdge(x) {
					return // break/continue sentinel handling: rule B6
				}
			}
			for _, s := range blk.Succs {
				if s == ifi.Block() || s.Dominates(ifi.Block()) && reachesBlock(s, s) {
					why, pos = "after the error was found non-nil a path goes round the loop again without returning it", an.InstrPos(last)
					return
				}
				dfs(s)
			}
		}
		dfs(nonNil)
		if why != "" {
			return why, pos
		}
	}
	// (2)
	seen := map[*ssa.BasicBlock]bool{}
	why := ""
	var pos token.Pos
	var dfs func(blk *ssa.BasicBlock, first bool)
	dfs = func(blk *ssa.BasicBlock, first bool) {
		if (!first && seen[blk]) || why != "" {
			return
		}
		seen[blk] = true
		last := blk.Instrs[len(blk.Instrs)-1]
		switch x := last.(type) {
		case *ssa.Return:
			if !carries(x) {
				res := resultsOf(x)
				if len(res) > 0 && an.IsNilConst(res[len(res)-1]) {
					why, pos = "a path from the write returns success without the error having been looked at", x.Pos()
				} else {
					why, pos = "a path from the write returns another error before the writer's own error has been looked at", x.Pos()
				}
			}
			return
		case *ssa.Panic:
			return
		case *ssa.If:
			if _, tested := fl.tests[x]; tested {
				return
			}
		}
		for _, s := range blk.Succs {
			dfs(s, false)
		}
	}
	dfs(call.Block(), true)
	return why, pos
}

// ---------------------------------------------------------------------------
// E8

func init() {
	register("E8", "an error produced inside a loop is looked at inside that loop: it is not left in a variable that the next iteration overwrites", runE8)
}

func runE8(p *an.Prog, r *an.Result) {
	roles := GetRoles(p)
	for _, fn := range p.Funcs {
		if isMainPkg(fn) || p9OutOfScope(p, fn) != "" && !strings.Contains(p9OutOfScope(p, fn), "Scan") {
			continue
		}
		name := roles.Label(fn)
		an.EachInstr(fn, func(in ssa.Instruction) {
			call, ok := in.(*ssa.Call)
			if !ok || !reachesBlock(call.Block(), call.Block()) {
				return
			}
			sig := callSig(&call.Call)
			if sig == nil {
				return
			}
			ei := errResultIndex(sig)
			if ei < 0 {
				return
			}
			ev := errorValueOf(call, ei)
			if ev == nil {
				return // discarded outright: not this rule's business
			}
			r.Counts["errors produced in loops"]++
			fl := flowOfError(ev)
			inLoop := func(b *ssa.BasicBlock) bool {
				return reachesBlock(b, call.Block()) && reachesBlock(call.Block(), b)
			}
			examined := false
			for ifi := range fl.tests {
				if inLoop(ifi.Block()) {
					examined = true
				}
			}
			for ret := range fl.returns {
				if inLoop(ret.Block()) || true {
					_ = ret
				}
			}
			// handed on inside the loop (returned, passed to a call, stored away)?
			if !examined && ev.Referrers() != nil {
				for v := range fl.derived {
					if v.Referrers() == nil {
						continue
					}
					for _, u := range *v.Referrers() {
						switch x := u.(type) {
						case *ssa.Return, *ssa.Panic:
							if inLoop(x.Block()) {
								examined = true
							}
						case *ssa.Call:
							if inLoop(x.Block()) && x != call {
								examined = true
							}
						}
					}
				}
			}
			var carrier *ssa.Phi
			for v := range fl.derived {
				if ph, ok := v.(*ssa.Phi); ok && ph.Block().Dominates(call.Block()) && inLoop(ph.Block()) {
					carrier = ph
				}
			}
			construct := "error of " + nonEmpty(an.CallName(&call.Call), "dynamic call") + " in a loop"
			if !examined && carrier != nil {
				r.Bad(name, construct+" is carried into the next iteration unexamined", call.Pos(), fmt.Sprintf("%s keeps the error in %s and tests it only after the loop: a later iteration that succeeds overwrites an earlier failure", an.FuncName(fn), nonEmpty(carrier.Comment, carrier.Name())))
			} else {
				r.OK(name, construct, call.Pos(), "tested, returned or handed on inside the loop (or not loop-carried)")
			}
		})
	}
	r.Floor("errors produced in loops", 5)
}

// ---------------------------------------------------------------------------
// E10

func init() {
	register("E10", "a function that is handed a writer renders into it: the writer it passes to whatever renders nodes (node render methods, RenderSequence, renderer closures, other module functions taking a writer) is the one it received, or a wrapper built around that one - never a buffer of its own whose content is copied afterwards", runE10)
}

func runE10(p *an.Prog, r *an.Result) {
	roles := GetRoles(p)
	for _, fn := range p.Funcs {
		if fn.Blocks == nil || isMainPkg(fn) || fn.Pkg == nil {
			continue
		}
		// the writers this function (or the function it is a closure of) was handed
		var given []ssa.Value
		for f := fn; f != nil; f = f.Parent() {
			for _, par := range f.Params {
				if isWriterType(par.Type()) {
					given = append(given, par)
				}
			}
		}
		if len(given) == 0 {
			continue
		}
		name := roles.Label(fn)
		fromGiven := func(v ssa.Value) bool {
			ok := false
			seen := map[ssa.Value]bool{}
			var visit func(v ssa.Value, depth int)
			visit = func(v ssa.Value, depth int) {
				if v == nil || seen[v] || depth > 8 || ok {
					return
				}
				seen[v] = true
				for _, o := range an.Origins(v, an.StepValue) {
					for _, g := range given {
						if o == g {
							ok = true
							return
						}
					}
					switch x := o.(type) {
					case *ssa.FreeVar:
						// a captured variable of the enclosing function: the cell, then what is stored in it
						if pf := x.Parent().Parent(); pf != nil {
							an.EachInstr(pf, func(in ssa.Instruction) {
								if mc, isMC := in.(*ssa.MakeClosure); isMC && mc.Fn == ssa.Value(x.Parent()) {
									for i, fv := range x.Parent().FreeVars {
										if fv == x && i < len(mc.Bindings) {
											visit(mc.Bindings[i], depth+1)
											for _, sv := range an.Stores(mc.Bindings[i]) {
												visit(sv, depth+1)
											}
										}
									}
								}
							})
						}
					case *ssa.Alloc:
						// a wrapper built around the writer: a struct one of whose fields holds it
						for _, sv := range an.Stores(x) {
							visit(sv, depth+1)
						}
						if x.Referrers() != nil {
							for _, u := range *x.Referrers() {
								if fa, isFA := u.(*ssa.FieldAddr); isFA {
									for _, sv := range an.Stores(fa) {
										visit(sv, depth+1)
									}
								}
							}
						}
					case *ssa.MakeInterface:
						visit(x.X, depth+1)
					case *ssa.UnOp:
						visit(x.X, depth+1)
					case *ssa.Call:
						// a library wrapper constructed from the writer (bufio.NewWriter(w), io.MultiWriter(w, ...))
						for _, a := range x.Call.Args {
							if isWriterType(a.Type()) || an.IsInterface(a.Type()) {
								visit(a, depth+1)
							}
						}
					}
				}
			}
			visit(v, 0)
			return ok
		}
		an.EachInstr(fn, func(in ssa.Instruction) {
			ci, ok := in.(ssa.CallInstruction)
			if !ok {
				return
			}
			c := ci.Common()
			if _, isB := c.Value.(*ssa.Builtin); isB {
				return
			}
			// only calls that render: module callees, interface methods of module interfaces, function values
			if callee := c.StaticCallee(); callee != nil && !p.InModule(callee) {
				return
			}
			if c.IsInvoke() {
				if n := an.NamedOf(c.Value.Type()); n == nil || !an.IsModulePkg(n.Obj().Pkg()) {
					return
				}
			}
			sig := callSig(c)
			if sig == nil {
				return
			}
			args := c.Args
			if !c.IsInvoke() && sig.Recv() != nil && len(args) > 0 {
				args = args[1:] // the receiver of a statically dispatched method comes first
			}
			for i := 0; i < sig.Params().Len() && i < len(args); i++ {
				if !isWriterType(sig.Params().At(i).Type()) {
					continue
				}
				r.Counts["writers handed on"]++
				construct := "writer passed to " + nonEmpty(an.CallName(c), "a renderer")
				if fromGiven(args[i]) {
					r.OK(name, construct, an.InstrPos(in), "the writer the function received (or a wrapper around it)")
				} else if !copiedToGiven(fn, args[i], fromGiven) {
					r.OK(name, construct, an.InstrPos(in), "a buffer of the function's own whose content is kept (bound to a variable, returned), not copied to the writer it was handed: a capture")
				} else {
					r.Bad(name, construct, an.InstrPos(in), fmt.Sprintf("%s was handed a writer but renders into %s: output produced before an error, a break or a continue is lost or reordered, and nothing is written until the whole part has been rendered", an.FuncName(fn), describe(p, args[i])))
				}
			}
		})
	}
	r.Floor("writers handed on", 10)
}

// copiedToGiven: the content of the private writer buf reaches a writer the function was handed:
// buf.WriteTo(w), w.Write(buf.Bytes()), io.WriteString(w, buf.String()), io.Copy(w, buf).
func copiedToGiven(fn *ssa.Function, buf ssa.Value, fromGiven func(ssa.Value) bool) bool {
	roots := map[ssa.Value]bool{}
	for _, o := range an.Origins(buf, an.StepValue) {
		roots[o] = true
		if mi, ok := o.(*ssa.MakeInterface); ok {
			roots[mi.X] = true
			for _, o2 := range an.Origins(mi.X, an.StepValue) {
				roots[o2] = true
			}
		}
	}
	isBuf := func(v ssa.Value) bool {
		if roots[v] {
			return true
		}
		for _, o := range an.Origins(v, an.StepValue) {
			if roots[o] {
				return true
			}
			if mi, ok := o.(*ssa.MakeInterface); ok && roots[mi.X] {
				return true
			}
		}
		return false
	}
	// values that hold the buffer's content: results of methods called on it
	content := map[ssa.Value]bool{}
	for _, f := range unitOf(an.Outermost(fn)) {
		an.EachInstr(f, func(in ssa.Instruction) {
			c, ok := in.(*ssa.Call)
			if !ok {
				return
			}
			args := an.Args(&c.Call)
			if len(args) > 0 && isBuf(args[0]) {
				content[c] = true
			}
		})
	}
	found := false
	for _, f := range unitOf(an.Outermost(fn)) {
		an.EachInstr(f, func(in ssa.Instruction) {
			c, ok := in.(*ssa.Call)
			if !ok || found {
				return
			}
			args := an.Args(&c.Call)
			hasGiven, hasContent := false, false
			for _, a := range args {
				if isWriterType(a.Type()) && fromGiven(a) {
					hasGiven = true
				}
				if isBuf(a) {
					hasContent = true
				}
				for _, o := range an.Origins(a, an.StepValue) {
					if content[o] {
						hasContent = true
					}
				}
			}
			if hasGiven && hasContent {
				found = true
			}
		})
	}
	return found
}

// ---------------------------------------------------------------------------
// E11

func init() {
	register("E11", "nothing more is written once a write may have failed: between a call that can write output and the next such call, every path passes a test that finds the first call's error nil (or a break/continue sentinel)", runE11)
}

// runE11: the bytes a failing writer accepted are a prefix of the fault-free output only if the render
// stops writing at the failure. For every write-bearing call c1 with error e1, no other write-bearing
// call is reachable from c1 on a path that has not taken the nil edge of a test of e1 (or the equal
// edge of a comparison of e1.Cause() with a package-level sentinel). A branch on e1 of a shape the rule
// does not read clears both of its edges.
func runE11(p *an.Prog, r *an.Result) {
	roles := GetRoles(p)
	for _, fn := range p.Funcs {
		if isMainPkg(fn) || fn.Blocks == nil {
			continue
		}
		name := roles.Label(fn)
		// the write-bearing calls of this function, by block
		type wcall struct {
			call *ssa.Call
			idx  int
		}
		byBlock := map[*ssa.BasicBlock][]wcall{}
		var all []*ssa.Call
		for _, b := range fn.Blocks {
			for i, in := range b.Instrs {
				c, ok := in.(*ssa.Call)
				if !ok {
					continue
				}
				if wb, _ := writeBearing(&c.Call); wb {
					byBlock[b] = append(byBlock[b], wcall{c, i})
					all = append(all, c)
				}
			}
		}
		if len(all) < 1 {
			continue
		}
		for _, c1 := range all {
			_, ei := writeBearing(&c1.Call)
			ev := errorValueOf(c1, ei)
			if ev == nil {
				continue // discarded outright: E4
			}
			r.Counts["write-bearing calls followed"]++
			fl := flowOfError(ev)
			mentionsErr := func(cond ssa.Value) bool {
				found := false
				condMentions(cond, func(v ssa.Value) bool {
					if fl.derived[v] {
						found = true
					}
					if c := an.CallOf(v); c != nil {
						if c.IsInvoke() && fl.derived[c.Value] {
							found = true
						}
						for _, a := range c.Args {
							if fl.derived[a] {
								found = true
							}
						}
					}
					return false
				}, 0)
				return found
			}
			// cleared(ifi, k): taking successor k of the branch establishes that e1 is nil or a sentinel
			cleared := func(ifi *ssa.If, k int) bool {
				if cmp, ok := fl.tests[ifi]; ok {
					if b, ok := cmp.(*ssa.BinOp); ok && ifi.Cond == ssa.Value(b) {
						if b.Op == token.EQL {
							return k == 0
						}
						return k == 1
					}
					return true
				}
				if b, ok := ifi.Cond.(*ssa.BinOp); ok && (b.Op == token.EQL || b.Op == token.NEQ) {
					for _, pair := range [][2]ssa.Value{{b.X, b.Y}, {b.Y, b.X}} {
						c := an.CallOf(pair[0])
						if c == nil || !c.IsInvoke() || c.Method.Name() != "Cause" || !fl.derived[c.Value] {
							continue
						}
						if u, ok := pair[1].(*ssa.UnOp); ok {
							if _, isG := u.X.(*ssa.Global); isG {
								if b.Op == token.EQL {
									return k == 0
								}
								return k == 1
							}
						}
					}
				}
				// a test of the error the rule does not read: no claim
				return mentionsErr(ifi.Cond)
			}
			var bad *ssa.Call
			seen := map[*ssa.BasicBlock]bool{}
			var dfs func(b *ssa.BasicBlock, from int)
			dfs = func(b *ssa.BasicBlock, from int) {
				if bad != nil {
					return
				}
				for _, w := range byBlock[b] {
					if w.idx >= from {
						bad = w.call
						return
					}
				}
				last := b.Instrs[len(b.Instrs)-1]
				ifi, _ := last.(*ssa.If)
				for k, s := range b.Succs {
					if ifi != nil && cleared(ifi, k) {
						continue
					}
					if seen[s] {
						continue
					}
					seen[s] = true
					dfs(s, 0)
				}
			}
			idx := 0
			for i, in := range c1.Block().Instrs {
				if in == ssa.Instruction(c1) {
					idx = i
				}
			}
			dfs(c1.Block(), idx+1)
			construct := "writes after " + nonEmpty(an.CallName(&c1.Call), "renderer/dynamic call")
			if bad != nil {
				r.Bad(name, construct, bad.Pos(), fmt.Sprintf("%s calls %s (%s) on a path on which the error of %s (%s) has not been found nil: after a failed write more output is sent, so what the writer accepted is not a prefix of the output", an.FuncName(fn), nonEmpty(an.CallName(&bad.Call), "a renderer"), p.Pos(bad.Pos()), nonEmpty(an.CallName(&c1.Call), "the earlier write"), p.Pos(c1.Pos())))
			} else {
				r.OK(name, construct, c1.Pos(), "every path to a later write takes the nil (or sentinel) edge of a test of this call's error")
			}
		}
	}
	r.Floor("write-bearing calls followed", 20)
}

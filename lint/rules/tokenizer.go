package rules

import (
	"fmt"
	"go/constant"
	"go/token"
	"go/types"
	"regexp/syntax"
	"sort"
	"strings"

	"golang.org/x/tools/go/ssa"

	"lv/an"
)

// Rules T1–T10: tokenizer, literal text, trim machinery, delimiters.

func init() {
	register("T1", "every Source, Args and Name of a token is a substring of the scanner's input", runT1)
	register("T2", "the literal path applies no transformation: text and raw nodes write their stored source, raw bodies are the token sources, writeObject calls nothing that rewrites text", runT2)
	register("T3", "inside a comment the parser calls nothing and builds nothing; inside raw it only appends the token source", runT3)
	register("T4", "trimming is reachable only from hyphen tokens: trim tokens come only from a '-' test in Scan, become ASTTrim/TrimNode with the same direction, and only TrimNode.render calls the trim writer's TrimLeft/TrimRight", runT4)
	register("T5", "the running line number advances by the newlines of exactly the segments emitted (text gap, matched token), and each token is stamped before its own text is counted", runT5)
	register("T6", "the token pattern, instantiated statically, has no wildcard that rejects a newline and has the three capture groups Scan reads", runT6)
	register("T7", "the positions tested for a whitespace-control hyphen are computed from the lengths of the delimiters on that side", runT7)
	register("T8", "before the delimiters are used, each of the four has been tested for emptiness and replaced by its default", runT8)
	register("T9", "the trim writer shortens data only with whitespace trimmers, forwards its buffer before every reset, and always appends what it was given", runT9)
	register("T10", "the object arm and the tag arm of Scan emit the same shape: optional trim-left, the token, optional trim-right, in that order", runT10)
}

func pkgConst(p *an.Prog, pkgRel, name string) (int64, bool) {
	sp := p.Package(pkgRel)
	if sp == nil {
		return 0, false
	}
	c, ok := sp.Pkg.Scope().Lookup(name).(*types.Const)
	if !ok {
		return 0, false
	}
	v, ok := constant.Int64Val(c.Val())
	return v, ok
}

// isSubstringOf: v is a slice expression (possibly nested) of base.
func isSubstringOf(v, base ssa.Value, depth int) bool {
	if depth > 6 {
		return false
	}
	v = an.Deref(v)
	switch x := v.(type) {
	case *ssa.Slice:
		return x.X == base || isSubstringOf(x.X, base, depth+1)
	case *ssa.Phi:
		for _, e := range x.Edges {
			if !isSubstringOf(e, base, depth+1) {
				return false
			}
		}
		return len(x.Edges) > 0
	case *ssa.Call:
		if an.CallName(&x.Call) == "strings.Clone" {
			return isSubstringOf(x.Call.Args[0], base, depth+1)
		}
	}
	return false
}

func tokenFieldStores(p *an.Prog, fn *ssa.Function) []*ssa.Store {
	var out []*ssa.Store
	an.EachInstr(fn, func(in ssa.Instruction) {
		st, ok := in.(*ssa.Store)
		if !ok {
			return
		}
		fa, ok := st.Addr.(*ssa.FieldAddr)
		if !ok {
			return
		}
		if isNamedIn(fa.X.Type().Underlying().(*types.Pointer).Elem(), "parser", "Token") {
			out = append(out, st)
		}
	})
	return out
}

// twRole names the part of the trim writer a value reads or addresses: "flag"
// (the pending-right-trim boolean), "buf" (the held-back bytes) or "w" (the
// underlying writer). The fields are recognised by their types, so renaming
// them changes nothing; when a type occurs twice in the struct the declared
// names trim/buf/w decide.
func twRole(v ssa.Value) string {
	if u, ok := v.(*ssa.UnOp); ok && u.Op == token.MUL {
		v = u.X
	}
	fa, ok := v.(*ssa.FieldAddr)
	if !ok {
		return ""
	}
	ptr, ok := fa.X.Type().Underlying().(*types.Pointer)
	if !ok || !isNamedIn(ptr.Elem(), "render", "trimWriter") {
		return ""
	}
	st, ok := ptr.Elem().Underlying().(*types.Struct)
	if !ok {
		return ""
	}
	roleOf := func(t types.Type) string {
		if b, ok := t.Underlying().(*types.Basic); ok && b.Kind() == types.Bool {
			return "flag"
		}
		if n, ok := t.(*types.Named); ok && n.Obj().Pkg() != nil {
			switch n.Obj().Pkg().Path() + "." + n.Obj().Name() {
			case "bytes.Buffer":
				return "buf"
			case "io.Writer":
				return "w"
			}
		}
		return ""
	}
	role := roleOf(st.Field(fa.Field).Type())
	if role == "" {
		return ""
	}
	same := 0
	for i := 0; i < st.NumFields(); i++ {
		if roleOf(st.Field(i).Type()) == role {
			same++
		}
	}
	if same > 1 {
		switch st.Field(fa.Field).Name() {
		case "trim":
			return "flag"
		case "buf":
			return "buf"
		case "w":
			return "w"
		}
		return ""
	}
	return role
}

// twForwardCall: a call that writes the held-back bytes (all of them, or all
// but trimmed whitespace) to the underlying writer.
func twForwardCall(c *ssa.CallCommon) bool {
	n := an.CallName(c)
	if n == "(*bytes.Buffer).WriteTo" && twRole(c.Args[1]) == "w" {
		return true
	}
	if n == "(io.Writer).Write" && twRole(c.Value) == "w" {
		for _, o := range an.Origins(c.Args[0], func(v ssa.Value) []ssa.Value {
			if cc := an.CallOf(v); cc != nil && strings.HasPrefix(an.CallName(cc), "bytes.Trim") {
				return cc.Args[:1]
			}
			return an.StepValue(v)
		}) {
			if cc := an.CallOf(o); cc != nil && an.CallName(cc) == "(*bytes.Buffer).Bytes" {
				return true
			}
		}
	}
	return false
}

// twAlwaysForwards: a method of the trim writer every return of which is dominated by a forwarding call.
func twAlwaysForwards(fn *ssa.Function) bool {
	if fn == nil || fn.Blocks == nil || fn.Signature.Recv() == nil || !isNamedIn(derefT(fn.Signature.Recv().Type()), "render", "trimWriter") {
		return false
	}
	var fwd []ssa.Instruction
	an.EachCall(fn, func(ci ssa.CallInstruction) {
		if twForwardCall(ci.Common()) {
			fwd = append(fwd, ci.(ssa.Instruction))
		}
	})
	ok := len(fwd) > 0
	an.EachInstr(fn, func(in ssa.Instruction) {
		ret, isRet := in.(*ssa.Return)
		if !isRet {
			return
		}
		dom := false
		for _, f := range fwd {
			if instrDominates(f, ret) {
				dom = true
			}
		}
		if !dom {
			ok = false
		}
	})
	return ok
}

func fieldName(fa *ssa.FieldAddr) string {
	return fa.X.Type().Underlying().(*types.Pointer).Elem().Underlying().(*types.Struct).Field(fa.Field).Name()
}

func runT1(p *an.Prog, r *an.Result) {
	fn := p.Func("parser.Scan")
	if fn == nil {
		r.Bad("-", "Scan not found", token.NoPos, "anchor not resolved")
		return
	}
	name := an.FuncName(fn)
	data := fn.Params[0]
	for _, st := range tokenFieldStores(p, fn) {
		fa := st.Addr.(*ssa.FieldAddr)
		f := fieldName(fa)
		if f != "Source" && f != "Args" && f != "Name" {
			continue
		}
		r.Counts["token text fields"]++
		construct := "Token." + f + " = " + describe(p, st.Val)
		if isSubstringOf(st.Val, data, 0) {
			r.OK(name, construct, st.Pos(), "a slice expression of the input string")
		} else {
			r.Bad(name, construct, st.Pos(), fmt.Sprintf("Scan stores into Token.%s something other than a substring of its input: tokenising no longer preserves the text", f))
		}
	}
	// tokens are built nowhere else
	for _, f := range p.Funcs {
		if f == fn || isMainPkg(f) || an.IsInit(f) {
			continue
		}
		for _, st := range tokenFieldStores(p, f) {
			fa := st.Addr.(*ssa.FieldAddr)
			fnm := fieldName(fa)
			if fnm != "Source" && fnm != "Args" && fnm != "Name" {
				continue
			}
			if _, isAlloc := fa.X.(*ssa.Alloc); isAlloc {
				// copying a whole token is done with a struct store, not field stores; a field store builds a new text
				r.Bad(an.FuncName(f), "Token."+fnm+" written outside Scan", st.Pos(), "token text must come from the scanner only")
			}
		}
	}
	r.Floor("token text fields", 5)
}

// ---------------------------------------------------------------------------
// T2

func runT2(p *an.Prog, r *an.Result) {
	// (a) TextNode.render / RawNode.render
	if fn := p.Func("(*render.TextNode).render"); fn == nil {
		r.Bad("(*render.TextNode).render", "not found", token.NoPos, "anchor not resolved")
	} else {
		ws := plainStringWrites(p, fn)
		ok := len(ws) == 1 && strings.HasSuffix(describe(p, ws[0].arg), ".Source")
		if ok {
			if _, isLoad := ws[0].arg.(*ssa.UnOp); !isLoad {
				ok = false
			}
		}
		r.Counts["literal write sites"]++
		if ok && len(allCalls(fn)) == 2 {
			r.OK(an.FuncName(fn), "writes n.Source itself", an.FuncPos(fn), "io.WriteString(w, n.Source); the only other call wraps the error")
		} else {
			r.Bad(an.FuncName(fn), "text is not written verbatim", an.FuncPos(fn), "a text node must hand its stored source to the writer unchanged and call nothing else")
		}
	}
	if fn := p.Func("(*render.RawNode).render"); fn == nil {
		r.Bad("(*render.RawNode).render", "not found", token.NoPos, "anchor not resolved")
	} else {
		ws := plainStringWrites(p, fn)
		ok := len(ws) == 1
		if ok {
			// element of n.slices
			arg := ws[0].arg
			ok = false
			if u, isLoad := arg.(*ssa.UnOp); isLoad {
				if ia, isIA := u.X.(*ssa.IndexAddr); isIA && strings.HasSuffix(describe(p, ia.X), ".slices") && isForwardRangeIndex(ia.Index) {
					ok = true
				}
			}
		}
		r.Counts["literal write sites"]++
		if ok && len(allCalls(fn)) == 2 {
			r.OK(an.FuncName(fn), "writes each element of n.slices in order", an.FuncPos(fn), "forward range; io.WriteString(w, s)")
		} else {
			r.Bad(an.FuncName(fn), "raw body is not written verbatim", an.FuncPos(fn), "a raw node must write its stored slices unchanged, in order")
		}
	}
	// (b) the raw body is the token sources; compileNode hands them on
	if fn := p.Func("(parser.Config).parseTokens"); fn != nil {
		okApp := false
		an.EachInstr(fn, func(in ssa.Instruction) {
			st, ok := in.(*ssa.Store)
			if !ok {
				return
			}
			fa, ok := st.Addr.(*ssa.FieldAddr)
			if !ok || !strings.HasSuffix(describe(p, fa), ".Slices") {
				return
			}
			r.Counts["raw append sites"]++
			c, ok := st.Val.(*ssa.Call)
			if !ok {
				r.Bad(an.FuncName(fn), "raw Slices assigned", st.Pos(), "the raw body must grow by append only")
				return
			}
			b, isB := c.Call.Value.(*ssa.Builtin)
			if !isB || b.Name() != "append" || !strings.HasSuffix(describe(p, c.Call.Args[0]), ".Slices") {
				r.Bad(an.FuncName(fn), "raw Slices not appended at the end", st.Pos(), "the raw body must keep token order")
				return
			}
			vals := allIndexStores(c.Call.Args[0])
			_ = vals
			// the appended element
			good := false
			if sl, ok := c.Call.Args[1].(*ssa.Slice); ok {
				if al, ok := sl.X.(*ssa.Alloc); ok && al.Referrers() != nil {
					for _, u := range *al.Referrers() {
						if ia, ok := u.(*ssa.IndexAddr); ok && ia.Referrers() != nil {
							for _, uu := range *ia.Referrers() {
								if s2, ok := uu.(*ssa.Store); ok && strings.HasSuffix(describe(p, s2.Val), ".Source") {
									good = true
								}
							}
						}
					}
				}
			}
			if good {
				okApp = true
				r.OK(an.FuncName(fn), "raw body += tok.Source", st.Pos(), "append(rawTag.Slices, tok.Source)")
			} else {
				r.Bad(an.FuncName(fn), "raw body element is not tok.Source", st.Pos(), "inside raw every token must be kept as its source text")
			}
		})
		if !okApp {
			r.Bad(an.FuncName(fn), "no raw append found", an.FuncPos(fn), "raw bodies are not collected")
		}
	}
	if fn := p.Func("(render.Config).compileNode"); fn != nil {
		ok := false
		an.EachInstr(fn, func(in ssa.Instruction) {
			if st, isSt := in.(*ssa.Store); isSt {
				if fa, isFA := st.Addr.(*ssa.FieldAddr); isFA && isNamedIn(fa.X.Type().Underlying().(*types.Pointer).Elem(), "render", "RawNode") && fieldName(fa) == "slices" {
					if strings.HasSuffix(describe(p, st.Val), ".Slices") {
						ok = true
					}
				}
			}
		})
		if ok {
			r.OK(an.FuncName(fn), "RawNode.slices = n.Slices", an.FuncPos(fn), "handed over unchanged")
		} else {
			r.Bad(an.FuncName(fn), "RawNode.slices is not n.Slices", an.FuncPos(fn), "the raw body must reach the render node unchanged")
		}
	}
	// (c) writeObject
	wo := p.Func("render.writeObject")
	if wo == nil {
		r.Bad("render.writeObject", "not found", token.NoPos, "anchor not resolved")
		return
	}
	allowed := func(n string) bool {
		switch n {
		case "values.ToLiquid", "io.WriteString", "(io.Writer).Write", "fmt.Sprint", "(time.Time).Format", "render.writeObject", "builtin.len":
			return true
		}
		return strings.HasPrefix(n, "reflect.") || strings.HasPrefix(n, "(reflect.Value).") || strings.HasPrefix(n, "(reflect.Type).")
	}
	okAll := true
	// writeObject and the helpers of its package that it hands the writer to
	unit := map[*ssa.Function]bool{wo: true}
	for changed := true; changed; {
		changed = false
		for f := range unit {
			an.EachCall(f, func(ci ssa.CallInstruction) {
				callee := ci.Common().StaticCallee()
				if callee == nil || unit[callee] || callee.Blocks == nil || callee.Pkg != wo.Pkg {
					return
				}
				for _, par := range callee.Params {
					if isWriterType(par.Type()) {
						unit[callee] = true
						changed = true
					}
				}
			})
		}
	}
	step := stepIP(p)
	for wf := range unit {
		wf := wf
		an.EachCall(wf, func(ci ssa.CallInstruction) {
			n := an.CallName(ci.Common())
			r.Counts["writeObject callees"]++
			strArg := -1
			if callee := ci.Common().StaticCallee(); callee != nil && unit[callee] {
				if k := plainWriteHelper(callee); k >= 0 {
					// a helper that only hands its string to io.WriteString: its call is the write
					n, strArg = "io.WriteString", k
				} else {
					return
				}
			}
			if n == "io.WriteString" && strArg < 0 {
				strArg = 1
			}
			if plainWriteHelper(wf) >= 0 {
				return
			}
			if !allowed(n) {
				okAll = false
				r.Bad(an.FuncName(wf), "calls "+nonEmpty(n, "a function value"), ci.Pos(), fmt.Sprintf("writeObject must print values as they are; %s can rewrite, escape, trim or truncate the text", nonEmpty(n, "this call")))
			}
			// what is written is the formatted value itself
			if n == "io.WriteString" {
				for _, o := range an.Origins(ci.Common().Args[strArg], step) {
					if c := an.CallOf(o); c == nil || (an.CallName(c) != "fmt.Sprint" && an.CallName(c) != "(time.Time).Format") {
						okAll = false
						r.Bad(an.FuncName(wf), "writes something other than the formatted value", ci.Pos(), "the string written must be the direct result of fmt.Sprint / Format")
					}
				}
			}
			if n == "fmt.Sprint" {
				// exactly the value, nothing prepended or appended
				if sl, ok := ci.Common().Args[0].(*ssa.Slice); ok {
					if al, ok := sl.X.(*ssa.Alloc); ok {
						if at, ok := al.Type().Underlying().(*types.Pointer).Elem().Underlying().(*types.Array); ok && at.Len() != 1 {
							okAll = false
							r.Bad(an.FuncName(wf), "fmt.Sprint of more than the value", ci.Pos(), "only the value itself may be formatted")
						}
					}
				}
			}
		})
	}
	if okAll {
		r.OK(an.FuncName(wo), "callees are ToLiquid, WriteString/Write, Sprint, Format, reflect accessors and itself", an.FuncPos(wo), "nothing that rewrites text")
	}
	r.Floor("literal write sites", 2)
	r.Floor("writeObject callees", 5)
}

func allCalls(fn *ssa.Function) []ssa.CallInstruction {
	var out []ssa.CallInstruction
	an.EachCall(fn, func(ci ssa.CallInstruction) {
		if _, isBuiltin := ci.Common().Value.(*ssa.Builtin); !isBuiltin {
			out = append(out, ci)
		}
	})
	return out
}

// stringIndex: v is s[i] for a string s; returns s and i.
func stringIndex(v ssa.Value) (ssa.Value, ssa.Value, bool) {
	switch x := v.(type) {
	case *ssa.Lookup:
		if _, isMap := x.X.Type().Underlying().(*types.Map); !isMap {
			return x.X, x.Index, true
		}
	case *ssa.Index:
		if b, ok := x.X.Type().Underlying().(*types.Basic); ok && b.Info()&types.IsString != 0 {
			return x.X, x.Index, true
		}
	}
	return nil, nil, false
}

// ---------------------------------------------------------------------------
// T3

func runT3(p *an.Prog, r *an.Result) {
	fn := p.Func("(parser.Config).parseTokens")
	if fn == nil {
		r.Bad("-", "parseTokens not found", token.NoPos, "anchor not resolved")
		return
	}
	name := an.FuncName(fn)
	found := map[string]bool{}
	done := map[*ssa.Phi]bool{}
	an.EachInstr(fn, func(in ssa.Instruction) {
		ifi, ok := in.(*ssa.If)
		if !ok {
			return
		}
		ph, ok := ifi.Cond.(*ssa.Phi)
		if !ok || ph.Block() != ifi.Block() && false {
			return
		}
		if b, ok := ph.Type().Underlying().(*types.Basic); !ok || b.Kind() != types.Bool {
			return
		}
		// a loop-carried flag (has itself as an edge)
		self := false
		for _, e := range ph.Edges {
			if e == ssa.Value(ph) {
				self = true
			}
		}
		if !self {
			return
		}
		region := regionOf(ifi.Block().Succs[0])
		// a skip state is recognised by what it is - a loop-carried flag whose region only compares tag names -
		// and is a raw state when it keeps the token source
		kind := "comment"
		for _, b := range region {
			for _, x := range b.Instrs {
				if st, ok := x.(*ssa.Store); ok {
					if fa, ok := st.Addr.(*ssa.FieldAddr); ok && strings.HasSuffix(describe(p, fa), ".Slices") {
						kind = "raw"
					}
				}
			}
		}
		if done[ph] {
			return
		}
		done[ph] = true
		found[kind] = true
		r.Counts["inert regions"]++
		var bad []string
		for _, b := range region {
			for _, x := range b.Instrs {
				switch y := x.(type) {
				case *ssa.Call:
					bi, isB := y.Call.Value.(*ssa.Builtin)
					if kind == "raw" && isB && bi.Name() == "append" {
						continue
					}
					bad = append(bad, "calls "+nonEmpty(an.CallName(&y.Call), "a function value")+" at "+p.Pos(y.Pos()))
				case *ssa.Store:
					if kind == "raw" {
						if fa, ok := y.Addr.(*ssa.FieldAddr); ok && strings.HasSuffix(describe(p, fa), ".Slices") {
							continue
						}
						if ia, ok := y.Addr.(*ssa.IndexAddr); ok {
							if al, ok := ia.X.(*ssa.Alloc); ok && strings.Contains(al.Comment, "varargs") {
								continue
							}
						}
					}
					bad = append(bad, "stores to "+describe(p, y.Addr)+" at "+p.Pos(y.Pos()))
				case *ssa.MapUpdate, *ssa.Go, *ssa.Defer, *ssa.Panic:
					bad = append(bad, fmt.Sprintf("%T at %s", x, p.Pos(x.Pos())))
				case *ssa.Return:
					bad = append(bad, "returns at "+p.Pos(y.Pos()))
				}
			}
		}
		if len(bad) == 0 {
			if kind == "comment" {
				r.OK(name, "comment body region is inert", ifi.Pos(), "only comparisons with the end tag: no call, no store, no return")
			} else {
				r.OK(name, "raw body region only appends the token source", ifi.Pos(), "no call other than append, no store other than into Slices")
			}
		} else {
			r.Bad(name, kind+" body region is not inert", ifi.Pos(), fmt.Sprintf("inside a %s block the parser %s: the body is evaluated or contributes to the tree", kind, strings.Join(bad, "; ")))
		}
	})
	// every site that adds a node to the tree (or parses an expression) lies on the not-in-comment, not-in-raw side
	var flags []*ssa.Phi
	an.EachInstr(fn, func(in ssa.Instruction) {
		if ifi, ok := in.(*ssa.If); ok {
			if ph, ok := ifi.Cond.(*ssa.Phi); ok {
				if b, ok := ph.Type().Underlying().(*types.Basic); ok && b.Kind() == types.Bool {
					for _, e := range ph.Edges {
						if e == ssa.Value(ph) {
							dup := false
							for _, f := range flags {
								if f == ph {
									dup = true
								}
							}
							if !dup {
								flags = append(flags, ph)
							}
							break
						}
					}
				}
			}
		}
	})
	an.EachInstr(fn, func(in ssa.Instruction) {
		al, ok := in.(*ssa.Alloc)
		if !ok || !strings.Contains(al.Comment, "complit") {
			return
		}
		n := an.NamedOf(al.Type())
		if n == nil || !strings.HasPrefix(n.Obj().Name(), "AST") || n.Obj().Name() == "ASTSeq" {
			return
		}
		r.Counts["node constructions"]++
		for _, ph := range flags {
			ph := ph
			okG := an.AllPathsGuarded(al.Block(), func(cond ssa.Value, taken bool) bool { return cond == ssa.Value(ph) && !taken })
			// the raw node itself is created when raw opens, which is outside both states as well
			if okG {
				continue
			}
			r.Bad(name, n.Obj().Name()+" built without testing "+nonEmpty(ph.Comment, ph.Name()), al.Pos(), fmt.Sprintf("a %s node can be added to the tree while a comment or raw block is open (the %s test does not come first): markers or content inside the block leak into the output", n.Obj().Name(), nonEmpty(ph.Comment, ph.Name())))
		}
	})
	if r.Counts["node constructions"] > 0 && len(flags) >= 1 {
		bad := false
		for _, o := range r.Obs {
			if o.Status == an.Violated {
				bad = true
			}
		}
		if !bad {
			r.OK(name, fmt.Sprintf("all %d node constructions are on the false side of every open-comment/raw flag", r.Counts["node constructions"]), an.FuncPos(fn), "the comment and raw tests come before every arm that builds a node")
		}
	}
	if len(found) == 0 {
		r.Triv(name, "no skip state in the token loop", an.FuncPos(fn), "the parser keeps no loop-carried flag for comment/raw bodies; this rule decides nothing about how they are skipped")
	}
}

// ---------------------------------------------------------------------------
// T4

func runT4(p *an.Prog, r *an.Result) {
	tl, ok1 := pkgConst(p, "parser", "TrimLeftTokenType")
	tr, ok2 := pkgConst(p, "parser", "TrimRightTokenType")
	left, ok3 := pkgConst(p, "parser", "Left")
	right, ok4 := pkgConst(p, "parser", "Right")
	if !ok1 || !ok2 || !ok3 || !ok4 {
		r.Bad("-", "trim constants not found", token.NoPos, "anchor not resolved")
		return
	}
	isHyphenTest := func(v ssa.Value) bool {
		_, _, ok := hyphenTestOf(v)
		return ok
	}
	hyphenGuard := func(in ssa.Instruction) bool {
		for _, g := range an.GuardsAtInstr(in) {
			if !g.True {
				continue
			}
			if isHyphenTest(g.Cond) {
				return true
			}
			// a local helper all of whose results are such a test
			if c := an.CallOf(g.Cond); c != nil {
				if callee := c.StaticCallee(); callee != nil && p.InModule(callee) {
					all, n := true, 0
					an.EachInstr(callee, func(x ssa.Instruction) {
						if ret, ok := x.(*ssa.Return); ok {
							n++
							if len(ret.Results) != 1 || !isHyphenTest(ret.Results[0]) {
								all = false
							}
						}
					})
					if all && n > 0 {
						return true
					}
				}
			}
		}
		return false
	}
	// trim tokens
	for _, fn := range p.Funcs {
		if isMainPkg(fn) {
			continue
		}
		for _, st := range tokenFieldStores(p, fn) {
			fa := st.Addr.(*ssa.FieldAddr)
			if fieldName(fa) != "Type" {
				continue
			}
			c, ok := an.ConstInt(st.Val)
			if !ok || (c != tl && c != tr) {
				if !ok {
					r.Bad(an.FuncName(fn), "Token.Type from a non-constant", st.Pos(), "token types must be constants so that trim tokens can be traced")
				}
				continue
			}
			r.Counts["trim token sites"]++
			switch {
			case an.FuncName(an.Outermost(fn)) != "parser.Scan":
				r.Bad(an.FuncName(fn), "trim token built outside Scan", st.Pos(), "only the scanner may create trim tokens")
			case !hyphenGuard(st):
				r.Bad(an.FuncName(an.Outermost(fn)), "trim token not under a '-' test", st.Pos(), "a trim token must be emitted only when the byte next to the delimiter is a hyphen")
			default:
				r.OK(an.FuncName(an.Outermost(fn)), "trim token under a '-' test", st.Pos(), "control-dependent on source[i] == '-'")
			}
		}
	}
	// ASTTrim / TrimNode constructions
	for _, fn := range p.Funcs {
		if isMainPkg(fn) {
			continue
		}
		an.EachInstr(fn, func(in ssa.Instruction) {
			st, ok := in.(*ssa.Store)
			if !ok {
				return
			}
			fa, ok := st.Addr.(*ssa.FieldAddr)
			if !ok || fieldName(fa) != "TrimDirection" {
				return
			}
			owner := fa.X.Type().Underlying().(*types.Pointer).Elem()
			switch {
			case isNamedIn(owner, "parser", "ASTTrim"):
				r.Counts["trim node sites"]++
				// every way the direction can arrive: a constant over an edge (or at the store itself) on
				// which the token type can only be the matching trim type
				isKindEq := func(cond ssa.Value) (int64, bool) {
					b, ok := cond.(*ssa.BinOp)
					if !ok || b.Op != token.EQL {
						return 0, false
					}
					for _, pair := range [][2]ssa.Value{{b.X, b.Y}, {b.Y, b.X}} {
						if c, ok := an.ConstInt(pair[1]); ok && isNamedIn(pair[1].Type(), "parser", "TokenType") {
							if _, isConst := pair[0].(*ssa.Const); !isConst {
								return c, true
							}
						}
					}
					return 0, false
				}
				// onlyKind: at the end of block b, taking the edge to succ (nil: at the block itself), the token type is k
				onlyKind := func(b, succ *ssa.BasicBlock, k int64) bool {
					other := tl
					if k == tl {
						other = tr
					}
					is := func(cond ssa.Value, taken bool) bool {
						c, ok := isKindEq(cond)
						return ok && c == k && taken
					}
					oneOfTrim := func(cond ssa.Value, taken bool) bool {
						c, ok := isKindEq(cond)
						return ok && taken && (c == tl || c == tr)
					}
					notOther := func(cond ssa.Value, taken bool) bool {
						c, ok := isKindEq(cond)
						return ok && c == other && !taken
					}
					edge := func(pred func(ssa.Value, bool) bool) bool {
						if succ == nil {
							return false
						}
						if ifi, ok := b.Instrs[len(b.Instrs)-1].(*ssa.If); ok && len(b.Succs) == 2 {
							for i, sb := range b.Succs {
								if sb == succ && pred(ifi.Cond, i == 0) {
									return true
								}
							}
						}
						return false
					}
					if an.AllPathsGuarded(b, is) || edge(is) {
						return true
					}
					return (an.AllPathsGuarded(b, oneOfTrim) || edge(oneOfTrim)) && (an.AllPathsGuarded(b, notOther) || edge(notOther))
				}
				good := strings.HasSuffix(an.FuncName(an.Outermost(fn)), "parseTokens")
				var visit func(v ssa.Value, b, succ *ssa.BasicBlock, depth int)
				visit = func(v ssa.Value, b, succ *ssa.BasicBlock, depth int) {
					if depth > 4 {
						good = false
						return
					}
					if ph, ok := v.(*ssa.Phi); ok {
						for i, e := range ph.Edges {
							visit(e, ph.Block().Preds[i], ph.Block(), depth+1)
						}
						return
					}
					dir, isC := an.ConstInt(v)
					switch {
					case !isC:
						good = false
					case dir == left:
						if !onlyKind(b, succ, tl) {
							good = false
						}
					case dir == right:
						if !onlyKind(b, succ, tr) {
							good = false
						}
					default:
						good = false
					}
				}
				visit(st.Val, st.Block(), nil, 0)
				if good {
					r.OK(an.FuncName(fn), "ASTTrim direction matches the trim token type", st.Pos(), "")
				} else {
					r.Bad(an.FuncName(fn), "ASTTrim direction does not match its token", st.Pos(), "a left (right) trim token must become a left (right) trim node, in parseTokens only")
				}
			case isNamedIn(owner, "render", "TrimNode"):
				r.Counts["trim node sites"]++
				if strings.HasSuffix(an.FuncName(fn), "compileNode") && strings.HasSuffix(describe(p, st.Val), ".TrimDirection") {
					r.OK(an.FuncName(fn), "TrimNode direction copied from the ASTTrim", st.Pos(), "")
				} else {
					r.Bad(an.FuncName(fn), "TrimNode direction not copied from the ASTTrim", st.Pos(), "compileNode must keep the direction")
				}
			}
		})
	}
	// who calls TrimLeft / TrimRight
	for _, fn := range p.Funcs {
		if isMainPkg(fn) {
			continue
		}
		an.EachCall(fn, func(ci ssa.CallInstruction) {
			n := an.CallName(ci.Common())
			if n != "(*render.trimWriter).TrimLeft" && n != "(*render.trimWriter).TrimRight" {
				return
			}
			r.Counts["trim calls"]++
			if an.FuncName(fn) != "(*render.TrimNode).render" {
				r.Bad(an.FuncName(fn), n+" called outside TrimNode.render", ci.Pos(), "whitespace may be trimmed only where the template has a hyphen")
				return
			}
			wantLeft := strings.HasSuffix(n, "TrimLeft")
			good := false
			for _, g := range an.GuardsAtInstr(ci) {
				if b, ok := g.Cond.(*ssa.BinOp); ok && (b.Op == token.EQL || b.Op == token.NEQ) && strings.HasSuffix(describe(p, b.X), ".TrimDirection") {
					if c, ok := an.ConstInt(b.Y); ok {
						isEq := g.True == (b.Op == token.EQL) // the direction equals c on this path
						if (c == left && isEq == wantLeft) || (c == right && isEq != wantLeft) {
							good = true
						}
					}
				}
			}
			if good {
				r.OK(an.FuncName(fn), n+" under the matching direction test", ci.Pos(), "")
			} else {
				r.Bad(an.FuncName(fn), n+" under the wrong direction", ci.Pos(), "a left marker trims before the tag, a right marker after it")
			}
		})
		// writes to trimWriter.trim
		an.EachInstr(fn, func(in ssa.Instruction) {
			st, ok := in.(*ssa.Store)
			if !ok {
				return
			}
			fa, ok := st.Addr.(*ssa.FieldAddr)
			if !ok || twRole(fa) != "flag" {
				return
			}
			r.Counts["trim flag writes"]++
			v, isC := an.ConstBool(st.Val)
			switch {
			case an.FuncName(fn) == "(*render.trimWriter).TrimRight" && isC && v:
				r.OK(an.FuncName(fn), "sets the trim flag", st.Pos(), "")
			case an.FuncName(fn) == "(*render.trimWriter).Write" && isC && !v:
				r.OK(an.FuncName(fn), "clears the trim flag", st.Pos(), "")
			case isC && !v && onlyCalledFromWrite(p, fn):
				r.OK(an.FuncName(fn), "clears the trim flag for Write", st.Pos(), "a method of the trim writer that only Write calls")
			default:
				r.Bad(an.FuncName(fn), "trim flag written", st.Pos(), "the flag may be set only by TrimRight and cleared only by Write")
			}
		})
	}
	r.Floor("trim token sites", 2)
	r.Floor("trim node sites", 2)
	r.Floor("trim calls", 2)
	r.Floor("trim flag writes", 2)
}

// ---------------------------------------------------------------------------
// T5

func sameSlice(a, b ssa.Value) bool {
	a, b = an.Deref(a), an.Deref(b)
	if a == b {
		return true
	}
	sa, ok1 := a.(*ssa.Slice)
	sb, ok2 := b.(*ssa.Slice)
	if !ok1 || !ok2 || sa.X != sb.X {
		return false
	}
	eq := func(x, y ssa.Value) bool { return (x == nil && y == nil) || (x != nil && y != nil && eqVal(x, y)) }
	return eq(sa.Low, sb.Low) && eq(sa.High, sb.High)
}

func runT5(p *an.Prog, r *an.Result) {
	fn := p.Func("parser.Scan")
	if fn == nil {
		r.Bad("-", "Scan not found", token.NoPos, "anchor not resolved")
		return
	}
	name := an.FuncName(fn)
	stores := tokenFieldStores(p, fn)
	// segments: values stored as Source
	type seg struct {
		v      ssa.Value
		tokObj ssa.Value
		st     *ssa.Store
	}
	var segs []seg
	for _, st := range stores {
		fa := st.Addr.(*ssa.FieldAddr)
		if fieldName(fa) == "Source" {
			segs = append(segs, seg{st.Val, fa.X, st})
		}
	}
	counted := map[int]int{}
	countUpdates := map[*ssa.Store]ssa.Value{} // LineNo update -> the text it counts
	an.EachInstr(fn, func(in ssa.Instruction) {
		st, ok := in.(*ssa.Store)
		if !ok {
			return
		}
		fa, ok := st.Addr.(*ssa.FieldAddr)
		if !ok || !isNamedIn(fa.X.Type().Underlying().(*types.Pointer).Elem(), "parser", "SourceLoc") || fieldName(fa) != "LineNo" {
			return
		}
		if _, isParamCell := fa.X.(*ssa.Alloc); !isParamCell {
			return
		}
		// initial spill of the parameter is a whole-struct store, not a field store; this is an update
		r.Counts["line updates"]++
		add, ok := st.Val.(*ssa.BinOp)
		if !ok || add.Op != token.ADD {
			r.Bad(name, "LineNo assigned something other than LineNo + count", st.Pos(), "the running line must only advance by newline counts")
			return
		}
		var cnt *ssa.Call
		var other ssa.Value
		for _, pair := range [][2]ssa.Value{{add.X, add.Y}, {add.Y, add.X}} {
			if c, ok := pair[0].(*ssa.Call); ok && an.CallName(&c.Call) == "strings.Count" {
				cnt, other = c, pair[1]
			}
		}
		if cnt == nil || !strings.HasSuffix(describe(p, other), ".LineNo") {
			r.Bad(name, "LineNo not advanced by strings.Count", st.Pos(), "the running line must advance by strings.Count(segment, \"\\n\")")
			return
		}
		if s, ok := an.ConstString(cnt.Call.Args[1]); !ok || s != "\n" {
			r.Bad(name, "counts something other than newlines", st.Pos(), "line numbers are newline counts")
			return
		}
		countUpdates[st] = cnt.Call.Args[0]
		// which segment?
		which := -1
		for i, sg := range segs {
			if sameSlice(sg.v, cnt.Call.Args[0]) {
				which = i
				break
			}
		}
		if which < 0 {
			r.Bad(name, "newlines counted over "+describe(p, cnt.Call.Args[0]), st.Pos(), "the text counted is not the source of a token emitted in this iteration: lines drift")
			return
		}
		// all segments that are the same text count as one
		for i, sg := range segs {
			if sameSlice(sg.v, cnt.Call.Args[0]) {
				counted[i]++
				// the token's stamp must not come after the update for its own text
				var stamp *ssa.Store
				for _, s2 := range stores {
					f2 := s2.Addr.(*ssa.FieldAddr)
					if f2.X == sg.tokObj && fieldName(f2) == "SourceLoc" {
						stamp = s2
					}
				}
				if stamp == nil {
					r.Bad(name, "token without SourceLoc", sg.st.Pos(), "every text, object and tag token must be stamped with the running location")
				} else if instrDominates(st, stamp) {
					r.Bad(name, "token stamped after its own text was counted", stamp.Pos(), "a token's line is the line on which it begins")
				}
			}
		}
		r.OK(name, "LineNo += strings.Count("+describe(p, cnt.Call.Args[0])+", \"\\n\")", st.Pos(), "the counted text is the source of the token(s) emitted for this segment; stamped before counting")
	})
	// each in-loop segment counted exactly once; the trailing text after the loop needs no count
	for i, sg := range segs {
		inLoop := false
		for _, s := range sg.st.Block().Succs {
			_ = s
		}
		// a segment is in the loop if its block can reach itself
		inLoop = reachesBlock(sg.st.Block(), sg.st.Block())
		if !inLoop {
			continue
		}
		if counted[i] != 1 {
			r.Bad(name, "segment "+describe(p, sg.v)+" counted "+fmt.Sprint(counted[i])+" times", sg.st.Pos(), "each emitted segment must advance the line count exactly once")
			continue
		}
		// on every path from the emission to the next iteration the count for this text is taken
		header := sg.st.Block()
		for _, b := range fn.Blocks {
			if b.Dominates(sg.st.Block()) && reachesBlock(sg.st.Block(), b) && len(b.Preds) > 1 {
				header = b // innermost loop header dominating the emission
			}
		}
		seen := map[*ssa.BasicBlock]bool{}
		missed := false
		var dfs func(b *ssa.BasicBlock, fromStart bool)
		dfs = func(b *ssa.BasicBlock, fromStart bool) {
			if seen[b] {
				return
			}
			seen[b] = true
			for _, in := range b.Instrs {
				if fromStart {
					// only instructions after the emission in its own block
					if in == ssa.Instruction(sg.st) {
						fromStart = false
					}
					continue
				}
				if st, ok := in.(*ssa.Store); ok && countUpdates[st] != nil && sameSlice(countUpdates[st], sg.v) {
					return // counted on this path
				}
			}
			for _, nx := range b.Succs {
				if nx == header {
					missed = true
					continue
				}
				dfs(nx, false)
			}
		}
		dfs(sg.st.Block(), true)
		if missed {
			r.Bad(name, "segment "+describe(p, sg.v)+" not counted on every path", sg.st.Pos(), "a token is emitted but, on some path to the next iteration, the newlines of its text are not added to the running line: later tokens get too small a line number")
		}
	}
	r.Floor("line updates", 2)
}

// ---------------------------------------------------------------------------
// T6

func runT6(p *an.Prog, r *an.Result) {
	fn := p.Func("parser.formTokenMatcher")
	if fn == nil {
		r.Bad("-", "formTokenMatcher not found", token.NoPos, "anchor not resolved")
		return
	}
	name := an.FuncName(fn)
	// the pattern handed to the regexp compiler, as a sequence of constant text and computed pieces
	// (a constant format with arguments, or a concatenation)
	var pieces []patPiece
	found := false
	for _, f := range unitWithHelpers(p, fn) {
		an.EachInstr(f, func(in ssa.Instruction) {
			c, ok := in.(*ssa.Call)
			if !ok || found {
				return
			}
			if cn := an.CallName(&c.Call); cn != "regexp.MustCompile" && cn != "regexp.Compile" {
				return
			}
			if ps, ok := symbolicString(c.Call.Args[0], 0); ok {
				pieces, found = ps, true
			}
		})
	}
	if !found {
		r.Bad(name, "token pattern is not built from constant text and quoted pieces", an.FuncPos(fn), "the rule reads the pattern as constant text with computed pieces in between (a constant format or a concatenation); this one cannot be read that way")
		return
	}
	format, pat := "", ""
	var holes []ssa.Value
	var holeEnvs []*symEnv
	for _, pc := range pieces {
		if pc.hole != nil {
			format += "%s"
			pat += "Z"
			holes = append(holes, pc.hole)
			holeEnvs = append(holeEnvs, pc.env)
		} else {
			format += pc.text
			pat += pc.text
		}
	}
	re, err := syntax.Parse(pat, syntax.Perl)
	if err != nil {
		r.Bad(name, "token pattern does not parse", an.FuncPos(fn), err.Error())
		return
	}
	r.Counts["pattern nodes"] = 0
	var notNL int
	var walk func(*syntax.Regexp)
	walk = func(x *syntax.Regexp) {
		r.Counts["pattern nodes"]++
		if x.Op == syntax.OpAnyCharNotNL {
			notNL++
		}
		for _, s := range x.Sub {
			walk(s)
		}
	}
	walk(re)
	if notNL == 0 {
		r.OK(name, "no wildcard excludes newline", an.FuncPos(fn), "pattern "+pat+" parsed with regexp/syntax: no OpAnyCharNotNL node")
	} else {
		r.Bad(name, "a wildcard in the token pattern excludes newline", an.FuncPos(fn), fmt.Sprintf("the pattern %s contains %d `.` that do not match a newline: a line break inside an object or tag changes how the template is tokenised", pat, notNL))
	}
	// what a group captures is one (lazy) repetition of single characters or of alternatives that each consume a
	// bounded piece; an alternative that repeats on its own (a quoted string "[^"]*" taken as a unit) can run past
	// the closing delimiter to a later quote - through `{% endraw %}`, through the end of a comment
	{
		nested := 0
		var inRep func(x *syntax.Regexp, depth int)
		inRep = func(x *syntax.Regexp, depth int) {
			d := depth
			switch x.Op {
			case syntax.OpStar, syntax.OpPlus, syntax.OpRepeat:
				if x.Op != syntax.OpRepeat || x.Max < 0 || x.Max > 1 {
					d++
					if d > 1 {
						nested++
					}
				}
			}
			for _, sub := range x.Sub {
				inRep(sub, d)
			}
		}
		var caps func(x *syntax.Regexp)
		caps = func(x *syntax.Regexp) {
			if x.Op == syntax.OpCapture {
				inRep(x, 0)
				return
			}
			for _, sub := range x.Sub {
				caps(sub)
			}
		}
		caps(re)
		if nested == 0 {
			r.OK(name, "no captured body contains a repetition inside its repetition", an.FuncPos(fn), "each step of a token's body consumes a bounded piece: the lazy match ends at the first closing delimiter")
		} else {
			r.Bad(name, "a captured body repeats inside its repetition", an.FuncPos(fn), fmt.Sprintf("the pattern %s lets one step of a token's body consume an unbounded run (%d nested repetitions): a look-alike with one unpaired quote inside raw or comment swallows the end tag", pat, nested))
		}
	}
	if re.MaxCap() == 3 {
		r.OK(name, "three capture groups", an.FuncPos(fn), "object contents, tag name, tag arguments - the groups Scan reads as m[2..7]")
	} else {
		r.Bad(name, fmt.Sprintf("%d capture groups", re.MaxCap()), an.FuncPos(fn), "Scan reads the submatches of exactly three groups")
	}
	// which delimiter feeds which place of the pattern: the delimiter fragments are QuoteMeta(delims[k]) for
	// k = 0, 1, 2, 3 in the order they appear, and the exclusion expression (the one fragment that is not a
	// quoted delimiter) is built from the same delimiter as the fragment that closes the tag alternative
	{
		args := map[int64]ssa.Value{}
		for k, h := range holes {
			args[int64(k)] = h
		}
		c := struct{ Pos func() token.Pos }{func() token.Pos { return an.FuncPos(fn) }}
		delimIndexOf := func(v ssa.Value) (int64, bool) {
			// v is delims[k] (a load of an IndexAddr with a constant index on the parameter)
			for _, o := range an.Origins(v, an.StepValue) {
				if u, ok := o.(*ssa.UnOp); ok {
					if ia, ok := u.X.(*ssa.IndexAddr); ok {
						if _, isParam := ia.X.(*ssa.Parameter); isParam {
							if k, ok := an.ConstInt(ia.Index); ok {
								return k, true
							}
						}
					}
				}
			}
			return 0, false
		}
		var quoted []int64
		var other []ssa.Value
		var otherEnv *symEnv
		for k := int64(0); k < int64(len(args)); k++ {
			v := args[k]
			if mi, ok := v.(*ssa.MakeInterface); ok {
				v = mi.X
			}
			if qc := an.CallOf(v); qc != nil && an.CallName(qc) == "regexp.QuoteMeta" {
				arg, _ := resolveEnv(qc.Args[0], holeEnvs[k])
				if d, ok := delimIndexOf(arg); ok {
					quoted = append(quoted, d)
					continue
				}
			}
			other = append(other, v)
			otherEnv = holeEnvs[k]
		}
		inOrder := len(quoted) == 4
		for i, d := range quoted {
			if d != int64(i) {
				inOrder = false
			}
		}
		if inOrder {
			r.OK(name, "delimiter fragments are QuoteMeta(delims[0..3]) in order", c.Pos(), "object-left, object-right, tag-left, tag-right")
		} else {
			r.Bad(name, "delimiter fragments out of order", c.Pos(), fmt.Sprintf("the quoted delimiters appear as delims%v; the pattern needs object-left, object-right, tag-left, tag-right", quoted))
		}
		// the exclusion expression
		exOK := len(other) == 1
		if exOK {
			exOK = false
			seen := map[ssa.Value]bool{}
			var visit func(v ssa.Value, depth int)
			visit = func(v ssa.Value, depth int) {
				if v == nil || seen[v] || depth > 30 {
					return
				}
				seen[v] = true
				if rv, _ := resolveEnv(v, otherEnv); rv != v {
					visit(rv, depth+1)
					return
				}
				if d, ok := delimIndexOf(v); ok && len(quoted) == 4 && d == quoted[3] {
					exOK = true
				}
				switch x := v.(type) {
				case *ssa.Call:
					for _, a := range an.Args(&x.Call) {
						visit(a, depth+1)
					}
				case *ssa.Phi:
					for _, e := range x.Edges {
						visit(e, depth+1)
					}
				case *ssa.Slice:
					visit(x.X, depth+1)
				case *ssa.Convert:
					visit(x.X, depth+1)
				case *ssa.MakeInterface:
					visit(x.X, depth+1)
				case *ssa.BinOp:
					visit(x.X, depth+1)
					visit(x.Y, depth+1)
				case *ssa.UnOp:
					visit(x.X, depth+1)
				case *ssa.IndexAddr:
					visit(x.X, depth+1)
				case *ssa.Extract:
					visit(x.Tuple, depth+1)
				case *ssa.Next:
					visit(x.Iter, depth+1)
				case *ssa.Range:
					visit(x.X, depth+1)
				case *ssa.Alloc:
					for _, sv := range an.Stores(x) {
						visit(sv, depth+1)
					}
				case *ssa.MakeSlice:
					visit(x.Len, depth+1)
				}
				// whatever is stored into its elements
				if _, isAddr := v.(*ssa.IndexAddr); !isAddr && v.Referrers() != nil {
					for _, u := range *v.Referrers() {
						if ia, ok := u.(*ssa.IndexAddr); ok && ia.X == v {
							for _, sv := range an.Stores(ia) {
								visit(sv, depth+1)
							}
						}
					}
				}
			}
			visit(other[0], 0)
		}
		if exOK {
			r.OK(name, "the exclusion expression is built from the tag-right delimiter", c.Pos(), "the same delims[k] as the fragment that closes the tag alternative")
		} else {
			r.Bad(name, "the exclusion expression is not built from the tag-right delimiter", c.Pos(), "what a tag's arguments may not contain must be derived from the delimiter that ends the tag")
		}
	}
	// a prefix of the delimiter accumulated across the loop is extended, not replaced: a loop-carried
	// string that takes a quoted piece on the way round must contain its own previous value
	// (prefix += quoted; with prefix = quoted every alternative but the second has lost its front)
	for _, f := range unitWithHelpers(p, fn) {
		an.EachInstr(f, func(in ssa.Instruction) {
			ph, ok := in.(*ssa.Phi)
			if !ok || len(ph.Edges) < 2 {
				return
			}
			if b, ok := ph.Type().Underlying().(*types.Basic); !ok || b.Info()&types.IsString == 0 {
				return
			}
			hasInit := false
			for _, e := range ph.Edges {
				if c, ok := an.ConstString(e); ok && c == "" {
					hasInit = true
				}
			}
			if !hasInit {
				return
			}
			reach := func(v ssa.Value, target func(ssa.Value) bool) bool {
				return an.Reaches(v, func(x ssa.Value) []ssa.Value {
					if bo, ok := x.(*ssa.BinOp); ok && bo.Op == token.ADD {
						return []ssa.Value{bo.X, bo.Y}
					}
					return an.StepValue(x)
				}, target)
			}
			for _, e := range ph.Edges {
				if _, isC := e.(*ssa.Const); isC {
					continue
				}
				quotedPiece := reach(e, func(o ssa.Value) bool {
					c := an.CallOf(o)
					return c != nil && an.CallName(c) == "regexp.QuoteMeta"
				})
				if !quotedPiece {
					continue
				}
				if reach(e, func(o ssa.Value) bool { return o == ssa.Value(ph) }) {
					r.OK(an.FuncName(f), "the accumulated prefix is extended on every round", ph.Pos(), "")
				} else {
					r.Bad(an.FuncName(f), "the accumulated prefix is replaced, not extended", ph.Pos(), "a loop-carried string that collects quoted pieces of the delimiter is assigned a piece instead of being extended by it: from the third character on, the exclusion alternatives lack the front of the delimiter and tag arguments containing part of it are cut short")
				}
			}
		})
	}
	// the tag's name cannot swallow the hyphen of a trim marker: the first group of the tag alternative
	// matches no '-' (a name group like [\w-]+ turns {% endif-%} into the unknown tag "endif-")
	if tp := theTokenPat(p); tp.problem == "" {
		for _, alt := range tp.alts {
			if len(alt.delims) == 0 || alt.delims[0] != 2 || len(alt.groups) == 0 {
				continue
			}
			nameCap := alt.groups[0]
			for _, g := range alt.groups {
				if g < nameCap {
					nameCap = g
				}
			}
			matchesHyphen := false
			var find func(x *syntax.Regexp, inside bool)
			find = func(x *syntax.Regexp, inside bool) {
				if x.Op == syntax.OpCapture && x.Cap == nameCap {
					inside = true
				}
				if inside {
					switch x.Op {
					case syntax.OpLiteral:
						for _, rn := range x.Rune {
							if rn == '-' {
								matchesHyphen = true
							}
						}
					case syntax.OpCharClass:
						for i := 0; i+1 < len(x.Rune); i += 2 {
							if x.Rune[i] <= '-' && '-' <= x.Rune[i+1] {
								matchesHyphen = true
							}
						}
					case syntax.OpAnyChar, syntax.OpAnyCharNotNL:
						matchesHyphen = true
					}
				}
				for _, sub := range x.Sub {
					find(sub, inside)
				}
			}
			find(alt.node, false)
			if matchesHyphen {
				r.Bad(name, "the tag-name group can match a hyphen", an.FuncPos(fn), "the group that captures a tag's name can consume '-': a trim marker written directly after the name ({% endif-%}) becomes part of the name, and a well-nested template is rejected with an unknown or unterminated tag")
			} else {
				r.OK(name, "the tag-name group matches no hyphen", an.FuncPos(fn), "")
			}
		}
	}
	// whitespace around contents is optional: \s* after the opening and before the closing delimiter in both alternatives
	if strings.Count(format, `-?\s*`) >= 2 && strings.Count(format, `\s*-?`) >= 2 {
		r.OK(name, "optional whitespace and hyphen inside both delimiters", an.FuncPos(fn), "")
	} else {
		r.Bad(name, "optional whitespace/hyphen missing", an.FuncPos(fn), "both alternatives must allow `-?\\s*` after the opening and `\\s*-?` before the closing delimiter")
	}
}

// ---------------------------------------------------------------------------
// T7

func runT7(p *an.Prog, r *an.Result) {
	fn := p.Func("parser.Scan")
	if fn == nil {
		r.Bad("-", "Scan not found", token.NoPos, "anchor not resolved")
		return
	}
	name := an.FuncName(fn)
	// delimIndex: v is delims[k] (a load of a constant-indexed element of a []string)
	delimIndex := func(v ssa.Value) (int64, bool) {
		u, ok := an.Deref(v).(*ssa.UnOp)
		if !ok {
			return 0, false
		}
		ia, ok := u.X.(*ssa.IndexAddr)
		if !ok {
			return 0, false
		}
		if bt, ok := u.Type().Underlying().(*types.Basic); !ok || bt.Info()&types.IsString == 0 {
			return 0, false
		}
		return an.ConstInt(ia.Index)
	}
	tp := theTokenPat(p)
	if tp.problem != "" {
		r.Bad(name, "token pattern not readable", an.FuncPos(fn), tp.problem)
		return
	}
	// the alternative of the pattern an instruction handles, with its opening and closing delimiter
	armOf := func(in ssa.Instruction) (int64, int64) {
		a := tp.armAt(in, delimIndex)
		if a == nil || len(a.delims) < 2 {
			return -1, -1
		}
		return a.delims[0], a.delims[len(a.delims)-1]
	}
	// check one hyphen test (the value v of function tf, testing str[idx]), evaluated for the call site
	// site (nil when the test is in Scan itself) with parameters bound to the arguments
	check := func(v ssa.Value, sx ssa.Value, lf0 linForm, tf *ssa.Function, site *ssa.Call) {
		bind := func(v ssa.Value) ssa.Value {
			if site != nil {
				if cv := toCaller(tf, site, v); cv != nil {
					return cv
				}
				if cv := toCaller(tf, site, an.Deref(v)); cv != nil {
					return cv
				}
			}
			return v
		}
		var at ssa.Instruction = v.(ssa.Instruction)
		if site != nil {
			at = site
		}
		r.Counts["hyphen tests"]++
		kOpen, kClose := armOf(at)
		// the index with parameters replaced by what the call site passes
		lf := linForm{coef: map[ssa.Value]int64{}, c: lf0.c}
		for a, cf := range lf0.coef {
			if _, isPar := a.(*ssa.Parameter); isPar && site != nil {
				sub := linOf(bind(a), 0)
				lf.c += cf * sub.c
				for x, c2 := range sub.coef {
					lf.coef[x] += cf * c2
				}
				continue
			}
			lf.coef[a] += cf
		}
		var ks []int64
		srcLen, okForm := false, true
		src := an.Deref(bind(sx))
		for a, cf := range lf.coef {
			if cf == 0 {
				continue
			}
			ca, ok := a.(*ssa.Call)
			if !ok {
				okForm = false
				continue
			}
			bi, ok := ca.Call.Value.(*ssa.Builtin)
			if !ok || bi.Name() != "len" {
				okForm = false
				continue
			}
			arg := bind(ca.Call.Args[0])
			if k, ok := delimIndex(arg); ok {
				ks = append(ks, k*10+cf+5)
				continue
			}
			if eqVal(an.Deref(arg), src) && cf == 1 {
				srcLen = true
				continue
			}
			okForm = false
		}
		construct := describe(p, sx) + "[" + lf0.String(p) + "] == '-'"
		if site != nil {
			construct += " via " + nonEmpty(an.CallName(&site.Call), "helper")
		}
		pos := an.InstrPos(at)
		switch {
		case !okForm || len(ks) != 1:
			r.Bad(name, construct, pos, "the index tested for the hyphen is not derived from the length of a delimiter: it is right only for delimiters of one particular length")
		case kOpen < 0:
			r.Bad(name, construct, pos, "no dominating test says which alternative of the token pattern matched here (a capture group that took part, or the opening delimiter)")
		case !srcLen && lf.c == 0 && ks[0] == kOpen*10+1+5:
			r.OK(name, construct, pos, fmt.Sprintf("left marker at index len(delims[%d]), the delimiter that opens this alternative of the pattern", kOpen))
		case srcLen && lf.c == -1 && ks[0] == kClose*10-1+5:
			r.OK(name, construct, pos, fmt.Sprintf("right marker at index len(source)-len(delims[%d])-1, the delimiter that closes this alternative of the pattern", kClose))
		default:
			r.Bad(name, construct, pos, fmt.Sprintf("the hyphen index does not use the delimiter of this side of this kind of token (alternative delims[%d]...delims[%d])", kOpen, kClose))
		}
	}
	for _, tf := range unitOf(fn) {
		an.EachInstr(tf, func(in ssa.Instruction) {
			v, ok := in.(ssa.Value)
			if !ok {
				return
			}
			sx, lf, ok := hyphenTestOf(v)
			if !ok {
				return
			}
			if tf == fn {
				check(v, sx, lf, tf, nil)
				return
			}
			// a helper closure: one instance per call site in Scan
			n := 0
			an.EachInstr(fn, func(x ssa.Instruction) {
				if c, ok := x.(*ssa.Call); ok && c.Call.StaticCallee() == tf {
					n++
					check(v, sx, lf, tf, c)
				}
			})
			if n == 0 {
				r.Bad(name, "hyphen test in an uncalled helper", in.Pos(), "")
			}
		})
	}
	r.Floor("hyphen tests", 4)
}

// ---------------------------------------------------------------------------
// T8

// t8Config: the configuration call hands its four strings on unchanged and in order, and does
// nothing else (no test of them, no panic): an empty string must arrive at the scanner as such.
func t8Config(p *an.Prog, r *an.Result) {
	var setters []*ssa.Function
	for _, f := range p.Funcs {
		if f.Pkg == nil || f.Object() == nil || !f.Object().Exported() || f.Signature.Recv() == nil || an.RelPkg(f.Pkg.Pkg.Path()) != "." && an.RelPkg(f.Pkg.Pkg.Path()) != "" {
			continue
		}
		ps := f.Signature.Params()
		if ps.Len() != 4 {
			continue
		}
		allStr := true
		for i := 0; i < 4; i++ {
			if b, ok := ps.At(i).Type().Underlying().(*types.Basic); !ok || b.Kind() != types.String {
				allStr = false
			}
		}
		if allStr {
			setters = append(setters, f)
		}
	}
	r.Counts["delimiter setters"] = len(setters)
	for _, f := range setters {
		name := an.FuncName(f)
		// the stored list
		var stored *ssa.Store
		an.EachInstr(f, func(in ssa.Instruction) {
			if st, ok := in.(*ssa.Store); ok {
				if sl, ok := st.Val.Type().Underlying().(*types.Slice); ok {
					if b, ok := sl.Elem().Underlying().(*types.Basic); ok && b.Kind() == types.String {
						if _, isField := st.Addr.(*ssa.FieldAddr); isField {
							stored = st
						}
					}
				}
			}
		})
		if stored == nil {
			r.Bad(name, "delimiters not stored", an.FuncPos(f), "the four strings must be stored in the configuration")
			continue
		}
		elems := map[int64]ssa.Value{}
		if s2, ok := stored.Val.(*ssa.Slice); ok {
			if al, ok := s2.X.(*ssa.Alloc); ok && al.Referrers() != nil {
				for _, au := range *al.Referrers() {
					if ia, ok := au.(*ssa.IndexAddr); ok && ia.Referrers() != nil {
						k, _ := an.ConstInt(ia.Index)
						for _, uu := range *ia.Referrers() {
							if st, ok := uu.(*ssa.Store); ok && st.Addr == ssa.Value(ia) {
								elems[k] = st.Val
							}
						}
					}
				}
			}
		}
		inOrder := len(elems) == 4
		for k := int64(0); k < 4; k++ {
			// parameter k+1 (after the receiver), possibly through a spilled cell
			if an.Deref(elems[k]) != ssa.Value(f.Params[k+1]) && elems[k] != ssa.Value(f.Params[k+1]) {
				inOrder = false
			}
		}
		// every way out of the setter has stored the list (a setter that returns early for some
		// arguments leaves the previous configuration in force)
		for _, in := range instrsOf(f) {
			if ret, ok := in.(*ssa.Return); ok {
				r.Counts["setter returns"]++
				if instrDominates(stored, ret) {
					r.OK(name, "return after the delimiters are stored", ret.Pos(), "")
				} else {
					r.Bad(name, "return without storing the delimiters", ret.Pos(), "for some arguments the call configures nothing: the delimiters of an earlier call stay in force (four empty strings are documented to select the defaults)")
				}
			}
		}
		if inOrder {
			r.OK(name, "stores its four arguments, unchanged and in order", stored.Pos(), "Delims = []string{p1, p2, p3, p4}")
		} else {
			r.Bad(name, "does not store its four arguments in order", stored.Pos(), "object-left, object-right, tag-left, tag-right must reach the scanner as given")
		}
	}
	r.Floor("delimiter setters", 1)
}

func runT8(p *an.Prog, r *an.Result) {
	t8Config(p, r)
	fn := p.Func("parser.Scan")
	if fn == nil {
		r.Bad("-", "Scan not found", token.NoPos, "anchor not resolved")
		return
	}
	name := an.FuncName(fn)
	calls := callsNamed(fn, "parser.formTokenMatcher")
	if len(calls) != 1 {
		r.Bad(name, "formTokenMatcher calls", an.FuncPos(fn), fmt.Sprintf("expected one, found %d", len(calls)))
		return
	}
	// literal default slices: local arrays of 4 non-empty constant strings
	isDefaults := func(v ssa.Value) bool {
		sl, ok := v.(*ssa.Slice)
		if !ok {
			return false
		}
		al, ok := sl.X.(*ssa.Alloc)
		if !ok {
			return false
		}
		at, ok := al.Type().Underlying().(*types.Pointer).Elem().Underlying().(*types.Array)
		if !ok || at.Len() != 4 || al.Referrers() == nil {
			return false
		}
		n := 0
		for _, u := range *al.Referrers() {
			if ia, ok := u.(*ssa.IndexAddr); ok && ia.Referrers() != nil {
				for _, uu := range *ia.Referrers() {
					if st, ok := uu.(*ssa.Store); ok {
						if s, ok := an.ConstString(st.Val); ok && s != "" {
							n++
						} else {
							return false
						}
					}
				}
			}
		}
		return n == 4
	}
	// per-element defaulting: store into S[i] of defaults[i] under elem == ""
	defaulted := map[ssa.Value]bool{}
	for _, uf := range unitWithHelpers(p, fn) {
		an.EachInstr(uf, func(in ssa.Instruction) {
			st, ok := in.(*ssa.Store)
			if !ok {
				return
			}
			ia, ok := st.Addr.(*ssa.IndexAddr)
			if !ok {
				return
			}
			ld, ok := st.Val.(*ssa.UnOp)
			if !ok {
				return
			}
			src, ok := ld.X.(*ssa.IndexAddr)
			if !ok || !isDefaults(src.X) || !eqVal(src.Index, ia.Index) {
				return
			}
			// guarded by element == ""
			for _, g := range an.GuardsAtInstr(st) {
				if b, ok := g.Cond.(*ssa.BinOp); ok && b.Op == token.EQL && g.True {
					if s, ok := an.ConstString(b.Y); ok && s == "" {
						// the element tested is S[i] for the same S and i
						if u, ok := b.X.(*ssa.UnOp); ok {
							if eia, ok := u.X.(*ssa.IndexAddr); ok && eia.X == ia.X && eqVal(eia.Index, ia.Index) && isForwardRangeIndex(ia.Index) {
								defaulted[ia.X] = true
							}
						}
					}
				}
			}
		})
	}
	okAll := true
	var origins []string
	for _, o := range an.Origins(calls[0].Call.Args[0], stepIP(p)) {
		switch {
		case isDefaults(o):
			origins = append(origins, "the literal defaults")
		case defaulted[o]:
			origins = append(origins, "a copy whose empty elements were replaced by their defaults")
		default:
			okAll = false
			origins = append(origins, "a slice that was not defaulted ("+describe(p, o)+")")
		}
	}
	sort.Strings(origins)
	if okAll && len(origins) > 0 {
		r.OK(name, "delimiters defaulted per element before use", calls[0].Pos(), strings.Join(origins, "; "))
	} else {
		r.Bad(name, "delimiters used without per-element defaulting", calls[0].Pos(), "the delimiter list reaching the tokenizer is "+strings.Join(origins, "; ")+": an empty delimiter must stand for its default")
	}
	// the defaulted list is the one used for the index arithmetic as well: same SSA value as the call argument
	arg := calls[0].Call.Args[0]
	an.EachInstr(fn, func(in ssa.Instruction) {
		if ia, ok := in.(*ssa.IndexAddr); ok {
			if _, isStrSlice := ia.X.Type().Underlying().(*types.Slice); isStrSlice && instrDominates(calls[0], ia) {
				if bt, ok := ia.X.Type().Underlying().(*types.Slice).Elem().Underlying().(*types.Basic); ok && bt.Kind() == types.String {
					if an.Deref(ia.X) != an.Deref(arg) && !isDefaults(ia.X) {
						r.Bad(name, "a different delimiter list is indexed after defaulting", ia.Pos(), "the scanner must use the defaulted list everywhere")
					}
				}
			}
		}
	})
}

// ---------------------------------------------------------------------------
// T9

func runT9(p *an.Prog, r *an.Result) {
	var methods []*ssa.Function
	for _, fn := range p.Funcs {
		if fn.Signature.Recv() != nil && isTrimWriterPtr(fn.Signature.Recv().Type()) {
			methods = append(methods, fn)
		}
	}
	if len(methods) < 4 {
		r.Bad("-", "trimWriter methods", token.NoPos, fmt.Sprintf("expected Write, TrimLeft, TrimRight, Flush; found %d methods", len(methods)))
		return
	}
	isSpaceFn := func(v ssa.Value) bool {
		f, ok := v.(*ssa.Function)
		return ok && an.Short(f.String()) == "unicode.IsSpace"
	}
	for _, fn := range methods {
		name := an.FuncName(fn)
		an.EachInstr(fn, func(in ssa.Instruction) {
			switch x := in.(type) {
			case *ssa.Slice:
				if _, isBytes := x.Type().Underlying().(*types.Slice); isBytes && (x.Low != nil || x.High != nil) {
					r.Bad(name, "byte slice re-sliced", x.Pos(), "the trim writer must not cut data by position")
				}
			case *ssa.Call:
				n := an.CallName(&x.Call)
				switch {
				case n == "bytes.TrimLeftFunc" || n == "bytes.TrimRightFunc" || n == "bytes.TrimFunc":
					r.Counts["trimmers"]++
					if isSpaceFn(x.Call.Args[1]) {
						r.OK(name, n+"(…, unicode.IsSpace)", x.Pos(), "drops whitespace only")
					} else {
						r.Bad(name, n+" with a predicate other than unicode.IsSpace", x.Pos(), "hyphens must never remove anything but whitespace")
					}
				case n == "bytes.TrimSpace":
					r.Counts["trimmers"]++
					r.OK(name, n, x.Pos(), "drops whitespace only")
				case strings.HasPrefix(n, "bytes.") || strings.HasPrefix(n, "strings."):
					r.Bad(name, "calls "+n, x.Pos(), "the trim writer may shorten data only with whitespace trimmers")
				}
			}
		})
		// (b) Reset preceded by forwarding
		for _, rc := range callsNamed(fn, "(*bytes.Buffer).Reset") {
			r.Counts["resets"]++
			fwd := false
			an.EachCall(fn, func(ci ssa.CallInstruction) {
				c := ci.Common()
				n := an.CallName(c)
				forward := false
				// the forwarding step handed in as a function value: every function passed for it forwards the buffer on all its paths
				if cands := funcValueCandidates(p, fn, c); len(cands) > 0 {
					forward = true
					for _, cand := range cands {
						if !twAlwaysForwards(cand) {
							forward = false
						}
					}
				}
				if n == "(*bytes.Buffer).WriteTo" && twRole(c.Args[1]) == "w" {
					forward = true
				}
				if n == "(io.Writer).Write" && twRole(c.Value) == "w" {
					// argument derives from tw.buf.Bytes()
					for _, o := range an.Origins(c.Args[0], func(v ssa.Value) []ssa.Value {
						if cc := an.CallOf(v); cc != nil && strings.HasPrefix(an.CallName(cc), "bytes.Trim") {
							return cc.Args[:1]
						}
						return an.StepValue(v)
					}) {
						if cc := an.CallOf(o); cc != nil && an.CallName(cc) == "(*bytes.Buffer).Bytes" {
							forward = true
						}
					}
				}
				if forward && instrDominates(ci.(ssa.Instruction), rc) {
					fwd = true
				}
			})
			if fwd {
				r.OK(name, "buffer forwarded before Reset", rc.Pos(), "a write of the buffer's content to the underlying writer dominates the reset")
			} else {
				r.Bad(name, "buffer reset without being forwarded", rc.Pos(), "buffered output is discarded")
			}
		}
	}
	// (c) Write appends (all of) b, trimmed only when the flag was set
	w := p.Func("(*render.trimWriter).Write")
	if w == nil {
		r.Bad("(*render.trimWriter).Write", "not found", token.NoPos, "anchor not resolved")
		return
	}
	bw := callsNamed(w, "(*bytes.Buffer).Write")
	bwArg := map[*ssa.Call]ssa.Value{}
	for _, one := range bw {
		bwArg[one] = one.Call.Args[1]
	}
	// or through a helper of the writer that does nothing but append its parameter to the buffer
	an.EachInstr(w, func(in ssa.Instruction) {
		c, ok := in.(*ssa.Call)
		if !ok {
			return
		}
		callee := c.Call.StaticCallee()
		if callee == nil || !p.InModule(callee) || callee.Pkg != w.Pkg || callee.Blocks == nil || len(callee.Params) != len(c.Call.Args) {
			return
		}
		inner := callsNamed(callee, "(*bytes.Buffer).Write")
		if len(inner) != 1 {
			return
		}
		if par, ok := inner[0].Call.Args[1].(*ssa.Parameter); ok {
			for k, pp := range callee.Params {
				if pp == par {
					bw = append(bw, c)
					bwArg[c] = c.Call.Args[k]
				}
			}
		}
	})
	if len(bw) == 0 {
		r.Bad(an.FuncName(w), "buffer writes", an.FuncPos(w), "no buf.Write found: Write must append its argument to the buffer")
	} else {
		good := true
		var origins []ssa.Value
		for _, one := range bw {
			origins = append(origins, an.Origins(bwArg[one], an.StepValue)...)
		}
		dominatedByWrite := func(in ssa.Instruction) bool {
			for _, one := range bw {
				if instrDominates(one, in) {
					return true
				}
			}
			return false
		}
		for _, o := range origins {
			switch x := o.(type) {
			case *ssa.Parameter:
				if x != w.Params[1] {
					good = false
				}
			case *ssa.Call:
				if h := x.Call.StaticCallee(); h != nil && p.InModule(h) && onlyCalledFromWrite(p, h) && trimsOnlyUnderFlag(p, h, x, w.Params[1]) {
					continue
				}
				if an.CallName(&x.Call) != "bytes.TrimLeftFunc" || x.Call.Args[0] != ssa.Value(w.Params[1]) {
					good = false
				} else {
					// only under tw.trim
					under := false
					for _, g := range an.GuardsAtInstr(x) {
						if g.True && twRole(g.Cond) == "flag" {
							under = true
						}
					}
					if !under {
						good = false
					}
				}
			default:
				good = false
			}
		}
		// what is held back goes out before anything new is buffered: every append is dominated by a flush. (A
		// chunk kept across a write belongs to the text before an earlier tag; a later left hyphen would trim it.)
		for _, one := range bw {
			flushed := false
			an.EachInstr(w, func(in ssa.Instruction) {
				c, ok := in.(*ssa.Call)
				if !ok || c == one {
					return
				}
				cn := an.CallName(&c.Call)
				isFlush := cn == "(*bytes.Buffer).WriteTo" || strings.HasSuffix(cn, ").Flush") && c.Call.StaticCallee() != nil && c.Call.StaticCallee().Pkg == w.Pkg
				if isFlush && instrDominates(c, one) {
					flushed = true
				}
			})
			if !flushed {
				good = false
				r.Bad(an.FuncName(w), "buffers new output without flushing what is held back", one.Pos(), "a path reaches the append without a flush: text from before an earlier tag stays in the buffer, and the next left hyphen trims whitespace that is not next to it (x  {{ nil -}}  {{- nil }}y loses the blanks after x)")
			}
		}
		// every return passes through the buffer write or is an error return
		for _, in := range instrsOf(w) {
			ret, ok := in.(*ssa.Return)
			if !ok {
				continue
			}
			res := resultsOf(ret)
			if dominatedByWrite(ret) {
				continue
			}
			// an early return is an error return: its error result has been found non-nil
			errv := res[len(res)-1]
			knownErr := false
			if !an.IsNilConst(errv) {
				for _, g := range an.GuardsAtInstr(ret) {
					b, ok := g.Cond.(*ssa.BinOp)
					if !ok || !(b.Op == token.NEQ && g.True || b.Op == token.EQL && !g.True) {
						continue
					}
					for _, pair := range [][2]ssa.Value{{b.X, b.Y}, {b.Y, b.X}} {
						if an.IsNilConst(pair[1]) && (pair[0] == errv || sameValue(pair[0], errv) || an.Reaches(errv, an.StepValue, func(o ssa.Value) bool { return o == pair[0] })) {
							knownErr = true
						}
					}
				}
			}
			if knownErr {
				continue
			}
			good = false
			r.Bad(an.FuncName(w), "returns success without appending its argument", ret.Pos(), "a Write that reports success must have buffered b; returning early also leaves the trim flag armed for the next chunk")
		}
		// when the flag was set, it is cleared on every path to the buffer write
		for _, in := range instrsOf(w) {
			ifi, ok := in.(*ssa.If)
			if !ok || twRole(ifi.Cond) != "flag" {
				continue
			}
			clears := map[*ssa.BasicBlock]bool{}
			for _, x := range instrsOf(w) {
				if st, ok := x.(*ssa.Store); ok && twRole(st.Addr) == "flag" {
					if c, isC := an.ConstBool(st.Val); isC && !c {
						clears[st.Block()] = true
					}
				}
			}
			seen := map[*ssa.BasicBlock]bool{}
			var reach func(b *ssa.BasicBlock) bool
			reach = func(b *ssa.BasicBlock) bool {
				if seen[b] || clears[b] {
					return false
				}
				seen[b] = true
				for _, one := range bw {
					if b == one.Block() {
						// a write in the very block that clears the flag first is fine
						return true
					}
				}
				for _, s := range b.Succs {
					if reach(s) {
						return true
					}
				}
				return false
			}
			if reach(ifi.Block().Succs[0]) {
				good = false
				r.Bad(an.FuncName(w), "trim flag can survive a Write", ifi.Pos(), "a path from the flag test to the buffer write does not clear the flag: whitespace of a later chunk would be trimmed too")
			}
		}
		if good {
			r.OK(an.FuncName(w), "appends its argument, left-trimmed only when the trim flag is set", bw[0].Pos(), "")
		} else {
			r.Bad(an.FuncName(w), "does not append exactly its argument", bw[0].Pos(), "Write must append b (whitespace-trimmed on the left only when a right marker preceded it)")
		}
	}
	r.Floor("trimmers", 2)
	r.Floor("resets", 1)
}

// ---------------------------------------------------------------------------
// T10

func runT10(p *an.Prog, r *an.Result) {
	fn := p.Func("parser.Scan")
	if fn == nil {
		r.Bad("-", "Scan not found", token.NoPos, "anchor not resolved")
		return
	}
	name := an.FuncName(fn)
	tl, _ := pkgConst(p, "parser", "TrimLeftTokenType")
	tr, _ := pkgConst(p, "parser", "TrimRightTokenType")
	obj, _ := pkgConst(p, "parser", "ObjTokenType")
	tag, _ := pkgConst(p, "parser", "TagTokenType")
	tp := theTokenPat(p)
	if tp.problem != "" {
		r.Bad(name, "token pattern not readable", an.FuncPos(fn), tp.problem)
		return
	}
	type site struct {
		typ int64
		st  ssa.Instruction // where the token is appended to the token list
		via ssa.Instruction // the call in Scan through which the token reaches a helper closure that appends it
	}
	var sites []site
	for _, uf := range unitOf(fn) {
		for _, st := range tokenFieldStores(p, uf) {
			if fieldName(st.Addr.(*ssa.FieldAddr)) == "Type" {
				if c, ok := an.ConstInt(st.Val); ok {
					em, via := tokenEmissionVia(st, fn)
					if em == nil {
						r.Bad(name, "token built but its append not found", st.Pos(), "the order rule follows each token literal to the append that emits it")
						continue
					}
					sites = append(sites, site{c, em, via})
				}
			}
		}
	}
	for _, main := range []struct {
		typ  int64
		what string
	}{{obj, "object"}, {tag, "tag"}} {
		var ms ssa.Instruction
		var mvia ssa.Instruction
		for _, s := range sites {
			if s.typ == main.typ {
				ms, mvia = s.st, s.via
			}
		}
		if ms == nil {
			r.Bad(name, main.what+" token not emitted", an.FuncPos(fn), "anchor not resolved")
			continue
		}
		// the arm: by the dominating test of the place in Scan where the token is emitted (or handed to
		// the closure that emits it); the trim tokens that belong to it are those of the same arm, or -
		// when a closure emits - those the same closure appends
		armGuard := func(in ssa.Instruction) *patAlt {
			return tp.armAt(in, t10DelimIndex)
		}
		at := ms
		if mvia != nil {
			at = mvia
		}
		ag := armGuard(at)
		var lefts, rights []ssa.Instruction
		for _, s := range sites {
			if mvia != nil {
				if s.st.Parent() != ms.Parent() {
					continue
				}
			} else if s.via != nil || armGuard(s.st) != ag {
				continue
			}
			if ag == nil {
				continue
			}
			if s.typ == tl {
				lefts = append(lefts, s.st)
			}
			if s.typ == tr {
				rights = append(rights, s.st)
			}
		}
		r.Counts["arms"]++
		switch {
		case len(lefts) != 1 || len(rights) != 1:
			r.Bad(name, main.what+" arm trim tokens", ms.Pos(), fmt.Sprintf("the %s arm must emit one optional trim-left and one optional trim-right token (found %d and %d)", main.what, len(lefts), len(rights)))
		case instrDominates(ms, lefts[0]) || !instrDominates(ms, rights[0]) && !ms.Block().Dominates(rights[0].Block()):
			r.Bad(name, main.what+" arm order", ms.Pos(), "the order must be trim-left, token, trim-right")
		case reachesBlockWithin(ms.Block(), lefts[0].Block(), ms.Block()):
			r.Bad(name, main.what+" arm order", ms.Pos(), "trim-left is emitted after the token")
		default:
			r.OK(name, main.what+" arm emits trim-left?, token, trim-right?", ms.Pos(), "by dominance within the arm")
		}
	}
	r.Floor("arms", 2)
}

// reachesBlockWithin: to is reachable from from without passing through the loop (stop at blocks that dominate from).
func reachesBlockWithin(from, to, _ *ssa.BasicBlock) bool {
	seen := map[*ssa.BasicBlock]bool{}
	var dfs func(b *ssa.BasicBlock) bool
	dfs = func(b *ssa.BasicBlock) bool {
		if seen[b] {
			return false
		}
		seen[b] = true
		for _, s := range b.Succs {
			if s.Dominates(from) && s != from {
				continue // back edge to the loop header
			}
			if s == to || dfs(s) {
				return true
			}
		}
		return false
	}
	return dfs(from)
}

// tokenEmission follows a Token literal (the struct whose Type field st sets)
// to the append call that puts it on a token list: literal -> load -> varargs
// element -> slice -> append.
func tokenEmission(st *ssa.Store) ssa.Instruction {
	fa, ok := st.Addr.(*ssa.FieldAddr)
	if !ok {
		return nil
	}
	var out ssa.Instruction
	seen := map[ssa.Value]bool{}
	var walk func(v ssa.Value, depth int)
	walk = func(v ssa.Value, depth int) {
		if v == nil || seen[v] || depth > 8 || out != nil || v.Referrers() == nil {
			return
		}
		seen[v] = true
		for _, u := range *v.Referrers() {
			switch x := u.(type) {
			case *ssa.UnOp:
				if x.Op == token.MUL {
					walk(x, depth+1)
				}
			case *ssa.Store:
				if x.Val == v {
					if ia, ok := x.Addr.(*ssa.IndexAddr); ok {
						walk(ia.X, depth+1)
					} else if al, ok := x.Addr.(*ssa.Alloc); ok {
						walk(al, depth+1)
					}
				}
			case *ssa.Slice:
				walk(x, depth+1)
			case *ssa.Call:
				if b, ok := x.Call.Value.(*ssa.Builtin); ok && b.Name() == "append" && len(x.Call.Args) == 2 && x.Call.Args[1] == v {
					out = x
					return
				}
			}
		}
	}
	walk(fa.X, 0)
	return out
}

// tokenEmissionVia is tokenEmission that also follows the token as an argument into a closure of
// scan that appends its parameter; via is that call.
func tokenEmissionVia(st *ssa.Store, scan *ssa.Function) (ssa.Instruction, ssa.Instruction) {
	if em := tokenEmission(st); em != nil {
		return em, nil
	}
	fa, ok := st.Addr.(*ssa.FieldAddr)
	if !ok {
		return nil, nil
	}
	var em, via ssa.Instruction
	seen := map[ssa.Value]bool{}
	var walk func(v ssa.Value, depth int)
	walk = func(v ssa.Value, depth int) {
		if v == nil || seen[v] || depth > 8 || em != nil || v.Referrers() == nil {
			return
		}
		seen[v] = true
		for _, u := range *v.Referrers() {
			switch x := u.(type) {
			case *ssa.UnOp:
				if x.Op == token.MUL {
					walk(x, depth+1)
				}
			case *ssa.Call:
				callee := x.Call.StaticCallee()
				if callee == nil || an.Outermost(callee) != scan {
					continue
				}
				for i, a := range x.Call.Args {
					if a == v && i < len(callee.Params) {
						// the parameter, appended inside the closure (possibly through its spilled copy)
						if e := paramAppend(callee.Params[i]); e != nil {
							em, via = e, x
							return
						}
					}
				}
			}
		}
	}
	walk(fa.X, 0)
	return em, via
}

// paramAppend: the append call that puts the struct parameter (or its spilled copy) on a list.
func paramAppend(par *ssa.Parameter) ssa.Instruction {
	var out ssa.Instruction
	seen := map[ssa.Value]bool{}
	var walk func(v ssa.Value, depth int)
	walk = func(v ssa.Value, depth int) {
		if v == nil || seen[v] || depth > 8 || out != nil || v.Referrers() == nil {
			return
		}
		seen[v] = true
		for _, u := range *v.Referrers() {
			switch x := u.(type) {
			case *ssa.UnOp:
				if x.Op == token.MUL {
					walk(x, depth+1)
				}
			case *ssa.Store:
				if x.Val == v {
					if ia, ok := x.Addr.(*ssa.IndexAddr); ok {
						walk(ia.X, depth+1)
					} else if al, ok := x.Addr.(*ssa.Alloc); ok {
						walk(al, depth+1)
					}
				}
			case *ssa.Slice:
				walk(x, depth+1)
			case *ssa.Call:
				if b, ok := x.Call.Value.(*ssa.Builtin); ok && b.Name() == "append" && len(x.Call.Args) == 2 && x.Call.Args[1] == v {
					out = x
					return
				}
			}
		}
	}
	walk(par, 0)
	return out
}

func instrsOf(fn *ssa.Function) []ssa.Instruction {
	var out []ssa.Instruction
	an.EachInstr(fn, func(in ssa.Instruction) { out = append(out, in) })
	return out
}

// patPiece is a piece of a string built at run time: constant text, or a computed value.
type patPiece struct {
	text string
	hole ssa.Value
	env  *symEnv // where the hole lies inside a helper: what the helper's parameters stand for
}

// symEnv binds the parameters of a helper function that is being read through to the arguments of
// the call; up is the environment of the caller.
type symEnv struct {
	bind map[*ssa.Parameter]ssa.Value
	up   *symEnv
}

// resolveEnv replaces a parameter of a helper by the caller's argument (repeatedly).
func resolveEnv(v ssa.Value, env *symEnv) (ssa.Value, *symEnv) {
	for env != nil {
		par, ok := v.(*ssa.Parameter)
		if !ok {
			break
		}
		b, ok := env.bind[par]
		if !ok {
			break
		}
		v, env = b, env.up
	}
	return v, env
}

// symbolicString reads v as a concatenation of constants and computed pieces: string constants,
// +, and fmt.Sprintf with a constant format (each verb becomes the corresponding argument).
func symbolicString(v ssa.Value, depth int) ([]patPiece, bool) { return symStr(v, nil, depth) }

func symStr(v ssa.Value, env *symEnv, depth int) ([]patPiece, bool) {
	if depth > 12 {
		return nil, false
	}
	switch x := v.(type) {
	case *ssa.Const:
		if s, ok := an.ConstString(x); ok {
			return []patPiece{{text: s}}, true
		}
		return nil, false
	case *ssa.MakeInterface:
		return symStr(x.X, env, depth+1)
	case *ssa.BinOp:
		if x.Op != token.ADD {
			return nil, false
		}
		l, ok1 := symStr(x.X, env, depth+1)
		r, ok2 := symStr(x.Y, env, depth+1)
		if !ok1 || !ok2 {
			return nil, false
		}
		return append(l, r...), true
	case *ssa.Call:
		if an.CallName(&x.Call) == "fmt.Sprintf" {
			format, ok := an.ConstString(x.Call.Args[0])
			if !ok || len(x.Call.Args) < 2 {
				return nil, false
			}
			args := map[int64]ssa.Value{}
			if sl, ok := x.Call.Args[1].(*ssa.Slice); ok {
				if al, ok := sl.X.(*ssa.Alloc); ok && al.Referrers() != nil {
					for _, au := range *al.Referrers() {
						if ia, ok := au.(*ssa.IndexAddr); ok {
							k, _ := an.ConstInt(ia.Index)
							for _, sv := range an.Stores(ia) {
								args[k] = sv
							}
						}
					}
				}
			}
			var out []patPiece
			k := int64(0)
			rest := format
			for {
				i := strings.Index(rest, "%")
				if i < 0 || i+1 >= len(rest) {
					out = append(out, patPiece{text: rest})
					break
				}
				out = append(out, patPiece{text: rest[:i]})
				switch rest[i+1] {
				case '%':
					out = append(out, patPiece{text: "%"})
				case 's', 'v':
					a, ok := args[k]
					if !ok {
						return nil, false
					}
					if mi, isMI := a.(*ssa.MakeInterface); isMI {
						a = mi.X
					}
					if sub, ok := symStr(a, env, depth+1); ok && len(sub) == 1 && sub[0].hole == nil {
						out = append(out, sub[0])
					} else {
						out = append(out, patPiece{hole: a, env: env})
					}
					k++
				default:
					return nil, false
				}
				rest = rest[i+2:]
			}
			return out, true
		}
		// a module helper that returns the text: read its one result with its parameters bound
		if callee := x.Call.StaticCallee(); callee != nil && callee.Blocks != nil && callee.Pkg != nil && an.IsModulePkg(callee.Pkg.Pkg) {
			if b, ok := x.Type().Underlying().(*types.Basic); ok && b.Info()&types.IsString != 0 {
				var rets []*ssa.Return
				an.EachInstr(callee, func(in ssa.Instruction) {
					if ret, ok := in.(*ssa.Return); ok {
						rets = append(rets, ret)
					}
				})
				if len(rets) == 1 {
					ne := &symEnv{bind: map[*ssa.Parameter]ssa.Value{}, up: env}
					for i, par := range callee.Params {
						if i < len(x.Call.Args) {
							ne.bind[par] = x.Call.Args[i]
						}
					}
					if sub, ok := symStr(resultsOf(rets[0])[0], ne, depth+1); ok {
						return sub, true
					}
				}
			}
		}
		return []patPiece{{hole: x, env: env}}, true
	case *ssa.Parameter:
		if rv, renv := resolveEnv(x, env); rv != ssa.Value(x) {
			return symStr(rv, renv, depth+1)
		}
		return []patPiece{{hole: v, env: env}}, true
	case *ssa.UnOp, *ssa.Phi, *ssa.Extract:
		return []patPiece{{hole: v, env: env}}, true
	}
	return nil, false
}

// t10DelimIndex: v is delims[k], or a prefix of the matched text as long as delims[k] (the two
// sides of the older arm test data[ts:ts+len(delims[k])] == delims[k]).
func t10DelimIndex(v ssa.Value) (int64, bool) {
	u, ok := an.Deref(v).(*ssa.UnOp)
	if !ok {
		return 0, false
	}
	ia, ok := u.X.(*ssa.IndexAddr)
	if !ok {
		return 0, false
	}
	if bt, ok := u.Type().Underlying().(*types.Basic); !ok || bt.Info()&types.IsString == 0 {
		return 0, false
	}
	return an.ConstInt(ia.Index)
}

// hyphenTestOf: v tests whether one byte of a string is a hyphen: s[i] == '-',
// strings.HasPrefix(s[i:], "-"), strings.HasSuffix(s[:j], "-") (the byte j-1). It returns the string and
// the index as a linear form.
func hyphenTestOf(v ssa.Value) (ssa.Value, linForm, bool) {
	switch x := v.(type) {
	case *ssa.BinOp:
		if x.Op != token.EQL {
			break
		}
		for _, pair := range [][2]ssa.Value{{x.X, x.Y}, {x.Y, x.X}} {
			if c, ok := an.ConstInt(pair[1]); ok && c == 45 {
				if sx, idx, ok := stringIndex(pair[0]); ok {
					return sx, linOf(idx, 0), true
				}
			}
		}
	case *ssa.Call:
		cn := an.CallName(&x.Call)
		if cn != "strings.HasPrefix" && cn != "strings.HasSuffix" {
			break
		}
		if s, ok := an.ConstString(x.Call.Args[1]); !ok || s != "-" {
			break
		}
		sl, ok := x.Call.Args[0].(*ssa.Slice)
		if !ok {
			break
		}
		if cn == "strings.HasPrefix" && sl.Low != nil && sl.High == nil {
			return sl.X, linOf(sl.Low, 0), true
		}
		if cn == "strings.HasSuffix" && sl.Low == nil && sl.High != nil {
			lf := linOf(sl.High, 0)
			lf.c--
			return sl.X, lf, true
		}
	}
	return nil, linForm{}, false
}

func (lf linForm) String(p *an.Prog) string {
	var parts []string
	for a, cf := range lf.coef {
		switch cf {
		case 0:
		case 1:
			parts = append(parts, "+"+describe(p, a))
		case -1:
			parts = append(parts, "-"+describe(p, a))
		default:
			parts = append(parts, fmt.Sprintf("%+d*%s", cf, describe(p, a)))
		}
	}
	sort.Strings(parts)
	out := strings.TrimPrefix(strings.Join(parts, ""), "+")
	if lf.c != 0 || out == "" {
		out += fmt.Sprintf("%+d", lf.c)
	}
	return out
}

// ---------------------------------------------------------------------------
// T11

func init() {
	register("T11", "the tokens partition exactly the source the caller gave: the scanner's position advances only to the end of the match just handled, text tokens are the input from the position to the start of the match (and from the position to the end), object and tag tokens are the match itself; and the string that reaches the scanner is the caller's source (or the file's, or the tag's argument text) with nothing cut, replaced or added on the way", runT11)
}

func runT11(p *an.Prog, r *an.Result) {
	fn := p.Func("parser.Scan")
	if fn == nil {
		r.Bad("-", "Scan not found", token.NoPos, "anchor not resolved")
		return
	}
	name := an.FuncName(fn)
	data := fn.Params[0]
	text, _ := pkgConst(p, "parser", "TextTokenType")
	obj, _ := pkgConst(p, "parser", "ObjTokenType")
	tag, _ := pkgConst(p, "parser", "TagTokenType")
	isMatchPos := func(v ssa.Value, k int64) bool {
		for _, o := range an.Origins(v, an.StepValue) {
			_, kk, ok := matchElem(o)
			if !ok || kk != k {
				return false
			}
		}
		return true
	}
	// the position: a loop-carried integer that starts at 0
	var pos *ssa.Phi
	an.EachInstr(fn, func(in ssa.Instruction) {
		ph, ok := in.(*ssa.Phi)
		if !ok {
			return
		}
		if b, ok := ph.Type().Underlying().(*types.Basic); !ok || b.Kind() != types.Int {
			return
		}
		// used as the low bound of a slice of data
		used := false
		if ph.Referrers() != nil {
			for _, u := range *ph.Referrers() {
				if sl, ok := u.(*ssa.Slice); ok && sl.X == ssa.Value(data) && sl.Low == ssa.Value(ph) {
					used = true
				}
			}
		}
		if used {
			pos = ph
		}
	})
	if pos == nil {
		r.Bad(name, "scan position not found", an.FuncPos(fn), "the rule looks for the loop-carried index that text tokens start at")
		return
	}
	for _, e := range pos.Edges {
		r.Counts["position updates"]++
		if c, ok := an.ConstInt(e); ok && c == 0 {
			r.OK(name, "position starts at 0", pos.Pos(), "")
			continue
		}
		if isMatchPos(e, 1) {
			r.OK(name, "position moves to the end of the match", pos.Pos(), "p = m[1]")
			continue
		}
		r.Bad(name, "position set to "+describe(p, e), pos.Pos(), "the scan position may only move to the end of the match just handled: any other step skips or repeats input, or moves a token boundary away from where the pattern put it")
	}
	for _, st := range tokenFieldStores(p, fn) {
		if fieldName(st.Addr.(*ssa.FieldAddr)) != "Source" {
			continue
		}
		// the type of this token literal
		var typ int64 = -1
		for _, st2 := range tokenFieldStores(p, fn) {
			if fa2 := st2.Addr.(*ssa.FieldAddr); fieldName(fa2) == "Type" && fa2.X == st.Addr.(*ssa.FieldAddr).X {
				if c, ok := an.ConstInt(st2.Val); ok {
					typ = c
				}
			}
		}
		r.Counts["token sources"]++
		okSrc := true
		for _, o := range an.Origins(st.Val, an.StepValue) {
			sl, ok := o.(*ssa.Slice)
			if !ok || sl.X != ssa.Value(data) {
				okSrc = false
				continue
			}
			switch typ {
			case text:
				lowOK := sl.Low == ssa.Value(pos)
				highOK := sl.High == nil || isMatchPos(sl.High, 0)
				if !lowOK || !highOK {
					okSrc = false
				}
			case obj, tag:
				if sl.Low == nil || sl.High == nil || !isMatchPos(sl.Low, 0) || !isMatchPos(sl.High, 1) {
					okSrc = false
				}
			default:
				okSrc = false
			}
		}
		if okSrc {
			r.OK(name, "token source bounded by the position and the match", st.Pos(), "")
		} else {
			r.Bad(name, "token source "+describe(p, st.Val), st.Pos(), "a text token must be data[p:m[0]] or data[p:], an object or tag token data[m[0]:m[1]]: the token boundaries are the pattern's")
		}
	}
	r.Floor("position updates", 2)
	r.Floor("token sources", 4)
	// the string that reaches the scanner
	sites := callSitesOf(p, fn)
	step := stepIP(p)
	for _, cs := range sites {
		for _, o := range an.Origins(cs.Call.Args[0], step) {
			r.Counts["scanner input origins"]++
			where := an.FuncName(cs.Parent())
			switch x := o.(type) {
			case *ssa.Parameter, *ssa.Const, *ssa.Lookup, *ssa.FreeVar, *ssa.Global:
				r.OK(where, "scanner input from "+describe(p, o), an.InstrPos(cs), "a parameter, a constant or a table entry, handed on as it is")
			case *ssa.UnOp:
				r.OK(where, "scanner input from "+describe(p, o), an.InstrPos(cs), "a stored value, handed on as it is")
			case *ssa.Extract, *ssa.Call:
				c := an.CallOf(o)
				if ex, ok := o.(*ssa.Extract); ok {
					if _, isLk := ex.Tuple.(*ssa.Lookup); isLk {
						r.OK(where, "scanner input from "+describe(p, o), an.InstrPos(cs), "a table entry, handed on as it is")
						continue
					}
					c = an.CallOf(ex.Tuple)
				}
				cn := ""
				if c != nil {
					cn = an.CallName(c)
				}
				switch {
				case cn == "os.ReadFile" || cn == "io/ioutil.ReadFile" || cn == "io.ReadAll":
					r.OK(where, "scanner input read by "+cn, an.InstrPos(cs), "the content of the file")
				case c != nil && c.IsInvoke():
					r.OK(where, "scanner input from "+cn, an.InstrPos(cs), "the result of an interface method (the tag's argument text, a template store)")
				default:
					r.Bad(where, "scanner input computed by "+nonEmpty(cn, describe(p, o)), x.Pos(), fmt.Sprintf("the source is passed through %s before it is tokenised: what the template renders is no longer the text the caller supplied (a tag-free source must render to itself)", nonEmpty(cn, "a computation")))
				}
			default:
				r.Bad(where, "scanner input computed: "+describe(p, o), an.InstrPos(cs), "the source is cut, joined or otherwise computed before it is tokenised: what the template renders is no longer the text the caller supplied")
			}
		}
	}
	r.Floor("scanner input origins", 2)
}

// plainWriteHelper: fn does nothing but io.WriteString(<its writer parameter>, <its string parameter>) and
// return the error; the result is the index of the string parameter, or -1.
func plainWriteHelper(fn *ssa.Function) int {
	if fn == nil || fn.Blocks == nil || len(fn.Blocks) != 1 {
		return -1
	}
	calls := allCalls(fn)
	if len(calls) != 1 || an.CallName(calls[0].Common()) != "io.WriteString" {
		return -1
	}
	args := calls[0].Common().Args
	wp, okW := args[0].(*ssa.Parameter)
	sp, okS := args[1].(*ssa.Parameter)
	if !okW || !okS || wp.Parent() != fn || sp.Parent() != fn {
		return -1
	}
	for k, par := range fn.Params {
		if par == sp {
			return k
		}
	}
	return -1
}

type stringWrite struct {
	call ssa.CallInstruction
	arg  ssa.Value
}

// plainStringWrites: the calls of fn that write a string as it is: io.WriteString, or a plain write helper.
func plainStringWrites(p *an.Prog, fn *ssa.Function) []stringWrite {
	var out []stringWrite
	an.EachCall(fn, func(ci ssa.CallInstruction) {
		c := ci.Common()
		if an.CallName(c) == "io.WriteString" {
			out = append(out, stringWrite{ci, c.Args[1]})
			return
		}
		if callee := c.StaticCallee(); callee != nil && p.InModule(callee) {
			if k := plainWriteHelper(callee); k >= 0 && k < len(c.Args) {
				out = append(out, stringWrite{ci, c.Args[k]})
			}
		}
	})
	return out
}

// ---------------------------------------------------------------------------
// T12

func init() {
	register("T12", "output reaches the caller's writer only through the trim writer: the fields of the trim writer (the wrapped writer, the held-back buffer, the pending-trim flag) are read and written by its own methods and by the literal that builds it, and by nothing else", runT12)
}

// runT12: a left hyphen trims what the trim writer still holds back; text that a node sends straight to
// the wrapped writer (a fast path for large chunks) has left before the hyphen is seen, and text that a
// node puts into the buffer itself bypasses the pending right trim. So no function other than the
// methods of the trim writer touches its fields.
func runT12(p *an.Prog, r *an.Result) {
	var tw *types.Named
	for _, n := range moduleNamedTypes(p) {
		if n.Obj().Pkg() != nil && an.RelPkg(n.Obj().Pkg().Path()) == "render" && n.Obj().Name() == "trimWriter" {
			tw = n
		}
	}
	if tw == nil {
		// by role: the struct of package render that has a Write method and a TrimLeft-like pair, holding an io.Writer
		for _, n := range moduleNamedTypes(p) {
			st, ok := n.Underlying().(*types.Struct)
			if !ok || n.Obj().Pkg() == nil || an.RelPkg(n.Obj().Pkg().Path()) != "render" {
				continue
			}
			hasW, hasBuf := false, false
			for i := 0; i < st.NumFields(); i++ {
				if isIOWriter(st.Field(i).Type()) {
					hasW = true
				}
				if isNamedIn(st.Field(i).Type(), "bytes", "Buffer") {
					hasBuf = true
				}
			}
			if hasW && hasBuf {
				tw = n
			}
		}
	}
	if tw == nil {
		r.Bad("-", "trim writer type not found", token.NoPos, "anchor not resolved")
		return
	}
	isTW := func(t types.Type) bool {
		if pt, ok := t.Underlying().(*types.Pointer); ok {
			t = pt.Elem()
		}
		return types.Identical(t, tw)
	}
	for _, fn := range p.Funcs {
		if fn.Blocks == nil || isMainPkg(fn) {
			continue
		}
		own := fn.Signature.Recv() != nil && isTW(fn.Signature.Recv().Type())
		if !own && fn.Parent() != nil {
			if o := an.Outermost(fn); o.Signature.Recv() != nil && isTW(o.Signature.Recv().Type()) {
				own = true
			}
		}
		an.EachInstr(fn, func(in ssa.Instruction) {
			var x ssa.Value
			field := -1
			switch y := in.(type) {
			case *ssa.FieldAddr:
				x, field = y.X, y.Field
			case *ssa.Field:
				x, field = y.X, y.Field
			}
			if field < 0 || !isTW(x.Type()) {
				return
			}
			r.Counts["trim writer field accesses"]++
			fname := tw.Underlying().(*types.Struct).Field(field).Name()
			if own {
				r.OK(an.FuncName(fn), "trimWriter."+fname+" used by the trim writer itself", in.Pos(), "")
				return
			}
			// the literal that builds one: only stores into a fresh allocation
			fa, isFA := in.(*ssa.FieldAddr)
			if isFA {
				if al, ok := fa.X.(*ssa.Alloc); ok {
					onlyStores := true
					if fa.Referrers() != nil {
						for _, u := range *fa.Referrers() {
							if st, ok := u.(*ssa.Store); !ok || st.Addr != ssa.Value(fa) {
								if _, dbg := u.(*ssa.DebugRef); !dbg {
									onlyStores = false
								}
							}
						}
					}
					_ = al
					if onlyStores {
						r.OK(an.FuncName(fn), "trimWriter."+fname+" set where the writer is built", in.Pos(), "")
						return
					}
				}
			}
			r.Bad(an.FuncName(fn), "trimWriter."+fname+" touched outside the trim writer", in.Pos(), fmt.Sprintf("%s reads or writes the trim writer's %s directly: output that does not go through Write is not there when a left hyphen trims what is held back, and is not trimmed by a pending right hyphen", an.FuncName(fn), fname))
		})
	}
	r.Floor("trim writer field accesses", 5)
}

// onlyCalledFromWrite: fn is a method of the trim writer and every call of it is in trimWriter.Write.
func onlyCalledFromWrite(p *an.Prog, fn *ssa.Function) bool {
	if fn.Signature.Recv() == nil || !strings.Contains(an.TypeName(fn.Signature.Recv().Type()), "trimWriter") {
		return false
	}
	sites := callSitesOf(p, fn)
	if len(sites) == 0 {
		return false
	}
	for _, s := range sites {
		if an.FuncName(s.Parent()) != "(*render.trimWriter).Write" {
			return false
		}
	}
	return true
}

// trimsOnlyUnderFlag: the helper h, called as `call` with Write's data argument, hands back that argument -
// unchanged, or left-trimmed of whitespace on the paths where the trim flag was found set.
func trimsOnlyUnderFlag(p *an.Prog, h *ssa.Function, call *ssa.Call, data ssa.Value) bool {
	idx := -1
	for i, a := range call.Call.Args {
		if a == data {
			idx = i
		}
	}
	if idx < 0 || idx >= len(h.Params) || h.Signature.Results().Len() != 1 {
		return false
	}
	par := h.Params[idx]
	ok, n := true, 0
	an.EachInstr(h, func(in ssa.Instruction) {
		ret, isRet := in.(*ssa.Return)
		if !isRet {
			return
		}
		for _, o := range an.Origins(ret.Results[0], an.StepValue) {
			n++
			if o == ssa.Value(par) {
				continue
			}
			c, isCall := o.(*ssa.Call)
			if !isCall || an.CallName(&c.Call) != "bytes.TrimLeftFunc" || c.Call.Args[0] != ssa.Value(par) {
				ok = false
				continue
			}
			under := false
			for _, g := range an.GuardsAtInstr(c) {
				if g.True && twRole(g.Cond) == "flag" {
					under = true
				}
			}
			if !under {
				ok = false
			}
		}
	})
	return ok && n > 0
}

package rules

import (
	"fmt"
	"go/token"
	"go/types"
	"sort"
	"strings"

	"golang.org/x/tools/go/ssa"

	"lv/an"
)

// Rules B1–B11: behaviour of the block tags that is visible in their
// control flow and in the linear form of their integer expressions.

func init() {
	register("B1", "a conditional renderer (if/unless/case) renders at most one branch: every RenderBlock result is returned at once, branches are appended in clause order and tried in that order", runB1)
	register("B2", "case compares its subject with each when value using the generic values.Equal", runB2)
	register("B3", "unless is if over Not, else is the constant-true test, and the two blocks are registered with opposite polarity", runB3)
	register("B4", "loop modifiers are applied in the order reversed, offset, limit: each wrapper wraps only the collection or an earlier wrapper", runB4)
	register("B5", "a loop renderer never reports success without having offered the writer to the loop body or the else branch", runB5)
	register("B6", "the break and continue sentinels are raised only by their tags and consumed only by the innermost loop: break leaves the Go loop, continue re-enters it, neither is returned", runB6)
	register("B7", "every variable the loop sets per iteration is saved before the loop and restored by a deferred call, key for key", runB7)
	register("B8", "capture writes nothing and binds exactly what its body rendered; assign binds exactly what it evaluated, under the parsed name", runB8)
	register("B9", "include joins the evaluated string with the includer's directory, reads the disk before the cache, renders with a fresh copy of the live variables and returns every error", runB9)
	register("B13", "cycle keeps one position per loop and group: it reads the group's position n, stores n+1, and emits values[n mod len(values)]", runB13)
	register("B9v", "an included template is rendered with a new map filled from the includer's live variables, and with the includer's configuration", runB9v)
	register("B10", "forloop fields are the stated linear functions of the iteration counter and the length: index=i+1, index0=i, rindex=l-i, rindex0=l-i-1, length=l, first iff i=0, last iff i=l-1, for i=0..l-1 step 1", runB10)
	register("B11", "the iterator wrappers compute the stated index maps: reverse -> len-1-i, offset -> i+n with length max(0,len-n), limit -> i with length min(n,len)", runB11)
}

// spilled returns: with a defer in the function, `return x` is compiled to
// `*cell = x; rundefers; return *cell`. resultsOf looks through the cell.
func resultsOf(ret *ssa.Return) []ssa.Value {
	out := make([]ssa.Value, len(ret.Results))
	for i, v := range ret.Results {
		out[i] = v
		if u, ok := v.(*ssa.UnOp); ok && u.Op == token.MUL {
			if a, ok := u.X.(*ssa.Alloc); ok {
				// last store to the cell in the same block before the return
				var last ssa.Value
				for _, in := range ret.Block().Instrs {
					if in == ssa.Instruction(ret) {
						break
					}
					if st, ok := in.(*ssa.Store); ok && st.Addr == ssa.Value(a) {
						last = st.Val
					}
				}
				if last != nil {
					out[i] = last
				}
			}
		}
	}
	return out
}

func blockByName(roles *Roles, name string) *Block {
	for _, b := range roles.Blocks {
		if b.Name == name {
			return b
		}
	}
	return nil
}

func tagByName(roles *Roles, name string) *Tag {
	for _, t := range roles.Tags {
		if t.Name == name {
			return t
		}
	}
	return nil
}

// callsNamed returns the calls in fn whose CallName is name.
func callsNamed(fn *ssa.Function, name string) []*ssa.Call {
	var out []*ssa.Call
	an.EachInstr(fn, func(in ssa.Instruction) {
		if c, ok := in.(*ssa.Call); ok && an.CallName(&c.Call) == name {
			out = append(out, c)
		}
	})
	return out
}

// ---------------------------------------------------------------------------
// B1

func runB1(p *an.Prog, r *an.Result) {
	roles := GetRoles(p)
	seen := map[*ssa.Function]bool{}
	for _, bn := range []string{"if", "unless", "case"} {
		b := blockByName(roles, bn)
		if b == nil || b.Renderer == nil {
			r.Bad("block:"+bn, "registration", token.NoPos, "block or its renderer not resolved")
			continue
		}
		if seen[b.Renderer] {
			continue
		}
		seen[b.Renderer] = true
		fn := b.Renderer
		name := roles.Label(fn)
		calls := callsNamed(fn, "(render.Context).RenderBlock")
		r.Counts["RenderBlock calls"] += len(calls)
		if len(calls) == 0 {
			r.Bad(name, "no RenderBlock call", an.FuncPos(fn), "the renderer never renders a branch")
		}
		for _, c := range calls {
			ok := true
			if c.Referrers() != nil {
				for _, u := range *c.Referrers() {
					switch x := u.(type) {
					case *ssa.DebugRef:
					case *ssa.Return:
						if x.Block() != c.Block() {
							ok = false
						}
					default:
						ok = false
					}
				}
			}
			if ok {
				r.OK(name, "RenderBlock result returned at once", c.Pos(), "the only use of the result is the return that ends the same basic block: no later condition is evaluated, no second branch rendered")
			} else {
				r.Bad(name, "RenderBlock result not returned at once", c.Pos(), fmt.Sprintf("%s goes on after rendering a branch: another branch may render or a later condition be evaluated", an.FuncName(fn)))
			}
		}
		// the list the renderer walks is built by appending at the end, in clause order
		comp := b.Compiler
		appends := 0
		branchAppends := map[*ssa.Function][]*ssa.Call{}
		compUnit := unitWithHelpers(p, comp)
		for _, cu := range compUnit {
			an.EachInstr(cu, func(in ssa.Instruction) {
				c, ok := in.(*ssa.Call)
				if !ok {
					return
				}
				bi, ok := c.Call.Value.(*ssa.Builtin)
				if !ok || bi.Name() != "append" {
					return
				}
				// only accumulators of branches: slices whose elements hold a *render.BlockNode (the branch body)
				holdsBlock := func(t types.Type) bool {
					sl, ok := t.Underlying().(*types.Slice)
					if !ok {
						return false
					}
					found := false
					var visit func(t types.Type, d int)
					visit = func(t types.Type, d int) {
						if d > 3 || found {
							return
						}
						if isNamedIn(t, "render", "BlockNode") {
							found = true
							return
						}
						switch u := t.Underlying().(type) {
						case *types.Pointer:
							visit(u.Elem(), d+1)
						case *types.Struct:
							for i := 0; i < u.NumFields(); i++ {
								visit(u.Field(i).Type(), d+1)
							}
						case *types.Interface:
							// caseInterpreter: its implementers hold the body
							for _, n := range moduleNamedTypes(p) {
								if !an.IsInterface(n) && u.NumMethods() > 0 && types.Implements(n, u) {
									visit(n, d+1)
								}
							}
						}
					}
					visit(sl.Elem(), 0)
					return found
				}
				if !holdsBlock(c.Type()) {
					return
				}
				appends++
				branchAppends[cu] = append(branchAppends[cu], c)
				// first operand must be the accumulator itself (append at the end): the variable the result is assigned to
				first := an.Deref(c.Call.Args[0])
				isAcc := false
				if c.Referrers() != nil {
					for _, u := range *c.Referrers() {
						switch y := u.(type) {
						case *ssa.Store:
							if ld, ok := c.Call.Args[0].(*ssa.UnOp); ok && ld.X == y.Addr {
								isAcc = true
							}
						case *ssa.Phi:
							if first == ssa.Value(y) {
								isAcc = true
							}
						}
					}
				}
				if _, isPhi := first.(*ssa.Phi); isPhi {
					isAcc = true
				}
				if isAcc {
					r.OK(roles.Label(comp), "branch appended at the end", c.Pos(), "append(acc, x): the list keeps clause order")
				} else {
					r.Bad(roles.Label(comp), "branch not appended at the end", c.Pos(), "the branch list is not extended at its end: clause order is not kept")
				}
			})
		}
		if appends == 0 {
			r.Bad(roles.Label(comp), "no branch accumulation found", an.FuncPos(comp), "the compiler does not build its branch list by append")
		}
		// one branch per clause: no iteration over the clauses gets back to the loop header without appending
		for _, cu := range compUnit {
			marks := map[*ssa.BasicBlock]bool{}
			for _, ac := range branchAppends[cu] {
				marks[ac.Block()] = true
			}
			an.EachInstr(cu, func(in ssa.Instruction) {
				ia, ok := in.(*ssa.IndexAddr)
				if !ok || !isForwardRangeIndex(ia.Index) || len(marks) == 0 {
					return
				}
				if _, isSl := ia.X.Type().Underlying().(*types.Slice); !isSl {
					return
				}
				if iterationCanSkip(ia.Block(), marks) {
					r.Bad(roles.Label(comp), "a clause can be left out of the branch list", ia.Pos(), "an iteration over the clauses reaches the next one without appending a branch: the renderer would skip that clause and take a later one")
				} else {
					r.OK(roles.Label(comp), "every clause yields a branch", ia.Pos(), "each iteration of the clause loop appends or returns an error")
				}
			})
		}
		// the decision: a value evaluated in the renderer is only compared with nil and false,
		// or handed to the generic equality / the clause's own test
		for _, f := range unitWithHelpers(p, fn) {
			an.EachInstr(f, func(in ssa.Instruction) {
				c, ok := in.(*ssa.Call)
				if !ok || an.CallName(&c.Call) != "(render.Context).Evaluate" {
					return
				}
				r.Counts["condition values"]++
				// first truthy branch wins and ends the search: where the value is known to be neither nil
				// nor false, no path leads back to the evaluation of a (later) condition
				if reachesBlock(c.Block(), c.Block()) {
					var val ssa.Value
					if c.Referrers() != nil {
						for _, u := range *c.Referrers() {
							if ex, ok := u.(*ssa.Extract); ok && ex.Index == 0 {
								val = ex
							}
						}
					}
					isVal := func(v ssa.Value) bool {
						if mi, ok := v.(*ssa.MakeInterface); ok {
							v = mi.X
						}
						return val != nil && v == val
					}
					for _, blk := range f.Blocks {
						notNil, notFalse := false, false
						for _, g := range an.GuardsAt(blk) {
							b, ok := g.Cond.(*ssa.BinOp)
							if !ok || (b.Op != token.EQL && b.Op != token.NEQ) || g.True != (b.Op == token.NEQ) {
								continue
							}
							for _, pair := range [][2]ssa.Value{{b.X, b.Y}, {b.Y, b.X}} {
								if isVal(pair[0]) && an.IsNilConst(pair[1]) {
									notNil = true
								}
								if isVal(pair[0]) && isFalseIface(pair[1]) {
									notFalse = true
								}
							}
						}
						if notNil && notFalse && (blk == c.Block() || reachesBlock(blk, c.Block())) {
							r.Bad(roles.Label(f), "conditions are evaluated after a branch was chosen", an.InstrPos(blk.Instrs[0]), "from the point where a condition's value is known to be truthy a path leads back to the evaluation of the next condition: a later condition that cannot be evaluated fails a template whose chosen branch never needed it")
							break
						}
					}
				}
				if why, pos := truthinessOnly(p, c, 0, map[ssa.Value]bool{}); why == "" {
					r.OK(roles.Label(f), "condition value decides by nil/false only", c.Pos(), "every use is a comparison with nil or false, values.Equal, or the clause test")
				} else {
					r.Bad(roles.Label(f), "condition value is judged by something other than truthiness", pos, why+": a condition is true exactly when its value is neither nil nor false")
				}
			})
		}
		// the loop over node.Clauses is a forward range: the appended clause is Clauses[rangeindex]
		fwd := false
		for _, cu := range compUnit {
			an.EachInstr(cu, func(in ssa.Instruction) {
				ia, ok := in.(*ssa.IndexAddr)
				if !ok {
					return
				}
				isClauses := strings.HasSuffix(describe(p, ia.X), ".Clauses")
				if !isClauses {
					// a helper that is handed node.Clauses
					for _, o := range an.Origins(ia.X, stepIP(p)) {
						if strings.HasSuffix(describe(p, o), ".Clauses") {
							isClauses = true
						}
					}
				}
				if !isClauses {
					return
				}
				if isForwardRangeIndex(ia.Index) {
					fwd = true
				} else {
					r.Bad(roles.Label(comp), "clauses not walked forward", ia.Pos(), "the clause list is indexed by something other than a forward range index")
				}
			})
		}
		if fwd {
			r.OK(roles.Label(comp), "clauses walked by a forward range", an.FuncPos(comp), "index starts at 0 and steps by +1")
		} else {
			r.Bad(roles.Label(comp), "no forward range over Clauses", an.FuncPos(comp), "the compiler does not walk node.Clauses with a range loop")
		}
		// the renderer walks its list forward too
		rf := false
		for _, f := range unitWithHelpers(p, fn) {
			an.EachInstr(f, func(in ssa.Instruction) {
				if ia, ok := in.(*ssa.IndexAddr); ok && isForwardRangeIndex(ia.Index) {
					rf = true
				}
			})
		}
		if rf {
			r.OK(name, "branches tried by a forward range", an.FuncPos(fn), "index starts at 0 and steps by +1")
		} else {
			r.Bad(name, "branches not tried by a forward range", an.FuncPos(fn), "the renderer does not try its branches in list order")
		}
	}
	r.Floor("RenderBlock calls", 2)
}

// isForwardRangeIndex: v = phi(-1, v+1) + 1 (go/ssa's range-over-slice index)
// or phi(0, v+1).
func isForwardRangeIndex(v ssa.Value) bool {
	t := norm(v)
	ph, ok := t.v.(*ssa.Phi)
	if !ok {
		return false
	}
	inits, steps := 0, 0
	var initOff int64
	for _, e := range ph.Edges {
		et := norm(e)
		switch {
		case et.v == nil:
			inits++
			initOff = et.off
		case et.v == ssa.Value(ph) && et.off == 1:
			steps++
		default:
			return false
		}
	}
	return inits == 1 && steps >= 1 && initOff+t.off == 0
}

// ---------------------------------------------------------------------------
// B2

func runB2(p *an.Prog, r *an.Result) {
	fn := p.Func("(tags.exprCase).test")
	if fn == nil {
		// find by role: method named test on a type holding an expressions.When
		for _, f := range p.Funcs {
			if f.Name() == "test" && f.Signature.Recv() != nil && strings.Contains(an.TypeName(f.Signature.Recv().Type()), "Case") && len(callsNamed(f, "(render.Context).Evaluate")) > 0 {
				fn = f
			}
		}
	}
	if fn == nil {
		// by role: the function of the case renderer's unit that evaluates expressions and judges with values.Equal
		if b := blockByName(GetRoles(p), "case"); b != nil && b.Renderer != nil {
			for _, f := range unitWithHelpers(p, b.Renderer) {
				if f != b.Renderer && len(callsNamed(f, "(render.Context).Evaluate")) > 0 && len(callsNamed(f, "values.Equal")) > 0 {
					fn = f
				}
			}
			if fn == nil && len(callsNamed(b.Renderer, "values.Equal")) > 0 {
				fn = b.Renderer
			}
			// a test kept as a function value (a closure per when clause): the one function of the package that
			// evaluates and judges with values.Equal
			if fn == nil {
				n := 0
				for _, f := range p.Funcs {
					if an.Outermost(f).Pkg == b.Renderer.Pkg && f.Blocks != nil && len(callsNamed(f, "(render.Context).Evaluate")) > 0 && len(callsNamed(f, "values.Equal")) > 0 {
						fn = f
						n++
					}
				}
				if n != 1 {
					fn = nil
				}
			}
		}
	}
	if fn == nil {
		r.Bad("-", "case test not found", token.NoPos, "the method that compares the case subject with the when values was not resolved")
		return
	}
	name := an.FuncName(fn)
	eq := callsNamed(fn, "values.Equal")
	r.Counts["Equal calls"] = len(eq)
	if len(eq) == 0 {
		r.Bad(name, "no values.Equal", an.FuncPos(fn), "the when test does not use the generic equality")
	}
	for _, c := range eq {
		// one argument is the subject parameter, the other an evaluated when expression
		subj, when := false, false
		for _, a := range c.Call.Args {
			for _, o := range an.Origins(a, an.StepValue) {
				if par, ok := o.(*ssa.Parameter); ok && par.Parent() == fn && isEmptyInterface(par.Type()) {
					subj = true
				}
				if ex, ok := o.(*ssa.Extract); ok {
					if cc, ok := ex.Tuple.(*ssa.Call); ok && an.CallName(&cc.Call) == "(render.Context).Evaluate" {
						when = true
					}
				}
			}
		}
		// a true result decides the case
		decides := false
		if c.Referrers() != nil {
			for _, u := range *c.Referrers() {
				if ifi, ok := u.(*ssa.If); ok {
					for _, in := range ifi.Block().Succs[0].Instrs {
						if ret, ok := in.(*ssa.Return); ok {
							// `return true`, or `return body, true, nil`: a constant true among the results
							for _, rv := range resultsOf(ret) {
								if b, ok := an.ConstBool(rv); ok && b {
									decides = true
								}
							}
						}
					}
				}
			}
		}
		if subj && when && decides {
			r.OK(name, "values.Equal(subject, when value) decides", c.Pos(), "true edge returns true")
		} else {
			r.Bad(name, "values.Equal not wired to the decision", c.Pos(), fmt.Sprintf("subject argument: %v, evaluated when value: %v, true edge returns true: %v", subj, when, decides))
		}
	}
	// Equal is the only judge: every `return true` is the true edge of an Equal call, and no when value
	// is passed over without having been handed to Equal
	equalTrue := func(cond ssa.Value, taken bool) bool {
		c := an.CallOf(cond)
		if taken && c != nil && an.CallName(c) == "values.Equal" {
			return true
		}
		// the else clause as data: a boolean field of the clause record that is set only for clauses not named "when"
		return taken && elseFlagField(p, cond)
	}
	an.EachInstr(fn, func(in ssa.Instruction) {
		ret, ok := in.(*ssa.Return)
		if !ok {
			return
		}
		res := resultsOf(ret)
		anyTrue := false
		for _, rv := range res {
			if b, isC := an.ConstBool(rv); isC && b {
				anyTrue = true
			}
		}
		if anyTrue {
			if an.AllPathsGuarded(ret.Block(), equalTrue) {
				r.OK(name, "a match is reported only on a true values.Equal", ret.Pos(), "every path to `return true` takes the true edge of an Equal call")
			} else {
				r.Bad(name, "a match is reported without values.Equal having said so", ret.Pos(), "a when value matches exactly when it is Equal to the subject; a type-specific shortcut answers differently for named types and mixed numeric kinds")
			}
		}
	})
	marks := map[*ssa.BasicBlock]bool{}
	for _, c := range eq {
		marks[c.Block()] = true
	}
	an.EachInstr(fn, func(in ssa.Instruction) {
		ia, ok := in.(*ssa.IndexAddr)
		if !ok || !isForwardRangeIndex(ia.Index) || len(marks) == 0 {
			return
		}
		// the walk over the when values: its element is what gets evaluated (a walk over clauses is B1's)
		evaluated := false
		if ia.Referrers() != nil {
			for _, u := range *ia.Referrers() {
				if ld, ok := u.(*ssa.UnOp); ok && ld.Referrers() != nil {
					for _, uu := range *ld.Referrers() {
						if c, ok := uu.(*ssa.Call); ok && an.CallName(&c.Call) == "(render.Context).Evaluate" {
							evaluated = true
						}
					}
				}
			}
		}
		if !evaluated {
			return
		}
		if iterationCanSkip(ia.Block(), marks) {
			r.Bad(name, "a when value can be passed over without values.Equal", ia.Pos(), "an iteration over the when values reaches the next value without having called Equal")
		} else {
			r.OK(name, "every when value is handed to values.Equal", ia.Pos(), "each iteration calls Equal or returns")
		}
	})
	// no raw == on interface operands
	an.EachInstr(fn, func(in ssa.Instruction) {
		if b, ok := in.(*ssa.BinOp); ok && (b.Op == token.EQL || b.Op == token.NEQ) && an.IsInterface(b.X.Type()) && !an.IsErrorType(b.X.Type()) {
			if !an.IsNilConst(b.Y) && !an.IsNilConst(b.X) {
				r.Bad(name, "raw interface comparison", b.Pos(), "the case test compares with ==, which distinguishes 1 from int64(1) and panics on maps")
			}
		}
	})
}

// ---------------------------------------------------------------------------
// B3

func runB3(p *an.Prog, r *an.Result) {
	roles := GetRoles(p)
	bi, bu := blockByName(roles, "if"), blockByName(roles, "unless")
	if bi == nil || bu == nil || bi.Compiler == nil || bu.Compiler == nil {
		r.Bad("-", "if/unless not resolved", token.NoPos, "blocks if and unless were not resolved from AddStandardTags")
		return
	}
	argOf := func(b *Block) (bool, bool) {
		if len(b.CompilerArgs) != 1 {
			return false, false
		}
		return an.ConstBool(b.CompilerArgs[0])
	}
	vi, oki := argOf(bi)
	vu, oku := argOf(bu)
	if bi.Compiler == bu.Compiler && oki && oku && vi && !vu {
		r.OK("tags.AddStandardTags", "if/unless share one compiler with polarity true/false", bi.Pos, "registered as factory(true) and factory(false)")
	} else {
		r.Bad("tags.AddStandardTags", "if/unless polarity", bi.Pos, fmt.Sprintf("if and unless must be the same compiler with polarity true and false (if: %v/%v, unless: %v/%v, same: %v)", vi, oki, vu, oku, bi.Compiler == bu.Compiler))
	}
	comp := bi.Compiler
	name := roles.Label(comp)
	// polarity free variable: used only to decide whether to wrap the first test in Not
	var pol *ssa.FreeVar
	for _, fv := range comp.FreeVars {
		if bt, ok := fv.Type().(*types.Pointer); ok {
			if b, ok := bt.Elem().Underlying().(*types.Basic); ok && b.Kind() == types.Bool {
				pol = fv
			}
		}
	}
	if pol == nil {
		r.Bad(name, "polarity capture not found", an.FuncPos(comp), "the compiler closure does not capture a boolean polarity")
		return
	}
	uses, okUses := 0, true
	var notOnFalse bool
	// the polarity values: loads of the capture, and the parameter of a helper of the package that is handed one
	var polVals []ssa.Value
	if pol.Referrers() != nil {
		for _, u := range *pol.Referrers() {
			ld, ok := u.(*ssa.UnOp)
			if !ok {
				okUses = false
				continue
			}
			polVals = append(polVals, ld)
		}
	}
	callsNot := func(b *ssa.BasicBlock) bool {
		for _, in := range b.Instrs {
			if c, ok := in.(*ssa.Call); ok && an.CallName(&c.Call) == "expressions.Not" {
				return true
			}
		}
		return false
	}
	for i := 0; i < len(polVals) && i < 16; i++ {
		ld := polVals[i]
		if ld.Referrers() == nil {
			continue
		}
		for _, uu := range *ld.Referrers() {
			switch x := uu.(type) {
			case *ssa.DebugRef:
			case *ssa.If:
				uses++
				// Not(expr) is called exactly on the polarity-false edge
				if callsNot(x.Block().Succs[1]) {
					notOnFalse = true
				}
				if callsNot(x.Block().Succs[0]) {
					okUses = false
				}
			case *ssa.UnOp:
				// !polarity
				if x.Op == token.NOT && x.Referrers() != nil {
					for _, u3 := range *x.Referrers() {
						if ifi, ok := u3.(*ssa.If); ok {
							uses++
							if callsNot(ifi.Block().Succs[0]) {
								notOnFalse = true
							}
							if callsNot(ifi.Block().Succs[1]) {
								okUses = false
							}
						}
					}
				} else {
					okUses = false
				}
			case *ssa.Call:
				callee := x.Call.StaticCallee()
				handed := false
				if callee != nil && p.InModule(callee) && callee.Pkg == comp.Pkg && len(callee.Params) == len(x.Call.Args) {
					for k, a := range x.Call.Args {
						if a == ld {
							polVals = append(polVals, callee.Params[k])
							handed = true
						}
					}
				}
				if !handed {
					okUses = false
				}
			default:
				okUses = false
			}
		}
	}
	if uses == 1 && okUses && notOnFalse {
		r.OK(name, "polarity only selects Not(expr) for the first test", an.FuncPos(comp), "one branch on polarity; expressions.Not is applied exactly when polarity is false")
	} else {
		r.Bad(name, "polarity wiring", an.FuncPos(comp), fmt.Sprintf("the captured polarity must have exactly one use - deciding whether the first test is wrapped in Not (uses: %d, only-branch uses: %v, Not on the false edge: %v)", uses, okUses, notOnFalse))
	}
	// the result of Not feeds the first branch test (position 0 of the branch literal)
	var notCalls []*ssa.Call
	for _, cu := range unitWithHelpers(p, comp) {
		notCalls = append(notCalls, callsNamed(cu, "expressions.Not")...)
	}
	if len(notCalls) == 1 {
		// its argument is the parsed block expression
		fromParse := false
		for _, o := range an.Origins(notCalls[0].Call.Args[0], an.StepValue) {
			if ex, ok := o.(*ssa.Extract); ok {
				if c, ok := ex.Tuple.(*ssa.Call); ok && an.CallName(&c.Call) == "expressions.Parse" {
					fromParse = true
				}
			}
		}
		if fromParse {
			r.OK(name, "Not wraps the parsed condition", notCalls[0].Pos(), "Not(Parse(node.Args))")
		} else {
			r.Bad(name, "Not does not wrap the parsed condition", notCalls[0].Pos(), "the operand of Not is not the block's parsed expression")
		}
	} else {
		r.Bad(name, "expressions.Not calls", an.FuncPos(comp), fmt.Sprintf("expected exactly one call of expressions.Not, found %d", len(notCalls)))
	}
	// else: Constant(true)
	var cs []*ssa.Call
	for _, cu := range unitWithHelpers(p, comp) {
		cs = append(cs, callsNamed(cu, "expressions.Constant")...)
	}
	if len(cs) == 0 {
		r.Bad(name, "no Constant test for else", an.FuncPos(comp), "the else clause has no constant test")
	}
	for _, c := range cs {
		v := an.Strip(c.Call.Args[0])
		if b, ok := an.ConstBool(v); ok && b {
			r.OK(name, "else test is Constant(true)", c.Pos(), "constant true")
		} else {
			r.Bad(name, "else test is not Constant(true)", c.Pos(), "the default clause test must be the constant true")
		}
	}
	// Not's closure: value == nil || value == false
	notFn := p.Func("expressions.Not")
	// the evaluation function that Not wraps: its closure, or a method value of a small type
	var notEval *ssa.Function
	if notFn != nil {
		if len(notFn.AnonFuncs) == 1 {
			notEval = notFn.AnonFuncs[0]
		} else {
			an.EachInstr(notFn, func(in ssa.Instruction) {
				if mc, ok := in.(*ssa.MakeClosure); ok {
					if f := unwrapBound(mc.Fn.(*ssa.Function)); f != nil && f.Blocks != nil {
						notEval = f
					}
				}
			})
		}
	}
	if notEval == nil {
		r.Bad("expressions.Not", "closure not found", token.NoPos, "expressions.Not was not resolved")
		return
	}
	if ok, why := isFalsinessTest(notEval); ok {
		r.OK("expressions.Not", "returns value == nil || value == false", an.FuncPos(notFn), why)
	} else {
		r.Bad("expressions.Not", "negation is not the canonical falsiness", an.FuncPos(notFn), why)
	}
}

// isFalsinessTest: the function returns (as its first result) exactly
// "v == nil || v == false" for the evaluated value v.
func isFalsinessTest(fn *ssa.Function) (bool, string) {
	var found bool
	var why string
	an.EachInstr(fn, func(in ssa.Instruction) {
		ret, ok := in.(*ssa.Return)
		if !ok || len(ret.Results) == 0 {
			return
		}
		res := an.Strip(resultsOf(ret)[0])
		ph, ok := res.(*ssa.Phi)
		if !ok {
			return
		}
		// phi [true from the nil-test block, (v == false) from the other]
		var nilCmp, falseCmp *ssa.BinOp
		for i, e := range ph.Edges {
			if b, ok := an.ConstBool(e); ok && b {
				pred := ph.Block().Preds[i]
				if ifi, ok := pred.Instrs[len(pred.Instrs)-1].(*ssa.If); ok {
					if c, ok := ifi.Cond.(*ssa.BinOp); ok && c.Op == token.EQL && (an.IsNilConst(c.Y) || an.IsNilConst(c.X)) {
						nilCmp = c
					}
				}
			} else if c, ok := e.(*ssa.BinOp); ok && c.Op == token.EQL {
				if bv, ok := an.ConstBool(an.Strip(c.Y)); ok && !bv {
					falseCmp = c
				}
			}
		}
		if nilCmp != nil && falseCmp != nil && sameValue(nilCmp.X, falseCmp.X) {
			found = true
			why = "phi(true on v == nil, v == false) over the same value"
		}
	})
	if !found {
		why = "no return of the form `v == nil || v == false` over one value"
	}
	return found, why
}

// ---------------------------------------------------------------------------
// B4

func runB4(p *an.Prog, r *an.Result) {
	fn := p.Func("tags.applyLoopModifiers")
	if fn == nil {
		r.Bad("-", "applyLoopModifiers not found", token.NoPos, "anchor not resolved")
		return
	}
	name := an.FuncName(fn)
	order := map[string]int{"reverseWrapper": 0, "offsetWrapper": 1, "limitWrapper": 2}
	type site struct {
		rank  int
		tname string
		inner ssa.Value
		pos   token.Pos
		alloc *ssa.Alloc
	}
	var sites []site
	an.EachInstr(fn, func(in ssa.Instruction) {
		al, ok := in.(*ssa.Alloc)
		if !ok {
			return
		}
		n := an.NamedOf(al.Type())
		if n == nil {
			return
		}
		rank, ok := order[n.Obj().Name()]
		if !ok {
			return
		}
		// the value stored into field 0 (the wrapped iterable)
		var inner ssa.Value
		if al.Referrers() != nil {
			for _, u := range *al.Referrers() {
				if fa, ok := u.(*ssa.FieldAddr); ok && fa.Field == 0 && fa.Referrers() != nil {
					for _, uu := range *fa.Referrers() {
						if st, ok := uu.(*ssa.Store); ok {
							inner = st.Val
						}
					}
				}
			}
		}
		sites = append(sites, site{rank, n.Obj().Name(), inner, al.Pos(), al})
	})
	// a modifier applied by a helper of its own (applyLoopOffset(loop, ctx, iter)): the helper builds one kind of
	// wrapper around one of its parameters; its call stands for the construction, around that argument
	helperRank := map[*ssa.Function]int{}
	for _, h := range unitWithHelpers(p, fn) {
		if h == fn || h.Parent() != nil {
			continue
		}
		only := true
		for _, cs := range callSitesOf(p, h) {
			if an.Outermost(cs.Parent()) != fn {
				only = false
			}
		}
		if !only {
			continue
		}
		var hs []site
		parIdx := -1
		an.EachInstr(h, func(in ssa.Instruction) {
			al, ok := in.(*ssa.Alloc)
			if !ok {
				return
			}
			n := an.NamedOf(al.Type())
			if n == nil {
				return
			}
			rank, ok := order[n.Obj().Name()]
			if !ok || al.Referrers() == nil {
				return
			}
			for _, u := range *al.Referrers() {
				if fa, ok := u.(*ssa.FieldAddr); ok && fa.Field == 0 && fa.Referrers() != nil {
					for _, uu := range *fa.Referrers() {
						if st, ok := uu.(*ssa.Store); ok {
							for _, o := range an.Origins(st.Val, an.StepValue) {
								for k, pp := range h.Params {
									if o == ssa.Value(pp) {
										parIdx = k
									}
								}
							}
							hs = append(hs, site{rank, n.Obj().Name(), st.Val, al.Pos(), al})
						}
					}
				}
			}
		})
		if len(hs) != 1 || parIdx < 0 {
			continue
		}
		helperRank[h] = hs[0].rank
		for _, cs := range callSitesOf(p, h) {
			if parIdx < len(cs.Call.Args) {
				sites = append(sites, site{hs[0].rank, hs[0].tname, cs.Call.Args[parIdx], cs.Pos(), nil})
			}
		}
	}
	r.Counts["wrapper constructions"] = len(sites)
	seenRank := map[int]bool{}
	rankOfOrigin := func(v ssa.Value) (int, bool) {
		// origin of a wrapped value: parameter iter (-1) or a wrapper of some rank
		if ex, ok := v.(*ssa.Extract); ok {
			v = ex.Tuple
		}
		if c, ok := v.(*ssa.Call); ok {
			if callee := c.Call.StaticCallee(); callee != nil {
				if rk, ok := helperRank[callee]; ok {
					return rk, true
				}
			}
		}
		switch x := v.(type) {
		case *ssa.Parameter:
			return -1, true
		case *ssa.UnOp:
			if al, ok := x.X.(*ssa.Alloc); ok {
				if n := an.NamedOf(al.Type()); n != nil {
					if rk, ok := order[n.Obj().Name()]; ok {
						return rk, true
					}
				}
			}
		}
		return 0, false
	}
	for _, s := range sites {
		seenRank[s.rank] = true
		if s.inner == nil {
			r.Bad(name, s.tname+" construction", s.pos, "the wrapped collection was not found")
			continue
		}
		ok := true
		var inners []string
		for _, o := range an.Origins(s.inner, an.StepValue) {
			rk, known := rankOfOrigin(o)
			if !known || rk >= s.rank {
				ok = false
			}
			inners = append(inners, o.Name())
		}
		if ok {
			r.OK(name, s.tname+" wraps only the collection or an earlier wrapper", s.pos, "order reversed < offset < limit")
		} else {
			r.Bad(name, s.tname+" wraps a later wrapper", s.pos, fmt.Sprintf("%s is applied to a value that may already be wrapped by a modifier that must come after it (reverse, then skip offset, then take limit)", s.tname))
		}
	}
	for n, rk := range order {
		if !seenRank[rk] {
			r.Bad(name, n+" never constructed", an.FuncPos(fn), "a loop modifier is not applied at all")
		}
	}
	// the wrappers are constructed only here
	for _, f := range p.Funcs {
		if _, isHelper := helperRank[f]; f == fn || isMainPkg(f) || isHelper {
			continue
		}
		an.EachInstr(f, func(in ssa.Instruction) {
			if al, ok := in.(*ssa.Alloc); ok {
				if n := an.NamedOf(al.Type()); n != nil && an.IsModulePkg(n.Obj().Pkg()) {
					if _, ok := order[n.Obj().Name()]; ok && an.RelPkg(n.Obj().Pkg().Path()) == "tags" {
						if _, isRecv := al.Type().Underlying().(*types.Pointer); isRecv && al.Comment != "" && !strings.Contains(al.Comment, "complit") {
							return // spilled value receiver
						}
						r.Bad(an.FuncName(f), n.Obj().Name()+" constructed outside applyLoopModifiers", al.Pos(), "loop modifier wrappers must only be built in the ordered sequence")
					}
				}
			}
		})
	}
	// modifier evaluation results feed the matching wrapper under the matching sign test
	r.Floor("wrapper constructions", 3)
}

// ---------------------------------------------------------------------------
// B5

func runB5(p *an.Prog, r *an.Result) {
	roles := GetRoles(p)
	done := map[*ssa.Function]bool{}
	for _, bn := range []string{"for", "tablerow"} {
		b := blockByName(roles, bn)
		if b == nil || b.Renderer == nil {
			r.Bad("block:"+bn, "registration", token.NoPos, "loop block or its renderer not resolved")
			continue
		}
		fn := b.Renderer
		if done[fn] {
			continue
		}
		done[fn] = true
		name := roles.Label(fn)
		w := fn.Params[0]
		offers := map[*ssa.BasicBlock]bool{}
		an.EachCall(fn, func(ci ssa.CallInstruction) {
			for _, a := range an.Args(ci.Common()) {
				if an.Strip(a) == ssa.Value(w) || a == ssa.Value(w) {
					offers[ci.Block()] = true
				}
			}
		})
		r.Counts["calls given the writer"] += len(offers)
		// paths from entry that avoid every offering block
		seen := map[*ssa.BasicBlock]bool{}
		var bad []*ssa.Return
		var dfs func(b *ssa.BasicBlock)
		dfs = func(b *ssa.BasicBlock) {
			if seen[b] || offers[b] {
				return
			}
			seen[b] = true
			for _, in := range b.Instrs {
				if ret, ok := in.(*ssa.Return); ok {
					res := resultsOf(ret)
					if len(res) > 0 && an.IsNilConst(res[len(res)-1]) {
						bad = append(bad, ret)
					}
				}
			}
			for _, s := range b.Succs {
				dfs(s)
			}
		}
		dfs(fn.Blocks[0])
		if len(bad) == 0 {
			r.OK(name, "every success return follows a call given the writer", an.FuncPos(fn), "no path from the entry to `return nil` avoids both the body renderer and the else branch")
		}
		for _, ret := range bad {
			r.Bad(name, "return nil that skips body and else", ret.Pos(), fmt.Sprintf("%s can return success without rendering the loop body or deciding the else branch: a collection that selects nothing (nil, a scalar) renders neither", an.FuncName(fn)))
		}
	}
	r.Floor("calls given the writer", 2)
}

// ---------------------------------------------------------------------------
// B6

func sentinelOf(t *Tag) *ssa.Global {
	if t == nil || t.Renderer == nil {
		return nil
	}
	var g *ssa.Global
	find := func(fn *ssa.Function) {
		if fn == nil || fn.Blocks == nil {
			return
		}
		an.EachInstr(fn, func(in ssa.Instruction) {
			if u, ok := in.(*ssa.UnOp); ok && u.Op == token.MUL {
				if gg, ok := u.X.(*ssa.Global); ok && an.IsErrorType(u.Type()) {
					g = gg
				}
			}
		})
	}
	find(t.Renderer)
	if g == nil {
		// the renderer is a method value of a small type that was given the sentinel by the tag's compiler
		find(t.Compiler)
	}
	return g
}

func runB6(p *an.Prog, r *an.Result) {
	roles := GetRoles(p)
	gb, gc := sentinelOf(tagByName(roles, "break")), sentinelOf(tagByName(roles, "continue"))
	if gb == nil || gc == nil || gb == gc {
		r.Bad("tags.AddStandardTags", "break/continue sentinels", token.NoPos, "the break and continue tags must each return their own package-level sentinel error")
		return
	}
	for _, t := range []struct {
		name string
		g    *ssa.Global
	}{{"break", gb}, {"continue", gc}} {
		tg := tagByName(roles, t.name)
		// the renderer returns ctx.WrapError(sentinel)
		ok := false
		an.EachInstr(tg.Renderer, func(in ssa.Instruction) {
			if ret, isRet := in.(*ssa.Return); isRet {
				for _, o := range an.Origins(resultsOf(ret)[0], an.StepValue) {
					if c, isC := o.(*ssa.Call); isC && an.CallName(&c.Call) == "(render.Context).WrapError" {
						if u, isU := an.Strip(c.Call.Args[0]).(*ssa.UnOp); isU && u.X == ssa.Value(t.g) {
							ok = true
						}
						// or a field of the receiver, where the renderer is a method value of a small type that the
						// tag's compiler filled with the sentinel
						fld := -1
						switch x := an.Strip(c.Call.Args[0]).(type) {
						case *ssa.Field:
							fld = x.Field
						case *ssa.UnOp:
							if fa, isFA := x.X.(*ssa.FieldAddr); isFA {
								fld = fa.Field
							}
						}
						if fld >= 0 && tg.Compiler != nil && tg.Compiler.Blocks != nil {
							an.EachInstr(tg.Compiler, func(in2 ssa.Instruction) {
								if st, isSt := in2.(*ssa.Store); isSt {
									if fa, isFA := st.Addr.(*ssa.FieldAddr); isFA && fa.Field == fld {
										if u, isU := an.Strip(st.Val).(*ssa.UnOp); isU && u.X == ssa.Value(t.g) {
											ok = true
										}
									}
								}
							})
						}
					}
				}
			}
		})
		if ok {
			r.OK(roles.Label(tg.Renderer), "returns ctx.WrapError("+t.g.Name()+")", an.FuncPos(tg.Renderer), "the sentinel travels as the cause of a located error")
		} else {
			r.Bad(roles.Label(tg.Renderer), "does not return the wrapped sentinel", an.FuncPos(tg.Renderer), "the tag must return ctx.WrapError(sentinel) so that the loop recognises it by Cause()")
		}
	}
	// who else touches the sentinels
	var loopFn *ssa.Function
	for _, fn := range p.Funcs {
		if isMainPkg(fn) || an.IsInit(fn) {
			continue
		}
		an.EachInstr(fn, func(in ssa.Instruction) {
			u, ok := in.(*ssa.UnOp)
			if !ok || u.Op != token.MUL {
				return
			}
			g, ok := u.X.(*ssa.Global)
			if !ok || (g != gb && g != gc) {
				return
			}
			isTag := fn == tagByName(roles, "break").Renderer || fn == tagByName(roles, "continue").Renderer ||
				fn == tagByName(roles, "break").Compiler || fn == tagByName(roles, "continue").Compiler
			cmp := false
			if u.Referrers() != nil {
				for _, uu := range *u.Referrers() {
					if b, ok := uu.(*ssa.BinOp); ok && (b.Op == token.EQL || b.Op == token.NEQ) {
						cmp = true
					}
				}
			}
			switch {
			case isTag:
			case cmp:
				loopFn = fn
			default:
				r.Bad(an.FuncName(fn), "sentinel "+g.Name()+" used outside its tag and the loop", u.Pos(), "only breakTag/continueTag may raise the sentinels and only the loop may test for them")
			}
		})
	}
	if loopFn == nil {
		r.Bad("-", "no loop consumes the sentinels", token.NoPos, "no function compares an error cause with the break/continue sentinels")
		return
	}
	// first: what the loop does with each sentinel, by carrying "the body's error is this sentinel" through the
	// code after the body call (sentinel.go); conclusive for both, it decides the rule
	{
		ob, okb := sentinelOutcomes(p, gb, gc, 1)
		oc, okc := sentinelOutcomes(p, gb, gc, 2)
		if okb && okc {
			lname := an.FuncName(loopFn)
			r.Counts["sentinel tests"] += 2
			_, bAgain := ob["again"]
			_, bE := ob["return-e"]
			_, bNil := ob["return-nil"]
			_, bPanic := ob["panic"]
			switch {
			case bE:
				r.Bad(lname, "body error cause == "+gb.Name()+": sentinel returned", ob["return-e"], "on "+gb.Name()+" the loop returns the body's error: the sentinel escapes to the enclosing loop or to the caller")
			case bAgain:
				r.Bad(lname, "body error cause == "+gb.Name()+": break re-enters the loop", ob["again"], "break must leave the loop")
			case !bNil || bPanic:
				r.Bad(lname, "body error cause == "+gb.Name()+": loop not left", token.NoPos, "break must leave the loop and report success")
			default:
				r.OK(lname, "body error cause == "+gb.Name()+" leaves the Go loop", ob["return-nil"], "carried through the code after the body call: every path leaves the loop and returns success (or the error of a later write)")
			}
			_, cAgain := oc["again"]
			_, cE := oc["return-e"]
			_, cNil := oc["return-nil"]
			_, cPanic := oc["panic"]
			switch {
			case cE:
				r.Bad(lname, "body error cause == "+gc.Name()+": sentinel returned", oc["return-e"], "on "+gc.Name()+" the loop returns the body's error: the sentinel escapes to the enclosing loop or to the caller")
			case !cAgain || cNil || cPanic:
				r.Bad(lname, "body error cause == "+gc.Name()+": loop not continued", oc["return-nil"], "continue must go on with the next iteration")
			default:
				r.OK(lname, "body error cause == "+gc.Name()+" continues the Go loop", oc["again"], "carried through the code after the body call: every path gets back to the head of the loop (or returns the error of a later write)")
			}
			r.Floor("sentinel tests", 2)
			return
		}
	}
	name := an.FuncName(loopFn)
	// the body call whose error is inspected
	bodyCalls := callsNamed(loopFn, "(render.Context).RenderChildren")
	if len(bodyCalls) != 1 {
		r.Bad(name, "body render call", an.FuncPos(loopFn), fmt.Sprintf("expected one RenderChildren call, found %d", len(bodyCalls)))
		return
	}
	bodyBlk := bodyCalls[0].Block()
	bodyFlow := flowOfError(bodyCalls[0])
	// the head of the Go loop: the block that tests the loop condition (dominates the body, has a back edge)
	check := func(g *ssa.Global, wantContinue bool) {
		found := false
		an.EachInstr(loopFn, func(in ssa.Instruction) {
			b, ok := in.(*ssa.BinOp)
			if !ok || (b.Op != token.EQL && b.Op != token.NEQ) {
				return
			}
			var lhs ssa.Value
			for _, pair := range [][2]ssa.Value{{b.X, b.Y}, {b.Y, b.X}} {
				if u, ok := pair[1].(*ssa.UnOp); ok && u.X == ssa.Value(g) {
					lhs = pair[0]
				}
			}
			if lhs == nil {
				return
			}
			found = true
			r.Counts["sentinel tests"]++
			// lhs is err.Cause() of the body call's error
			okCause := false
			if c := an.CallOf(lhs); c != nil && c.IsInvoke() && c.Method.Name() == "Cause" {
				for _, o := range an.Origins(c.Value, an.StepValue) {
					if o == ssa.Value(bodyCalls[0]) {
						okCause = true
					}
				}
			}
			if !okCause {
				r.Bad(name, "sentinel compared with something other than the body error's cause", b.Pos(), "the test must be bodyErr.Cause() == sentinel")
				return
			}
			var ifi *ssa.If
			for _, u := range *b.Referrers() {
				if x, ok := u.(*ssa.If); ok {
					ifi = x
				}
			}
			if ifi == nil {
				r.Bad(name, "sentinel test not branched on", b.Pos(), "the comparison result is not used as a branch condition")
				return
			}
			// from the true edge: which comes first, the loop body again or a return?
			seen := map[*ssa.BasicBlock]bool{}
			reachBody, reachRet, retErr := false, false, false
			var dfs func(bl *ssa.BasicBlock)
			dfs = func(bl *ssa.BasicBlock) {
				if seen[bl] {
					return
				}
				seen[bl] = true
				if bl == bodyBlk {
					reachBody = true
					return
				}
				for _, in := range bl.Instrs {
					if c, ok := in.(*ssa.Call); ok && c.Block() != bodyBlk {
						// the per-iteration Set calls mark the start of the body as well
						if an.CallName(&c.Call) == "(render.Context).Set" {
							reachBody = true
							return
						}
					}
					if ret, ok := in.(*ssa.Return); ok {
						reachRet = true
						res := resultsOf(ret)
						if len(res) > 0 && !an.IsNilConst(res[len(res)-1]) && bodyFlow.derived[res[len(res)-1]] {
							// the body's error itself is handed on (the error of a later call - closing the row - is not the sentinel)
							retErr = true
						}
					}
				}
				// on this path the body's error is known to be the sentinel g: a later test of it has one feasible edge
				if li, ok := bl.Instrs[len(bl.Instrs)-1].(*ssa.If); ok {
					if cb, ok := li.Cond.(*ssa.BinOp); ok && (cb.Op == token.EQL || cb.Op == token.NEQ) {
						eqEdge, neEdge := 0, 1
						if cb.Op == token.NEQ {
							eqEdge, neEdge = 1, 0
						}
						for _, pair := range [][2]ssa.Value{{cb.X, cb.Y}, {cb.Y, cb.X}} {
							if bodyFlow.derived[pair[0]] && an.IsNilConst(pair[1]) {
								dfs(bl.Succs[neEdge])
								return
							}
							c := an.CallOf(pair[0])
							if c == nil || !c.IsInvoke() || c.Method.Name() != "Cause" || !bodyFlow.derived[c.Value] {
								continue
							}
							if u, ok := pair[1].(*ssa.UnOp); ok {
								if og, isG := u.X.(*ssa.Global); isG {
									if og == g {
										dfs(bl.Succs[eqEdge])
									} else {
										dfs(bl.Succs[neEdge])
									}
									return
								}
							}
						}
					}
				}
				for _, s := range bl.Succs {
					dfs(s)
				}
			}
			// the edge on which the cause IS the sentinel
			if b.Op == token.EQL {
				dfs(ifi.Block().Succs[0])
			} else {
				dfs(ifi.Block().Succs[1])
			}
			construct := "body error cause == " + g.Name()
			switch {
			case retErr:
				r.Bad(name, construct+": sentinel returned", b.Pos(), fmt.Sprintf("on %s the loop returns an error: the sentinel escapes to the enclosing loop or to the caller", g.Name()))
			case wantContinue && !reachBody:
				r.Bad(name, construct+": loop not continued", b.Pos(), "continue must go on with the next iteration")
			case !wantContinue && (reachBody && !reachRet):
				r.Bad(name, construct+": loop not left", b.Pos(), "break must leave the loop")
			case !wantContinue && reachBody:
				// reaching the body from the loop exit is impossible unless break re-enters the loop
				r.Bad(name, construct+": break re-enters the loop", b.Pos(), "break must leave the loop")
			default:
				if wantContinue {
					r.OK(name, construct+" continues the Go loop", b.Pos(), "the true edge leads back to the loop body and to no error return")
				} else {
					r.OK(name, construct+" leaves the Go loop", b.Pos(), "the true edge leads to `return nil` without passing the loop body")
				}
			}
		})
		if !found {
			r.Bad(name, "no test for "+g.Name(), an.FuncPos(loopFn), "the loop does not recognise this sentinel")
		}
	}
	check(gb, false)
	check(gc, true)
	r.Floor("sentinel tests", 2)
}

// ---------------------------------------------------------------------------
// B7

func keyDesc(p *an.Prog, v ssa.Value) string {
	if s, ok := an.ConstString(v); ok {
		return "const:" + s
	}
	return "expr:" + describe(p, v)
}

func runB7(p *an.Prog, r *an.Result) {
	// the loop function: the one that defers a closure and calls ctx.Set in a loop
	var fn *ssa.Function
	for _, f := range p.Funcs {
		if isLoopFunction(f) {
			fn = f
		}
	}
	if fn == nil {
		r.Bad("-", "loop function not found", token.NoPos, "no function in package tags sets variables and renders children")
		return
	}
	name := an.FuncName(fn)
	sets := callsNamed(fn, "(render.Context).Set")
	var def *ssa.Defer
	an.EachInstr(fn, func(in ssa.Instruction) {
		if d, ok := in.(*ssa.Defer); ok {
			if cl := funcValue(d.Call.Value); cl != nil && len(callsNamed(cl, "(render.Context).Set")) > 0 {
				def = d
			}
		}
	})
	if def == nil {
		for _, s := range sets {
			r.Bad(name, "ctx.Set("+keyDesc(p, s.Call.Args[0])+", …) without a deferred restore", s.Pos(), "the loop sets a variable per iteration but no deferred call restores it")
		}
		return
	}
	cl := funcValue(def.Call.Value)
	// the saved values kept in a record whose method restores them (defer saved.restore(ctx)): a field of the
	// receiver stands for what the loop function stored into that field of the record before the defer
	recordField := func(v ssa.Value) ssa.Value {
		if cl.Signature.Recv() == nil || len(cl.Params) == 0 || len(def.Call.Args) == 0 {
			return nil
		}
		isRecv := func(x ssa.Value) bool {
			if x == ssa.Value(cl.Params[0]) {
				return true
			}
			if al, ok := x.(*ssa.Alloc); ok {
				st := an.Stores(al)
				return len(st) == 1 && st[0] == ssa.Value(cl.Params[0])
			}
			return false
		}
		field := -1
		switch x := an.Strip(v).(type) {
		case *ssa.Field:
			if isRecv(x.X) {
				field = x.Field
			}
		case *ssa.UnOp:
			if fa, ok := x.X.(*ssa.FieldAddr); ok && isRecv(fa.X) {
				field = fa.Field
			}
		}
		if field < 0 {
			return nil
		}
		// the record at the defer: a load of a local of the loop function (or the local's address)
		var rec *ssa.Alloc
		switch a := def.Call.Args[0].(type) {
		case *ssa.UnOp:
			rec, _ = a.X.(*ssa.Alloc)
		case *ssa.Alloc:
			rec = a
		}
		if rec == nil || rec.Referrers() == nil {
			return nil
		}
		var stored ssa.Value
		n := 0
		for _, u := range *rec.Referrers() {
			if fa, ok := u.(*ssa.FieldAddr); ok && fa.Field == field && fa.Referrers() != nil {
				for _, uu := range *fa.Referrers() {
					if st, ok := uu.(*ssa.Store); ok && st.Addr == ssa.Value(fa) {
						stored = st.Val
						n++
						if !instrDominates(st, def) {
							n += 100 // written after the defer was registered: not a saved value
						}
					}
				}
			}
		}
		if n != 1 {
			return nil
		}
		return stored
	}
	// restores: key -> the saved value's key (through the defer arguments)
	restores := map[string]string{}
	for _, s := range callsNamed(cl, "(render.Context).Set") {
		k := keyDesc(p, s.Call.Args[0])
		if kv := recordField(s.Call.Args[0]); kv != nil {
			k = keyDesc(p, kv)
		}
		val := an.Strip(s.Call.Args[1])
		if sv := recordField(s.Call.Args[1]); sv != nil {
			if c := an.CallOf(an.Strip(sv)); c != nil && an.CallName(c) == "(render.Context).Get" {
				restores[k] = keyDesc(p, c.Args[0])
			} else {
				restores[k] = "?not ctx.Get"
			}
			continue
		}
		par, ok := val.(*ssa.Parameter)
		if !ok {
			// a local of the loop function captured by the deferred closure: what was stored into it,
			// before the defer was registered
			restores[k] = "?not a saved value"
			for _, o := range originsThroughCaptures(p, s.Call.Args[1]) {
				if c := an.CallOf(an.Strip(o)); c != nil && an.CallName(c) == "(render.Context).Get" {
					if gi, isInstr := an.Strip(o).(ssa.Instruction); isInstr && instrDominates(gi, def) {
						restores[k] = keyDesc(p, c.Args[0])
					} else {
						restores[k] = "?read after the defer"
					}
				}
			}
			continue
		}
		idx := -1
		for i, pp := range cl.Params {
			if pp == par {
				idx = i
			}
		}
		if idx < 0 || idx >= len(def.Call.Args) {
			restores[k] = "?"
			continue
		}
		saved := an.Strip(def.Call.Args[idx])
		if c := an.CallOf(saved); c != nil && an.CallName(c) == "(render.Context).Get" {
			restores[k] = keyDesc(p, c.Args[0])
		} else {
			restores[k] = "?not ctx.Get"
		}
	}
	keys := map[string]token.Pos{}
	for _, s := range sets {
		keys[keyDesc(p, s.Call.Args[0])] = s.Pos()
		if !instrDominates(def, s) {
			r.Bad(name, "ctx.Set before the restore is registered", s.Pos(), "the deferred restore must be registered before the first per-iteration Set")
		}
	}
	var ks []string
	for k := range keys {
		ks = append(ks, k)
	}
	sort.Strings(ks)
	r.Counts["loop-set keys"] = len(ks)
	for _, k := range ks {
		saved, ok := restores[k]
		switch {
		case !ok:
			r.Bad(name, "no restore for key "+k, keys[k], fmt.Sprintf("the loop sets %s on every iteration but the deferred call does not restore it", k))
		case saved != k:
			r.Bad(name, "restore of key "+k+" uses the value saved for "+saved, keys[k], fmt.Sprintf("the deferred call restores %s with the value that ctx.Get read for %s", k, saved))
		default:
			r.OK(name, "key "+k+" saved with ctx.Get and restored by the deferred ctx.Set", keys[k], "defer registered before the loop; saved and restored under the same key")
		}
	}
	r.Floor("loop-set keys", 2)
}

// ---------------------------------------------------------------------------
// B8

func runB8(p *an.Prog, r *an.Result) {
	roles := GetRoles(p)
	// capture
	if b := blockByName(roles, "capture"); b == nil || b.Renderer == nil {
		r.Bad("block:capture", "registration", token.NoPos, "capture block not resolved")
	} else {
		fn := b.Renderer
		name := roles.Label(fn)
		used := false
		for _, wp := range fn.Params {
			if !isIOWriter(wp.Type()) {
				continue
			}
			if refs := wp.Referrers(); refs != nil {
				for _, u := range *refs {
					if _, dbg := u.(*ssa.DebugRef); !dbg {
						used = true
					}
				}
			}
		}
		if used {
			r.Bad(name, "capture uses the output writer", an.FuncPos(fn), "the captured text must not be output as well")
		} else {
			r.OK(name, "capture never touches the output writer", an.FuncPos(fn), "the writer parameter has no uses")
		}
		sets := callsNamed(fn, "(render.Context).Set")
		if len(sets) != 1 {
			r.Bad(name, "capture Set calls", an.FuncPos(fn), fmt.Sprintf("expected exactly one ctx.Set, found %d", len(sets)))
		}
		for _, s := range sets {
			val := an.Strip(s.Call.Args[1])
			okVal := false
			if ex, ok := val.(*ssa.Extract); ok && ex.Index == 0 {
				if c, ok := ex.Tuple.(*ssa.Call); ok && an.CallName(&c.Call) == "(render.Context).InnerString" {
					okVal = true
				}
			}
			// or InnerString written out: the String() of a buffer the children were rendered into
			if sc := an.CallOf(val); sc != nil && strings.HasSuffix(an.CallName(sc), ".String") && len(an.Args(sc)) == 1 {
				buf := an.Args(sc)[0]
				for _, rc := range callsNamed(fn, "(render.Context).RenderChildren") {
					for _, o := range an.Origins(rc.Call.Args[0], func(v ssa.Value) []ssa.Value {
						if mi, ok := v.(*ssa.MakeInterface); ok {
							return []ssa.Value{mi.X}
						}
						return an.StepValue(v)
					}) {
						if o == buf || sameValue(o, buf) {
							okVal = true
						}
					}
				}
			}
			// key: the captured variable name, which the compiler took from node.Args
			okKey := false
			for _, o := range originsThroughCaptures(p, s.Call.Args[0]) {
				if strings.HasSuffix(describe(p, o), ".Args") {
					okKey = true
				}
			}
			if okVal && okKey {
				r.OK(name, "Set(node.Args, InnerString())", s.Pos(), "binds the rendered body under the tag's argument")
			} else {
				r.Bad(name, "capture binding", s.Pos(), fmt.Sprintf("capture must bind exactly ctx.InnerString() (ok: %v) under the tag argument (ok: %v)", okVal, okKey))
			}
		}
	}
	// assign
	if t := tagByName(roles, "assign"); t == nil || t.Renderer == nil {
		r.Bad("tag:assign", "registration", token.NoPos, "assign tag not resolved")
	} else {
		fn := t.Renderer
		name := roles.Label(fn)
		sets := callsNamed(fn, "(render.Context).Set")
		if len(sets) != 1 {
			r.Bad(name, "assign Set calls", an.FuncPos(fn), fmt.Sprintf("expected exactly one ctx.Set, found %d", len(sets)))
		}
		for _, s := range sets {
			val := an.Strip(s.Call.Args[1])
			okVal, okKey := false, false
			if ex, ok := val.(*ssa.Extract); ok && ex.Index == 0 {
				if c, ok := ex.Tuple.(*ssa.Call); ok && an.CallName(&c.Call) == "(render.Context).Evaluate" {
					for _, o := range originsThroughCaptures(p, c.Call.Args[0]) {
						if strings.HasSuffix(describe(p, an.Strip(o)), "Assignment.ValueFn") || isFieldOf(an.Strip(o), "expressions", "Assignment", "ValueFn") {
							okVal = true
						}
					}
				}
			}
			for _, o := range originsThroughCaptures(p, s.Call.Args[0]) {
				if strings.HasSuffix(describe(p, o), "Assignment.Variable") || isFieldOf(an.Strip(o), "expressions", "Assignment", "Variable") {
					okKey = true
				}
			}
			// and it happens whenever evaluation succeeded: no successful return avoids it
			skipped := false
			an.EachInstr(fn, func(in ssa.Instruction) {
				ret, ok := in.(*ssa.Return)
				if !ok {
					return
				}
				res := resultsOf(ret)
				if len(res) == 0 || instrDominates(s, ret) {
					return
				}
				ev := res[len(res)-1]
				if an.IsNilConst(ev) {
					skipped = true
					return
				}
				// `return err` is a success return too unless every path here has found err non-nil
				if !an.AllPathsGuarded(ret.Block(), func(cond ssa.Value, taken bool) bool {
					b, ok := cond.(*ssa.BinOp)
					if !ok || !(b.Op == token.NEQ && taken || b.Op == token.EQL && !taken) {
						return false
					}
					return an.IsNilConst(b.Y) && (b.X == ev || sameValue(b.X, ev)) || an.IsNilConst(b.X) && (b.Y == ev || sameValue(b.Y, ev))
				}) {
					skipped = true
				}
			})
			if skipped {
				r.Bad(name, "assign can succeed without binding", s.Pos(), "a successful return is reachable without ctx.Set: whatever the right-hand side evaluates to - nil included - the variable must be rebound")
			}
			if okVal && okKey {
				r.OK(name, "Set(Assignment.Variable, Evaluate(Assignment.ValueFn))", s.Pos(), "binds the evaluated right-hand side under the parsed name")
			} else {
				r.Bad(name, "assign binding", s.Pos(), fmt.Sprintf("assign must bind the evaluated Assignment.ValueFn (ok: %v) under Assignment.Variable (ok: %v)", okVal, okKey))
			}
		}
		for _, wp := range fn.Params {
			if !isIOWriter(wp.Type()) {
				continue
			}
			if refs := wp.Referrers(); refs != nil {
				for _, u := range *refs {
					if _, dbg := u.(*ssa.DebugRef); !dbg {
						r.Bad(name, "assign uses the output writer", an.FuncPos(fn), "assign must not produce output")
					}
				}
			}
		}
	}
	// InnerString renders the body into a buffer of its own
	if is := p.Func("(render.rendererContext).InnerString"); is == nil {
		r.Bad("(render.rendererContext).InnerString", "not found", token.NoPos, "anchor not resolved")
	} else {
		rc := callsNamed(is, "(render.rendererContext).RenderChildren")
		if len(rc) == 0 {
			// the body renderer handed, as a method value, to a helper that renders into a buffer of its own
			an.EachInstr(is, func(in ssa.Instruction) {
				site, ok := in.(*ssa.Call)
				if !ok {
					return
				}
				h := site.Call.StaticCallee()
				if h == nil || !p.InModule(h) || h.Blocks == nil || len(h.Params) != len(site.Call.Args) {
					return
				}
				for k, a := range site.Call.Args {
					mc, ok := a.(*ssa.MakeClosure)
					if !ok || an.FuncName(unwrapBound(mc.Fn.(*ssa.Function))) != "(render.rendererContext).RenderChildren" {
						continue
					}
					// in the helper: the one call of that parameter
					an.EachInstr(h, func(in2 ssa.Instruction) {
						if c2, ok := in2.(*ssa.Call); ok && c2.Call.Value == ssa.Value(h.Params[k]) {
							rc = append(rc, c2)
							is = h
						}
					})
				}
			})
		}
		if len(rc) != 1 {
			r.Bad(an.FuncName(is), "RenderChildren calls", an.FuncPos(is), fmt.Sprintf("expected one, found %d", len(rc)))
		} else {
			w := an.Strip(rc[0].Call.Args[len(rc[0].Call.Args)-1])
			fresh := true
			for _, o := range an.Origins(w, an.StepValue) {
				if _, ok := o.(*ssa.Alloc); !ok {
					fresh = false
				}
			}
			// and what is returned is that buffer's content
			retOK := false
			an.EachInstr(is, func(in ssa.Instruction) {
				if ret, ok := in.(*ssa.Return); ok {
					if c := an.CallOf(ret.Results[0]); c != nil && an.CallName(c) == "(*bytes.Buffer).String" && an.Strip(c.Args[0]) == w {
						retOK = true
					}
				}
			})
			if fresh && retOK {
				r.OK(an.FuncName(is), "renders the body into a buffer allocated by this call and returns its content", rc[0].Pos(), "nested and later captures cannot see or clobber it")
			} else {
				r.Bad(an.FuncName(is), "body not rendered into a buffer of its own", rc[0].Pos(), fmt.Sprintf("InnerString must render into a buffer allocated by that very call (fresh: %v) and return exactly its content (%v): a shared or recycled buffer lets a nested capture, or an earlier failed render, change what the variable holds", fresh, retOK))
			}
		}
	}
	// Set is a plain store into the single per-render map; Get reads it
	if set := p.Func("(render.rendererContext).Set"); set != nil {
		ok := false
		an.EachInstr(set, func(in ssa.Instruction) {
			if mu, isMU := in.(*ssa.MapUpdate); isMU {
				if mu.Key == ssa.Value(set.Params[1]) && mu.Value == ssa.Value(set.Params[2]) && strings.HasSuffix(describe(p, mu.Map), "ctx.bindings") {
					ok = true
				}
			}
		})
		if ok {
			r.OK("(render.rendererContext).Set", "bindings[name] = value", an.FuncPos(set), "stores the given value under the given name in the per-render map")
		} else {
			r.Bad("(render.rendererContext).Set", "Set is not bindings[name] = value", an.FuncPos(set), "Set must store exactly its arguments into the per-render bindings map")
		}
	} else {
		r.Bad("(render.rendererContext).Set", "not found", token.NoPos, "anchor not resolved")
	}
}

// ---------------------------------------------------------------------------
// B9

func runB9(p *an.Prog, r *an.Result) {
	roles := GetRoles(p)
	t := tagByName(roles, "include")
	if t == nil || t.Renderer == nil {
		r.Bad("tag:include", "registration", token.NoPos, "include tag not resolved")
		return
	}
	fn := t.Renderer
	name := roles.Label(fn)
	rf := callsNamed(fn, "(render.Context).RenderFile")
	// the renderer may delegate the second half (compose the name, render the file, write the result)
	// to a helper of its package: its parameters then stand for the arguments of the one call
	rfFn := fn
	up := func(v ssa.Value) ssa.Value { return v }
	if len(rf) == 0 {
		for _, h := range unitWithHelpers(p, fn) {
			if h == fn || h.Pkg != fn.Pkg {
				continue
			}
			if hr := callsNamed(h, "(render.Context).RenderFile"); len(hr) > 0 {
				var sites []*ssa.Call
				an.EachInstr(fn, func(in ssa.Instruction) {
					if c, ok := in.(*ssa.Call); ok && c.Call.StaticCallee() == h {
						sites = append(sites, c)
					}
				})
				if len(sites) == 1 {
					rf, rfFn = hr, h
					site := sites[0]
					up = func(v ssa.Value) ssa.Value {
						if par, ok := v.(*ssa.Parameter); ok {
							for i, pp := range h.Params {
								if pp == par && i < len(site.Call.Args) {
									return site.Call.Args[i]
								}
							}
						}
						return v
					}
				}
			}
		}
	}
	if len(rf) != 1 {
		r.Bad(name, "RenderFile calls", an.FuncPos(fn), fmt.Sprintf("expected one RenderFile call, found %d", len(rf)))
		return
	}
	// filename = filepath.Join(filepath.Dir(ctx.SourceFile()), rel)
	fnArg := rf[0].Call.Args[0]
	okJoin, okDir, okRel := false, false, false
	// the name may be composed by a helper of the package: its one result, with its parameters
	// standing for the arguments of the call
	bind := func(v ssa.Value) ssa.Value { return v }
	if hc, ok := fnArg.(*ssa.Call); ok {
		if h := hc.Call.StaticCallee(); h != nil && h.Blocks != nil && p.InModule(h) && h.Signature.Results().Len() == 1 {
			var rets []*ssa.Return
			an.EachInstr(h, func(in ssa.Instruction) {
				if ret, ok := in.(*ssa.Return); ok {
					rets = append(rets, ret)
				}
			})
			if len(rets) == 1 {
				fnArg = resultsOf(rets[0])[0]
				bind = func(v ssa.Value) ssa.Value {
					if par, ok := v.(*ssa.Parameter); ok {
						for i, pp := range h.Params {
							if pp == par && i < len(hc.Call.Args) {
								return hc.Call.Args[i]
							}
						}
					}
					return v
				}
			}
		}
	}
	if c := an.CallOf(fnArg); c != nil && an.CallName(c) == "path/filepath.Join" {
		okJoin = true
		// variadic slice elements
		var elems []ssa.Value
		if sl, ok := c.Args[0].(*ssa.Slice); ok {
			if al, ok := sl.X.(*ssa.Alloc); ok && al.Referrers() != nil {
				type idxVal struct {
					i int64
					v ssa.Value
				}
				var ivs []idxVal
				for _, u := range *al.Referrers() {
					if ia, ok := u.(*ssa.IndexAddr); ok && ia.Referrers() != nil {
						i, _ := an.ConstInt(ia.Index)
						for _, uu := range *ia.Referrers() {
							if st, ok := uu.(*ssa.Store); ok {
								ivs = append(ivs, idxVal{i, st.Val})
							}
						}
					}
				}
				sort.Slice(ivs, func(a, b int) bool { return ivs[a].i < ivs[b].i })
				for _, iv := range ivs {
					elems = append(elems, iv.v)
				}
			}
		}
		if len(elems) == 2 {
			if d := an.CallOf(elems[0]); d != nil && an.CallName(d) == "path/filepath.Dir" {
				if s := an.CallOf(bind(d.Args[0])); s != nil && an.CallName(s) == "(render.Context).SourceFile" {
					okDir = true
				}
			}
			// rel: the checked string assertion of the evaluated argument
			if ex, ok := up(bind(elems[1])).(*ssa.Extract); ok && ex.Index == 0 {
				if ta, ok := ex.Tuple.(*ssa.TypeAssert); ok && ta.CommaOk {
					if b, ok := ta.AssertedType.(*types.Basic); ok && b.Kind() == types.String {
						for _, o := range an.Origins(ta.X, an.StepValue) {
							if e2, ok := o.(*ssa.Extract); ok {
								if ec, ok := e2.Tuple.(*ssa.Call); ok && (an.CallName(&ec.Call) == "(render.Context).EvaluateString" || an.CallName(&ec.Call) == "(render.Context).Evaluate") {
									okRel = true
								}
							}
						}
					}
				}
			}
		}
	}
	// the expression evaluated is the whole tag argument, unmodified
	okArgs := false
	for _, ev := range append(callsNamed(fn, "(render.Context).EvaluateString"), callsNamed(fn, "(render.Context).Evaluate")...) {
		if c := an.CallOf(ev.Call.Args[0]); c != nil && an.CallName(c) == "(render.Context).TagArgs" {
			okArgs = true
		}
	}
	if !okArgs {
		r.Bad(name, "include does not evaluate the tag arguments as they are", an.FuncPos(fn), "the include expression must be ctx.TagArgs() itself: cutting or rewriting it changes which file a filtered expression names")
	}
	if okJoin && okDir && okRel {
		r.OK(name, "RenderFile(Join(Dir(SourceFile()), evaluated string))", rf[0].Pos(), "path relative to the includer's directory; argument checked to be a string")
	} else {
		r.Bad(name, "include path composition", rf[0].Pos(), fmt.Sprintf("the file name must be filepath.Join (%v) of filepath.Dir(ctx.SourceFile()) (%v) and the comma-ok string assertion of the evaluated argument (%v)", okJoin, okDir, okRel))
	}
	// a failed assertion returns ctx.Errorf
	okErrf := false
	an.EachInstr(fn, func(in ssa.Instruction) {
		if ta, ok := in.(*ssa.TypeAssert); ok && ta.CommaOk && ta.Referrers() != nil {
			for _, u := range *ta.Referrers() {
				if ex, ok := u.(*ssa.Extract); ok && ex.Index == 1 && ex.Referrers() != nil {
					for _, uu := range *ex.Referrers() {
						if ifi, ok := uu.(*ssa.If); ok {
							for _, in2 := range ifi.Block().Succs[1].Instrs {
								if c, ok := in2.(*ssa.Call); ok && an.CallName(&c.Call) == "(render.Context).Errorf" {
									okErrf = true
								}
							}
						}
					}
				}
			}
		}
	})
	if okErrf {
		r.OK(name, "non-string argument returns ctx.Errorf", an.FuncPos(fn), "the failed-assertion edge builds a located error")
	} else {
		r.Bad(name, "non-string argument is not rejected with ctx.Errorf", an.FuncPos(fn), "a non-string include argument must fail the render with a located error")
	}
	// the rendered string is what is written
	okWrite := false
	an.EachCall(rfFn, func(ci ssa.CallInstruction) {
		c := ci.Common()
		if an.CallName(c) == "io.WriteString" && len(c.Args) == 2 {
			if ex, ok := c.Args[1].(*ssa.Extract); ok && ex.Tuple == ssa.Value(rf[0]) && ex.Index == 0 && up(c.Args[0]) == ssa.Value(fn.Params[0]) {
				okWrite = true
			}
		}
	})
	if okWrite {
		r.OK(name, "writes exactly the string RenderFile returned", an.FuncPos(fn), "io.WriteString(w, s)")
	} else {
		r.Bad(name, "included output is not written unchanged", an.FuncPos(fn), "the result of RenderFile must be written to the tag's writer as is")
	}

	// RenderFile
	rfn := p.Func("(render.rendererContext).RenderFile")
	if rfn == nil {
		r.Bad("(render.rendererContext).RenderFile", "not found", token.NoPos, "anchor not resolved")
		return
	}
	rname := an.FuncName(rfn)
	// the function that reads the file: RenderFile itself or a helper it calls
	var reads []*ssa.Call
	readFn := rfn
	for _, f := range unitWithHelpers(p, rfn) {
		if rs := callsNamed(f, "os.ReadFile"); len(rs) > 0 {
			reads = append(reads, rs...)
			readFn = f
		}
	}
	if len(reads) != 1 {
		r.Bad(rname, "os.ReadFile calls", an.FuncPos(rfn), fmt.Sprintf("expected one os.ReadFile, found %d", len(reads)))
		return
	}
	compileFn := rfn
	rfn = readFn
	var readErr ssa.Value
	if reads[0].Referrers() != nil {
		for _, u := range *reads[0].Referrers() {
			if ex, ok := u.(*ssa.Extract); ok && ex.Index == 1 {
				readErr = ex
			}
		}
	}
	// every Cache lookup is under err != nil && os.IsNotExist(err)
	lookups := 0
	an.EachInstr(rfn, func(in ssa.Instruction) {
		lk, ok := in.(*ssa.Lookup)
		if !ok || !strings.HasSuffix(describe(p, lk.X), ".Cache") {
			return
		}
		lookups++
		hasErr, hasNotExist := false, false
		for _, g := range an.GuardsAtInstr(lk) {
			if b, ok := g.Cond.(*ssa.BinOp); ok && (b.Op == token.NEQ && g.True || b.Op == token.EQL && !g.True) && b.X == readErr && an.IsNilConst(b.Y) {
				hasErr = true
			}
			if c := an.CallOf(g.Cond); c != nil && g.True && an.CallName(c) == "os.IsNotExist" && c.Args[0] == readErr {
				hasNotExist = true
			}
		}
		if hasErr && hasNotExist {
			r.OK(rname, "Cache consulted only when the file does not exist", lk.Pos(), "dominated by err != nil && os.IsNotExist(err) of the disk read")
		} else {
			r.Bad(rname, "Cache consulted without the file-missing test", lk.Pos(), "a file on disk must take precedence over cached source: the cache lookup must be under err != nil && os.IsNotExist(err)")
		}
		if !instrDominates(reads[0], lk) {
			r.Bad(rname, "Cache consulted before the disk", lk.Pos(), "the disk read must come first")
		}
	})
	if lookups == 0 {
		r.Bad(rname, "no Cache lookup", an.FuncPos(rfn), "source registered with ParseTemplateAndCache is never used")
	}
	// other read errors are returned
	fl := flowOfError(readErr)
	if fl.toReturn {
		r.OK(rname, "read errors are returned", reads[0].Pos(), "the os.ReadFile error flows to a return")
	} else {
		r.Bad(rname, "read errors are not returned", reads[0].Pos(), "a read error other than not-exist must fail the include")
	}
	// rendered with a map made here, filled from the live bindings, and with the caller's config
	// the source compiled is the source read (or the cache entry)
	cc := callsNamed(compileFn, "(render.Config).Compile")
	okSrc := len(cc) == 1
	if okSrc {
		okSrc = false
		for _, o := range an.Origins(cc[0].Call.Args[1], an.StepValue) {
			_ = o
			okSrc = true
		}
	}
	if !okSrc {
		r.Bad(rname, "Compile of the read source", an.FuncPos(compileFn), "the source that was read must be what is compiled")
	}
	// the cache is filled under the path it was given: every update of a Cache map in the module uses
	// a parameter of the function as the key, unchanged (an alias under the base name makes a missing
	// file resolve to some other path's source)
	for _, f := range p.Funcs {
		if f.Blocks == nil || isMainPkg(f) {
			continue
		}
		an.EachInstr(f, func(in ssa.Instruction) {
			mu, ok := in.(*ssa.MapUpdate)
			if !ok || !strings.HasSuffix(describe(p, mu.Map), ".Cache") {
				return
			}
			r.Counts["cache updates"]++
			keyOK := true
			for _, o := range an.Origins(mu.Key, an.StepValue) {
				if _, isPar := o.(*ssa.Parameter); !isPar {
					keyOK = false
				}
			}
			if keyOK {
				r.OK(an.FuncName(f), "cache entry stored under the path given", in.Pos(), "")
			} else {
				r.Bad(an.FuncName(f), "cache entry stored under a computed key ("+describe(p, mu.Key)+")", in.Pos(), "the include cache is consulted with the full path of the missing file; an entry stored under anything but the path the caller registered makes other names resolve to this source")
			}
		})
	}
	// an entry registered after a template was parsed is still found by that template: either the cache map
	// is only ever updated in place (a copy of the configuration shares it), or a template reaches the
	// configuration through a pointer to the engine's (and so sees a map that replaced the old one)
	{
		var replaced token.Pos
		var replacedIn string
		for _, f := range p.Funcs {
			if f.Blocks == nil || isMainPkg(f) {
				continue
			}
			an.EachInstr(f, func(in ssa.Instruction) {
				st, ok := in.(*ssa.Store)
				if !ok {
					return
				}
				fa, ok := st.Addr.(*ssa.FieldAddr)
				if !ok || fieldName(fa) != "Cache" {
					return
				}
				if _, isMap := st.Val.Type().Underlying().(*types.Map); !isMap {
					return
				}
				// where the configuration is being built (the struct is allocated here, or this is its constructor)
				if _, fresh := an.Deref(fa.X).(*ssa.Alloc); fresh {
					return
				}
				if al, fresh := fa.X.(*ssa.Alloc); fresh && al.Heap {
					return
				}
				for _, o := range an.Origins(fa.X, an.StepBase) {
					if _, isAl := o.(*ssa.Alloc); isAl {
						return
					}
				}
				if strings.HasPrefix(f.Name(), "New") {
					return
				}
				replaced, replacedIn = in.Pos(), an.FuncName(f)
			})
		}
		byValue := ""
		for _, n := range moduleNamedTypes(p) {
			st, ok := n.Underlying().(*types.Struct)
			if !ok || n.Obj().Pkg() == nil || an.RelPkg(n.Obj().Pkg().Path()) != "" || n.Obj().Name() != "Template" {
				continue
			}
			for i := 0; i < st.NumFields(); i++ {
				if isNamedIn(st.Field(i).Type(), "render", "Config") {
					byValue = n.Obj().Name() + "." + st.Field(i).Name()
				}
			}
		}
		r.Counts["cache identity"]++
		switch {
		case replaced.IsValid() && byValue != "":
			r.Bad(replacedIn, "the cache map is replaced while templates hold a copy of the configuration", replaced, fmt.Sprintf("%s stores a new map into the Cache field and %s is a render.Config by value, copied when the template was parsed: source registered afterwards is never found by an include of that template", replacedIn, byValue))
		case replaced.IsValid():
			r.OK(replacedIn, "the cache map is replaced, templates reach the configuration by pointer", replaced, "")
		default:
			r.OK(rname, "the cache map is only ever updated in place", an.FuncPos(rfn), "a copy of the configuration shares it")
		}
	}
	// ... at the location of the include tag: a nested include resolves its name against the path of
	// the template that was parsed, and an error inside the included text is reported at the tag
	if len(cc) == 1 && len(cc[0].Call.Args) >= 3 {
		locOK := true
		for _, o := range an.Origins(cc[0].Call.Args[len(cc[0].Call.Args)-1], an.StepValue) {
			ld, ok := o.(*ssa.UnOp)
			if !ok {
				locOK = false
				continue
			}
			fa, ok := ld.X.(*ssa.FieldAddr)
			if !ok || fieldName(fa) != "SourceLoc" {
				locOK = false
			}
		}
		if locOK {
			r.OK(rname, "the included source is compiled at the include tag's location", cc[0].Pos(), "Compile(source, node.SourceLoc)")
		} else {
			r.Bad(rname, "the included source is compiled at another location", cc[0].Pos(), "the location handed to Compile is not the SourceLoc of the including node: includes inside the included text would resolve against another directory, and errors would be reported elsewhere")
		}
	}
}

// ---------------------------------------------------------------------------
// linear forms

type linForm struct {
	coef map[ssa.Value]int64
	c    int64
}

func linOf(v ssa.Value, depth int) linForm {
	lf := linForm{coef: map[ssa.Value]int64{}}
	if depth > 10 {
		lf.coef[v] = 1
		return lf
	}
	if c, ok := an.ConstInt(v); ok {
		lf.c = c
		return lf
	}
	add := func(a linForm, k int64) {
		lf.c += k * a.c
		for x, cf := range a.coef {
			merged := false
			for y := range lf.coef {
				if eqVal(x, y) {
					lf.coef[y] += k * cf
					merged = true
					break
				}
			}
			if !merged {
				lf.coef[x] = k * cf
			}
		}
	}
	switch x := v.(type) {
	case *ssa.BinOp:
		switch x.Op {
		case token.ADD:
			add(linOf(x.X, depth+1), 1)
			add(linOf(x.Y, depth+1), 1)
			return lf
		case token.SUB:
			add(linOf(x.X, depth+1), 1)
			add(linOf(x.Y, depth+1), -1)
			return lf
		case token.MUL:
			if c, ok := an.ConstInt(x.Y); ok {
				add(linOf(x.X, depth+1), c)
				return lf
			}
			if c, ok := an.ConstInt(x.X); ok {
				add(linOf(x.Y, depth+1), c)
				return lf
			}
		}
	case *ssa.Convert:
		if bt, ok := x.X.Type().Underlying().(*types.Basic); ok && bt.Info()&types.IsInteger != 0 {
			return linOf(x.X, depth+1)
		}
	case *ssa.ChangeType:
		return linOf(x.X, depth+1)
	}
	lf.coef[v] = 1
	return lf
}

// is reports whether the form equals sum(want[atom]*atom) + c, atoms matched by eqVal.
func (lf linForm) is(c int64, want map[ssa.Value]int64) bool {
	if lf.c != c {
		return false
	}
	used := map[ssa.Value]bool{}
	for x, cf := range lf.coef {
		if cf == 0 {
			continue
		}
		found := false
		for y, wc := range want {
			if eqVal(x, y) {
				if wc != cf {
					return false
				}
				used[y] = true
				found = true
			}
		}
		if !found {
			return false
		}
	}
	for y, wc := range want {
		if wc != 0 && !used[y] {
			return false
		}
	}
	return true
}

func (lf linForm) minus(o linForm) linForm {
	out := linForm{coef: map[ssa.Value]int64{}, c: lf.c - o.c}
	for x, cf := range lf.coef {
		out.coef[x] = cf
	}
	for x, cf := range o.coef {
		merged := false
		for y := range out.coef {
			if eqVal(x, y) {
				out.coef[y] -= cf
				merged = true
				break
			}
		}
		if !merged {
			out.coef[x] = -cf
		}
	}
	return out
}

// ---------------------------------------------------------------------------
// B10

func runB10(p *an.Prog, r *an.Result) {
	var fn *ssa.Function
	for _, f := range p.Funcs {
		if isLoopFunction(f) {
			fn = f
		}
	}
	if fn == nil {
		r.Bad("-", "loop function not found", token.NoPos, "anchor not resolved")
		return
	}
	name := an.FuncName(fn)
	// the iterator: the parameter whose interface type has Len and Index
	var iterPar ssa.Value
	for _, par := range fn.Params {
		if it, ok := par.Type().Underlying().(*types.Interface); ok {
			hasLen, hasIdx := false, false
			for k := 0; k < it.NumMethods(); k++ {
				switch it.Method(k).Name() {
				case "Len":
					hasLen = true
				case "Index":
					hasIdx = true
				}
			}
			if hasLen && hasIdx {
				iterPar = par
			}
		}
	}
	if iterPar == nil {
		r.Bad(name, "iterator parameter not found", an.FuncPos(fn), "the loop function must be handed the iterator (an interface with Len and Index)")
		return
	}
	// l = iter.Len(); i = phi(0, i+1); loop condition i < l
	var l *ssa.Call
	an.EachInstr(fn, func(in ssa.Instruction) {
		if c, ok := in.(*ssa.Call); ok && c.Call.IsInvoke() && c.Call.Method.Name() == "Len" && c.Call.Value == iterPar {
			l = c
		}
	})
	if l == nil {
		r.Bad(name, "iter.Len() not found", an.FuncPos(fn), "the loop must take its length from the iterator")
		return
	}
	var i *ssa.Phi
	an.EachInstr(fn, func(in ssa.Instruction) {
		ph, ok := in.(*ssa.Phi)
		if !ok || len(ph.Edges) != 2 {
			return
		}
		var init, step bool
		for _, e := range ph.Edges {
			if c, ok := an.ConstInt(e); ok && c == 0 {
				init = true
			}
			if t := norm(e); t.v == ssa.Value(ph) && t.off == 1 {
				step = true
			}
		}
		if init && step {
			i = ph
		}
	})
	if i == nil {
		r.Bad(name, "loop counter", an.FuncPos(fn), "no counter of the form i = 0; i++ found")
		return
	}
	// the loop condition
	okCond := false
	if i.Referrers() != nil {
		for _, u := range *i.Referrers() {
			if b, ok := u.(*ssa.BinOp); ok && b.Op == token.LSS && b.X == ssa.Value(i) && b.Y == ssa.Value(l) && b.Referrers() != nil {
				for _, uu := range *b.Referrers() {
					if ifi, ok := uu.(*ssa.If); ok && ifi.Block() == i.Block() {
						okCond = true
					}
				}
			}
		}
	}
	if okCond {
		r.OK(name, "for i := 0; i < iter.Len(); i++", i.Pos(), "counter starts at 0, steps by 1, runs while i < l")
	} else {
		r.Bad(name, "loop bounds", i.Pos(), "the loop must run i from 0 while i < iter.Len()")
	}
	// the element bound to the loop variable is iter.Index(i)
	okIdx := false
	an.EachInstr(fn, func(in ssa.Instruction) {
		if c, ok := in.(*ssa.Call); ok && c.Call.IsInvoke() && c.Call.Method.Name() == "Index" && c.Call.Value == iterPar && c.Call.Args[0] == ssa.Value(i) {
			okIdx = true
		}
	})
	if okIdx {
		r.OK(name, "loop variable = iter.Index(i)", i.Pos(), "")
	} else {
		r.Bad(name, "loop variable is not iter.Index(i)", i.Pos(), "the item of iteration i must be iter.Index(i)")
	}
	// the forloop map
	records := map[*ssa.MakeMap]bool{}
	fields := map[string]ssa.Value{}
	pos := map[string]token.Pos{}
	// the record may be built by a helper that is handed i and l: its parameters stand for the arguments
	subst := map[ssa.Value]ssa.Value{}
	recordAt := map[*ssa.MakeMap]*ssa.BasicBlock{} // where, in fn, the record comes into being
	for _, f := range unitWithHelpers(p, fn) {
		if f.Parent() != nil && f != fn {
			continue
		}
		var site *ssa.Call
		if f != fn {
			cs := callSitesOf(p, f)
			if len(cs) != 1 || cs[0].Parent() != fn {
				continue
			}
			site = cs[0]
			for k, fp := range f.Params {
				if k < len(site.Call.Args) {
					subst[fp] = site.Call.Args[k]
				}
			}
		}
		an.EachInstr(f, func(in ssa.Instruction) {
			mu, ok := in.(*ssa.MapUpdate)
			if !ok {
				return
			}
			mm, isMake := mu.Map.(*ssa.MakeMap)
			if !isMake {
				return
			}
			if k, ok := an.ConstString(mu.Key); ok {
				fields[k] = an.Strip(mu.Value)
				pos[k] = mu.Pos()
				records[mm] = true
				if site != nil {
					recordAt[mm] = site.Block()
				} else {
					recordAt[mm] = mm.Block()
				}
			}
		})
	}
	// linear forms with the helper's parameters replaced by what it was handed
	lin := func(v ssa.Value) linForm {
		lf := linOf(v, 0)
		out := linForm{coef: map[ssa.Value]int64{}, c: lf.c}
		for x, cf := range lf.coef {
			if y, ok := subst[x]; ok {
				sub := linOf(y, 0)
				out.c += cf * sub.c
				for z, cz := range sub.coef {
					out.coef[z] += cf * cz
				}
			} else {
				out.coef[x] += cf
			}
		}
		return out
	}
	// the record is a new map in every iteration: a template can keep it (assign f = forloop) and must
	// find the values of the iteration in which it took it
	for mm := range records {
		if ib, ok := ssa.Value(i).(*ssa.Phi); ok && recordAt[mm] != nil && ib.Block().Dominates(recordAt[mm]) && recordAt[mm] != ib.Block() {
			r.OK(name, "the forloop record is allocated inside the loop", mm.Pos(), "one map per iteration")
		} else {
			r.Bad(name, "the forloop record is shared by all iterations", mm.Pos(), "the loop record is allocated once and overwritten: a value that holds the record (assign f = forloop) changes under the template's feet")
		}
	}
	I, L := ssa.Value(i), ssa.Value(l)
	ints := map[string]struct {
		c    int64
		want map[ssa.Value]int64
		text string
	}{
		"index":   {1, map[ssa.Value]int64{I: 1}, "i+1"},
		"index0":  {0, map[ssa.Value]int64{I: 1}, "i"},
		"rindex":  {0, map[ssa.Value]int64{L: 1, I: -1}, "l-i"},
		"rindex0": {-1, map[ssa.Value]int64{L: 1, I: -1}, "l-i-1"},
		"length":  {0, map[ssa.Value]int64{L: 1}, "l"},
	}
	var names []string
	for k := range ints {
		names = append(names, k)
	}
	sort.Strings(names)
	for _, k := range names {
		v, ok := fields[k]
		r.Counts["forloop fields"]++
		if !ok {
			r.Bad(name, "forloop."+k+" missing", an.FuncPos(fn), "the loop record lacks this field")
			continue
		}
		if lin(v).is(ints[k].c, ints[k].want) {
			r.OK(name, "forloop."+k+" = "+ints[k].text, pos[k], "linear normal form over the counter i and l = iter.Len()")
		} else {
			r.Bad(name, "forloop."+k+" is not "+ints[k].text, pos[k], fmt.Sprintf("forloop.%s must equal %s in iteration i of l", k, ints[k].text))
		}
	}
	bools := map[string]struct {
		c    int64
		want map[ssa.Value]int64
		text string
	}{
		"first": {0, map[ssa.Value]int64{I: 1}, "i == 0"},
		"last":  {1, map[ssa.Value]int64{I: 1, L: -1}, "i == l-1"},
	}
	for _, k := range []string{"first", "last"} {
		v, ok := fields[k]
		r.Counts["forloop fields"]++
		if !ok {
			r.Bad(name, "forloop."+k+" missing", an.FuncPos(fn), "the loop record lacks this field")
			continue
		}
		b, isBin := v.(*ssa.BinOp)
		good := false
		if isBin && b.Op == token.EQL {
			d := lin(b.X).minus(lin(b.Y))
			neg := map[ssa.Value]int64{}
			for a, c := range bools[k].want {
				neg[a] = -c
			}
			good = d.is(bools[k].c, bools[k].want) || d.is(-bools[k].c, neg)
		}
		if good {
			r.OK(name, "forloop."+k+" = ("+bools[k].text+")", pos[k], "difference of the compared sides in linear normal form")
		} else {
			r.Bad(name, "forloop."+k+" is not ("+bools[k].text+")", pos[k], fmt.Sprintf("forloop.%s must be %s", k, bools[k].text))
		}
	}
	r.Floor("forloop fields", 7)
}

// ---------------------------------------------------------------------------
// B11

func runB11(p *an.Prog, r *an.Result) {
	// For a wrapper method, express results/arguments over atoms: parameter i,
	// field n of the receiver, and inner.Len().
	type spec struct {
		typ       string
		lenCheck  func(fn *ssa.Function) (bool, string)
		idxOffset func(fn *ssa.Function) (bool, string)
	}
	// the wrapped iterable is the receiver's interface-typed field; the count its integer field
	isInnerField := func(v ssa.Value) bool {
		v = an.Deref(v)
		var owner types.Type
		var ft types.Type
		switch x := v.(type) {
		case *ssa.Field:
			owner, ft = x.X.Type(), x.Type()
		case *ssa.UnOp:
			if fa, ok := x.X.(*ssa.FieldAddr); ok {
				owner, ft = fa.X.Type().Underlying().(*types.Pointer).Elem(), x.Type()
			}
		}
		return owner != nil && an.IsInterface(ft) && strings.HasSuffix(an.TypeName(owner), "Wrapper")
	}
	innerCall := func(fn *ssa.Function, method string) []*ssa.Call {
		var out []*ssa.Call
		an.EachInstr(fn, func(in ssa.Instruction) {
			if c, ok := in.(*ssa.Call); ok && c.Call.IsInvoke() && c.Call.Method.Name() == method && isInnerField(c.Call.Value) {
				out = append(out, c)
			}
		})
		return out
	}
	fieldN := func(fn *ssa.Function) ssa.Value {
		var out ssa.Value
		an.EachInstr(fn, func(in ssa.Instruction) {
			v, ok := in.(ssa.Value)
			if !ok {
				return
			}
			bt, isB := v.Type().Underlying().(*types.Basic)
			if !isB || bt.Info()&types.IsInteger == 0 {
				return
			}
			switch x := v.(type) {
			case *ssa.Field:
				if strings.HasSuffix(an.TypeName(x.X.Type()), "Wrapper") {
					out = v
				}
			case *ssa.UnOp:
				if fa, ok := x.X.(*ssa.FieldAddr); ok && strings.HasSuffix(an.TypeName(fa.X.Type().Underlying().(*types.Pointer).Elem()), "Wrapper") {
					out = v
				}
			}
		})
		return out
	}
	ret0 := func(fn *ssa.Function) ssa.Value {
		var out ssa.Value
		an.EachInstr(fn, func(in ssa.Instruction) {
			if ret, ok := in.(*ssa.Return); ok && len(ret.Results) == 1 {
				out = resultsOf(ret)[0]
			}
		})
		return out
	}
	check := func(tname, method string, f func(fn *ssa.Function) (bool, string), text string) {
		fn := p.Func("(tags." + tname + ")." + method)
		r.Counts["wrapper methods"]++
		if fn == nil {
			r.Bad("(tags."+tname+")."+method, "not found", token.NoPos, "anchor not resolved")
			return
		}
		if ok, why := f(fn); ok {
			r.OK(an.FuncName(fn), text, an.FuncPos(fn), why)
		} else {
			r.Bad(an.FuncName(fn), "not "+text, an.FuncPos(fn), why)
		}
	}
	// Index maps
	idxArg := func(fn *ssa.Function) (linForm, *ssa.Call, bool) {
		cs := innerCall(fn, "Index")
		if len(cs) != 1 {
			return linForm{}, nil, false
		}
		// the method returns that call
		if ret0(fn) != ssa.Value(cs[0]) {
			return linForm{}, nil, false
		}
		return linOf(cs[0].Call.Args[0], 0), cs[0], true
	}
	check("reverseWrapper", "Index", func(fn *ssa.Function) (bool, string) {
		lf, _, ok := idxArg(fn)
		ls := innerCall(fn, "Len")
		if !ok || len(ls) == 0 {
			return false, "must return w.i.Index(w.i.Len() - 1 - i)"
		}
		return lf.is(-1, map[ssa.Value]int64{ls[0]: 1, fn.Params[1]: -1}), "argument in linear normal form: Len() - 1 - i"
	}, "Index(i) = inner.Index(inner.Len()-1-i)")
	check("reverseWrapper", "Len", func(fn *ssa.Function) (bool, string) {
		ls := innerCall(fn, "Len")
		return len(ls) == 1 && ret0(fn) == ssa.Value(ls[0]), "returns inner.Len()"
	}, "Len() = inner.Len()")
	check("offsetWrapper", "Index", func(fn *ssa.Function) (bool, string) {
		lf, _, ok := idxArg(fn)
		n := fieldN(fn)
		if !ok || n == nil {
			return false, "must return w.i.Index(i + w.n)"
		}
		return lf.is(0, map[ssa.Value]int64{fn.Params[1]: 1, n: 1}), "argument in linear normal form: i + n"
	}, "Index(i) = inner.Index(i+n)")
	check("offsetWrapper", "Len", func(fn *ssa.Function) (bool, string) {
		ls := innerCall(fn, "Len")
		n := fieldN(fn)
		res := ret0(fn)
		if len(ls) != 1 || n == nil || res == nil {
			return false, "must return max(0, inner.Len() - n)"
		}
		c := an.CallOf(res)
		var cargs []ssa.Value
		if c != nil && (an.CallName(c) == "tags.intMax" || an.CallName(c) == "builtin.max") {
			cargs = c.Args
		} else if kind, x, y, ok := inlineMinMax(fn); ok && kind == "max" {
			cargs = []ssa.Value{x, y}
		} else {
			return false, "must return max(0, inner.Len() - n)"
		}
		zero, diff := false, false
		for _, a := range cargs {
			if k, ok := an.ConstInt(a); ok && k == 0 {
				zero = true
			} else if linOf(a, 0).is(0, map[ssa.Value]int64{ls[0]: 1, n: -1}) {
				diff = true
			}
		}
		return zero && diff, "max(0, Len() - n) with the difference in linear normal form"
	}, "Len() = max(0, inner.Len()-n)")
	check("limitWrapper", "Index", func(fn *ssa.Function) (bool, string) {
		lf, _, ok := idxArg(fn)
		if !ok {
			return false, "must return w.i.Index(i)"
		}
		return lf.is(0, map[ssa.Value]int64{fn.Params[1]: 1}), "argument in linear normal form: i"
	}, "Index(i) = inner.Index(i)")
	check("limitWrapper", "Len", func(fn *ssa.Function) (bool, string) {
		ls := innerCall(fn, "Len")
		n := fieldN(fn)
		res := ret0(fn)
		if len(ls) != 1 || n == nil || res == nil {
			return false, "must return min(n, inner.Len())"
		}
		c := an.CallOf(res)
		var cargs []ssa.Value
		if c != nil && (an.CallName(c) == "tags.intMin" || an.CallName(c) == "builtin.min") {
			cargs = c.Args
		} else if kind, x, y, ok := inlineMinMax(fn); ok && kind == "min" {
			cargs = []ssa.Value{x, y}
		} else {
			return false, "must return min(n, inner.Len())"
		}
		hasN, hasL := false, false
		for _, a := range cargs {
			if eqVal(a, n) {
				hasN = true
			}
			if a == ssa.Value(ls[0]) {
				hasL = true
			}
		}
		return hasN && hasL, "min(n, Len())"
	}, "Len() = min(n, inner.Len())")
	// intMax / intMin really are max and min
	for _, mm := range []struct {
		name string
		max  bool
	}{{"tags.intMax", true}, {"tags.intMin", false}} {
		fn := p.Func(mm.name)
		if fn == nil {
			continue // builtins in use
		}
		r.Counts["wrapper methods"]++
		ok := false
		// if a > b {return a}; return b   (or < for min)
		an.EachInstr(fn, func(in ssa.Instruction) {
			ifi, isIf := in.(*ssa.If)
			if !isIf {
				return
			}
			b, isB := ifi.Cond.(*ssa.BinOp)
			if !isB {
				return
			}
			retOf := func(blk *ssa.BasicBlock) ssa.Value {
				for _, x := range blk.Instrs {
					if rt, ok := x.(*ssa.Return); ok {
						return rt.Results[0]
					}
				}
				return nil
			}
			t, f := retOf(ifi.Block().Succs[0]), retOf(ifi.Block().Succs[1])
			if t == nil || f == nil {
				return
			}
			x, y := b.X, b.Y
			switch b.Op {
			case token.GTR, token.GEQ: // x > y
				if mm.max {
					ok = t == x && f == y
				} else {
					ok = t == y && f == x
				}
			case token.LSS, token.LEQ:
				if mm.max {
					ok = t == y && f == x
				} else {
					ok = t == x && f == y
				}
			}
		})
		if ok {
			r.OK(mm.name, "returns the larger/smaller of its two arguments", an.FuncPos(fn), "compare-and-return shape")
		} else {
			r.Bad(mm.name, "is not max/min", an.FuncPos(fn), "the helper must return the larger (intMax) / smaller (intMin) argument")
		}
	}
	// the offset/limit wrappers are constructed from the evaluated modifier under the documented sign tests
	am := p.Func("tags.applyLoopModifiers")
	if am != nil {
		an.EachInstr(am, func(in ssa.Instruction) {
			al, ok := in.(*ssa.Alloc)
			if !ok {
				return
			}
			n := an.NamedOf(al.Type())
			if n == nil || (n.Obj().Name() != "offsetWrapper" && n.Obj().Name() != "limitWrapper") {
				return
			}
			r.Counts["wrapper methods"]++
			var nval ssa.Value
			if al.Referrers() != nil {
				for _, u := range *al.Referrers() {
					if fa, ok := u.(*ssa.FieldAddr); ok && fa.Field == 1 && fa.Referrers() != nil {
						for _, uu := range *fa.Referrers() {
							if st, ok := uu.(*ssa.Store); ok {
								nval = st.Val
							}
						}
					}
				}
			}
			if nval == nil {
				r.Bad(an.FuncName(am), n.Obj().Name()+".n", al.Pos(), "count not found")
				return
			}
			nn := &nonNeg{p: p, memo: map[*ssa.Function]int{}}
			if nn.value(nval, al, 0) {
				r.OK(an.FuncName(am), n.Obj().Name()+" built with a non-negative count", al.Pos(), "dominated by a sign test of the evaluated modifier")
			} else {
				r.Bad(an.FuncName(am), n.Obj().Name()+" built with a possibly negative count", al.Pos(), "a negative offset/limit must not reach the wrapper: Index(i+n) / min(n, len) would select the wrong items")
			}
		})
	}
	r.Floor("wrapper methods", 8)
}

func runB9v(p *an.Prog, r *an.Result) {
	rfn := p.Func("(render.rendererContext).RenderFile")
	if rfn == nil {
		r.Bad("(render.rendererContext).RenderFile", "not found", token.NoPos, "anchor not resolved")
		return
	}
	rname := an.FuncName(rfn)
	rcall, bind := findCallIP(p, rfn, "render.Render")
	if rcall == nil {
		r.Bad(rname, "Render calls", an.FuncPos(rfn), "expected exactly one render.Render call in RenderFile (or in one helper it calls)")
		return
	}
	rc := []*ssa.Call{rcall}
	bm := bind(rc[0].Call.Args[2])
	fresh := true
	for _, o := range an.Origins(bm, an.StepValue) {
		if _, ok := o.(*ssa.MakeMap); !ok {
			fresh = false
		}
	}
	filled := filledFromBindings(p, rfn)
	okCfg := strings.HasSuffix(describe(p, bind(rc[0].Call.Args[3])), "ctx.config")
	if fresh && filled && okCfg {
		r.OK(rname, "renders with a new map filled from the live variables and the caller's config", rc[0].Pos(), "make + range over c.ctx.bindings; config passed through")
	} else {
		r.Bad(rname, "include bindings/config", rc[0].Pos(), fmt.Sprintf("the included template must be rendered with a map made here (%v), filled from the includer's current variables (%v), and the includer's configuration (%v)", fresh, filled, okCfg))
	}
}

// filledFromBindings: the function ranges over (or maps.Copy-s from) the live bindings map.
func filledFromBindings(p *an.Prog, fn *ssa.Function) bool {
	filled := false
	an.EachInstr(fn, func(in ssa.Instruction) {
		switch x := in.(type) {
		case *ssa.Range:
			if strings.HasSuffix(describe(p, x.X), "ctx.bindings") {
				filled = true
			}
		case *ssa.Call:
			if cn := an.CallName(&x.Call); strings.HasPrefix(cn, "maps.Copy") && len(x.Call.Args) == 2 && strings.HasSuffix(describe(p, x.Call.Args[1]), "ctx.bindings") {
				filled = true
			}
			// a copying helper of the module: it ranges over the parameter that is handed the live bindings
			if h := x.Call.StaticCallee(); h != nil && p.InModule(h) && h.Blocks != nil && len(h.Params) == len(x.Call.Args) {
				for k, a := range x.Call.Args {
					if !strings.HasSuffix(describe(p, a), "ctx.bindings") {
						continue
					}
					an.EachInstr(h, func(in2 ssa.Instruction) {
						if rg, ok := in2.(*ssa.Range); ok && rg.X == ssa.Value(h.Params[k]) {
							filled = true
						}
					})
				}
			}
		}
	})
	return filled
}

func runB13(p *an.Prog, r *an.Result) {
	roles := GetRoles(p)
	t := tagByName(roles, "cycle")
	if t == nil || t.Renderer == nil {
		r.Bad("tag:cycle", "registration", token.NoPos, "cycle tag not resolved")
		return
	}
	fn := t.Renderer
	name := roles.Label(fn)
	var upd *ssa.MapUpdate
	an.EachInstr(fn, func(in ssa.Instruction) {
		if mu, ok := in.(*ssa.MapUpdate); ok {
			upd = mu
		}
	})
	if upd == nil {
		r.Bad(name, "no position update", an.FuncPos(fn), "the cycle position is never advanced")
		return
	}
	// n: the lookup of the same key in the same map
	var n ssa.Value
	an.EachInstr(fn, func(in ssa.Instruction) {
		if lk, ok := in.(*ssa.Lookup); ok && lk.X == upd.Map && eqVal(lk.Index, upd.Key) && !lk.CommaOk {
			n = lk
		}
	})
	if n == nil {
		r.Bad(name, "position not read from the same group", upd.Pos(), "the stored position must be derived from the group's current position")
		return
	}
	r.Counts["cycle facts"]++
	if linOf(upd.Value, 0).is(1, map[ssa.Value]int64{n: 1}) {
		r.OK(name, "position[group] = n + 1", upd.Pos(), "linear normal form over the position read")
	} else {
		r.Bad(name, "stored position is not n + 1", upd.Pos(), "all cycle tags of one group in a loop share one position; it must advance by exactly one per tag, whatever the tag's own number of values")
	}
	// the key is the parsed group
	if strings.HasSuffix(describe(p, upd.Key), ".Group") {
		r.OK(name, "keyed by the cycle's group", upd.Pos(), "")
	} else {
		r.Bad(name, "not keyed by the cycle's group", upd.Pos(), "")
	}
	// emitted value: values[n % len(values)]
	okEmit := false
	for _, ws := range callsNamed(fn, "io.WriteString") {
		if u, ok := ws.Call.Args[1].(*ssa.UnOp); ok {
			if ia, ok := u.X.(*ssa.IndexAddr); ok && strings.HasSuffix(describe(p, ia.X), ".Values") {
				if b, ok := ia.Index.(*ssa.BinOp); ok && b.Op == token.REM && b.X == n {
					if c := an.CallOf(b.Y); c != nil && an.CallName(c) == "builtin.len" && eqVal(c.Args[0], ia.X) {
						okEmit = true
					}
				}
			}
		}
	}
	r.Counts["cycle facts"]++
	if okEmit {
		r.OK(name, "writes values[n % len(values)]", an.FuncPos(fn), "")
	} else {
		r.Bad(name, "does not write values[n % len(values)]", an.FuncPos(fn), "round-robin over the tag's values")
	}
	r.Floor("cycle facts", 2)
}

// truthinessOnly follows a condition value (the result of Evaluate) forward and reports the first
// use that is not a comparison with nil or false, an error check, values.Equal, or a clause test.
func truthinessOnly(p *an.Prog, v ssa.Value, depth int, seen map[ssa.Value]bool) (string, token.Pos) {
	if seen[v] || depth > 8 || v.Referrers() == nil {
		return "", token.NoPos
	}
	seen[v] = true
	for _, u := range *v.Referrers() {
		switch x := u.(type) {
		case *ssa.DebugRef:
		case *ssa.Extract:
			if x.Index == 0 {
				if why, pos := truthinessOnly(p, x, depth+1, seen); why != "" {
					return why, pos
				}
			}
		case *ssa.Phi, *ssa.MakeInterface, *ssa.ChangeInterface:
			if why, pos := truthinessOnly(p, x.(ssa.Value), depth+1, seen); why != "" {
				return why, pos
			}
		case *ssa.BinOp:
			other := x.Y
			if x.Y == v {
				other = x.X
			}
			if (x.Op == token.EQL || x.Op == token.NEQ) && (an.IsNilConst(other) || isFalseIface(other)) {
				continue
			}
			return "it is compared with " + describe(p, other), x.Pos()
		case *ssa.Call:
			cn := an.CallName(&x.Call)
			if cn == "values.Equal" {
				continue
			}
			if !x.Call.IsInvoke() && x.Call.StaticCallee() == nil && x.Call.Value != v {
				// an argument of a function value of the package (the clause's test kept as a closure)
				if n := an.NamedOf(x.Call.Value.Type()); n != nil && an.IsModulePkg(n.Obj().Pkg()) && an.RelPkg(n.Obj().Pkg().Path()) == "tags" {
					continue
				}
			}
			if x.Call.IsInvoke() && x.Call.Value != v {
				// an argument of an interface method of the module (the clause's test)
				if n := an.NamedOf(x.Call.Value.Type()); n != nil && an.IsModulePkg(n.Obj().Pkg()) && an.RelPkg(n.Obj().Pkg().Path()) == "tags" {
					continue
				}
			}
			if callee := x.Call.StaticCallee(); callee != nil && p.InModule(callee) && callee.Pkg != nil && an.RelPkg(callee.Pkg.Pkg.Path()) == "tags" {
				for i, a := range x.Call.Args {
					if a == v && i < len(callee.Params) {
						if why, pos := truthinessOnly(p, callee.Params[i], depth+1, seen); why != "" {
							return why, pos
						}
					}
				}
				continue
			}
			return "it is handed to " + nonEmpty(cn, "a dynamic call"), x.Pos()
		default:
			return fmt.Sprintf("it is used by %T", u), u.Pos()
		}
	}
	return "", token.NoPos
}

// isFalseIface: the constant false, possibly boxed.
func isFalseIface(v ssa.Value) bool {
	if mi, ok := v.(*ssa.MakeInterface); ok {
		v = mi.X
	}
	c, ok := an.ConstBool(v)
	return ok && !c
}

// originsThroughCaptures: the origins of v, where a read of a captured variable continues with
// what the enclosing function stored into it (a local hoisted out of the closure).
func originsThroughCaptures(p *an.Prog, v ssa.Value) []ssa.Value {
	var out []ssa.Value
	seen := map[ssa.Value]bool{}
	var visit func(v ssa.Value, depth int)
	visit = func(v ssa.Value, depth int) {
		if v == nil || seen[v] || depth > 8 {
			return
		}
		seen[v] = true
		for _, o := range an.Origins(v, an.StepValue) {
			out = append(out, o)
			var fv *ssa.FreeVar
			switch x := o.(type) {
			case *ssa.FreeVar:
				fv = x
			case *ssa.UnOp:
				if f, ok := x.X.(*ssa.FreeVar); ok && x.Op == token.MUL {
					fv = f
				}
			}
			// a field of the receiver of a method that is used as a method value: what the
			// construction site put into that field
			for _, bv := range boundReceiverField(p, o) {
				out = append(out, bv)
				visit(bv, depth+1)
			}
			if fv == nil || fv.Parent() == nil || fv.Parent().Parent() == nil {
				continue
			}
			cell := cellOfFreeVar(fv.Parent().Parent(), fv.Parent(), fv)
			if cell == nil {
				continue
			}
			if al, ok := cell.(*ssa.Alloc); ok {
				for _, sv := range an.Stores(al) {
					out = append(out, sv)
					visit(sv, depth+1)
				}
			} else {
				out = append(out, cell)
				visit(cell, depth+1)
			}
		}
	}
	visit(v, 0)
	return out
}

// boundReceiverField: o reads field k of the receiver of method m; for every place that makes the
// method value x.m, the value stored into field k of x.
func boundReceiverField(p *an.Prog, o ssa.Value) []ssa.Value {
	var recv ssa.Value
	field := -1
	switch x := o.(type) {
	case *ssa.Field:
		recv, field = x.X, x.Field
	case *ssa.UnOp:
		if fa, ok := x.X.(*ssa.FieldAddr); ok && x.Op == token.MUL {
			recv, field = fa.X, fa.Field
		}
	}
	if recv == nil {
		return nil
	}
	m := recv.Parent()
	if m == nil || m.Signature.Recv() == nil || len(m.Params) == 0 {
		return nil
	}
	if an.Deref(recv) != ssa.Value(m.Params[0]) && recv != ssa.Value(m.Params[0]) {
		// value receivers are spilled: *t0 = recv
		if al, ok := recv.(*ssa.Alloc); !ok || len(an.Stores(al)) != 1 || an.Stores(al)[0] != ssa.Value(m.Params[0]) {
			return nil
		}
	}
	var out []ssa.Value
	for _, f := range p.Funcs {
		an.EachInstr(f, func(in ssa.Instruction) {
			mc, ok := in.(*ssa.MakeClosure)
			if !ok || len(mc.Bindings) == 0 || unwrapBound(mc.Fn.(*ssa.Function)) != m || mc.Fn.(*ssa.Function) == m {
				return
			}
			b := mc.Bindings[0]
			// the receiver value: a composite literal (load of a local) or a pointer to one
			var lit *ssa.Alloc
			if u, ok := b.(*ssa.UnOp); ok && u.Op == token.MUL {
				lit, _ = u.X.(*ssa.Alloc)
			} else if al, ok := b.(*ssa.Alloc); ok {
				lit = al
			}
			if lit == nil || lit.Referrers() == nil {
				return
			}
			for _, u := range *lit.Referrers() {
				if fa, ok := u.(*ssa.FieldAddr); ok && fa.Field == field {
					out = append(out, an.Stores(fa)...)
				}
			}
		})
	}
	return out
}

// inlineMinMax: the function returns the lesser (or the greater) of two values, written out as one
// comparison with a return on either side (or one phi): kind is "min" or "max".
func inlineMinMax(fn *ssa.Function) (string, ssa.Value, ssa.Value, bool) {
	for _, b := range fn.Blocks {
		ifi, ok := b.Instrs[len(b.Instrs)-1].(*ssa.If)
		if !ok {
			continue
		}
		cmp, ok := ifi.Cond.(*ssa.BinOp)
		if !ok {
			continue
		}
		var less bool // the true edge is taken when X is the smaller
		switch cmp.Op {
		case token.LSS, token.LEQ:
			less = true
		case token.GTR, token.GEQ:
			less = false
		default:
			continue
		}
		valueOn := func(succ *ssa.BasicBlock) ssa.Value {
			pure := true
			for _, in := range succ.Instrs[:len(succ.Instrs)-1] {
				switch in.(type) {
				case *ssa.FieldAddr, *ssa.UnOp, *ssa.Field, *ssa.Phi, *ssa.DebugRef:
				default:
					pure = false
				}
			}
			if ret, ok := succ.Instrs[len(succ.Instrs)-1].(*ssa.Return); ok && pure {
				if res := resultsOf(ret); len(res) == 1 {
					if ph, isPhi := res[0].(*ssa.Phi); isPhi && ph.Block() == succ {
						for i, pb := range succ.Preds {
							if pb == b {
								return ph.Edges[i]
							}
						}
					}
					return res[0]
				}
			}
			return nil
		}
		vt, vf := valueOn(b.Succs[0]), valueOn(b.Succs[1])
		if vt == nil || vf == nil {
			continue
		}
		same := func(u, w ssa.Value) bool {
			if u == w || eqVal(u, w) {
				return true
			}
			cu, ok1 := an.ConstInt(u)
			cw, ok2 := an.ConstInt(w)
			return ok1 && ok2 && cu == cw
		}
		x, y := cmp.X, cmp.Y
		switch {
		case same(vt, x) && same(vf, y):
			// returns X when the comparison holds
			if less {
				return "min", x, y, true
			}
			return "max", x, y, true
		case same(vt, y) && same(vf, x):
			if less {
				return "max", x, y, true
			}
			return "min", x, y, true
		}
	}
	return "", nil, nil, false
}

// isFieldOf: v is a read of field `field` of a struct of the named module type (through a pointer, a
// local copy or a struct value).
func isFieldOf(v ssa.Value, pkg, typ, field string) bool {
	var owner types.Type
	idx := -1
	switch x := v.(type) {
	case *ssa.UnOp:
		if fa, ok := x.X.(*ssa.FieldAddr); ok {
			owner, idx = fa.X.Type().Underlying().(*types.Pointer).Elem(), fa.Field
		}
	case *ssa.Field:
		owner, idx = x.X.Type(), x.Field
	}
	if owner == nil || !isNamedIn(owner, pkg, typ) {
		return false
	}
	st, ok := owner.Underlying().(*types.Struct)
	return ok && idx < st.NumFields() && st.Field(idx).Name() == field
}

// isLoopFunction: the function of package tags that runs a loop body: it renders children, binds
// variables, and walks an iterator (invokes Len and Index on a value of one interface type) - the last
// tells it from a capture that renders its children into a buffer and binds the result.
func isLoopFunction(f *ssa.Function) bool {
	if f.Pkg == nil || an.RelPkg(f.Pkg.Pkg.Path()) != "tags" || len(callsNamed(f, "(render.Context).Set")) == 0 {
		return false
	}
	// the body is rendered here, or by a function of the package this one calls (one iteration split off)
	body := len(callsNamed(f, "(render.Context).RenderChildren")) > 0
	an.EachCall(f, func(ci ssa.CallInstruction) {
		if c := ci.Common().StaticCallee(); c != nil && c.Pkg == f.Pkg && c.Blocks != nil && len(callsNamed(c, "(render.Context).RenderChildren")) > 0 {
			body = true
		}
	})
	if !body {
		return false
	}
	lens, idxs := map[types.Type]bool{}, map[types.Type]bool{}
	an.EachInstr(f, func(in ssa.Instruction) {
		if c, ok := in.(*ssa.Call); ok && c.Call.IsInvoke() {
			switch c.Call.Method.Name() {
			case "Len":
				lens[c.Call.Value.Type()] = true
			case "Index":
				idxs[c.Call.Value.Type()] = true
			}
		}
	})
	for t := range lens {
		if idxs[t] {
			return true
		}
	}
	return false
}

// isEmptyInterface: t is `any` (an interface without methods).
func isEmptyInterface(t types.Type) bool {
	i, ok := t.Underlying().(*types.Interface)
	return ok && i.NumMethods() == 0
}

// elseFlagField: cond is the load of a boolean field of a struct of the tags package, and every store into
// that field anywhere in the module stores a constant - true only where a comparison of a string with "when"
// has come out unequal (the clause is not a when clause: it is the else of a case).
func elseFlagField(p *an.Prog, cond ssa.Value) bool {
	ld, ok := an.Strip(cond).(*ssa.UnOp)
	if !ok || ld.Op != token.MUL {
		if f, ok := an.Strip(cond).(*ssa.Field); ok {
			return elseFlagStores(p, f.X.Type(), f.Field)
		}
		return false
	}
	fa, ok := ld.X.(*ssa.FieldAddr)
	if !ok {
		return false
	}
	pt, ok := fa.X.Type().Underlying().(*types.Pointer)
	if !ok {
		return false
	}
	return elseFlagStores(p, pt.Elem(), fa.Field)
}

func elseFlagStores(p *an.Prog, st types.Type, field int) bool {
	n := an.NamedOf(st)
	if n == nil || n.Obj().Pkg() == nil || !an.IsModulePkg(n.Obj().Pkg()) {
		return false
	}
	stu, ok := n.Underlying().(*types.Struct)
	if !ok || field >= stu.NumFields() {
		return false
	}
	if b, ok := stu.Field(field).Type().Underlying().(*types.Basic); !ok || b.Kind() != types.Bool {
		return false
	}
	trues, ok := 0, true
	for _, f := range p.Funcs {
		an.EachInstr(f, func(in ssa.Instruction) {
			s, isStore := in.(*ssa.Store)
			if !isStore {
				return
			}
			fa, isFA := s.Addr.(*ssa.FieldAddr)
			if !isFA || fa.Field != field {
				return
			}
			pt, isP := fa.X.Type().Underlying().(*types.Pointer)
			if !isP || !types.Identical(pt.Elem(), st) {
				return
			}
			v, isC := an.ConstBool(s.Val)
			if !isC {
				ok = false
				return
			}
			if !v {
				return
			}
			trues++
			notWhen := false
			for _, g := range an.GuardsAt(s.Block()) {
				b, isB := g.Cond.(*ssa.BinOp)
				if !isB || (b.Op != token.EQL && b.Op != token.NEQ) {
					continue
				}
				cs, isS := an.ConstString(b.Y)
				if !isS {
					cs, isS = an.ConstString(b.X)
				}
				if isS && cs == "when" && g.True == (b.Op == token.NEQ) {
					notWhen = true
				}
			}
			if !notWhen {
				ok = false
			}
		})
	}
	return ok && trues > 0
}

package rules

import (
	"fmt"
	"go/token"
	"go/types"
	"strings"

	"golang.org/x/tools/go/ssa"

	"lv/an"
)

// Rules E1, E2, E3, E7 and D3: where errors get their location, what travels
// with them, and the single funnel all entry points go through.

func init() {
	register("E1", "a node that has a token wraps every error of its own work with itself as the location", runE1)
	register("E2", "a run-phase API call never returns output together with an error, and reports errors as SourceError", runE2)
	register("E3", "a located error keeps the error it wraps as its cause", runE3)
	register("E7", "whether an already located error is kept or re-located depends on that error's own line, not only on whether a path was supplied", runE7)
	register("D3", "every entry point is a thin wrapper that funnels into the one parse function and the one render function", runD3)
}

func runE1(p *an.Prog, r *an.Result) {
	for _, kind := range []string{"BlockNode", "ObjectNode", "TagNode", "TextNode"} {
		fn := p.Func("(*render." + kind + ").render")
		if fn == nil {
			r.Bad("(*render."+kind+").render", "not found", token.NoPos, "anchor not resolved")
			continue
		}
		name := an.FuncName(fn)
		recv := fn.Params[0]
		an.EachInstr(fn, func(in ssa.Instruction) {
			ret, ok := in.(*ssa.Return)
			if !ok {
				return
			}
			for _, o := range an.Origins(resultsOf(ret)[0], an.StepValue) {
				r.Counts["returned errors"]++
				switch x := o.(type) {
				case *ssa.Const:
					r.Triv(name, "returns nil", ret.Pos(), "")
				case *ssa.Call:
					cn := an.CallName(&x.Call)
					if cn == "render.wrapRenderError" || cn == "parser.WrapError" {
						loc := an.Strip(x.Call.Args[1])
						if loc == ssa.Value(recv) {
							r.OK(name, "error wrapped with the node itself", x.Pos(), "wrapRenderError(err, n)")
						} else {
							r.Bad(name, "error wrapped with another location ("+describe(p, loc)+")", x.Pos(), fmt.Sprintf("%s must locate its own failures at its own token", name))
						}
					} else {
						r.Bad(name, "returns the result of "+nonEmpty(cn, "a call")+" unwrapped", ret.Pos(), fmt.Sprintf("an error of %s's own work must be wrapped with the node's location", name))
					}
				default:
					r.Bad(name, "returns an unwrapped error ("+describe(p, o)+")", ret.Pos(), fmt.Sprintf("an error of %s's own work must be wrapped with the node's location", name))
				}
			}
		})
	}
	// containers pass child errors on unchanged
	for _, kind := range []string{"SeqNode"} {
		fn := p.Func("(*render." + kind + ").render")
		if fn == nil {
			continue
		}
		ok := true
		an.EachInstr(fn, func(in ssa.Instruction) {
			if ret, isRet := in.(*ssa.Return); isRet {
				for _, o := range an.Origins(resultsOf(ret)[0], an.StepValue) {
					switch x := o.(type) {
					case *ssa.Const:
					case *ssa.Call:
						if !x.Call.IsInvoke() || x.Call.Method.Name() != "render" {
							ok = false
						}
					default:
						ok = false
					}
				}
			}
		})
		if ok {
			r.OK(an.FuncName(fn), "child errors returned unchanged", an.FuncPos(fn), "a sequence has no location of its own")
		} else {
			r.Bad(an.FuncName(fn), "child errors altered", an.FuncPos(fn), "a sequence must return its children's errors as they are (the innermost location wins)")
		}
	}
	r.Floor("returned errors", 6)
}

// ---------------------------------------------------------------------------
// E2

func isSourceErrorLike(t types.Type) bool {
	it, ok := t.Underlying().(*types.Interface)
	if !ok {
		return false
	}
	need := map[string]bool{"Error": false, "Cause": false, "Path": false, "LineNumber": false}
	for i := 0; i < it.NumMethods(); i++ {
		if _, ok := need[it.Method(i).Name()]; ok {
			need[it.Method(i).Name()] = true
		}
	}
	for _, v := range need {
		if !v {
			return false
		}
	}
	return true
}

func runE2(p *an.Prog, r *an.Result) {
	for _, fn := range runPhaseEntries(p) {
		sig := fn.Signature
		name := an.FuncName(fn)
		ei := errResultIndex(sig)
		if ei < 0 {
			continue
		}
		r.Counts["run-phase API functions with an error result"]++
		if isSourceErrorLike(sig.Results().At(ei).Type()) {
			r.OK(name, "error result is a SourceError", an.FuncPos(fn), an.TypeName(sig.Results().At(ei).Type()))
		} else {
			r.Bad(name, "error result is a plain error", an.FuncPos(fn), "every failure must be reported as a SourceError (message, path, line, cause)")
		}
		if sig.Results().Len() < 2 {
			continue
		}
		an.EachInstr(fn, func(in ssa.Instruction) {
			ret, ok := in.(*ssa.Return)
			if !ok {
				return
			}
			res := resultsOf(ret)
			errv := res[ei]
			if an.IsNilConst(errv) {
				return
			}
			r.Counts["failure returns"]++
			// forwarding both results of one call to another checked API function
			if ex, ok := res[0].(*ssa.Extract); ok {
				if ex2, ok := errv.(*ssa.Extract); ok && ex.Tuple == ex2.Tuple {
					if c, ok := ex.Tuple.(*ssa.Call); ok {
						if callee := c.Call.StaticCallee(); callee != nil && callee.Pkg == fn.Pkg {
							r.OK(name, "forwards the results of "+an.FuncName(callee), ret.Pos(), "checked there")
							return
						}
					}
				}
			}
			zero := false
			switch x := res[0].(type) {
			case *ssa.Const:
				zero = x.Value == nil || x.Value.String() == `""` || an.IsNilConst(x)
				if s, ok := an.ConstString(x); ok && s == "" {
					zero = true
				}
			}
			if zero {
				r.OK(name, "failure return carries no output", ret.Pos(), "first result is the zero value")
			} else {
				r.Bad(name, "failure return carries output ("+describe(p, res[0])+")", ret.Pos(), fmt.Sprintf("%s can return output together with a non-nil error", name))
			}
		})
	}
	r.Floor("run-phase API functions with an error result", 8)
	r.Floor("failure returns", 5)
}

// ---------------------------------------------------------------------------
// E3

func runE3(p *an.Prog, r *an.Result) {
	fn := p.Func("parser.WrapError")
	if fn == nil {
		r.Bad("-", "WrapError not found", token.NoPos, "anchor not resolved")
		return
	}
	name := an.FuncName(fn)
	errPar := fn.Params[0]
	stores := 0
	an.EachInstr(fn, func(in ssa.Instruction) {
		st, ok := in.(*ssa.Store)
		if !ok {
			return
		}
		fa, ok := st.Addr.(*ssa.FieldAddr)
		if !ok || fieldName(fa) != "cause" {
			return
		}
		stores++
		good := true
		for _, o := range an.Origins(st.Val, an.StepValue) {
			switch x := o.(type) {
			case *ssa.Parameter:
				if x != errPar {
					good = false
				}
			case *ssa.Call:
				if !x.Call.IsInvoke() || x.Call.Method.Name() != "Cause" {
					good = false
				} else if !an.Reaches(x.Call.Value, an.StepValue, func(v ssa.Value) bool { return v == ssa.Value(errPar) }) {
					good = false
				}
			default:
				good = false
			}
		}
		if good {
			r.OK(name, "cause = the wrapped error (or its cause)", st.Pos(), "")
		} else {
			r.Bad(name, "cause is not the wrapped error", st.Pos(), "Cause() must return the error that was wrapped")
		}
		// what is kept as the cause is what the message was made from: a located error without
		// position is looked through for both, or for neither
		if ec := an.CallOf(fa.X); ec != nil && an.CallName(ec) == "parser.Errorf" && len(ec.Args) >= 3 {
			var shown []ssa.Value
			if sl, ok := ec.Args[len(ec.Args)-1].(*ssa.Slice); ok {
				if al, ok := sl.X.(*ssa.Alloc); ok && al.Referrers() != nil {
					for _, au := range *al.Referrers() {
						if ia, ok := au.(*ssa.IndexAddr); ok {
							shown = append(shown, an.Stores(ia)...)
						}
					}
				}
			}
			strip := func(v ssa.Value) ssa.Value {
				for {
					switch x := v.(type) {
					case *ssa.MakeInterface:
						v = x.X
					case *ssa.ChangeInterface:
						v = x.X
					default:
						return v
					}
				}
			}
			same := len(shown) == 1 && strip(shown[0]) == strip(st.Val)
			if same {
				r.OK(name, "the cause kept is the error the message shows", st.Pos(), "one value feeds both the message and the cause field")
			} else {
				r.Bad(name, "the cause kept is not the error the message shows", st.Pos(), "the message is built from one error and Cause() returns another: after an unlocated inner error has been looked through, Cause() must be the underlying error, not the intermediate wrapper")
			}
		}
		// the constructed error is what is returned
	})
	if stores == 0 {
		r.Bad(name, "the cause is never stored", an.FuncPos(fn), "a wrapped error loses its cause: Cause() returns nil and break/continue are not recognised")
	}
	// every constructed error flows to a return together with its cause store: the Errorf result that is returned has a cause store
	an.EachInstr(fn, func(in ssa.Instruction) {
		c, ok := in.(*ssa.Call)
		if !ok || an.CallName(&c.Call) != "parser.Errorf" {
			return
		}
		has := false
		if c.Referrers() != nil {
			for _, u := range *c.Referrers() {
				if fa, ok := u.(*ssa.FieldAddr); ok && fieldName(fa) == "cause" && fa.Referrers() != nil {
					for _, uu := range *fa.Referrers() {
						if _, ok := uu.(*ssa.Store); ok {
							has = true
						}
					}
				}
			}
		}
		if has {
			r.OK(name, "constructed error receives a cause", c.Pos(), "")
		} else {
			r.Bad(name, "constructed error without cause", c.Pos(), "every error WrapError builds must carry the wrapped error")
		}
	})
	// the accessor returns the field
	if cf := p.Func("(*parser.sourceLocError).Cause"); cf != nil {
		ok := false
		an.EachInstr(cf, func(in ssa.Instruction) {
			if ret, isRet := in.(*ssa.Return); isRet && strings.HasSuffix(describe(p, ret.Results[0]), ".cause") {
				ok = true
			}
		})
		if ok {
			r.OK(an.FuncName(cf), "returns the cause field", an.FuncPos(cf), "")
		} else {
			r.Bad(an.FuncName(cf), "does not return the cause field", an.FuncPos(cf), "")
		}
	}
}

// ---------------------------------------------------------------------------
// E7

func runE7(p *an.Prog, r *an.Result) {
	fn := p.Func("parser.WrapError")
	if fn == nil {
		r.Bad("-", "WrapError not found", token.NoPos, "anchor not resolved")
		return
	}
	name := an.FuncName(fn)
	// e: the checked assertion of err to parser.Error
	var ta *ssa.TypeAssert
	an.EachInstr(fn, func(in ssa.Instruction) {
		if x, ok := in.(*ssa.TypeAssert); ok && x.CommaOk && isNamedIn(x.AssertedType, "parser", "Error") {
			ta = x
		}
	})
	builds := callsNamed(fn, "parser.Errorf")
	if ta == nil {
		r.OK(name, "an existing located error is never re-located", an.FuncPos(fn), "WrapError does not look for an existing parser.Error: vacuous")
		return
	}
	var e, okv ssa.Value
	for _, u := range *ta.Referrers() {
		if ex, ok := u.(*ssa.Extract); ok {
			if ex.Index == 0 {
				e = ex
			} else {
				okv = ex
			}
		}
	}
	mentionsLine := func(cond ssa.Value) bool {
		return condMentions(cond, func(v ssa.Value) bool {
			c := an.CallOf(v)
			if c == nil || !c.IsInvoke() {
				return false
			}
			if c.Method.Name() != "LineNumber" {
				return false
			}
			return c.Value == e
		}, 0)
	}
	r.Counts["relocation sites"] = len(builds)
	for _, b := range builds {
		pred := func(cond ssa.Value, taken bool) bool {
			if okv != nil && cond == okv && !taken {
				return true // not a located error: nothing to keep
			}
			return mentionsLine(cond)
		}
		if an.AllPathsGuarded(b.Block(), pred) {
			r.OK(name, "relocation decided after consulting the inner error's line", b.Pos(), "every path on which err is a parser.Error branches on e.LineNumber() before a new location is attached")
		} else {
			r.Bad(name, "relocation never looks at the inner error's line", b.Pos(), "WrapError can attach a new location to an error that already is a located error without ever consulting that error's line: an inner error with a line but no path (template parsed without a path) cannot be told from one with no location, so the innermost location is lost")
		}
	}
	if len(builds) == 0 {
		r.Bad(name, "no error construction found", an.FuncPos(fn), "anchor not resolved")
	}
}

// ---------------------------------------------------------------------------
// D3

func runD3(p *an.Prog, r *an.Result) {
	chains := []struct {
		fn    string
		calls []string
	}{
		{"(*liquid.Template).Render", []string{"render.Render"}},
		{"(*liquid.Template).FRender", []string{"render.Render"}},
		{"(*liquid.Template).RenderString", []string{"(*liquid.Template).Render"}},
		{"(*liquid.Engine).ParseAndRender", []string{"(*liquid.Engine).ParseTemplate", "(*liquid.Template).Render"}},
		{"(*liquid.Engine).ParseAndFRender", []string{"(*liquid.Engine).ParseTemplate", "(*liquid.Template).FRender"}},
		{"(*liquid.Engine).ParseAndRenderString", []string{"(*liquid.Engine).ParseAndRender"}},
		{"(*liquid.Engine).ParseTemplate", []string{"liquid.newTemplate"}},
		{"(*liquid.Engine).ParseString", []string{"(*liquid.Engine).ParseTemplate"}},
		{"(*liquid.Engine).ParseTemplateLocation", []string{"liquid.newTemplate"}},
		{"liquid.newTemplate", []string{"(render.Config).Compile"}},
		{"cmd/liquid.render", []string{"(*liquid.Engine).ParseTemplate", "(*liquid.Template).Render"}},
	}
	for _, ch := range chains {
		fn := p.Func(ch.fn)
		r.Counts["entry points"]++
		if fn == nil {
			r.Bad(ch.fn, "not found", token.NoPos, "an entry point the property names no longer exists")
			continue
		}
		name := an.FuncName(fn)
		var prevErrs []ssa.Value
		for _, cn := range ch.calls {
			cs := callsNamed(fn, cn)
			if len(cs) != 1 {
				r.Bad(name, "calls "+cn, an.FuncPos(fn), fmt.Sprintf("expected exactly one call of %s, found %d: the entry point does not go through the common path", cn, len(cs)))
				break
			}
			c := cs[0]
			okAll := true
			an.EachInstr(fn, func(in ssa.Instruction) {
				ret, ok := in.(*ssa.Return)
				if !ok {
					return
				}
				if instrDominates(c, ret) {
					return
				}
				// an earlier step failed: the return hands back that step's error
				res := resultsOf(ret)
				fromPrev := false
				for _, rv := range res {
					for _, pe := range prevErrs {
						if an.Reaches(rv, an.StepValue, func(v ssa.Value) bool { return v == pe }) {
							fromPrev = true
						}
					}
				}
				if !fromPrev {
					// any other early exit must be a failure: its error result is established non-nil
					ei := errResultIndex(fn.Signature)
					if ei < 0 || !guardedNonNil(ret, res[ei]) {
						okAll = false
					}
				}
			})
			if okAll {
				r.OK(name, "every return passes through "+cn, c.Pos(), "or hands back the error of an earlier step")
			} else {
				r.Bad(name, "a return bypasses "+cn, c.Pos(), fmt.Sprintf("%s can return without going through %s: it is not a thin wrapper of the common path, so its result can differ from the other entry points", name, cn))
			}
			// this step's error value
			if sig := callSig(&c.Call); sig != nil {
				if ei := errResultIndex(sig); ei >= 0 {
					if ev := errorValueOf(c, ei); ev != nil {
						prevErrs = append(prevErrs, ev)
					}
				}
			}
		}
		// the bindings handed on are the caller's
		for _, cn := range ch.calls {
			for _, c := range callsNamed(fn, cn) {
				for i, a := range c.Call.Args {
					if isBindingsType(a.Type()) {
						isParam := false
						for _, o := range an.Origins(a, an.StepValue) {
							if _, ok := o.(*ssa.Parameter); ok {
								isParam = true
							}
						}
						if !isParam && !isMainPkg(fn) {
							r.Bad(name, fmt.Sprintf("argument %d of %s is not the caller's bindings", i, cn), c.Pos(), "an entry point must hand its bindings on unchanged")
						}
					}
					// scalars (path, starting line) are handed on as given: a parameter is not adjusted on the way
					if bt, ok := a.Type().Underlying().(*types.Basic); ok && bt.Info()&(types.IsInteger|types.IsString) != 0 && !isMainPkg(fn) {
						hasParam, adjusted := false, false
						for _, o := range an.Origins(a, an.StepValue) {
							switch o.(type) {
							case *ssa.Parameter:
								hasParam = true
							case *ssa.Const:
								adjusted = true // only counts if mixed with a parameter: a phi of the two
							case *ssa.BinOp, *ssa.Call:
								adjusted = true
							}
						}
						if hasParam && adjusted {
							r.Bad(name, fmt.Sprintf("argument %d of %s is an adjusted parameter", i, cn), c.Pos(), "an entry point hands its path and starting line on as given; clamping or computing them makes this entry point disagree with the others (error line numbers)")
						}
					}
				}
			}
		}
	}
	r.Floor("entry points", 10)
}

package rules

import (
	"fmt"
	"go/token"
	"go/types"
	"strings"

	"golang.org/x/tools/go/ssa"

	"lv/an"
)

// Rules E1, E2, E3, E7 and D3: where errors get their location, what travels
// with them, and the single funnel all entry points go through.

func init() {
	register("E1", "a node that has a token wraps every error of its own work with itself as the location", runE1)
	register("E2", "a run-phase API call never returns output together with an error, and reports errors as SourceError", runE2)
	register("E3", "a located error keeps the error it wraps as its cause", runE3)
	register("E7", "whether an already located error is kept or re-located depends on that error's own line, not only on whether a path was supplied", runE7)
	register("D3", "every entry point is a thin wrapper that funnels into the one parse function and the one render function", runD3)
}

func runE1(p *an.Prog, r *an.Result) {
	for _, kind := range []string{"BlockNode", "ObjectNode", "TagNode", "TextNode"} {
		fn := p.Func("(*render." + kind + ").render")
		if fn == nil {
			r.Bad("(*render."+kind+").render", "not found", token.NoPos, "anchor not resolved")
			continue
		}
		name := an.FuncName(fn)
		recv := fn.Params[0]
		an.EachInstr(fn, func(in ssa.Instruction) {
			ret, ok := in.(*ssa.Return)
			if !ok {
				return
			}
			for _, o := range an.Origins(resultsOf(ret)[0], an.StepValue) {
				r.Counts["returned errors"]++
				switch x := o.(type) {
				case *ssa.Const:
					r.Triv(name, "returns nil", ret.Pos(), "")
				case *ssa.Call:
					cn := an.CallName(&x.Call)
					if cn == "render.wrapRenderError" || cn == "parser.WrapError" {
						loc := an.Strip(x.Call.Args[1])
						if loc == ssa.Value(recv) {
							r.OK(name, "error wrapped with the node itself", x.Pos(), "wrapRenderError(err, n)")
						} else {
							r.Bad(name, "error wrapped with another location ("+describe(p, loc)+")", x.Pos(), fmt.Sprintf("%s must locate its own failures at its own token", name))
						}
					} else {
						r.Bad(name, "returns the result of "+nonEmpty(cn, "a call")+" unwrapped", ret.Pos(), fmt.Sprintf("an error of %s's own work must be wrapped with the node's location", name))
					}
				default:
					r.Bad(name, "returns an unwrapped error ("+describe(p, o)+")", ret.Pos(), fmt.Sprintf("an error of %s's own work must be wrapped with the node's location", name))
				}
			}
		})
	}
	// containers pass child errors on unchanged
	for _, kind := range []string{"SeqNode"} {
		fn := p.Func("(*render." + kind + ").render")
		if fn == nil {
			continue
		}
		ok := true
		ipStep := stepIP(p)
		an.EachInstr(fn, func(in ssa.Instruction) {
			if ret, isRet := in.(*ssa.Return); isRet {
				// (through module helpers: a loop over the children may live in a function of its own)
				for _, o := range an.Origins(resultsOf(ret)[0], ipStep) {
					switch x := o.(type) {
					case *ssa.Const:
					case *ssa.Call:
						if !x.Call.IsInvoke() || x.Call.Method.Name() != "render" {
							ok = false
						}
					default:
						ok = false
					}
				}
			}
		})
		if ok {
			r.OK(an.FuncName(fn), "child errors returned unchanged", an.FuncPos(fn), "a sequence has no location of its own")
		} else {
			r.Bad(an.FuncName(fn), "child errors altered", an.FuncPos(fn), "a sequence must return its children's errors as they are (the innermost location wins)")
		}
	}
	r.Floor("returned errors", 6)
}

// ---------------------------------------------------------------------------
// E2

func isSourceErrorLike(t types.Type) bool {
	it, ok := t.Underlying().(*types.Interface)
	if !ok {
		return false
	}
	need := map[string]bool{"Error": false, "Cause": false, "Path": false, "LineNumber": false}
	for i := 0; i < it.NumMethods(); i++ {
		if _, ok := need[it.Method(i).Name()]; ok {
			need[it.Method(i).Name()] = true
		}
	}
	for _, v := range need {
		if !v {
			return false
		}
	}
	return true
}

func runE2(p *an.Prog, r *an.Result) {
	for _, fn := range runPhaseEntries(p) {
		sig := fn.Signature
		name := an.FuncName(fn)
		ei := errResultIndex(sig)
		if ei < 0 {
			continue
		}
		r.Counts["run-phase API functions with an error result"]++
		if isSourceErrorLike(sig.Results().At(ei).Type()) {
			r.OK(name, "error result is a SourceError", an.FuncPos(fn), an.TypeName(sig.Results().At(ei).Type()))
		} else {
			r.Bad(name, "error result is a plain error", an.FuncPos(fn), "every failure must be reported as a SourceError (message, path, line, cause)")
		}
		if sig.Results().Len() < 2 {
			continue
		}
		an.EachInstr(fn, func(in ssa.Instruction) {
			ret, ok := in.(*ssa.Return)
			if !ok {
				return
			}
			res := resultsOf(ret)
			errv := res[ei]
			if an.IsNilConst(errv) {
				return
			}
			r.Counts["failure returns"]++
			// forwarding both results of one call to another checked API function
			if ex, ok := res[0].(*ssa.Extract); ok {
				if ex2, ok := errv.(*ssa.Extract); ok && ex.Tuple == ex2.Tuple {
					if c, ok := ex.Tuple.(*ssa.Call); ok {
						if callee := c.Call.StaticCallee(); callee != nil && callee.Pkg == fn.Pkg {
							r.OK(name, "forwards the results of "+an.FuncName(callee), ret.Pos(), "checked there")
							return
						}
					}
				}
			}
			zero := false
			switch x := res[0].(type) {
			case *ssa.Const:
				zero = x.Value == nil || x.Value.String() == `""` || an.IsNilConst(x)
				if s, ok := an.ConstString(x); ok && s == "" {
					zero = true
				}
			}
			if zero {
				r.OK(name, "failure return carries no output", ret.Pos(), "first result is the zero value")
			} else {
				r.Bad(name, "failure return carries output ("+describe(p, res[0])+")", ret.Pos(), fmt.Sprintf("%s can return output together with a non-nil error", name))
			}
		})
	}
	r.Floor("run-phase API functions with an error result", 8)
	r.Floor("failure returns", 5)
}

// ---------------------------------------------------------------------------
// E3

func runE3(p *an.Prog, r *an.Result) {
	fn := p.Func("parser.WrapError")
	if fn == nil {
		r.Bad("-", "WrapError not found", token.NoPos, "anchor not resolved")
		return
	}
	name := an.FuncName(fn)
	errPar := fn.Params[0]
	stores := 0
	// through helpers of WrapError (a function that builds the wrapper from the cause it is given):
	// their parameters stand for the arguments WrapError passes, WrapError's own parameters are origins
	ip := stepIP(p)
	within := func(v ssa.Value) []ssa.Value {
		if par, ok := v.(*ssa.Parameter); ok && par.Parent() == fn {
			return nil
		}
		return ip(v)
	}
	var causeStores []*ssa.Store
	for _, uf := range unitWithHelpers(p, fn) {
		if uf.Pkg != fn.Pkg {
			continue
		}
		an.EachInstr(uf, func(in ssa.Instruction) {
			if st, ok := in.(*ssa.Store); ok {
				if fa, ok := st.Addr.(*ssa.FieldAddr); ok && fieldName(fa) == "cause" {
					if c, isC := st.Val.(*ssa.Const); isC && c.Value == nil {
						return // a constructor's `cause: nil`
					}
					causeStores = append(causeStores, st)
				}
			}
		})
	}
	for _, st := range causeStores {
		fa := st.Addr.(*ssa.FieldAddr)
		stores++
		good := true
		for _, o := range an.Origins(st.Val, within) {
			switch x := o.(type) {
			case *ssa.Parameter:
				if x != errPar {
					good = false
				}
			case *ssa.Call:
				if !x.Call.IsInvoke() || x.Call.Method.Name() != "Cause" {
					good = false
				} else if !an.Reaches(x.Call.Value, within, func(v ssa.Value) bool { return v == ssa.Value(errPar) }) {
					good = false
				}
			default:
				good = false
			}
		}
		if good {
			r.OK(name, "cause = the wrapped error (or its cause)", st.Pos(), "")
		} else {
			r.Bad(name, "cause is not the wrapped error", st.Pos(), "Cause() must return the error that was wrapped")
		}
		// a wrapper without a position is looked through: where the error being wrapped is itself a
		// located error (that is why it gets wrapped again: it had no position), its cause is what is kept
		looksThrough := false
		for _, o := range an.Origins(st.Val, within) {
			if c := an.CallOf(o); c != nil && c.IsInvoke() && c.Method.Name() == "Cause" {
				looksThrough = true
			}
		}
		if looksThrough {
			r.OK(name, "a wrapper without position is looked through", st.Pos(), "one origin of the kept cause is the wrapped error's own Cause()")
		} else {
			r.Bad(name, "a wrapper without position is not looked through", st.Pos(), "an error that was first wrapped where no position was known (the flush at the end of a sequence, a trim write, a raw node) and is wrapped again by an enclosing block ends up double-wrapped: Cause() is the inner wrapper, not the writer's or the filter's error")
		}
		// what is kept as the cause is what the message was made from: a located error without
		// position is looked through for both, or for neither
		if ec := an.CallOf(fa.X); ec != nil && an.CallName(ec) == "parser.Errorf" && len(ec.Args) >= 3 {
			var shown []ssa.Value
			if sl, ok := ec.Args[len(ec.Args)-1].(*ssa.Slice); ok {
				if al, ok := sl.X.(*ssa.Alloc); ok && al.Referrers() != nil {
					for _, au := range *al.Referrers() {
						if ia, ok := au.(*ssa.IndexAddr); ok {
							shown = append(shown, an.Stores(ia)...)
						}
					}
				}
			}
			strip := func(v ssa.Value) ssa.Value {
				for {
					switch x := v.(type) {
					case *ssa.MakeInterface:
						v = x.X
					case *ssa.ChangeInterface:
						v = x.X
					default:
						return v
					}
				}
			}
			same := len(shown) == 1 && strip(shown[0]) == strip(st.Val)
			if same {
				r.OK(name, "the cause kept is the error the message shows", st.Pos(), "one value feeds both the message and the cause field")
			} else {
				r.Bad(name, "the cause kept is not the error the message shows", st.Pos(), "the message is built from one error and Cause() returns another: after an unlocated inner error has been looked through, Cause() must be the underlying error, not the intermediate wrapper")
			}
		}
		if lit, ok := fa.X.(*ssa.Alloc); ok && lit.Referrers() != nil {
			// a literal: the message field is a formatting of the same error
			strip := func(v ssa.Value) ssa.Value {
				for {
					switch x := v.(type) {
					case *ssa.MakeInterface:
						v = x.X
					case *ssa.ChangeInterface:
						v = x.X
					default:
						return v
					}
				}
			}
			for _, u := range *lit.Referrers() {
				fa2, ok := u.(*ssa.FieldAddr)
				if !ok || fa2 == fa {
					continue
				}
				for _, sv := range an.Stores(fa2) {
					c := an.CallOf(sv)
					if c == nil || !strings.HasPrefix(an.CallName(c), "fmt.Sprint") {
						continue
					}
					var shown []ssa.Value
					if sl, ok := c.Args[len(c.Args)-1].(*ssa.Slice); ok {
						if al, ok := sl.X.(*ssa.Alloc); ok && al.Referrers() != nil {
							for _, au := range *al.Referrers() {
								if ia, ok := au.(*ssa.IndexAddr); ok {
									shown = append(shown, an.Stores(ia)...)
								}
							}
						}
					}
					if len(shown) == 1 && strip(shown[0]) == strip(st.Val) {
						r.OK(name, "the cause kept is the error the message shows", st.Pos(), "one value feeds both the message and the cause field")
					} else {
						r.Bad(name, "the cause kept is not the error the message shows", st.Pos(), "the message is built from one error and Cause() returns another")
					}
				}
			}
		}
		// the constructed error is what is returned
	}
	if stores == 0 {
		r.Bad(name, "the cause is never stored", an.FuncPos(fn), "a wrapped error loses its cause: Cause() returns nil and break/continue are not recognised")
	}
	// every constructed error flows to a return together with its cause store: the Errorf result that is returned has a cause store
	an.EachInstr(fn, func(in ssa.Instruction) {
		c, ok := in.(*ssa.Call)
		if !ok || an.CallName(&c.Call) != "parser.Errorf" {
			return
		}
		has := false
		if c.Referrers() != nil {
			for _, u := range *c.Referrers() {
				if fa, ok := u.(*ssa.FieldAddr); ok && fieldName(fa) == "cause" && fa.Referrers() != nil {
					for _, uu := range *fa.Referrers() {
						if _, ok := uu.(*ssa.Store); ok {
							has = true
						}
					}
				}
			}
		}
		if has {
			r.OK(name, "constructed error receives a cause", c.Pos(), "")
		} else {
			r.Bad(name, "constructed error without cause", c.Pos(), "every error WrapError builds must carry the wrapped error")
		}
	})
	// the accessor returns the field
	if cf := p.Func("(*parser.sourceLocError).Cause"); cf != nil {
		ok := false
		an.EachInstr(cf, func(in ssa.Instruction) {
			if ret, isRet := in.(*ssa.Return); isRet && strings.HasSuffix(describe(p, ret.Results[0]), ".cause") {
				ok = true
			}
		})
		if ok {
			r.OK(an.FuncName(cf), "returns the cause field", an.FuncPos(cf), "")
		} else {
			r.Bad(an.FuncName(cf), "does not return the cause field", an.FuncPos(cf), "")
		}
	}
}

// ---------------------------------------------------------------------------
// E7

func runE7(p *an.Prog, r *an.Result) {
	fn := p.Func("parser.WrapError")
	if fn == nil {
		r.Bad("-", "WrapError not found", token.NoPos, "anchor not resolved")
		return
	}
	name := an.FuncName(fn)
	// e: the checked assertion of err to parser.Error
	var ta *ssa.TypeAssert
	an.EachInstr(fn, func(in ssa.Instruction) {
		if x, ok := in.(*ssa.TypeAssert); ok && x.CommaOk && isNamedIn(x.AssertedType, "parser", "Error") {
			ta = x
		}
	})
	// where a new located error comes into being: a call of the constructor, or a literal of a
	// module type that implements the located-error interface
	var builds []ssa.Instruction
	for _, c := range callsNamed(fn, "parser.Errorf") {
		builds = append(builds, c)
	}
	// or a call of a helper of the same package that builds it (wrapCause(cause, loc))
	an.EachInstr(fn, func(in ssa.Instruction) {
		c, ok := in.(*ssa.Call)
		if !ok {
			return
		}
		callee := c.Call.StaticCallee()
		if callee == nil || callee == fn || callee.Blocks == nil || callee.Pkg != fn.Pkg || an.FuncName(callee) == "parser.Errorf" {
			return
		}
		for _, hf := range unitWithHelpers(p, callee) {
			if len(callsNamed(hf, "parser.Errorf")) > 0 {
				builds = append(builds, c)
				return
			}
		}
	})
	if ta != nil {
		if it, ok := ta.AssertedType.Underlying().(*types.Interface); ok {
			an.EachInstr(fn, func(in ssa.Instruction) {
				if al, ok := in.(*ssa.Alloc); ok && al.Heap && types.Implements(al.Type(), it) {
					builds = append(builds, al)
				}
			})
		}
	}
	if ta == nil {
		r.OK(name, "an existing located error is never re-located", an.FuncPos(fn), "WrapError does not look for an existing parser.Error: vacuous")
		return
	}
	var e, okv ssa.Value
	for _, u := range *ta.Referrers() {
		if ex, ok := u.(*ssa.Extract); ok {
			if ex.Index == 0 {
				e = ex
			} else {
				okv = ex
			}
		}
	}
	mentionsLine := func(cond ssa.Value) bool {
		return condMentions(cond, func(v ssa.Value) bool {
			c := an.CallOf(v)
			if c == nil || !c.IsInvoke() {
				return false
			}
			if c.Method.Name() != "LineNumber" {
				return false
			}
			return c.Value == e
		}, 0)
	}
	r.Counts["relocation sites"] = len(builds)
	for _, b := range builds {
		pred := func(cond ssa.Value, taken bool) bool {
			if okv != nil && cond == okv && !taken {
				return true // not a located error: nothing to keep
			}
			return mentionsLine(cond)
		}
		if an.AllPathsGuarded(b.Block(), pred) {
			r.OK(name, "relocation decided after consulting the inner error's line", b.Pos(), "every path on which err is a parser.Error branches on e.LineNumber() before a new location is attached")
		} else {
			r.Bad(name, "relocation never looks at the inner error's line", b.Pos(), "WrapError can attach a new location to an error that already is a located error without ever consulting that error's line: an inner error with a line but no path (template parsed without a path) cannot be told from one with no location, so the innermost location is lost")
		}
	}
	if len(builds) == 0 {
		r.Bad(name, "no error construction found", an.FuncPos(fn), "anchor not resolved")
	}
}

// ---------------------------------------------------------------------------
// D3

func runD3(p *an.Prog, r *an.Result) {
	// the two funnels: everything that parses ends in newTemplate (which compiles), everything
	// that renders ends in render.Render. A function belongs to a funnel if every return of it
	// passes through exactly one call of a member (or hands back an earlier step's error, or is an
	// established failure); membership is computed to a fixpoint, so wrappers of wrappers count.
	const (
		capParse  = "parse"
		capRender = "render"
	)
	funnel := map[string]map[*ssa.Function]bool{capParse: {}, capRender: {}}
	leafParse, leafRender := p.Func("liquid.newTemplate"), p.Func("render.Render")
	if leafParse == nil || leafRender == nil {
		r.Bad("-", "common parse/render functions not found", token.NoPos, "liquid.newTemplate or render.Render no longer exists")
		return
	}
	funnel[capParse][leafParse], funnel[capRender][leafRender] = true, true
	var roots []*ssa.Function
	for _, f := range p.Funcs {
		if f.Parent() != nil || f.Pkg == nil {
			continue
		}
		if f.Pkg.Pkg.Path() == an.ModPath || an.FuncName(f) == "cmd/liquid.render" {
			roots = append(roots, f)
		}
	}
	type step struct {
		call *ssa.Call
		ok   bool
		why  string
	}
	// through: does every return of fn pass through the one call of a member of set?
	through := func(fn *ssa.Function, set map[*ssa.Function]bool, prevErrs []ssa.Value) step {
		var cs []*ssa.Call
		an.EachInstr(fn, func(in ssa.Instruction) {
			if c, ok := in.(*ssa.Call); ok {
				if callee := c.Call.StaticCallee(); callee != nil && set[callee] {
					cs = append(cs, c)
				}
			}
		})
		if len(cs) != 1 {
			return step{nil, false, fmt.Sprintf("expected exactly one call into the common path, found %d", len(cs))}
		}
		c := cs[0]
		okAll := true
		an.EachInstr(fn, func(in ssa.Instruction) {
			ret, ok := in.(*ssa.Return)
			if !ok || instrDominates(c, ret) {
				return
			}
			res := resultsOf(ret)
			fromPrev := false
			for _, rv := range res {
				for _, pe := range prevErrs {
					if an.Reaches(rv, an.StepValue, func(v ssa.Value) bool { return v == pe }) {
						fromPrev = true
					}
				}
			}
			if !fromPrev {
				ei := errResultIndex(fn.Signature)
				if ei < 0 || !guardedNonNil(ret, res[ei]) {
					okAll = false
				}
			}
		})
		if !okAll {
			return step{c, false, "a return bypasses " + an.FuncName(c.Call.StaticCallee())}
		}
		return step{c, true, ""}
	}
	errOf := func(c *ssa.Call) ssa.Value {
		if sig := callSig(&c.Call); sig != nil {
			if ei := errResultIndex(sig); ei >= 0 {
				return errorValueOf(c, ei)
			}
		}
		return nil
	}
	for changed := true; changed; {
		changed = false
		for _, f := range roots {
			// parse first, then render with the parse step's error as an allowed early return
			var prev []ssa.Value
			if !funnel[capParse][f] {
				if st := through(f, funnel[capParse], nil); st.ok {
					funnel[capParse][f] = true
					changed = true
				}
			}
			if st := through(f, funnel[capParse], nil); st.ok && st.call != nil {
				if ev := errOf(st.call); ev != nil {
					prev = append(prev, ev)
				}
			}
			if !funnel[capRender][f] {
				if st := through(f, funnel[capRender], prev); st.ok {
					funnel[capRender][f] = true
					changed = true
				}
			}
		}
	}
	// what each entry point owes, by its signature
	returnsTemplate := func(f *ssa.Function) bool {
		res := f.Signature.Results()
		for i := 0; i < res.Len(); i++ {
			if strings.HasSuffix(an.TypeName(res.At(i).Type()), "liquid.Template") {
				return true
			}
		}
		return false
	}
	takesBindings := func(f *ssa.Function) bool {
		for _, par := range f.Params {
			if isBindingsType(par.Type()) {
				return true
			}
		}
		return false
	}
	takesSource := func(f *ssa.Function) bool {
		for i, par := range f.Params {
			if i == 0 && f.Signature.Recv() != nil {
				continue
			}
			switch t := par.Type().Underlying().(type) {
			case *types.Basic:
				if t.Kind() == types.String {
					return true
				}
			case *types.Slice:
				if b, ok := t.Elem().Underlying().(*types.Basic); ok && b.Kind() == types.Byte {
					return true
				}
			}
		}
		return false
	}
	for _, f := range roots {
		exported := f.Object() != nil && f.Object().Exported() && f.Signature.Recv() != nil
		if !exported && an.FuncName(f) != "cmd/liquid.render" {
			continue
		}
		name := an.FuncName(f)
		needParse := returnsTemplate(f) || (takesBindings(f) && takesSource(f)) || an.FuncName(f) == "cmd/liquid.render"
		needRender := takesBindings(f) || an.FuncName(f) == "cmd/liquid.render"
		if !needParse && !needRender {
			continue
		}
		r.Counts["entry points"]++
		if needParse {
			if funnel[capParse][f] {
				r.OK(name, "every return passes through the common parse function", an.FuncPos(f), "directly or through other entry points, down to newTemplate")
			} else {
				st := through(f, funnel[capParse], nil)
				r.Bad(name, "a return bypasses the common parse path", an.FuncPos(f), fmt.Sprintf("%s is not a thin wrapper of the common parse path (%s), so its result can differ from the other entry points", name, st.why))
			}
		}
		if needRender {
			if funnel[capRender][f] {
				r.OK(name, "every return passes through the common render function", an.FuncPos(f), "directly or through other entry points, down to render.Render; or hands back the error of the parse step")
			} else {
				st := through(f, funnel[capRender], nil)
				r.Bad(name, "a return bypasses the common render path", an.FuncPos(f), fmt.Sprintf("%s is not a thin wrapper of the common render path (%s), so its result can differ from the other entry points", name, st.why))
			}
		}
	}
	// the parse leaf compiles
	if st := through(leafParse, map[*ssa.Function]bool{p.Func("(render.Config).Compile"): true}, nil); st.ok {
		r.OK(an.FuncName(leafParse), "every return passes through (render.Config).Compile", an.FuncPos(leafParse), "")
	} else {
		r.Bad(an.FuncName(leafParse), "a return bypasses (render.Config).Compile", an.FuncPos(leafParse), st.why)
	}
	// arguments handed to the common path
	for _, f := range roots {
		if isMainPkg(f) {
			continue
		}
		name := an.FuncName(f)
		an.EachInstr(f, func(in ssa.Instruction) {
			c, ok := in.(*ssa.Call)
			if !ok {
				return
			}
			callee := c.Call.StaticCallee()
			if callee == nil || !(funnel[capParse][callee] || funnel[capRender][callee]) {
				return
			}
			if !(f.Object() != nil && f.Object().Exported()) && f != leafParse {
				return
			}
			cn := an.FuncName(callee)
			for i, a := range c.Call.Args {
				if isBindingsType(a.Type()) {
					isParam := false
					for _, o := range an.Origins(a, an.StepValue) {
						if _, ok := o.(*ssa.Parameter); ok {
							isParam = true
						}
					}
					if !isParam {
						r.Bad(name, fmt.Sprintf("argument %d of %s is not the caller's bindings", i, cn), c.Pos(), "an entry point must hand its bindings on unchanged")
					}
				}
				// scalars (path, starting line) are handed on as given: a parameter is not adjusted on the way
				if bt, ok := a.Type().Underlying().(*types.Basic); ok && bt.Info()&(types.IsInteger|types.IsString) != 0 {
					hasParam, adjusted := false, false
					for _, o := range an.Origins(a, an.StepValue) {
						switch o.(type) {
						case *ssa.Parameter:
							hasParam = true
						case *ssa.Const:
							adjusted = true // only counts if mixed with a parameter: a phi of the two
						case *ssa.BinOp, *ssa.Call:
							adjusted = true
						}
					}
					if hasParam && adjusted {
						r.Bad(name, fmt.Sprintf("argument %d of %s is an adjusted parameter", i, cn), c.Pos(), "an entry point hands its path and starting line on as given; clamping or computing them makes this entry point disagree with the others (error line numbers)")
					}
				}
			}
		})
	}
	r.Floor("entry points", 10)
}

// ---------------------------------------------------------------------------
// E9

func init() {
	register("E9", "an error is never flattened into the text of a new error: where an error value (or its Error() text) is an argument of an error constructor, the new error keeps it as its cause (%w, or a store into the cause field as WrapError does)", runE9)
}

// implementsError: values of type t have an Error() string method.
func implementsError(t types.Type) bool {
	et := types.Universe.Lookup("error").Type().Underlying().(*types.Interface)
	return types.Implements(t, et) || types.Implements(types.NewPointer(t), et)
}

func runE9(p *an.Prog, r *an.Result) {
	roles := GetRoles(p)
	// the constructors that make an error from a message
	isCtor := func(c *ssa.CallCommon) (string, bool) {
		if c.IsInvoke() {
			if c.Method.Name() == "Errorf" {
				return an.CallName(c), true
			}
			return "", false
		}
		callee := c.StaticCallee()
		if callee == nil {
			return "", false
		}
		cn := an.CallName(c)
		switch cn {
		case "fmt.Errorf", "errors.New":
			return cn, true
		}
		if p.InModule(callee) && callee.Signature.Results().Len() == 1 && implementsError(callee.Signature.Results().At(0).Type()) {
			// a module function that formats its arguments into an error: ...(format string, args ...any)
			ps := callee.Signature.Params()
			if callee.Signature.Variadic() && ps.Len() >= 2 {
				if b, ok := ps.At(ps.Len() - 2).Type().Underlying().(*types.Basic); ok && b.Kind() == types.String {
					return cn, true
				}
			}
		}
		return "", false
	}
	// the error values among the arguments: an error itself, or the text of one
	errorArgs := func(c *ssa.CallCommon) []ssa.Value {
		var out []ssa.Value
		var elems []ssa.Value
		for _, a := range c.Args {
			elems = append(elems, a)
			if sl, ok := a.(*ssa.Slice); ok {
				if al, ok := sl.X.(*ssa.Alloc); ok && al.Referrers() != nil {
					for _, au := range *al.Referrers() {
						if ia, ok := au.(*ssa.IndexAddr); ok {
							elems = append(elems, an.Stores(ia)...)
						}
					}
				}
			}
		}
		for _, e := range elems {
			v := e
			for {
				if mi, ok := v.(*ssa.MakeInterface); ok {
					v = mi.X
					continue
				}
				if ci, ok := v.(*ssa.ChangeInterface); ok {
					v = ci.X
					continue
				}
				break
			}
			if call := an.CallOf(v); call != nil && call.IsInvoke() && call.Method.Name() == "Error" && implementsError(call.Value.Type()) {
				out = append(out, call.Value)
				continue
			}
			if _, isConst := v.(*ssa.Const); isConst {
				continue
			}
			if _, isSlice := v.Type().Underlying().(*types.Slice); isSlice {
				continue
			}
			if implementsError(v.Type()) {
				out = append(out, v)
			}
		}
		return out
	}
	for _, fn := range p.Funcs {
		if fn.Blocks == nil || isMainPkg(fn) || fn.Pkg == nil || p9OutOfScope(p, fn) != "" && !strings.Contains(p9OutOfScope(p, fn), "goyacc") {
			continue
		}
		name := roles.Label(fn)
		an.EachInstr(fn, func(in ssa.Instruction) {
			call, ok := in.(*ssa.Call)
			if !ok {
				return
			}
			cn, ok := isCtor(&call.Call)
			if !ok {
				return
			}
			r.Counts["error constructor calls"]++
			eargs := errorArgs(&call.Call)
			if len(eargs) == 0 {
				return
			}
			r.Counts["constructed from an error"]++
			construct := cn + "(… " + describe(p, eargs[0]) + " …)"
			// %w keeps the error
			if cn == "fmt.Errorf" {
				if f, ok := an.ConstString(call.Call.Args[0]); ok && strings.Contains(f, "%w") {
					r.OK(name, construct, call.Pos(), "wrapped with %w")
					return
				}
			}
			// the new error's cause field is set to the error (or to its cause)
			kept := false
			if call.Referrers() != nil {
				var visit func(v ssa.Value, depth int)
				seen := map[ssa.Value]bool{}
				visit = func(v ssa.Value, depth int) {
					if v == nil || seen[v] || depth > 4 || v.Referrers() == nil {
						return
					}
					seen[v] = true
					for _, u := range *v.Referrers() {
						switch x := u.(type) {
						case *ssa.FieldAddr:
							if fieldName(x) == "cause" {
								for _, sv := range an.Stores(x) {
									for _, ea := range eargs {
										if an.Reaches(sv, an.StepValue, func(o ssa.Value) bool {
											if o == ea {
												return true
											}
											if c := an.CallOf(o); c != nil && c.IsInvoke() && c.Method.Name() == "Cause" {
												return true
											}
											return false
										}) {
											kept = true
										}
									}
								}
							}
						case *ssa.Store:
							if x.Val == v {
								visit(x.Addr, depth+1)
							}
						case *ssa.UnOp:
							visit(x, depth+1)
						case *ssa.Phi:
							visit(x, depth+1)
						case *ssa.MakeInterface, *ssa.ChangeType, *ssa.TypeAssert:
							visit(x.(ssa.Value), depth+1)
						}
					}
				}
				visit(call, 0)
			}
			if kept {
				r.OK(name, construct, call.Pos(), "the new error's cause field is set to the error it was made from")
				return
			}
			r.Bad(name, construct, call.Pos(), fmt.Sprintf("%s formats an error into the message of a new one and does not keep it: Cause() of the result is not the original error, and a location the original carried is lost", an.FuncName(fn)))
		})
	}
	r.Floor("error constructor calls", 20)
	r.Floor("constructed from an error", 1)
}

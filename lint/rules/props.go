package rules

// The mapping from properties to the rules that decide their structural
// clauses (DESIGN.md section 5). Each explanation states what is decided and
// what is not.

func init() {
	property("C04", []string{"M1", "M2", "M3", "M4", "M5", "M5b", "M6", "M7", "M8"},
		"Decided for all schedules at once (the static half the property's own quantifier names): no closure that outlives the call that created it (renderer, evaluator, compiler, filter closures) writes a variable it captured or anything reached through one (M3); no package-level variable is written after initialisation (M4); no store or map update goes into an object shared by all renders - engine, template, render nodes, compiled expressions, configuration maps, values captured at compile time - except while that object is being built or in a configuration-phase function (M5); lazily initialised fields sit behind sync.Once consistently (M6); no configuration mutator is reachable from a run-phase entry point (M7). Together: every location written by a run-phase call is allocated by that call. NOT decided: actual interleavings under the race detector, races inside caller code (Drops, custom tags/filters, the io.Writer), ParseTemplateAndCache concurrent with include (classified configuration), mutation through library calls the rules do not model, and the 'equals sequential' clause beyond sharing no state.",
		append([]string{"tables/api_phases.json lists the configuration-phase API"}, baseAssumptions...)...)
	property("C01", []string{"P1", "P2", "P3", "P4", "P5", "P6", "P7", "P8", "P9s", "P10", "P11", "E4p", "E5", "F1", "F4"},
		"Decided for all templates and bindings at once - the catalogue of panic sources the code can contain: every explicit panic reachable at run phase raises a type its recover boundary converts to an error, or is a reviewed unreachable assertion (P1, with the registry prunes F4/F1 and the exhaustiveness proof P11); no error location is taken from a node whose SourceLocation panics (P2); unchecked type assertions on values that can hold caller data (P3); reflect.TypeOf(nil)/zero reflect.Value receivers (P4); MapIndex with a key of the wrong type (P5); == or map hashing of two interfaces that may hold the same uncomparable type (P6); MustCompile of run-time text (P7); negative make sizes (P8); slice and index bounds in the filter package, by a difference-bound prover over guards, clamps, phis and lengths (P9s); integer division by zero (P10); write failures raised as panics (E4, E5). NOT decided: termination and the running-time clause, stack depth (recursive include), nil dereferences and index bounds outside the filter package (ragel/goyacc tables, regexp submatch indices, the parser stack), arithmetic overflow, panics inside the standard library on arguments the catalogue does not model, caller-supplied ToLiquid/struct methods.",
		baseAssumptions...)
	property("C02", []string{"D1", "D1c", "D2", "D3", "M3", "M4", "M5", "M5b", "M8"},
		"Decided for all inputs at once: Go's randomised map iteration order is never observable - every range over a map and every reflect MapKeys() walk either only accumulates commutatively (map inserts) or has its keys sorted before any other use (D1); no clock, random, environment, process, stack, goroutine or %p source is consulted outside the date \"now\" exception, package initialisers and the re-raise path of the recover closure (D2); nothing survives from one render to the next - no compile-time closure writes what it captured (M3), no package-level variable is written after initialisation (M4), no shared object is written at run phase (M5). NOT decided: that fmt prints no address for values containing pointers, the time zone, equality of error texts when several elements of a map fail conversion, equality of error strings beyond sharing the code path. Every entry point funnels into newTemplate/Compile and render.Render: each return passes through the common call or is an established failure (D3).",
		baseAssumptions...)
	property("C03", []string{"M1", "M2", "M3", "M4", "M5", "M5b", "M8", "B7"},
		"Decided for all histories at once by an interprocedural distance analysis (aliases of the caller's storage vs. copies allocated during the call, through interface methods, renderer closures, reflect wrappers and sort.Interface implementations): no standard filter stores through, appends to, sorts, copies into or otherwise writes a slice/map/pointer/interface argument or anything nested in it (M1); nothing reachable from Render/FRender/RenderString/ParseAndRender* writes the bindings map passed in or any object reached from it - only the per-render copy made by newNodeContext is written (M2); the template and engine are not written by rendering: no compile-time closure writes a capture (M3), no global is written (M4), no store goes into a render node, compiled expression or configuration map at run phase (M5), so assign/capture variables, loop variables, forloop and cycle state live only in per-render allocations. NOT decided: mutation performed by caller-supplied code (ToLiquid, struct methods, custom filters) or inside reflect-driven library code (json.Marshal, fmt), which is trusted read-only.",
		baseAssumptions...)
	property("C20", []string{"E4", "E5", "P2", "P1"},
		"Decided for every fault index at once: the error result of every call that can write output (anything taking or invoked on an io.Writer / the trim writer, node render methods, renderer closures) flows to a return of the enclosing function and never into a panic or the void (E4); every function and interface method that is handed a writer and uses it has an error result (E5); no error location is ever taken from a node kind whose SourceLocation panics (P2); every explicit panic reachable at run phase has a type its recover boundary converts (P1, shared with C01). NOT decided: that the bytes accepted before the failure are a prefix of the fault-free output (byte-level behaviour of the trim writer), and that the returned error is located at the right line.",
		baseAssumptions...)
}

// NotApplicable gives the reason for every property that has no registered
// rule yet (kept current as rules are armed).
var NotApplicable = map[string]string{}

func init() {
	for _, id := range []string{"C01", "C02", "C03", "C05", "C06", "C07", "C08", "C09", "C10", "C11", "C12", "C13", "C14", "C15", "C16", "C17", "C18", "C19"} {
		if props[id] == nil {
			NotApplicable[id] = "static rules for this property are not armed yet (DESIGN.md section 8 build order); no check is claimed until they pass on the repaired tree"
		}
	}
}

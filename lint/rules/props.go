package rules

// The mapping from properties to the rules that decide their structural
// clauses (DESIGN.md section 5). Each explanation states what is decided and
// what is not.

func init() {
	property("C04", []string{"M3", "M4", "M5", "M6", "M7"},
		"Decided for all schedules at once (the static half the property's own quantifier names): no closure that outlives the call that created it (renderer, evaluator, compiler, filter closures) writes a variable it captured or anything reached through one (M3); no package-level variable is written after initialisation (M4); no store or map update goes into an object shared by all renders - engine, template, render nodes, compiled expressions, configuration maps, values captured at compile time - except while that object is being built or in a configuration-phase function (M5); lazily initialised fields sit behind sync.Once consistently (M6); no configuration mutator is reachable from a run-phase entry point (M7). Together: every location written by a run-phase call is allocated by that call. NOT decided: actual interleavings under the race detector, races inside caller code (Drops, custom tags/filters, the io.Writer), ParseTemplateAndCache concurrent with include (classified configuration), mutation through library calls the rules do not model, and the 'equals sequential' clause beyond sharing no state.",
		append([]string{"tables/api_phases.json lists the configuration-phase API"}, baseAssumptions...)...)
	property("C20", []string{"E4", "E5", "P2", "P1"},
		"Decided for every fault index at once: the error result of every call that can write output (anything taking or invoked on an io.Writer / the trim writer, node render methods, renderer closures) flows to a return of the enclosing function and never into a panic or the void (E4); every function and interface method that is handed a writer and uses it has an error result (E5); no error location is ever taken from a node kind whose SourceLocation panics (P2); every explicit panic reachable at run phase has a type its recover boundary converts (P1, shared with C01). NOT decided: that the bytes accepted before the failure are a prefix of the fault-free output (byte-level behaviour of the trim writer), and that the returned error is located at the right line.",
		baseAssumptions...)
}

// NotApplicable gives the reason for every property that has no registered
// rule yet (kept current as rules are armed).
var NotApplicable = map[string]string{}

func init() {
	for _, id := range []string{"C01", "C02", "C03", "C05", "C06", "C07", "C08", "C09", "C10", "C11", "C12", "C13", "C14", "C15", "C16", "C17", "C18", "C19"} {
		if props[id] == nil {
			NotApplicable[id] = "static rules for this property are not armed yet (DESIGN.md section 8 build order); no check is claimed until they pass on the repaired tree"
		}
	}
}

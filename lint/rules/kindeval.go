package rules

import (
	"go/token"
	"go/types"

	"golang.org/x/tools/go/ssa"
	"lv/an"
)

// Finite-domain evaluation of the kind predicates. A function whose parameters are reflect.Kind
// values and whose body only compares them with constants, calls functions of the same sort and
// returns constants or its parameters is a table over a domain of 27 (or 27 x 27) points. The table
// is computed from the SSA form: each point of the domain is carried through the control-flow graph,
// branches are decided by the comparisons, phis by the edge taken. Nothing of the program is run; a
// construct outside this small language (a load, a call of anything else, a loop that does not end
// within the step bound) makes the table undefined and the caller falls back to its structural reading.

const kindCount = 27 // reflect.Invalid .. reflect.UnsafePointer

type kindTable struct {
	ok  bool
	val map[[2]int64]int64 // result per argument pair (second is 0 for one-parameter functions)
}

var kindTableMemo = map[*ssa.Function]*kindTable{}

func isKindOrBool(t types.Type) bool {
	if isPkgType(t, "reflect", "Kind") {
		return true
	}
	b, ok := t.Underlying().(*types.Basic)
	return ok && b.Kind() == types.Bool
}

// kindTableOf computes the table of f, or a table with ok == false.
func kindTableOf(p *an.Prog, f *ssa.Function, depth int) *kindTable {
	if t, ok := kindTableMemo[f]; ok {
		return t
	}
	t := &kindTable{val: map[[2]int64]int64{}}
	kindTableMemo[f] = t // (a recursive use sees ok == false)
	if f == nil || f.Blocks == nil || depth > 3 || len(f.Params) == 0 || len(f.Params) > 2 || f.Signature.Results().Len() != 1 || !(isKindOrBool(f.Signature.Results().At(0).Type()) || isModuleSmallInt(p, f.Signature.Results().At(0).Type())) {
		return t
	}
	for _, par := range f.Params {
		// kinds, or a small integer type of the module's own that classifies kinds (the table then covers
		// its values below kindCount; a lookup outside the table fails)
		if !isPkgType(par.Type(), "reflect", "Kind") && !isModuleSmallInt(p, par.Type()) {
			return t
		}
	}
	n2 := int64(1)
	if len(f.Params) == 2 {
		n2 = kindCount
	}
	for a := int64(0); a < kindCount; a++ {
		for b := int64(0); b < n2; b++ {
			v, ok := evalKindPoint(p, f, []int64{a, b}, depth)
			if !ok {
				return t
			}
			t.val[[2]int64{a, b}] = v
		}
	}
	t.ok = true
	return t
}

// evalKindPoint carries one point of the domain through f.
func evalKindPoint(p *an.Prog, f *ssa.Function, args []int64, depth int) (int64, bool) {
	env := map[ssa.Value]int64{}
	for i, par := range f.Params {
		env[par] = args[i]
	}
	get := func(v ssa.Value) (int64, bool) {
		if c, ok := v.(*ssa.Const); ok {
			if c.Value == nil {
				return 0, false
			}
			if b, ok := an.ConstBool(c); ok {
				if b {
					return 1, true
				}
				return 0, true
			}
			return an.ConstInt(c)
		}
		x, ok := env[v]
		return x, ok
	}
	maps := map[ssa.Value]*ssa.Global{}
	cells := map[ssa.Value]int64{} // addresses of elements of constant package-level arrays
	blk := f.Blocks[0]
	var prev *ssa.BasicBlock
	for steps := 0; steps < 400; steps++ {
		var next *ssa.BasicBlock
		for _, in := range blk.Instrs {
			switch x := in.(type) {
			case *ssa.Phi:
				found := false
				for i, pb := range blk.Preds {
					if pb == prev {
						v, ok := get(x.Edges[i])
						if !ok {
							return 0, false
						}
						env[x] = v
						found = true
						break
					}
				}
				if !found {
					return 0, false
				}
			case *ssa.BinOp:
				a, ok1 := get(x.X)
				b, ok2 := get(x.Y)
				if !ok1 || !ok2 {
					return 0, false
				}
				var r bool
				switch x.Op {
				case token.EQL:
					r = a == b
				case token.NEQ:
					r = a != b
				case token.LSS:
					r = a < b
				case token.LEQ:
					r = a <= b
				case token.GTR:
					r = a > b
				case token.GEQ:
					r = a >= b
				default:
					return 0, false
				}
				env[x] = 0
				if r {
					env[x] = 1
				}
			case *ssa.IndexAddr:
				g, isG := x.X.(*ssa.Global)
				k, ok := get(x.Index)
				if !isG || !ok {
					return 0, false
				}
				tab, okT := constArrayOf(p, g)
				if !okT || k < 0 || k >= tab.n {
					return 0, false
				}
				cells[x] = tab.val[k] // (an element not listed in the literal is zero)
			case *ssa.Convert:
				// a kind converted to an integer and back (an index, a comparison with a length)
				a, ok := get(x.X)
				if !ok {
					return 0, false
				}
				if b, isB := x.Type().Underlying().(*types.Basic); !isB || b.Info()&types.IsInteger == 0 {
					return 0, false
				}
				env[x] = a
			case *ssa.UnOp:
				if cv, isCell := cells[x.X]; isCell && x.Op == token.MUL {
					env[x] = cv
					continue
				}
				if g, isG := x.X.(*ssa.Global); isG && x.Op == token.MUL {
					if _, ok := constMapOf(p, g); ok {
						maps[x] = g // a package-level table of constants, read below
						continue
					}
				}
				if x.Op != token.NOT {
					return 0, false
				}
				a, ok := get(x.X)
				if !ok {
					return 0, false
				}
				env[x] = 1 - a
			case *ssa.Call:
				callee := x.Call.StaticCallee()
				if callee == nil || !p.InModule(callee) {
					return 0, false
				}
				ct := kindTableOf(p, callee, depth+1)
				if !ct.ok {
					return 0, false
				}
				var key [2]int64
				for i, a := range x.Call.Args {
					if i > 1 {
						return 0, false
					}
					v, ok := get(a)
					if !ok {
						return 0, false
					}
					key[i] = v
				}
				cv, in := ct.val[key]
				if !in {
					return 0, false
				}
				env[x] = cv
			case *ssa.Lookup:
				g := maps[x.X]
				k, ok := get(x.Index)
				if g == nil || !ok || x.CommaOk {
					return 0, false
				}
				tab, _ := constMapOf(p, g)
				env[x] = tab[k] // (a missing key reads as the zero value)
			case *ssa.If:
				c, ok := get(x.Cond)
				if !ok {
					return 0, false
				}
				if c != 0 {
					next = blk.Succs[0]
				} else {
					next = blk.Succs[1]
				}
			case *ssa.Jump:
				next = blk.Succs[0]
			case *ssa.Return:
				return get(resultsOf(x)[0])
			case *ssa.DebugRef:
			default:
				return 0, false
			}
		}
		if next == nil {
			return 0, false
		}
		prev, blk = blk, next
	}
	return 0, false
}

// isModuleSmallInt: a named integer type declared in the module (a class of kinds, say).
func isModuleSmallInt(_ *an.Prog, t types.Type) bool {
	n, ok := t.(*types.Named)
	if !ok || !an.IsModulePkg(n.Obj().Pkg()) {
		return false
	}
	b, ok := n.Underlying().(*types.Basic)
	return ok && b.Info()&types.IsInteger != 0
}

var constMapMemo = map[*ssa.Global]map[int64]int64{}
var constMapBad = map[*ssa.Global]bool{}

// constMapOf: the content of a package-level map from integers (kinds) to integers that is built once, in
// the package initialiser, from constants, and that no function of the module stores into afterwards.
func constMapOf(p *an.Prog, g *ssa.Global) (map[int64]int64, bool) {
	if t, ok := constMapMemo[g]; ok {
		return t, true
	}
	if constMapBad[g] {
		return nil, false
	}
	constMapBad[g] = true
	st := an.GlobalStores(g)
	if len(st) != 1 {
		return nil, false
	}
	mk, ok := st[0].(*ssa.MakeMap)
	if !ok || mk.Referrers() == nil {
		return nil, false
	}
	tab := map[int64]int64{}
	for _, u := range *mk.Referrers() {
		switch x := u.(type) {
		case *ssa.MapUpdate:
			k, ok1 := an.ConstInt(x.Key)
			v, ok2 := an.ConstInt(x.Value)
			if !ok1 || !ok2 || x.Map != ssa.Value(mk) {
				return nil, false
			}
			tab[k] = v
		case *ssa.Store:
			if x.Addr != ssa.Value(g) {
				return nil, false
			}
		case *ssa.DebugRef:
		default:
			return nil, false
		}
	}
	// nothing else writes the map: every load of the global is used only for lookups and len
	okAll := true
	for _, fn := range p.Funcs {
		an.EachInstr(fn, func(in ssa.Instruction) {
			ld, isLd := in.(*ssa.UnOp)
			if !isLd || ld.Op != token.MUL || ld.X != ssa.Value(g) || ld.Referrers() == nil {
				return
			}
			for _, u := range *ld.Referrers() {
				switch y := u.(type) {
				case *ssa.Lookup:
					if y.X != ssa.Value(ld) {
						okAll = false
					}
				case *ssa.DebugRef:
				default:
					okAll = false
				}
			}
		})
	}
	if !okAll {
		return nil, false
	}
	delete(constMapBad, g)
	constMapMemo[g] = tab
	return tab, true
}

type constArray struct {
	n   int64
	val map[int64]int64
}

var constArrayMemo = map[*ssa.Global]*constArray{}

// constArrayOf: the content of a package-level array of integers that is filled once, in the package
// initialiser, with constants at constant indices, and that no function of the module stores into.
func constArrayOf(p *an.Prog, g *ssa.Global) (*constArray, bool) {
	if t, ok := constArrayMemo[g]; ok {
		return t, t != nil
	}
	constArrayMemo[g] = nil
	ptr, ok := g.Type().Underlying().(*types.Pointer)
	if !ok {
		return nil, false
	}
	arr, ok := ptr.Elem().Underlying().(*types.Array)
	if !ok {
		return nil, false
	}
	if b, isB := arr.Elem().Underlying().(*types.Basic); !isB || b.Info()&types.IsInteger == 0 {
		return nil, false
	}
	tab := &constArray{n: arr.Len(), val: map[int64]int64{}}
	okAll := true
	scan := func(fn *ssa.Function, isInit bool) {
		an.EachInstr(fn, func(in ssa.Instruction) {
			for _, op := range in.Operands(nil) {
				if *op != ssa.Value(g) {
					continue
				}
				ia, isIA := in.(*ssa.IndexAddr)
				if !isIA || ia.Referrers() == nil {
					okAll = false // the array as a whole is copied, sliced, or its address taken
					continue
				}
				for _, u := range *ia.Referrers() {
					switch y := u.(type) {
					case *ssa.UnOp: // a read
					case *ssa.Store:
						k, ok1 := an.ConstInt(ia.Index)
						v, ok2 := an.ConstInt(y.Val)
						if !isInit || y.Addr != ssa.Value(ia) || !ok1 || !ok2 {
							okAll = false
							continue
						}
						tab.val[k] = v
					case *ssa.DebugRef:
					default:
						okAll = false
					}
				}
			}
		})
	}
	if g.Package() != nil {
		if init := g.Package().Func("init"); init != nil {
			scan(init, true)
		}
	}
	for _, fn := range p.Funcs {
		if fn.Name() == "init" && fn.Pkg == g.Package() && fn.Synthetic != "" {
			continue
		}
		scan(fn, false)
	}
	if !okAll {
		return nil, false
	}
	constArrayMemo[g] = tab
	return tab, true
}

package rules

import (
	"go/token"
	"go/types"

	"golang.org/x/tools/go/ssa"
	"lv/an"
)

// Finite-domain evaluation of the kind predicates. A function whose parameters are reflect.Kind
// values and whose body only compares them with constants, calls functions of the same sort and
// returns constants or its parameters is a table over a domain of 27 (or 27 x 27) points. The table
// is computed from the SSA form: each point of the domain is carried through the control-flow graph,
// branches are decided by the comparisons, phis by the edge taken. Nothing of the program is run; a
// construct outside this small language (a load, a call of anything else, a loop that does not end
// within the step bound) makes the table undefined and the caller falls back to its structural reading.

const kindCount = 27 // reflect.Invalid .. reflect.UnsafePointer

type kindTable struct {
	ok  bool
	val map[[2]int64]int64 // result per argument pair (second is 0 for one-parameter functions)
}

var kindTableMemo = map[*ssa.Function]*kindTable{}

func isKindOrBool(t types.Type) bool {
	if isPkgType(t, "reflect", "Kind") {
		return true
	}
	b, ok := t.Underlying().(*types.Basic)
	return ok && b.Kind() == types.Bool
}

// kindTableOf computes the table of f, or a table with ok == false.
func kindTableOf(p *an.Prog, f *ssa.Function, depth int) *kindTable {
	if t, ok := kindTableMemo[f]; ok {
		return t
	}
	t := &kindTable{val: map[[2]int64]int64{}}
	kindTableMemo[f] = t // (a recursive use sees ok == false)
	if f == nil || f.Blocks == nil || depth > 3 || len(f.Params) == 0 || len(f.Params) > 2 || f.Signature.Results().Len() != 1 || !isKindOrBool(f.Signature.Results().At(0).Type()) {
		return t
	}
	for _, par := range f.Params {
		if !isPkgType(par.Type(), "reflect", "Kind") {
			return t
		}
	}
	n2 := int64(1)
	if len(f.Params) == 2 {
		n2 = kindCount
	}
	for a := int64(0); a < kindCount; a++ {
		for b := int64(0); b < n2; b++ {
			v, ok := evalKindPoint(p, f, []int64{a, b}, depth)
			if !ok {
				return t
			}
			t.val[[2]int64{a, b}] = v
		}
	}
	t.ok = true
	return t
}

// evalKindPoint carries one point of the domain through f.
func evalKindPoint(p *an.Prog, f *ssa.Function, args []int64, depth int) (int64, bool) {
	env := map[ssa.Value]int64{}
	for i, par := range f.Params {
		env[par] = args[i]
	}
	get := func(v ssa.Value) (int64, bool) {
		if c, ok := v.(*ssa.Const); ok {
			if c.Value == nil {
				return 0, false
			}
			if b, ok := an.ConstBool(c); ok {
				if b {
					return 1, true
				}
				return 0, true
			}
			return an.ConstInt(c)
		}
		x, ok := env[v]
		return x, ok
	}
	blk := f.Blocks[0]
	var prev *ssa.BasicBlock
	for steps := 0; steps < 400; steps++ {
		var next *ssa.BasicBlock
		for _, in := range blk.Instrs {
			switch x := in.(type) {
			case *ssa.Phi:
				found := false
				for i, pb := range blk.Preds {
					if pb == prev {
						v, ok := get(x.Edges[i])
						if !ok {
							return 0, false
						}
						env[x] = v
						found = true
						break
					}
				}
				if !found {
					return 0, false
				}
			case *ssa.BinOp:
				a, ok1 := get(x.X)
				b, ok2 := get(x.Y)
				if !ok1 || !ok2 {
					return 0, false
				}
				var r bool
				switch x.Op {
				case token.EQL:
					r = a == b
				case token.NEQ:
					r = a != b
				case token.LSS:
					r = a < b
				case token.LEQ:
					r = a <= b
				case token.GTR:
					r = a > b
				case token.GEQ:
					r = a >= b
				default:
					return 0, false
				}
				env[x] = 0
				if r {
					env[x] = 1
				}
			case *ssa.UnOp:
				if x.Op != token.NOT {
					return 0, false
				}
				a, ok := get(x.X)
				if !ok {
					return 0, false
				}
				env[x] = 1 - a
			case *ssa.Call:
				callee := x.Call.StaticCallee()
				if callee == nil || !p.InModule(callee) {
					return 0, false
				}
				ct := kindTableOf(p, callee, depth+1)
				if !ct.ok {
					return 0, false
				}
				var key [2]int64
				for i, a := range x.Call.Args {
					if i > 1 {
						return 0, false
					}
					v, ok := get(a)
					if !ok {
						return 0, false
					}
					key[i] = v
				}
				env[x] = ct.val[key]
			case *ssa.If:
				c, ok := get(x.Cond)
				if !ok {
					return 0, false
				}
				if c != 0 {
					next = blk.Succs[0]
				} else {
					next = blk.Succs[1]
				}
			case *ssa.Jump:
				next = blk.Succs[0]
			case *ssa.Return:
				return get(resultsOf(x)[0])
			case *ssa.DebugRef:
			default:
				return 0, false
			}
		}
		if next == nil {
			return 0, false
		}
		prev, blk = blk, next
	}
	return 0, false
}

package rules

import (
	"fmt"
	"go/token"
	"go/types"
	"reflect"
	"sort"
	"strings"

	"golang.org/x/tools/go/ssa"

	"lv/an"
)

// Rules X1, X3–X7: expression semantics fixed by construction; F2, F3.

func init() {
	register("X1", "the six comparison operators are built from the two primitives Equal and Less in exactly the canonical shapes, each once, over operands evaluated once", runX1)
	register("X3", "wherever a value is compared with false it is also compared with nil, with nil and false treated alike; and/or use the one truthiness predicate on both operands", runX3)
	register("X5", "an unknown filter and a surplus argument are rejected before the reflective call", runX5)
	register("X6", "the ok result of every lookup in a configuration registry is acted upon", runX6)
	register("X7", "each container wrapper is constructed only in ValueOf, under the reflect.Kind arm it is named after", runX7)
	register("F2", "string filters never cut or index a string at a byte offset that is not a rune boundary, and never use a byte length as a character count", runF2)
	register("F3", "in the filter package a value taken out of an array argument (or a container argument as a whole) is unwrapped (ToLiquid / the generic value layer) before anything looks at its Go representation", runF3)
}

// ---------------------------------------------------------------------------
// X1

func runX1(p *an.Prog, r *an.Result) {
	roles := GetRoles(p)
	var shapes []string
	pos := map[string]token.Pos{}
	for _, fn := range roles.Evaluators {
		// invokes of Equal / Less on values.Value
		var prim []*ssa.Call
		an.EachInstr(fn, func(in ssa.Instruction) {
			if c, ok := in.(*ssa.Call); ok && c.Call.IsInvoke() && (c.Call.Method.Name() == "Equal" || c.Call.Method.Name() == "Less") && isNamedIn(c.Call.Value.Type(), "values", "Value") {
				prim = append(prim, c)
			}
		})
		if len(prim) == 0 {
			continue
		}
		r.Counts["comparison closures"]++
		name := an.FuncName(fn)
		// operands: the two dynamic calls of captured functions, in evaluation order
		var operands []*ssa.Call
		an.EachInstr(fn, func(in ssa.Instruction) {
			if c, ok := in.(*ssa.Call); ok && !c.Call.IsInvoke() && c.Call.StaticCallee() == nil {
				if _, isB := c.Call.Value.(*ssa.Builtin); !isB && IsEvaluatorSig(c.Call.Value.Type().Underlying().(*types.Signature)) {
					operands = append(operands, c)
				}
			}
		})
		if len(operands) != 2 {
			r.Bad(name, "operands", an.FuncPos(fn), fmt.Sprintf("a comparison closure must evaluate each of its two operands exactly once (found %d evaluations)", len(operands)))
			continue
		}
		// which is the left operand: the capture bound to the lower-numbered grammar symbol
		side := func(c *ssa.Call) string {
			u, ok := c.Call.Value.(*ssa.UnOp)
			if !ok {
				return "?"
			}
			fv, ok := u.X.(*ssa.FreeVar)
			if !ok {
				return "?"
			}
			cell := cellOfFreeVar(fn.Parent(), fn, fv)
			al, ok := cell.(*ssa.Alloc)
			if !ok {
				return "?"
			}
			for _, st := range an.Stores(al) {
				// a parameter of a builder function: left and right by position (the grammar hands $1, $3 in order: G-rules)
				if par, ok := st.(*ssa.Parameter); ok && fn.Parent() != nil {
					for k, pp := range fn.Parent().Params {
						if pp == par {
							return fmt.Sprintf("p%d", k)
						}
					}
				}
				// yyDollar[k].f
				d := describe(p, st)
				_ = d
				if ld, ok := st.(*ssa.UnOp); ok {
					if fa, ok := ld.X.(*ssa.FieldAddr); ok {
						if ia, ok := fa.X.(*ssa.IndexAddr); ok {
							if k, ok := an.ConstInt(ia.Index); ok {
								return fmt.Sprint(k)
							}
						}
					}
				}
			}
			return "?"
		}
		s0, s1 := side(operands[0]), side(operands[1])
		if s0 == "?" || s1 == "?" || s0 == s1 {
			r.Bad(name, "operand binding", an.FuncPos(fn), "the captured operand functions could not be traced to two distinct grammar symbols")
			continue
		}
		// a builder's parameters are filled from the grammar's symbols in order
		if strings.HasPrefix(s0, "p") && fn.Parent() != nil {
			symOf := func(v ssa.Value) int64 {
				for _, o := range an.Origins(v, an.StepValue) {
					if ld, ok := o.(*ssa.UnOp); ok {
						if fa, ok := ld.X.(*ssa.FieldAddr); ok {
							if ia, ok := fa.X.(*ssa.IndexAddr); ok {
								if k, ok := an.ConstInt(ia.Index); ok {
									return k
								}
							}
						}
					}
				}
				return -1
			}
			swapped := false
			for _, site := range callSitesOf(p, fn.Parent()) {
				if len(site.Call.Args) >= 2 {
					a, b := symOf(site.Call.Args[0]), symOf(site.Call.Args[1])
					if a >= 0 && b >= 0 && a > b {
						swapped = true
						r.Bad(name, "builder called with its operands swapped", site.Pos(), "the grammar hands the right-hand symbol to the builder's left parameter")
					}
				}
			}
			if swapped {
				continue
			}
		}
		// left = smaller symbol index; it must also be evaluated first
		L, R := operands[0], operands[1]
		if s0 > s1 {
			r.Bad(name, "right operand evaluated before the left one", an.FuncPos(fn), "operands must be evaluated left to right")
			continue
		}
		nm := func(v ssa.Value) string {
			switch v {
			case ssa.Value(L):
				return "L"
			case ssa.Value(R):
				return "R"
			}
			return "?"
		}
		call := func(c *ssa.Call) string {
			a, b := nm(c.Call.Value), nm(c.Call.Args[0])
			if c.Call.Method.Name() == "Equal" && a == "R" && b == "L" {
				a, b = b, a // Equal is used symmetrically
			}
			return a + "." + c.Call.Method.Name() + "(" + b + ")"
		}
		var shape func(v ssa.Value, depth int) string
		shape = func(v ssa.Value, depth int) string {
			if depth > 6 {
				return "?"
			}
			switch x := v.(type) {
			case *ssa.Call:
				if x.Call.IsInvoke() {
					return call(x)
				}
			case *ssa.UnOp:
				if x.Op == token.NOT {
					return "!" + shape(x.X, depth+1)
				}
			case *ssa.Phi:
				// a || b: phi [true from the block testing a, b]
				if len(x.Edges) == 2 {
					for i, e := range x.Edges {
						if c, ok := an.ConstBool(e); ok && c {
							pred := x.Block().Preds[i]
							if ifi, ok := pred.Instrs[len(pred.Instrs)-1].(*ssa.If); ok && pred.Succs[0] == x.Block() {
								return shape(ifi.Cond, depth+1) + "||" + shape(x.Edges[1-i], depth+1)
							}
						}
					}
				}
			case *ssa.MakeInterface:
				return shape(x.X, depth+1)
			}
			return "?"
		}
		var res string
		an.EachInstr(fn, func(in ssa.Instruction) {
			if ret, ok := in.(*ssa.Return); ok {
				// values.ValueOf(<bool>)
				if c := an.CallOf(ret.Results[0]); c != nil && an.CallName(c) == "values.ValueOf" {
					res = shape(c.Args[0], 0)
				}
			}
		})
		shapes = append(shapes, res)
		pos[res] = an.FuncPos(fn)
	}
	want := []string{"!L.Equal(R)", "L.Equal(R)", "L.Less(R)", "L.Less(R)||L.Equal(R)", "R.Less(L)", "R.Less(L)||L.Equal(R)"}
	sort.Strings(shapes)
	count := map[string]int{}
	for _, s := range shapes {
		count[s]++
	}
	for _, w := range want {
		switch count[w] {
		case 1:
			r.OK("expressions grammar actions", "relation "+w, pos[w], "one closure of this shape")
		case 0:
			r.Bad("expressions grammar actions", "relation "+w+" missing", token.NoPos, fmt.Sprintf("no comparison closure has the canonical shape %s (found: %s): one of ==, !=, <, >, <=, >= is not defined from Equal/Less the way the coherence laws need", w, strings.Join(shapes, ", ")))
		default:
			r.Bad("expressions grammar actions", "relation "+w+" duplicated", pos[w], "two operators share one definition")
		}
		delete(count, w)
	}
	for s := range count {
		r.Bad("expressions grammar actions", "unexpected relation shape "+s, pos[s], "a comparison operator is built in a non-canonical way (for example >= as !a.Less(b), which differs from b<a||a==b on unordered operands)")
	}
	r.Floor("comparison closures", 6)
}

// ---------------------------------------------------------------------------
// X3

func runX3(p *an.Prog, r *an.Result) {
	roles := GetRoles(p)
	for _, fn := range p.Funcs {
		if isMainPkg(fn) || p.IsGenerated(an.FuncPos(fn)) && false {
			continue
		}
		name := roles.Label(fn)
		an.EachInstr(fn, func(in ssa.Instruction) {
			b, ok := in.(*ssa.BinOp)
			if !ok || (b.Op != token.EQL && b.Op != token.NEQ) {
				return
			}
			var x ssa.Value
			for _, pair := range [][2]ssa.Value{{b.X, b.Y}, {b.Y, b.X}} {
				if mi, ok := pair[1].(*ssa.MakeInterface); ok {
					if c, ok := an.ConstBool(mi.X); ok && !c && an.IsInterface(pair[0].Type()) {
						x = pair[0]
					}
				}
			}
			if x == nil {
				return
			}
			r.Counts["comparisons with false"]++
			construct := describe(p, x) + " " + b.Op.String() + " false"
			// the comparison is evaluated only where x != nil has been established by a test of
			// the same operator family (x != nil && x != false   /   x == nil || x == false)
			good := an.AllPathsGuarded(b.Block(), func(cond ssa.Value, taken bool) bool {
				nb, ok := cond.(*ssa.BinOp)
				if !ok {
					return false
				}
				isNilCmp := (sameValue(nb.X, x) && an.IsNilConst(nb.Y)) || (sameValue(nb.Y, x) && an.IsNilConst(nb.X))
				return isNilCmp && ((nb.Op == token.NEQ && taken) || (nb.Op == token.EQL && !taken))
			})
			if good {
				r.OK(name, construct, b.Pos(), "evaluated exactly when the same value was found non-nil: nil and false are tested together")
			} else {
				r.Bad(name, construct, b.Pos(), fmt.Sprintf("%s compares a value with false without the companion nil test on the same value: truthiness here is not `neither nil nor false`", an.FuncName(fn)))
			}
		})
	}
	// and / or
	n := 0
	for _, fn := range roles.Evaluators {
		var tests []*ssa.Call
		an.EachInstr(fn, func(in ssa.Instruction) {
			if c, ok := in.(*ssa.Call); ok && c.Call.IsInvoke() && c.Call.Method.Name() == "Test" {
				tests = append(tests, c)
			}
		})
		if len(tests) == 0 {
			continue
		}
		n++
		if len(tests) == 2 {
			r.OK(an.FuncName(fn), "boolean connective over Test() of both operands", an.FuncPos(fn), "")
		} else {
			r.Bad(an.FuncName(fn), "boolean connective", an.FuncPos(fn), fmt.Sprintf("and/or must apply Test() to both operands (found %d)", len(tests)))
		}
	}
	r.Counts["connectives"] = n
	r.Floor("comparisons with false", 4)
	r.Floor("connectives", 2)
}

// ---------------------------------------------------------------------------
// X5

func runX5(p *an.Prog, r *an.Result) {
	af := p.Func("(*expressions.context).ApplyFilter")
	if af == nil {
		r.Bad("-", "ApplyFilter not found", token.NoPos, "anchor not resolved")
	} else {
		good := false
		var unitInstrs []ssa.Instruction
		for _, uf := range unitWithHelpers(p, af) {
			an.EachInstr(uf, func(in ssa.Instruction) { unitInstrs = append(unitInstrs, in) })
		}
		eachUnitInstr := func(_ *ssa.Function, f func(ssa.Instruction)) {
			for _, in := range unitInstrs {
				f(in)
			}
		}
		eachUnitInstr(af, func(in ssa.Instruction) {
			lk, ok := in.(*ssa.Lookup)
			if !ok || !lk.CommaOk || !strings.HasSuffix(describe(p, lk.X), ".filters") || lk.Referrers() == nil {
				return
			}
			for _, u := range *lk.Referrers() {
				ex, ok := u.(*ssa.Extract)
				if !ok || ex.Index != 1 || ex.Referrers() == nil {
					continue
				}
				for _, uu := range *ex.Referrers() {
					ifi, ok := uu.(*ssa.If)
					if !ok {
						continue
					}
					// the !ok edge raises UndefinedFilter (or returns an error)
					for _, x := range ifi.Block().Succs[1].Instrs {
						if pn, ok := x.(*ssa.Panic); ok {
							if mi, ok := pn.X.(*ssa.MakeInterface); ok && isNamedIn(mi.X.Type(), "expressions", "UndefinedFilter") {
								good = true
							}
						}
						if ret, ok := x.(*ssa.Return); ok {
							res := resultsOf(ret)
							if !an.IsNilConst(res[len(res)-1]) {
								good = true
							}
						}
					}
				}
			}
		})
		if good {
			r.OK(an.FuncName(af), "unknown filter name raises UndefinedFilter", an.FuncPos(af), "comma-ok lookup; the !ok edge fails before anything is called")
		} else {
			r.Bad(an.FuncName(af), "unknown filter not rejected", an.FuncPos(af), "the filter lookup must be checked and an unknown name must be an error")
		}
	}
	cc := p.Func("values.convertCallArguments")
	if cc == nil {
		r.Bad("-", "convertCallArguments not found", token.NoPos, "anchor not resolved")
	} else {
		good := false
		an.EachInstr(cc, func(in ssa.Instruction) {
			ret, ok := in.(*ssa.Return)
			if !ok {
				return
			}
			res := resultsOf(ret)
			mi, ok := res[len(res)-1].(*ssa.MakeInterface)
			if !ok || !strings.Contains(an.TypeName(mi.X.Type()), "CallParityError") {
				return
			}
			// under len(args) > NumIn()
			pred := func(cond ssa.Value, taken bool) bool {
				b, ok := cond.(*ssa.BinOp)
				if !ok || !taken {
					return false
				}
				lenArgs := func(v ssa.Value) bool {
					c := an.CallOf(v)
					return c != nil && an.CallName(c) == "builtin.len" && c.Args[0] == ssa.Value(cc.Params[1])
				}
				numIn := func(v ssa.Value) bool {
					c := an.CallOf(v)
					if c != nil && an.CallName(c) == "(reflect.Type).NumIn" {
						return true
					}
					// the count kept in a field that is only ever filled from NumIn()
					st := fieldStoresOf(p, v)
					for _, s := range st {
						if sc := an.CallOf(s.Val); sc == nil || an.CallName(sc) != "(reflect.Type).NumIn" {
							return false
						}
					}
					return len(st) > 0
				}
				return (b.Op == token.GTR && lenArgs(b.X) && numIn(b.Y)) || (b.Op == token.LSS && numIn(b.X) && lenArgs(b.Y))
			}
			if an.AllPathsGuarded(ret.Block(), pred) {
				good = true
			}
		})
		if good {
			r.OK(an.FuncName(cc), "more arguments than parameters returns CallParityError", an.FuncPos(cc), "under len(args) > NumIn()")
		} else {
			r.Bad(an.FuncName(cc), "surplus arguments not rejected", an.FuncPos(cc), "a call with more arguments than the filter takes must be an error, not a reflect panic")
		}
	}
	call := p.Func("values.Call")
	if call == nil {
		r.Bad("-", "values.Call not found", token.NoPos, "anchor not resolved")
	} else {
		rc := callsNamed(call, "(reflect.Value).Call")
		cv := callsNamed(call, "values.convertCallArguments")
		good := len(rc) == 1 && len(cv) == 1
		if good {
			ev := errorValueOf(cv[0], 1)
			good = false
			for _, g := range an.GuardsAtInstr(rc[0]) {
				if b, ok := g.Cond.(*ssa.BinOp); ok && b.X == ev && an.IsNilConst(b.Y) {
					if (b.Op == token.NEQ && !g.True) || (b.Op == token.EQL && g.True) {
						good = true
					}
				}
			}
			// the converted arguments are what is passed
			if in := errorValueOf(cv[0], 0); in == nil || rc[0].Call.Args[1] != in {
				good = false
			}
		}
		if good {
			r.OK(an.FuncName(call), "reflect Call only after the arguments converted without error", an.FuncPos(call), "dominated by err == nil; called with the converted arguments")
		} else {
			r.Bad(an.FuncName(call), "reflect Call not guarded by the argument conversion", an.FuncPos(call), "the filter must be called only with successfully converted arguments")
		}
	}
}

// ---------------------------------------------------------------------------
// X6

func runX6(p *an.Prog, r *an.Result) {
	for _, fn := range p.Funcs {
		if isMainPkg(fn) {
			continue
		}
		name := an.FuncName(fn)
		an.EachInstr(fn, func(in ssa.Instruction) {
			lk, ok := in.(*ssa.Lookup)
			if !ok || !lk.CommaOk {
				return
			}
			d := describe(p, lk.X)
			reg := ""
			for _, sfx := range []string{".tags", ".blockDefs", ".filters", ".Cache"} {
				if strings.HasSuffix(d, sfx) {
					reg = sfx[1:]
				}
			}
			if reg == "" {
				return
			}
			r.Counts["registry lookups"]++
			used := false
			if lk.Referrers() != nil {
				for _, u := range *lk.Referrers() {
					if ex, ok := u.(*ssa.Extract); ok && ex.Index == 1 && ex.Referrers() != nil {
						for _, uu := range *ex.Referrers() {
							switch uu.(type) {
							case *ssa.If, *ssa.Return:
								used = true
							case *ssa.Store:
								used = true // named result
							}
						}
					}
				}
			}
			if used {
				r.OK(name, "lookup in "+reg+" is checked", lk.Pos(), "the ok result is branched on or returned")
			} else {
				r.Bad(name, "lookup in "+reg+" ignores ok", lk.Pos(), "a missing registry entry must be handled, not used as a zero value")
			}
		})
	}
	// functions that hand the lookup's ok on as one of their results are lookups themselves:
	// every call of them must look at that result too (to a fixpoint over wrappers of wrappers)
	wrappers := map[*ssa.Function]int{}
	okUsed := func(tuple ssa.Value, idx int, self *ssa.Function) (used bool) {
		if tuple.Referrers() == nil {
			return false
		}
		for _, u := range *tuple.Referrers() {
			ex, ok := u.(*ssa.Extract)
			if !ok || ex.Index != idx || ex.Referrers() == nil {
				continue
			}
			for _, uu := range *ex.Referrers() {
				switch x := uu.(type) {
				case *ssa.If, *ssa.Store:
					used = true
				case *ssa.Return:
					used = true
					for i, res := range resultsOf(x) {
						if res == ssa.Value(ex) {
							if _, had := wrappers[self]; !had {
								wrappers[self] = i
							}
						}
					}
				case *ssa.UnOp, *ssa.BinOp, *ssa.Phi:
					used = true // negated / combined / merged into a condition
				}
			}
		}
		return used
	}
	for _, fn := range p.Funcs {
		if isMainPkg(fn) {
			continue
		}
		an.EachInstr(fn, func(in ssa.Instruction) {
			if lk, ok := in.(*ssa.Lookup); ok && lk.CommaOk {
				d := describe(p, lk.X)
				for _, sfx := range []string{".tags", ".blockDefs", ".filters", ".Cache"} {
					if strings.HasSuffix(d, sfx) {
						okUsed(lk, 1, fn)
					}
				}
			}
		})
	}
	checked := map[*ssa.Call]bool{}
	for changed := true; changed; {
		changed = false
		n := len(wrappers)
		for _, fn := range p.Funcs {
			if isMainPkg(fn) {
				continue
			}
			name := an.FuncName(fn)
			an.EachInstr(fn, func(in ssa.Instruction) {
				c, ok := in.(*ssa.Call)
				if !ok || checked[c] {
					return
				}
				var w *ssa.Function
				if sc := c.Call.StaticCallee(); sc != nil {
					if _, ok := wrappers[sc]; ok {
						w = sc
					}
				} else if c.Call.IsInvoke() {
					for cand := range wrappers {
						if cand.Signature.Recv() != nil && cand.Name() == c.Call.Method.Name() {
							if it, ok := c.Call.Value.Type().Underlying().(*types.Interface); ok && types.Implements(cand.Signature.Recv().Type(), it) {
								w = cand
							}
						}
					}
				}
				if w == nil {
					return
				}
				checked[c] = true
				r.Counts["registry lookups"]++
				if okUsed(c, wrappers[w], fn) {
					r.OK(name, "result of "+an.FuncName(w)+" is checked", c.Pos(), "the ok result is branched on or returned")
				} else {
					r.Bad(name, "call of "+an.FuncName(w)+" ignores ok", c.Pos(), "a missing registry entry must be handled, not used as a zero value")
				}
			})
		}
		if len(wrappers) != n {
			changed = true
		}
	}
	r.Floor("registry lookups", 4)
}

// ---------------------------------------------------------------------------
// X7

func runX7(p *an.Prog, r *an.Result) {
	voUnit := valueOfUnit(p)
	want := map[string][]int64{
		"stringValue": {24},
		"arrayValue":  {17, 23},
		"mapValue":    {21},
		"structValue": {25, 22},
	}
	for _, fn := range p.Funcs {
		if isMainPkg(fn) {
			continue
		}
		an.EachInstr(fn, func(in ssa.Instruction) {
			al, ok := in.(*ssa.Alloc)
			if !ok || !strings.Contains(al.Comment, "complit") {
				return
			}
			n := an.NamedOf(al.Type())
			if n == nil || !an.IsModulePkg(n.Obj().Pkg()) || an.RelPkg(n.Obj().Pkg().Path()) != "values" {
				return
			}
			kinds, ok := want[n.Obj().Name()]
			if !ok {
				return
			}
			r.Counts["container wrapper constructions"]++
			name := an.FuncName(fn)
			construct := n.Obj().Name() + "{…}"
			if !voUnit[fn] {
				r.Bad(name, construct+" outside ValueOf", al.Pos(), "container wrappers rely on the kind of the wrapped value; only ValueOf's kind dispatch may build them")
				return
			}
			pred := func(cond ssa.Value, taken bool) bool {
				b, ok := cond.(*ssa.BinOp)
				if !ok || b.Op != token.EQL || !taken {
					return false
				}
				for _, pair := range [][2]ssa.Value{{b.X, b.Y}, {b.Y, b.X}} {
					if !isPkgType(pair[0].Type(), "reflect", "Kind") || !kindOfWhole(pair[0], 0) {
						continue
					}
					if c, ok := an.ConstInt(pair[1]); ok {
						for _, k := range kinds {
							if c == k {
								return true
							}
						}
					}
				}
				return false
			}
			if unitGuarded(p, voUnit, al.Block(), pred, 0) {
				r.OK(name, construct+" under the matching kind arm", al.Pos(), "")
			} else {
				r.Bad(name, construct+" not under its kind arm", al.Pos(), "the wrapper's methods call reflect accessors that panic for another kind")
			}
		})
	}
	r.Floor("container wrapper constructions", 4)
	x7Bare(p, r)
}

// x7Bare: the generic wrapper on its own (without a container or string wrapper around it) has
// none of the string, array, map or struct behaviour - contains, size, indexing. It may become a Value
// only around nil, a boolean or a number: as an interned constant of those kinds, or in ValueOf on the
// arm that is left when the kind is none of Ptr, String, Array, Slice, Map, Struct. And the nil value
// stands only for nil itself and for a nil pointer - an empty or nil slice or map is a collection.
func x7Bare(p *an.Prog, r *an.Result) {
	vo := p.Func("values.ValueOf")
	if vo == nil {
		r.Bad("-", "ValueOf not found", token.NoPos, "anchor not resolved")
		return
	}
	voUnit := valueOfUnit(p)
	isBare := func(t types.Type) bool {
		n := an.NamedOf(t)
		return n != nil && an.IsModulePkg(n.Obj().Pkg()) && an.RelPkg(n.Obj().Pkg().Path()) == "values" && n.Obj().Name() == "wrapperValue"
	}
	// the value a wrapperValue literal wraps
	wrapped := func(al *ssa.Alloc) []ssa.Value {
		var out []ssa.Value
		if al.Referrers() == nil {
			return nil
		}
		for _, u := range *al.Referrers() {
			if fa, ok := u.(*ssa.FieldAddr); ok && fieldName(fa) == "value" {
				out = append(out, an.Stores(fa)...)
			}
		}
		return out
	}
	scalarConst := func(v ssa.Value) bool {
		for {
			mi, ok := v.(*ssa.MakeInterface)
			if !ok {
				break
			}
			v = mi.X
		}
		c, ok := v.(*ssa.Const)
		if !ok {
			return false
		}
		if c.Value == nil {
			return true // nil
		}
		b, ok := c.Type().Underlying().(*types.Basic)
		return ok && b.Info()&(types.IsBoolean|types.IsNumeric) != 0
	}
	containerKinds := []int64{17, 21, 22, 23, 24, 25} // Array, Map, Ptr, Slice, String, Struct
	for _, fn := range p.Funcs {
		if isMainPkg(fn) || fn.Pkg == nil {
			continue
		}
		an.EachInstr(fn, func(in ssa.Instruction) {
			mi, ok := in.(*ssa.MakeInterface)
			if !ok || !isBare(mi.X.Type()) {
				return
			}
			name := an.FuncName(fn)
			for _, o := range an.Origins(mi.X, an.StepValue) {
				r.Counts["bare wrappers becoming values"]++
				switch x := o.(type) {
				case *ssa.UnOp:
					if g, ok := x.X.(*ssa.Global); ok && x.Op == token.MUL {
						// an interned value: what the initialiser wraps
						good, n := true, 0
						for _, f := range p.Funcs {
							an.EachInstr(f, func(in2 ssa.Instruction) {
								st, ok := in2.(*ssa.Store)
								if !ok {
									return
								}
								var vals []ssa.Value
								if st.Addr == ssa.Value(g) {
									for _, oo := range an.Origins(st.Val, an.StepValue) {
										if ld, ok := oo.(*ssa.UnOp); ok {
											if al, ok := ld.X.(*ssa.Alloc); ok {
												vals = append(vals, wrapped(al)...)
												continue
											}
										}
										good = false
									}
								} else if fa, ok := st.Addr.(*ssa.FieldAddr); ok && fa.X == ssa.Value(g) && fieldName(fa) == "value" {
									vals = append(vals, st.Val)
								} else {
									return
								}
								for _, v := range vals {
									n++
									if !scalarConst(v) {
										good = false
									}
								}
							})
						}
						if good && n > 0 {
							r.OK(name, "interned "+g.Name()+" as a value", an.InstrPos(mi), "wraps nil, a boolean or a number")
						} else {
							r.Bad(name, "interned "+g.Name()+" as a value", an.InstrPos(mi), "a bare wrapperValue is interned around something that is not nil, a boolean or a number: it lacks the string/collection behaviour (contains, size, indexing) of the wrapper ValueOf gives that kind")
						}
						continue
					}
					if al, ok := x.X.(*ssa.Alloc); ok {
						ws := wrapped(al)
						allConst := len(ws) > 0
						for _, w := range ws {
							if !scalarConst(w) {
								allConst = false
							}
						}
						if allConst {
							r.OK(name, "wrapperValue{constant} as a value", an.InstrPos(mi), "wraps nil, a boolean or a number")
							continue
						}
						if !voUnit[fn] {
							r.Bad(name, "bare wrapperValue built outside ValueOf", an.InstrPos(mi), "only ValueOf's kind dispatch knows that the wrapped value is a scalar")
							continue
						}
						// in ValueOf: the arm left over by the kind dispatch
						excluded := map[int64]bool{}
						for _, gd := range an.GuardsAt(mi.Block()) {
							b, ok := gd.Cond.(*ssa.BinOp)
							if !ok || b.Op != token.EQL || gd.True {
								continue
							}
							for _, pair := range [][2]ssa.Value{{b.X, b.Y}, {b.Y, b.X}} {
								if isPkgType(pair[0].Type(), "reflect", "Kind") && kindOfWhole(pair[0], 0) {
									if c, ok := an.ConstInt(pair[1]); ok {
										excluded[c] = true
									}
								}
							}
						}
						missing := ""
						for _, k := range containerKinds {
							if !excluded[k] {
								missing += fmt.Sprintf(" %s", reflect.Kind(k))
							}
						}
						if missing == "" {
							r.OK(name, "bare wrapperValue on the arm no container kind takes", an.InstrPos(mi), "the kind is none of Array, Map, Ptr, Slice, String, Struct")
						} else {
							r.Bad(name, "bare wrapperValue where the kind may be"+missing, an.InstrPos(mi), "a value of that kind gets the generic wrapper, which has no contains/size/indexing behaviour")
						}
						continue
					}
					r.Bad(name, "bare wrapperValue of unknown origin", an.InstrPos(mi), "the rule follows a bare wrapper to an interned variable or a literal")
				case *ssa.Field, *ssa.Parameter, *ssa.Call:
					// the embedded wrapper of a container value used on its own (e.g. handed to a helper): not a construction
					r.Counts["bare wrappers becoming values"]--
				default:
					r.Counts["bare wrappers becoming values"]--
				}
			}
		})
	}
	// an interned value is returned only for the very constant it wraps: `case 0: return zeroValue`
	// compares an interface with an int constant; adding 0.0 to the case makes a float the int 0
	for uf := range voUnit {
		uf := uf
		an.EachInstr(uf, func(in ssa.Instruction) {
			ret, ok := in.(*ssa.Return)
			if !ok {
				return
			}
			for _, o := range an.Origins(resultsOf(ret)[0], an.StepValue) {
				if m0, ok := o.(*ssa.MakeInterface); ok {
					o = m0.X
				}
				ld, ok := o.(*ssa.UnOp)
				if !ok || !isBare(ld.Type()) {
					continue
				}
				g, ok := ld.X.(*ssa.Global)
				if !ok {
					continue
				}
				mi := ld
				// what the interned variable wraps
				var wrappedC *ssa.Const
				for _, pf := range p.Funcs {
					an.EachInstr(pf, func(in2 ssa.Instruction) {
						st, ok := in2.(*ssa.Store)
						if !ok {
							return
						}
						if fa, ok := st.Addr.(*ssa.FieldAddr); ok && fa.X == ssa.Value(g) && fieldName(fa) == "value" {
							v := st.Val
							if m2, ok := v.(*ssa.MakeInterface); ok {
								v = m2.X
							}
							if c, ok := v.(*ssa.Const); ok {
								wrappedC = c
							}
						}
					})
				}
				if wrappedC == nil {
					continue
				}
				// the comparisons that lead here: value == K (an interface against a boxed constant)
				// (a case with several values has one comparison per value: each is an edge into the arm)
				type guard struct {
					Cond ssa.Value
					True bool
				}
				var gds []guard
				for _, gd := range an.GuardsAt(mi.Block()) {
					gds = append(gds, guard{gd.Cond, gd.True})
				}
				for _, pb := range mi.Block().Preds {
					if ifi, ok := pb.Instrs[len(pb.Instrs)-1].(*ssa.If); ok && len(pb.Succs) == 2 {
						gds = append(gds, guard{ifi.Cond, pb.Succs[0] == mi.Block()})
					}
				}
				seenCond := map[ssa.Value]bool{}
				for _, gd := range gds {
					if seenCond[gd.Cond] {
						continue
					}
					seenCond[gd.Cond] = true
					b, ok := gd.Cond.(*ssa.BinOp)
					if !ok || b.Op != token.EQL || !gd.True {
						continue
					}
					for _, pair := range [][2]ssa.Value{{b.X, b.Y}, {b.Y, b.X}} {
						if pair[0] != ssa.Value(uf.Params[0]) {
							continue
						}
						k := pair[1]
						if m2, ok := k.(*ssa.MakeInterface); ok {
							k = m2.X
						}
						kc, ok := k.(*ssa.Const)
						if !ok {
							continue
						}
						r.Counts["interned returns"]++
						same := types.Identical(kc.Type(), wrappedC.Type()) && (kc.Value == nil && wrappedC.Value == nil || kc.Value != nil && wrappedC.Value != nil && kc.Value.ExactString() == wrappedC.Value.ExactString())
						if same {
							r.OK(an.FuncName(uf), "interned "+g.Name()+" returned for the constant it wraps", an.InstrPos(mi), "")
						} else {
							r.Bad(an.FuncName(uf), "interned "+g.Name()+" returned for another constant", an.InstrPos(mi), fmt.Sprintf("%s answers the interned %s (which wraps %s of type %s) where the argument equals %s of type %s: the value changes its Go type on the way in - a float 1.0 becomes the int 1, and integer division is chosen for it", an.FuncName(uf), g.Name(), wrappedC.Value, wrappedC.Type(), kc.Value, kc.Type()))
						}
					}
				}
			}
		})
	}
	// the nil value
	var nilG *ssa.Global
	if vo.Pkg != nil {
		if g, ok := vo.Pkg.Members["nilValue"].(*ssa.Global); ok {
			nilG = g
		}
	}
	if nilG == nil {
		r.Bad(an.FuncName(vo), "nilValue not found", an.FuncPos(vo), "anchor not resolved")
		return
	}
	for uf := range voUnit {
		uf := uf
		an.EachInstr(uf, func(in ssa.Instruction) {
			ret, ok := in.(*ssa.Return)
			if !ok {
				return
			}
			for _, rv := range resultsOf(ret) {
				for _, o := range an.Origins(rv, an.StepValue) {
					ld, ok := o.(*ssa.UnOp)
					if !ok || ld.X != ssa.Value(nilG) {
						// the converse: under kind == Ptr anything but the nil value is returned only for a pointer found non-nil
						oblk := ret.Block()
						if oi, isInstr := o.(ssa.Instruction); isInstr && oi.Block() != nil && oi.Parent() == uf {
							oblk = oi.Block()
						}
						inPtr, nonNil := false, false
						// the result of a helper of the unit is judged inside that helper
						if oc, isCall := o.(*ssa.Call); isCall {
							if callee := oc.Call.StaticCallee(); callee != nil {
								if voUnit[callee] && an.FuncName(callee) != "values.ValueOf" {
									continue
								}
							}
						}
						if unitGuarded(p, voUnit, oblk, func(cond ssa.Value, taken bool) bool {
							b, ok := cond.(*ssa.BinOp)
							if !ok || b.Op != token.EQL || !taken {
								return false
							}
							for _, pair := range [][2]ssa.Value{{b.X, b.Y}, {b.Y, b.X}} {
								if isPkgType(pair[0].Type(), "reflect", "Kind") && kindOfWhole(pair[0], 0) {
									if c, ok := an.ConstInt(pair[1]); ok && c == 22 {
										return true
									}
								}
							}
							return false
						}, 0) {
							inPtr = true
						}
						for _, gd := range an.GuardsAt(oblk) {
							if b, ok := gd.Cond.(*ssa.BinOp); ok && b.Op == token.EQL && gd.True {
								for _, pair := range [][2]ssa.Value{{b.X, b.Y}, {b.Y, b.X}} {
									if isPkgType(pair[0].Type(), "reflect", "Kind") && kindOfWhole(pair[0], 0) {
										if c, ok := an.ConstInt(pair[1]); ok && c == 22 {
											inPtr = true
										}
									}
								}
							}
							if c := an.CallOf(gd.Cond); c != nil && !gd.True && (an.CallName(c) == "(reflect.Value).IsNil" || an.CallName(c) == "(reflect.Value).IsZero") {
								nonNil = true
							}
						}
						if inPtr {
							r.Counts["non-nil results in the pointer arm"]++
							if nonNil {
								r.OK(an.FuncName(uf), "a pointer becomes a value only when it is not nil", o.Pos(), "under IsNil() == false")
							} else {
								r.Bad(an.FuncName(uf), "a nil pointer can become a value other than nil", an.InstrPos(ret), "in the arm for kind Ptr a result other than the nil value is produced where IsNil has not been found false: a nil *T bound to a name is truthy, is not == nil and does not take `when nil`")
							}
						}
						continue
					}
					r.Counts["nil value returns"]++
					// where does this origin flow into the return: the block of the MakeInterface / phi edge
					blk := ld.Block()
					okNil := false
					for _, gd := range an.GuardsAt(blk) {
						if !gd.True {
							continue
						}
						if b, ok := gd.Cond.(*ssa.BinOp); ok && b.Op == token.EQL {
							for _, pair := range [][2]ssa.Value{{b.X, b.Y}, {b.Y, b.X}} {
								if pair[0] == ssa.Value(uf.Params[0]) {
									if c, ok := pair[1].(*ssa.Const); ok && c.Value == nil {
										okNil = true // value == nil
									}
								}
							}
						}
					}
					ptrArm, isNil := false, false
					if unitGuarded(p, voUnit, blk, func(cond ssa.Value, taken bool) bool {
						b, ok := cond.(*ssa.BinOp)
						if !ok || b.Op != token.EQL || !taken {
							return false
						}
						for _, pair := range [][2]ssa.Value{{b.X, b.Y}, {b.Y, b.X}} {
							if isPkgType(pair[0].Type(), "reflect", "Kind") && kindOfWhole(pair[0], 0) {
								if c, ok := an.ConstInt(pair[1]); ok && c == 22 {
									return true
								}
							}
						}
						return false
					}, 0) {
						ptrArm = true
					}
					for _, gd := range an.GuardsAt(blk) {
						if !gd.True {
							continue
						}
						if b, ok := gd.Cond.(*ssa.BinOp); ok && b.Op == token.EQL {
							for _, pair := range [][2]ssa.Value{{b.X, b.Y}, {b.Y, b.X}} {
								if isPkgType(pair[0].Type(), "reflect", "Kind") && kindOfWhole(pair[0], 0) {
									if c, ok := an.ConstInt(pair[1]); ok && c == 22 {
										ptrArm = true
									}
								}
							}
						}
						if c := an.CallOf(gd.Cond); c != nil && an.CallName(c) == "(reflect.Value).IsNil" {
							isNil = true
						}
						// a predicate of the module that answers true only for a nil pointer (nilDrop)
						if c := an.CallOf(gd.Cond); c != nil {
							if callee := c.StaticCallee(); callee != nil && p.InModule(callee) && nilPointerPredicate(callee) {
								ptrArm, isNil = true, true
							}
						}
					}
					if okNil || ptrArm && isNil {
						r.OK(an.FuncName(uf), "nil value for nil or a nil pointer", ld.Pos(), "")
					} else {
						r.Bad(an.FuncName(uf), "nil value for something that is not nil or a nil pointer", ld.Pos(), "ValueOf answers the nil value where the argument is neither nil nor (kind Ptr and IsNil): a nil slice or map is an empty collection, truthy and iterable, not nil")
					}
				}
			}
		})
	}
	r.Floor("bare wrappers becoming values", 5)
	r.Floor("nil value returns", 1)
}

// ---------------------------------------------------------------------------
// F2

func runF2(p *an.Prog, r *an.Result) {
	roles := GetRoles(p)
	byName := map[string]*Filter{}
	for _, f := range roles.Filters {
		byName[f.Name] = f
	}
	runeSafe := func(v ssa.Value) bool {
		// offsets that are rune boundaries by construction
		ok := true
		for _, o := range an.Origins(v, an.StepValue) {
			switch x := o.(type) {
			case *ssa.Const:
				if c, isInt := an.ConstInt(x); !isInt || (c != 0 && c != -1) {
					ok = false
				}
			case *ssa.Extract:
				if nx, isNext := x.Tuple.(*ssa.Next); isNext && nx.IsString && x.Index == 1 {
					continue
				}
				if c, isCall := x.Tuple.(*ssa.Call); isCall {
					cn := an.CallName(&c.Call)
					if strings.HasPrefix(cn, "unicode/utf8.") {
						continue
					}
				}
				ok = false
			case *ssa.Call:
				cn := an.CallName(&x.Call)
				if strings.HasPrefix(cn, "strings.Index") || strings.HasPrefix(cn, "strings.LastIndex") || strings.HasPrefix(cn, "unicode/utf8.") {
					continue
				}
				if _, _, isIdx := indexHelper(p, x); isIdx {
					continue // a helper that returns a range index over the string (or -1)
				}
				ok = false
			default:
				ok = false
			}
		}
		return ok
	}
	for _, n := range stringFilterNames {
		f := byName[n]
		if f == nil || !f.InMod {
			continue
		}
		label := f.Label()
		checked := 0
		for _, fn := range unitOf(f.Fn) {
			an.EachInstr(fn, func(in ssa.Instruction) {
				switch x := in.(type) {
				case *ssa.Slice:
					bt, ok := x.X.Type().Underlying().(*types.Basic)
					if !ok || bt.Info()&types.IsString == 0 {
						return
					}
					for _, bnd := range []ssa.Value{x.Low, x.High} {
						if bnd == nil {
							continue
						}
						checked++
						r.Counts["string offsets"]++
						if runeSafe(bnd) {
							r.OK(label, "string sliced at "+describe(p, bnd), x.Pos(), "the offset is 0, a range index over the string, or a strings.Index/utf8 result: a rune boundary")
						} else {
							r.Bad(label, "string sliced at byte offset "+describe(p, bnd), x.Pos(), fmt.Sprintf("filter %q cuts a string at a byte offset that need not be a character boundary: multi-byte characters are split and the result is not valid UTF-8", n))
						}
					}
				case *ssa.Index, *ssa.Lookup:
					if sx, idx, ok := stringIndex(x.(ssa.Value)); ok {
						_ = sx
						checked++
						r.Counts["string offsets"]++
						if runeSafe(idx) {
							r.OK(label, "string indexed at "+describe(p, idx), x.Pos(), "rune boundary")
						} else {
							r.Bad(label, "string indexed at byte offset "+describe(p, idx), x.Pos(), fmt.Sprintf("filter %q reads a single byte of a string as if it were a character", n))
						}
					}
				case *ssa.Call:
					if b, ok := x.Call.Value.(*ssa.Builtin); ok && b.Name() == "len" {
						bt, ok := x.Call.Args[0].Type().Underlying().(*types.Basic)
						if !ok || bt.Info()&types.IsString == 0 {
							return
						}
						checked++
						r.Counts["string offsets"]++
						// only compared with 0
						okUse := true
						if x.Referrers() != nil {
							for _, u := range *x.Referrers() {
								switch y := u.(type) {
								case *ssa.DebugRef:
								case *ssa.BinOp:
									c, isC := an.ConstInt(y.Y)
									if !(isC && c == 0 && (y.Op == token.EQL || y.Op == token.NEQ || y.Op == token.GTR || y.Op == token.LEQ)) {
										okUse = false
									}
								default:
									okUse = false
								}
							}
						}
						if okUse {
							r.OK(label, "len of a string compared with 0 only", x.Pos(), "emptiness test")
						} else {
							r.Bad(label, "len of a string used as a count", x.Pos(), fmt.Sprintf("filter %q uses the byte length of a string where characters are meant", n))
						}
					}
				}
			})
		}
		if checked == 0 {
			r.Triv(label, "no byte-level string operation", f.Pos, "")
		}
	}
	r.Floor("string offsets", 3)
	// a byte is not a character: in the value layer and the filters one byte of a string (s[i]) is
	// never converted to a rune - the lead byte of a multi-byte character converts to another character
	for _, fn := range p.Funcs {
		if fn.Blocks == nil || fn.Pkg == nil || isMainPkg(fn) {
			continue
		}
		if rp := an.RelPkg(fn.Pkg.Pkg.Path()); rp != "values" && rp != "filters" {
			continue
		}
		name := roles.Label(fn)
		an.EachInstr(fn, func(in ssa.Instruction) {
			cv, ok := in.(*ssa.Convert)
			if !ok {
				return
			}
			from, ok1 := cv.X.Type().Underlying().(*types.Basic)
			to, ok2 := cv.Type().Underlying().(*types.Basic)
			if !ok1 || !ok2 || from.Kind() != types.Uint8 || to.Kind() != types.Int32 {
				return
			}
			if _, _, isIdx := stringIndex(cv.X); !isIdx {
				return
			}
			r.Counts["bytes used as characters"]++
			// fine under a test that the byte is ASCII
			ascii := false
			for _, g := range an.GuardsAtInstr(cv) {
				if b, ok := g.Cond.(*ssa.BinOp); ok {
					if c, isC := an.ConstInt(b.Y); isC && c == 128 && (b.Op == token.LSS && g.True || b.Op == token.GEQ && !g.True) && sameValue(b.X, cv.X) {
						ascii = true
					}
				}
			}
			if ascii {
				r.OK(name, "byte of a string used as a character under an ASCII test", cv.Pos(), "")
			} else {
				r.Bad(name, "byte of a string used as a character: rune("+describe(p, cv.X)+")", cv.Pos(), fmt.Sprintf("%s converts one byte of a string to a rune: for a multi-byte character that is its lead byte, which is another character (é is searched for as Ã)", an.FuncName(fn)))
			}
		})
	}
}

// ---------------------------------------------------------------------------
// F3

func runF3(p *an.Prog, r *an.Result) {
	roles := GetRoles(p)
	sanitizer := func(cn string) bool {
		switch cn {
		case "values.ToLiquid", "values.ValueOf", "values.Equal", "values.Less", "values.Convert", "values.MustConvert", "values.Length", "values.IsEmpty", "values.Sort", "values.SortByProperty":
			return true
		}
		return false
	}
	// parameters of helper functions are raw when some caller in the package passes a raw value:
	// iterate the whole scan until no new helper parameter is marked
	helperRaw := map[*ssa.Parameter]string{}
	for pass := 0; pass < 6; pass++ {
		grew := false
		if pass > 0 {
			r.Obs = nil
			r.Counts = map[string]int{}
		}
		for _, fn := range p.Funcs {
			o := an.Outermost(fn)
			if o.Pkg == nil || an.RelPkg(o.Pkg.Pkg.Path()) != "filters" || an.IsInit(fn) {
				continue
			}
			name := roles.Label(fn)
			if f := roles.FilterByFn[fn]; f != nil && f.Name == "type" {
				r.Triv(name, "debugging filter", f.Pos, "the type filter exists to show the Go type; exempt by name")
				continue
			}
			// raw elements: values loaded out of a []any / map parameter (of this function or, for closures, of an enclosing one),
			// and interface-typed parameters of unexported helpers (they receive such elements)
			raw := map[ssa.Value]string{}
			container := map[ssa.Value]bool{}
			for f := fn; f != nil; f = f.Parent() {
				_, isFilter := roles.FilterByFn[f]
				for _, par := range f.Params {
					switch par.Type().Underlying().(type) {
					case *types.Slice, *types.Map:
						container[par] = true
					case *types.Interface:
						if f == fn && !isFilter && an.IsInterface(par.Type()) && f.Parent() != nil {
							// parameter of a nested closure (sort key function, seen()): receives elements
							raw[par] = "closure parameter " + par.Name()
						}
						if f == fn && helperRaw[par] != "" {
							raw[par] = helperRaw[par]
						}
						if isFilter {
							container[par] = true // a top-level any argument is itself unwrapped by the call layer; what it contains is not
						}
					}
				}
			}
			changed := true
			for changed {
				changed = false
				an.EachInstr(fn, func(in ssa.Instruction) {
					v, ok := in.(ssa.Value)
					if !ok || raw[v] != "" {
						return
					}
					mark := func(why string) {
						raw[v] = why
						changed = true
					}
					switch x := in.(type) {
					case *ssa.UnOp:
						if x.Op == token.MUL {
							if ia, ok := x.X.(*ssa.IndexAddr); ok && (container[ia.X] || containerDerived(container, ia.X)) && an.IsInterface(x.Type()) {
								mark("element of " + describe(p, ia.X))
							}
							if fv, ok := x.X.(*ssa.FreeVar); ok {
								// captured parameter of the enclosing function
								cell := cellOfFreeVar(fn.Parent(), fn, fv)
								if al, ok := cell.(*ssa.Alloc); ok {
									for _, st := range an.Stores(al) {
										if container[st] {
											container[v] = true
										}
									}
								}
							}
						}
					case *ssa.Extract:
						if nx, ok := x.Tuple.(*ssa.Next); ok && !nx.IsString && an.IsInterface(x.Type()) {
							if rg, ok := nx.Iter.(*ssa.Range); ok && container[rg.X] {
								mark("element of " + describe(p, rg.X))
							}
						}
					case *ssa.Phi:
						for _, e := range x.Edges {
							if raw[e] != "" {
								mark(raw[e])
							}
						}
					case *ssa.MakeInterface:
						if raw[x.X] != "" {
							mark(raw[x.X])
						}
					case *ssa.ChangeInterface:
						if raw[x.X] != "" {
							mark(raw[x.X])
						}
					}
				})
			}
			report := func(in ssa.Instruction, v ssa.Value, sink string) {
				why := raw[v]
				if why == "" {
					return
				}
				r.Counts["sinks reached by raw elements"]++
				r.Bad(name, sink+" of "+why, an.InstrPos(in), fmt.Sprintf("%s hands %s to %s without unwrapping it: a Drop (or other wrapped value) nested in the array is treated by its Go representation instead of its Liquid value", an.FuncName(fn), why, sink))
			}
			deep := func(in ssa.Instruction, v ssa.Value, sink string) {
				// a container argument as a whole given to a sink that walks into it
				for _, o := range an.Origins(v, an.StepValue) {
					if par, ok := o.(*ssa.Parameter); ok && container[par] {
						r.Counts["sinks reached by raw elements"]++
						r.Bad(name, sink+" of the whole argument "+par.Name(), an.InstrPos(in), fmt.Sprintf("%s hands its argument to %s, which walks into nested values by their Go representation: Drops nested in arrays and maps are not unwrapped", an.FuncName(fn), sink))
					}
				}
			}
			sinks, before := 0, len(r.Obs)
			an.EachInstr(fn, func(in ssa.Instruction) {
				r.Counts["instructions scanned"]++
				switch x := in.(type) {
				case *ssa.Call:
					cn := an.CallName(&x.Call)
					if sanitizer(cn) {
						sinks++
						return
					}
					if strings.HasPrefix(cn, "fmt.Sprint") || cn == "encoding/json.Marshal" || strings.HasPrefix(cn, "reflect.") {
						sinks++
					}
					if callee := x.Call.StaticCallee(); callee != nil && callee.Pkg == o.Pkg && callee.Parent() == nil && roles.FilterByFn[callee] == nil {
						for i, a := range x.Call.Args {
							if raw[a] != "" && i < len(callee.Params) && helperRaw[callee.Params[i]] == "" {
								helperRaw[callee.Params[i]] = raw[a] + " (passed by " + an.FuncName(fn) + ")"
								grew = true
							}
						}
					}
					switch {
					case cn == "fmt.Sprint" || cn == "fmt.Sprintf" || cn == "fmt.Sprintln":
						for _, a := range x.Call.Args {
							if sl, ok := a.(*ssa.Slice); ok {
								if al, ok := sl.X.(*ssa.Alloc); ok && al.Referrers() != nil {
									for _, u := range *al.Referrers() {
										if ia, ok := u.(*ssa.IndexAddr); ok && ia.Referrers() != nil {
											for _, uu := range *ia.Referrers() {
												if st, ok := uu.(*ssa.Store); ok {
													report(in, st.Val, cn)
													if f, isS := an.ConstString(x.Call.Args[0]); cn == "fmt.Sprintf" && isS && (strings.Contains(f, "%#v") || strings.Contains(f, "%v")) {
														deep(in, st.Val, cn)
													}
												}
											}
										}
									}
								}
							}
						}
					case cn == "encoding/json.Marshal":
						report(in, x.Call.Args[0], cn)
						deep(in, x.Call.Args[0], cn)
					case cn == "reflect.ValueOf" || cn == "reflect.TypeOf" || cn == "reflect.DeepEqual":
						for _, a := range x.Call.Args {
							report(in, a, cn)
						}
					}
				case *ssa.TypeAssert:
					report(in, x.X, "a type assertion")
				case *ssa.BinOp:
					if (x.Op == token.EQL || x.Op == token.NEQ) && an.IsInterface(x.X.Type()) {
						if an.IsNilConst(x.X) || an.IsNilConst(x.Y) {
							return
						}
						report(in, x.X, "==")
						report(in, x.Y, "==")
					}
				case *ssa.Lookup:
					if _, isMap := x.X.Type().Underlying().(*types.Map); isMap {
						report(in, x.Index, "a map key")
					}
				case *ssa.MapUpdate:
					report(in, x.Key, "a map key")
				}
			})
			if sinks > 0 && len(r.Obs) == before {
				r.OK(name, fmt.Sprintf("%d representation-sensitive operations see only unwrapped values", sinks), an.FuncPos(fn), "elements taken from array arguments reach fmt/json/reflect/==/assertions/map keys only through ToLiquid or the generic value layer")
			}
		}
		if !grew {
			break
		}
	}
	r.Floor("instructions scanned", 300)
}

func containerDerived(container map[ssa.Value]bool, v ssa.Value) bool {
	for _, o := range an.Origins(v, func(v ssa.Value) []ssa.Value {
		switch x := v.(type) {
		case *ssa.Slice:
			return []ssa.Value{x.X}
		case *ssa.Phi:
			return x.Edges
		case *ssa.ChangeType:
			return []ssa.Value{x.X}
		}
		return nil
	}) {
		if container[o] {
			return true
		}
	}
	return false
}

// kindOfWhole: v is the reflect.Kind of a value itself - reflect.TypeOf(x).Kind(),
// reflect.ValueOf(x).Kind() or reflect.ValueOf(x).Type().Kind() - and not of its
// element, key or field type.
func kindOfWhole(v ssa.Value, depth int) bool {
	if depth > 6 {
		return false
	}
	if ph, ok := v.(*ssa.Phi); ok {
		for _, e := range ph.Edges {
			if !kindOfWhole(e, depth+1) {
				return false
			}
		}
		return true
	}
	c := an.CallOf(v)
	if c == nil {
		return false
	}
	recv := func() ssa.Value {
		if c.IsInvoke() {
			return c.Value
		}
		if len(c.Args) > 0 {
			return c.Args[0]
		}
		return nil
	}
	switch an.CallName(c) {
	case "reflect.TypeOf", "reflect.ValueOf":
		return true
	case "(reflect.Type).Kind", "(reflect.Value).Kind", "(reflect.Value).Type", "(*reflect.rtype).Kind":
		if x := recv(); x != nil {
			return kindOfWhole(x, depth+1)
		}
	}
	return false
}

// ---------------------------------------------------------------------------
// X15

func init() {
	register("X15", "the order and the equality of two numbers are decided by relational operators on the two numbers themselves: in Equal, Less and what they call no result is computed by arithmetic on the operands (a difference overflows for operands far apart)", runX15)
}

func runX15(p *an.Prog, r *an.Result) {
	done := map[*ssa.Function]bool{}
	for _, root := range []string{"values.Less", "values.Equal"} {
		fn := p.Func(root)
		if fn == nil {
			r.Bad("-", root+" not found", token.NoPos, "anchor not resolved")
			continue
		}
		for _, f := range unitWithHelpers(p, fn) {
			if done[f] {
				continue
			}
			done[f] = true
			name := an.FuncName(f)
			an.EachInstr(f, func(in ssa.Instruction) {
				b, ok := in.(*ssa.BinOp)
				if !ok {
					return
				}
				bt, ok := b.X.Type().Underlying().(*types.Basic)
				if !ok || bt.Info()&types.IsNumeric == 0 {
					return
				}
				operandNumber := func(v ssa.Value) bool {
					return an.Reaches(v, an.StepValue, func(o ssa.Value) bool {
						if c := an.CallOf(o); c != nil {
							switch an.CallName(c) {
							case "(reflect.Value).Int", "(reflect.Value).Uint", "(reflect.Value).Float":
								return true
							}
						}
						if ta, ok := o.(*ssa.TypeAssert); ok {
							if tb, ok := ta.AssertedType.Underlying().(*types.Basic); ok && tb.Info()&types.IsNumeric != 0 {
								return true
							}
						}
						// a number handed to a helper of the comparison, or handed back by one
						isNum := func(t types.Type) bool {
							tb, ok := t.Underlying().(*types.Basic)
							return ok && tb.Info()&types.IsNumeric != 0
						}
						if par, ok := o.(*ssa.Parameter); ok && par.Parent() != fn && isNum(par.Type()) {
							return true
						}
						if c, ok := o.(*ssa.Call); ok && isNum(c.Type()) {
							if callee := c.Call.StaticCallee(); callee != nil && p.InModule(callee) && callee.Pkg == fn.Pkg && callee != fn {
								for _, a := range c.Call.Args {
									if isPkgType(a.Type(), "reflect", "Value") {
										return true
									}
								}
							}
						}
						return false
					})
				}
				if !operandNumber(b.X) && !operandNumber(b.Y) {
					return
				}
				r.Counts["operations on operand numbers"]++
				switch b.Op {
				case token.LSS, token.LEQ, token.GTR, token.GEQ, token.EQL, token.NEQ:
					r.OK(name, "operand numbers compared with "+b.Op.String(), an.InstrPos(in), "")
				default:
					r.Bad(name, "operand numbers combined with "+b.Op.String(), an.InstrPos(in), fmt.Sprintf("%s computes with the numbers it is to compare (%s): the result overflows or loses precision for operands far apart, and the comparison built on it is wrong for those", an.FuncName(f), b.Op))
				}
			})
		}
	}
	r.Floor("operations on operand numbers", 2)
}

// ---------------------------------------------------------------------------
// X16

func init() {
	register("X16", "in Equal, Less and what they call a signed number is converted to an unsigned type only where it has been found non-negative (a negative operand must not turn into a huge unsigned one), and no integer operand is reflect-converted to a fixed integer type of the other signedness", runX16)
}

func runX16(p *an.Prog, r *an.Result) {
	pr := &prover{p: p, nn: &nonNeg{p: p, memo: map[*ssa.Function]int{}}}
	isSigned := func(t types.Type) bool {
		b, ok := t.Underlying().(*types.Basic)
		return ok && b.Info()&types.IsInteger != 0 && b.Info()&types.IsUnsigned == 0
	}
	isUnsigned := func(t types.Type) bool {
		b, ok := t.Underlying().(*types.Basic)
		return ok && b.Info()&types.IsUnsigned != 0
	}
	done := map[*ssa.Function]bool{}
	for _, root := range []string{"values.Less", "values.Equal"} {
		fn := p.Func(root)
		if fn == nil {
			r.Bad("-", root+" not found", token.NoPos, "anchor not resolved")
			continue
		}
		for _, f := range unitWithHelpersDepth(p, fn, 4) {
			if done[f] {
				continue
			}
			done[f] = true
			name := an.FuncName(f)
			an.EachInstr(f, func(in ssa.Instruction) {
				switch x := in.(type) {
				case *ssa.Convert:
					if !isSigned(x.X.Type()) || !isUnsigned(x.Type()) {
						return
					}
					if _, isConst := x.X.(*ssa.Const); isConst {
						return
					}
					r.Counts["sign conversions"]++
					if l, ok := pr.lowerBound(x.X, point{blk: x.Block()}, 0); ok && l >= 0 {
						r.OK(name, "signed to unsigned under a non-negativity test: "+describe(p, x.X), an.InstrPos(in), "")
					} else {
						r.Bad(name, "signed to unsigned without a sign test: "+describe(p, x.X), an.InstrPos(in), fmt.Sprintf("%s converts a signed number to %s where it may be negative: -1 becomes the largest unsigned value and compares above everything", an.FuncName(f), x.Type()))
					}
				case *ssa.Call:
					if an.CallName(&x.Call) != "(reflect.Value).Convert" || len(x.Call.Args) < 2 {
						return
					}
					// the target: a package-level reflect.Type made from a constant of an integer type
					var tgt types.Type
					for _, o := range an.Origins(x.Call.Args[1], an.StepValue) {
						if ld, ok := o.(*ssa.UnOp); ok {
							if g, ok := ld.X.(*ssa.Global); ok {
								for _, pf := range p.Funcs {
									an.EachInstr(pf, func(in2 ssa.Instruction) {
										if st, ok := in2.(*ssa.Store); ok && st.Addr == ssa.Value(g) {
											if c := an.CallOf(st.Val); c != nil && an.CallName(c) == "reflect.TypeOf" {
												if mi, ok := c.Args[0].(*ssa.MakeInterface); ok {
													tgt = mi.X.Type()
												}
											}
										}
									})
								}
							}
						}
						if c := an.CallOf(o); c != nil && an.CallName(c) == "reflect.TypeOf" {
							if mi, ok := c.Args[0].(*ssa.MakeInterface); ok {
								tgt = mi.X.Type()
							}
						}
					}
					if tgt == nil || !isSigned(tgt) && !isUnsigned(tgt) {
						return
					}
					r.Counts["sign conversions"]++
					r.Bad(name, "operand reflect-converted to "+tgt.String(), an.InstrPos(in), fmt.Sprintf("%s converts an integer operand of unknown signedness to %s: an unsigned value above the signed range becomes negative (and a negative one a huge unsigned value), and the comparison is made on the wrapped number", an.FuncName(f), tgt))
				}
			})
		}
	}
	r.Floor("sign conversions", 1)
}

// valueOfUnit: ValueOf and the functions that only it (or they) call with the very value being
// wrapped as first argument - the phases ValueOf may be split into (interned values, the kind dispatch).
func valueOfUnit(p *an.Prog) map[*ssa.Function]bool {
	unit := map[*ssa.Function]bool{}
	vo := p.Func("values.ValueOf")
	if vo == nil {
		return unit
	}
	unit[vo] = true
	for changed := true; changed; {
		changed = false
		for _, h := range unitWithHelpers(p, vo) {
			if unit[h] || h.Pkg != vo.Pkg || len(h.Params) == 0 {
				continue
			}
			sites := callSitesOf(p, h)
			all := len(sites) > 0
			for _, cs := range sites {
				caller := an.Outermost(cs.Parent())
				if !unit[caller] || len(cs.Call.Args) == 0 || len(caller.Params) == 0 || cs.Call.Args[0] != ssa.Value(caller.Params[0]) {
					all = false
				}
			}
			if all {
				unit[h] = true
				changed = true
			}
		}
	}
	return unit
}

// unitGuarded: every path to blk passes the guard - in the function itself, or, for a helper of the
// unit that is called only from it, on the way to every call of the helper (the kind dispatch may
// hand each kind's arm to a function of its own).
func unitGuarded(p *an.Prog, unit map[*ssa.Function]bool, blk *ssa.BasicBlock, pred func(ssa.Value, bool) bool, depth int) bool {
	if an.AllPathsGuarded(blk, pred) {
		return true
	}
	fn := an.Outermost(blk.Parent())
	if depth > 3 || !unit[fn] {
		return false
	}
	sites := callSitesOf(p, fn)
	if len(sites) == 0 {
		return false
	}
	for _, cs := range sites {
		if !unit[an.Outermost(cs.Parent())] || an.Outermost(cs.Parent()) == fn {
			return false
		}
		if !unitGuarded(p, unit, cs.Block(), pred, depth+1) {
			return false
		}
	}
	return true
}

// nilPointerPredicate: f returns true only where a reflect.Value of its argument has been found to be of
// kind Ptr and IsNil: every result that is not the constant false is computed in a block that both tests
// dominate on their true edges.
func nilPointerPredicate(f *ssa.Function) bool {
	if f.Blocks == nil || f.Signature.Results().Len() != 1 || !isBoolType(f.Signature.Results().At(0).Type()) {
		return false
	}
	ok, n := true, 0
	an.EachInstr(f, func(in ssa.Instruction) {
		ret, isRet := in.(*ssa.Return)
		if !isRet {
			return
		}
		for _, o := range an.Origins(ret.Results[0], an.StepValue) {
			if b, isC := an.ConstBool(o); isC && !b {
				continue
			}
			n++
			blk := ret.Block()
			if oi, isI := o.(ssa.Instruction); isI && oi.Block() != nil {
				blk = oi.Block()
			}
			ptr, nilT := false, false
			for _, g := range an.GuardsAt(blk) {
				if b, isB := g.Cond.(*ssa.BinOp); isB && (b.Op == token.EQL && g.True || b.Op == token.NEQ && !g.True) {
					for _, pair := range [][2]ssa.Value{{b.X, b.Y}, {b.Y, b.X}} {
						if c, isC := an.ConstInt(pair[1]); isC && c == 22 && isPkgType(pair[0].Type(), "reflect", "Kind") {
							ptr = true
						}
					}
				}
				if c := an.CallOf(g.Cond); c != nil && g.True && an.CallName(c) == "(reflect.Value).IsNil" {
					nilT = true
				}
			}
			if !ptr || !nilT {
				ok = false
			}
		}
	})
	return ok && n > 0
}

package rules

import (
	"go/token"
	"go/types"
	"regexp/syntax"
	"strings"

	"golang.org/x/tools/go/ssa"

	"lv/an"
)

// tokenPat is the token pattern of the scanner read from the code: the text handed to the regexp
// compiler as constant pieces and computed pieces (holes), parsed with regexp/syntax, with, for every
// capture group, the alternative it lies in, and for every alternative the delimiters whose quoted
// text it contains and the least length of a match of it.
type tokenPat struct {
	fn     *ssa.Function // the function that compiles the pattern
	pieces []patPiece
	holes  []ssa.Value
	re     *syntax.Regexp
	ncap   int
	// holeDelim[k]: hole k is regexp.QuoteMeta(delims[d]) for the d given; -1 for any other hole
	holeDelim []int64
	alts      []*patAlt
	groupAlt  map[int]int // capture group -> index into alts
	problem   string
}

type patAlt struct {
	node   *syntax.Regexp
	delims []int64 // delimiter indexes of the quoted-delimiter holes, in order of appearance
	// a match of this alternative is at least minConst + sum over minDelims of len(delims[d]) bytes long
	minConst  int64
	minDelims map[int64]int64
	groups    []int
}

// the private-use runes that stand for the holes while the pattern is parsed
const holeRune0 = 0xE000

// holeSafe: a hole that is not a quoted delimiter is accepted where the pattern text encloses it in a
// non-capturing group, so that, whatever it expands to, it neither adds a capture group in front of one
// the scanner reads nor joins the text around it. (That it is well formed is for the compiler: MustCompile.)
func holeEnclosed(before, after string) bool {
	return strings.HasSuffix(before, "(?:") && strings.HasPrefix(after, ")")
}

var tokenPatMemo = map[*an.Prog]*tokenPat{}

// theTokenPat: the pattern compiled by the function whose result the scanner matches with.
func theTokenPat(p *an.Prog) *tokenPat {
	if tp, ok := tokenPatMemo[p]; ok {
		return tp
	}
	tp := readTokenPat(p, p.Func("parser.formTokenMatcher"))
	tokenPatMemo[p] = tp
	return tp
}

func readTokenPat(p *an.Prog, fn *ssa.Function) *tokenPat {
	tp := &tokenPat{fn: fn, groupAlt: map[int]int{}}
	if fn == nil {
		tp.problem = "the function that compiles the token pattern was not found"
		return tp
	}
	found := false
	for _, f := range unitWithHelpers(p, fn) {
		an.EachInstr(f, func(in ssa.Instruction) {
			c, ok := in.(*ssa.Call)
			if !ok || found {
				return
			}
			if cn := an.CallName(&c.Call); cn != "regexp.MustCompile" && cn != "regexp.Compile" {
				return
			}
			if ps, ok := symbolicString(c.Call.Args[0], 0); ok {
				tp.pieces, found = ps, true
			}
		})
	}
	if !found {
		tp.problem = "the token pattern is not built from constant text and computed pieces"
		return tp
	}
	delimIndexOf := func(v ssa.Value) (int64, bool) {
		for _, o := range an.Origins(v, an.StepValue) {
			if u, ok := o.(*ssa.UnOp); ok {
				if ia, ok := u.X.(*ssa.IndexAddr); ok {
					if _, isParam := ia.X.(*ssa.Parameter); isParam {
						if k, ok := an.ConstInt(ia.Index); ok {
							return k, true
						}
					}
				}
			}
		}
		return 0, false
	}
	pat := ""
	for i, pc := range tp.pieces {
		if pc.hole == nil {
			pat += pc.text
			continue
		}
		k := len(tp.holes)
		tp.holes = append(tp.holes, pc.hole)
		v := pc.hole
		if mi, ok := v.(*ssa.MakeInterface); ok {
			v = mi.X
		}
		d := int64(-1)
		if qc := an.CallOf(v); qc != nil && an.CallName(qc) == "regexp.QuoteMeta" {
			arg, _ := resolveEnv(qc.Args[0], pc.env)
			if dd, ok := delimIndexOf(arg); ok {
				d = dd
			}
		}
		tp.holeDelim = append(tp.holeDelim, d)
		if d < 0 {
			before, after := "", ""
			if i > 0 && tp.pieces[i-1].hole == nil {
				before = tp.pieces[i-1].text
			}
			if i+1 < len(tp.pieces) && tp.pieces[i+1].hole == nil {
				after = tp.pieces[i+1].text
			}
			if !holeEnclosed(before, after) {
				tp.problem = "a computed piece of the token pattern that is not a quoted delimiter is not enclosed in a non-capturing group"
				return tp
			}
		}
		pat += string(rune(holeRune0 + k))
	}
	re, err := syntax.Parse(pat, syntax.Perl)
	if err != nil {
		tp.problem = "the token pattern does not parse: " + err.Error()
		return tp
	}
	tp.re = re
	tp.ncap = re.MaxCap()
	top := []*syntax.Regexp{re}
	if re.Op == syntax.OpAlternate {
		top = re.Sub
	}
	for ai, a := range top {
		pa := &patAlt{node: a, minDelims: map[int64]int64{}}
		var walkCaps func(x *syntax.Regexp)
		walkCaps = func(x *syntax.Regexp) {
			if x.Op == syntax.OpCapture {
				pa.groups = append(pa.groups, x.Cap)
				tp.groupAlt[x.Cap] = ai
			}
			if x.Op == syntax.OpLiteral {
				for _, rn := range x.Rune {
					if k := int(rn) - holeRune0; k >= 0 && k < len(tp.holes) && tp.holeDelim[k] >= 0 {
						pa.delims = append(pa.delims, tp.holeDelim[k])
					}
				}
			}
			for _, s := range x.Sub {
				walkCaps(s)
			}
		}
		walkCaps(a)
		pa.minConst = tp.minLen(a, pa.minDelims)
		tp.alts = append(tp.alts, pa)
	}
	return tp
}

// minLen: a lower bound of the byte length of any match of x: the constant part is returned, the
// delimiter parts (each hole that is a quoted delimiter matches exactly that delimiter, QuoteMeta's
// contract) are added to acc. Under repetition and alternation only what is certain is counted.
func (tp *tokenPat) minLen(x *syntax.Regexp, acc map[int64]int64) int64 {
	switch x.Op {
	case syntax.OpLiteral:
		var n int64
		for _, rn := range x.Rune {
			k := int(rn) - holeRune0
			if k >= 0 && k < len(tp.holes) {
				if d := tp.holeDelim[k]; d >= 0 && acc != nil {
					acc[d]++
				}
				continue // any other hole: at least nothing
			}
			n++ // a rune is at least one byte
		}
		return n
	case syntax.OpCharClass, syntax.OpAnyChar, syntax.OpAnyCharNotNL:
		return 1
	case syntax.OpCapture, syntax.OpPlus:
		return tp.minLen(x.Sub[0], acc)
	case syntax.OpConcat:
		var n int64
		for _, s := range x.Sub {
			n += tp.minLen(s, acc)
		}
		return n
	case syntax.OpRepeat:
		if x.Min >= 1 {
			return tp.minLen(x.Sub[0], acc)
		}
		return 0
	case syntax.OpAlternate:
		// the least of the constant parts; delimiter parts are dropped (they are not common to all)
		first := true
		var best int64
		for _, s := range x.Sub {
			n := tp.minLen(s, nil)
			if first || n < best {
				best, first = n, false
			}
		}
		return best
	}
	return 0 // star, quest, empty matches, anchors
}

// matchGroupGuard: cond, taken in the sense given, establishes that capture group g of a match took
// part (m[2g] >= 0, m[2g] > -1, m[2g] != -1, m[2g+1] >= 0 and their negations on the other edge; also
// m[2g] > 0, which implies it). It returns the match slice and the group.
func matchGroupGuard(cond ssa.Value, taken bool) (ssa.Value, int, bool) {
	for {
		u, ok := cond.(*ssa.UnOp)
		if !ok || u.Op != token.NOT {
			break
		}
		cond, taken = u.X, !taken
	}
	b, ok := cond.(*ssa.BinOp)
	if !ok {
		return nil, 0, false
	}
	op, x, y := b.Op, b.X, b.Y
	if _, isConst := an.ConstInt(x); isConst {
		x, y = y, x
		switch op {
		case token.LSS:
			op = token.GTR
		case token.LEQ:
			op = token.GEQ
		case token.GTR:
			op = token.LSS
		case token.GEQ:
			op = token.LEQ
		}
	}
	c, ok := an.ConstInt(y)
	if !ok {
		return nil, 0, false
	}
	if !taken {
		switch op {
		case token.LSS:
			op = token.GEQ
		case token.LEQ:
			op = token.GTR
		case token.GTR:
			op = token.LEQ
		case token.GEQ:
			op = token.LSS
		case token.EQL:
			op = token.NEQ
		case token.NEQ:
			op = token.EQL
		default:
			return nil, 0, false
		}
	}
	// x >= 0 is what is established?
	switch {
	case op == token.GEQ && c >= 0, op == token.GTR && c >= -1, op == token.NEQ && c == -1:
	default:
		return nil, 0, false
	}
	m, k, ok := matchElem(x)
	if !ok {
		return nil, 0, false
	}
	return m, int(k / 2), true
}

// matchElem: v is m[k] for a constant k and a []int m that is a submatch-index list of a regexp match.
func matchElem(v ssa.Value) (ssa.Value, int64, bool) {
	u, ok := v.(*ssa.UnOp)
	if !ok || u.Op != token.MUL {
		return nil, 0, false
	}
	ia, ok := u.X.(*ssa.IndexAddr)
	if !ok {
		return nil, 0, false
	}
	k, ok := an.ConstInt(ia.Index)
	if !ok || k < 0 {
		return nil, 0, false
	}
	if matchCallOf(ia.X) == nil {
		return nil, 0, false
	}
	return ia.X, k, true
}

// matchCallOf: m is an element of the result of (*regexp.Regexp).FindAll(String)SubmatchIndex; the
// call is returned (its arguments: the regexp, the searched text, the limit).
func matchCallOf(m ssa.Value) *ssa.CallCommon {
	sl, ok := m.Type().Underlying().(*types.Slice)
	if !ok {
		return nil
	}
	if b, ok := sl.Elem().Underlying().(*types.Basic); !ok || b.Kind() != types.Int {
		return nil
	}
	for _, o := range an.Origins(m, an.StepValue) {
		u, ok := o.(*ssa.UnOp)
		if !ok || u.Op != token.MUL {
			continue
		}
		ia, ok := u.X.(*ssa.IndexAddr)
		if !ok {
			continue
		}
		for _, oo := range an.Origins(ia.X, an.StepValue) {
			if c := an.CallOf(oo); c != nil {
				switch an.CallName(c) {
				case "(*regexp.Regexp).FindAllStringSubmatchIndex", "(*regexp.Regexp).FindAllSubmatchIndex":
					return c
				}
			}
		}
	}
	return nil
}

// armOfMatch: the alternative of the token pattern that the code at in handles, by the dominating
// tests: a capture group of that alternative took part, or (the older form) the matched text starts
// with delims[k], the delimiter that opens the alternative. nil when no test decides it.
func (tp *tokenPat) armAt(in ssa.Instruction, delimIndex func(ssa.Value) (int64, bool)) *patAlt {
	if tp.problem != "" {
		return nil
	}
	var out *patAlt
	for _, g := range an.GuardsAtInstr(in) {
		if _, grp, ok := matchGroupGuard(g.Cond, g.True); ok {
			if ai, ok := tp.groupAlt[grp]; ok {
				out = tp.alts[ai]
			}
			continue
		}
		if gb, ok := g.Cond.(*ssa.BinOp); ok && gb.Op == token.EQL && g.True && delimIndex != nil {
			for _, side := range []ssa.Value{gb.X, gb.Y} {
				if k, ok := delimIndex(side); ok {
					for _, a := range tp.alts {
						if len(a.delims) > 0 && a.delims[0] == k {
							out = a
						}
					}
				}
			}
		}
		if c := an.CallOf(g.Cond); c != nil && g.True && an.CallName(c) == "strings.HasPrefix" && delimIndex != nil {
			if k, ok := delimIndex(c.Args[1]); ok {
				for _, a := range tp.alts {
					if len(a.delims) > 0 && a.delims[0] == k {
						out = a
					}
				}
			}
		}
	}
	return out
}

package rules

import (
	"fmt"
	"go/token"
	"go/types"
	"strings"

	"golang.org/x/tools/go/ssa"

	"lv/an"
)

func init() {
	register("D1", "the order in which Go iterates a map never reaches output: map loops only accumulate commutatively, or their keys are sorted before use", runD1)
	register("D2", "no clock, random, environment, process or goroutine source is consulted outside the date \"now\" exception", runD2)
}

// ---------------------------------------------------------------------------
// D1

// regionOf returns the blocks dominated by entry.
func regionOf(entry *ssa.BasicBlock) []*ssa.BasicBlock {
	var out []*ssa.BasicBlock
	for _, b := range entry.Parent().Blocks {
		if entry.Dominates(b) {
			out = append(out, b)
		}
	}
	return out
}

func inRegion(region []*ssa.BasicBlock, b *ssa.BasicBlock) bool {
	for _, x := range region {
		if x == b {
			return true
		}
	}
	return false
}

func isSortCall(name string) bool {
	if i := strings.Index(name, "["); i > 0 {
		name = name[:i] // an instantiation of a generic function
	}
	switch name {
	case "sort.Strings", "sort.Ints", "sort.Float64s", "sort.Slice", "sort.SliceStable", "sort.Sort", "sort.Stable",
		"slices.Sort", "slices.SortFunc", "slices.SortStableFunc":
		return true
	}
	return false
}

// sortedBeforeUse reports whether every use of v outside the region (other
// than len/cap) is dominated by a sort call on v.
func sortedBeforeUse(v ssa.Value, region []*ssa.BasicBlock) (bool, string) {
	// collect the aliases of v outside the loop: phis and conversions
	aliases := map[ssa.Value]bool{v: true}
	work := []ssa.Value{v}
	var uses []ssa.Instruction
	for len(work) > 0 {
		x := work[0]
		work = work[1:]
		refs := x.Referrers()
		if refs == nil {
			continue
		}
		for _, u := range *refs {
			switch y := u.(type) {
			case *ssa.DebugRef:
				continue
			case *ssa.Phi:
				if !aliases[y] {
					aliases[y] = true
					work = append(work, y)
				}
				continue
			case *ssa.ChangeType:
				if !aliases[y] {
					aliases[y] = true
					work = append(work, y)
				}
				continue
			case *ssa.MakeInterface:
				if !aliases[y] {
					aliases[y] = true
					work = append(work, y)
				}
				continue
			case *ssa.MakeClosure:
				// a method value of the list (mapKeyList(keys).less) handed to the sort as its comparator
				passedToSort := y.Referrers() != nil
				if y.Referrers() != nil {
					for _, cu := range *y.Referrers() {
						if c, ok := cu.(*ssa.Call); !ok || !isSortCall(an.CallName(&c.Call)) {
							if _, dbg := cu.(*ssa.DebugRef); !dbg {
								passedToSort = false
							}
						}
					}
				}
				if passedToSort {
					continue
				}
			case *ssa.Store:
				// kept in a local variable (captured by the comparator): follow its loads
				if a, ok := y.Addr.(*ssa.Alloc); ok && y.Val == x && a.Referrers() != nil {
					okCell := true
					for _, au := range *a.Referrers() {
						switch z := au.(type) {
						case *ssa.UnOp:
							if !aliases[z] {
								aliases[z] = true
								work = append(work, z)
							}
						case *ssa.MakeClosure:
							// only the comparator handed to a sort call may capture it
							passedToSort := false
							if z.Referrers() != nil {
								for _, cu := range *z.Referrers() {
									if c, ok := cu.(*ssa.Call); ok && isSortCall(an.CallName(&c.Call)) {
										passedToSort = true
									}
								}
							}
							if !passedToSort {
								okCell = false
							}
						case *ssa.Store, *ssa.DebugRef:
						default:
							okCell = false
						}
					}
					if okCell {
						continue
					}
				}
			}
			uses = append(uses, u)
		}
	}
	var sortCall ssa.Instruction
	for _, u := range uses {
		if c, ok := u.(*ssa.Call); ok && isSortCall(an.CallName(&c.Call)) && !inRegion(region, c.Block()) {
			sortCall = c
			break
		}
	}
	if sortCall == nil {
		return false, "it is never sorted"
	}
	for _, u := range uses {
		if u == sortCall || inRegion(region, u.Block()) {
			continue
		}
		if c, ok := u.(*ssa.Call); ok {
			if b, isB := c.Call.Value.(*ssa.Builtin); isB && (b.Name() == "len" || b.Name() == "cap") {
				continue
			}
		}
		if !instrDominates(sortCall, u) {
			return false, fmt.Sprintf("a use (%T) is not preceded by the sort", u)
		}
	}
	return true, ""
}

// instrDominates reports whether a executes before b on every path to b.
func instrDominates(a, b ssa.Instruction) bool {
	ab, bb := a.Block(), b.Block()
	if ab == bb {
		for _, in := range ab.Instrs {
			if in == a {
				return true
			}
			if in == b {
				return false
			}
		}
		return false
	}
	return ab.Dominates(bb)
}

// orderSensitive lists what in the loop body would make iteration order
// observable.
func orderSensitive(p *an.Prog, region []*ssa.BasicBlock, iterated ssa.Value) []string {
	var why []string
	for _, b := range region {
		for _, in := range b.Instrs {
			switch x := in.(type) {
			case *ssa.Store:
				if ia, ok := x.Addr.(*ssa.IndexAddr); ok {
					// element of an array/slice allocated inside the body (variadic argument lists,
					// composite literals): fresh on every iteration
					fresh := false
					for _, o := range an.Origins(ia.X, addrStepLocal) {
						if a, ok := o.(*ssa.Alloc); ok && inRegion(region, a.Block()) {
							fresh = true
						}
					}
					if fresh {
						continue
					}
					why = append(why, fmt.Sprintf("stores into a slice/array element (%s) at %s", describe(p, ia.X), p.Pos(an.InstrPos(in))))
				}
			case *ssa.Return:
				// leaving with an error: whether the call fails does not depend on the order (only
				// which element is named in the message may); leaving with a result does.
				n := len(x.Results)
				if n > 0 && errorLike(x.Results[n-1].Type()) && !an.IsNilConst(x.Results[n-1]) {
					// a fixed error (a package-level sentinel) is the same whichever entry fails first; an error
					// built here names the entry, and which entry fails first depends on the order
					fixed := true
					for _, o := range an.Origins(x.Results[n-1], an.StepValue) {
						u, isLoad := o.(*ssa.UnOp)
						if !isLoad {
							fixed = false
							continue
						}
						if _, isG := u.X.(*ssa.Global); !isG {
							fixed = false
						}
					}
					if !fixed {
						why = append(why, "returns an error built inside the loop (it names whichever entry fails first) at "+p.Pos(an.InstrPos(in)))
					}
					continue
				}
				why = append(why, "returns a result from inside the loop at "+p.Pos(an.InstrPos(in)))
			case *ssa.Send:
				why = append(why, "sends on a channel at "+p.Pos(an.InstrPos(in)))
			case *ssa.BinOp:
				if x.Op == token.ADD {
					if bt, ok := x.Type().Underlying().(*types.Basic); ok && bt.Info()&types.IsString != 0 {
						// string accumulation across iterations
						if flowsToPhiOutside(x, region) {
							why = append(why, "concatenates a string across iterations at "+p.Pos(an.InstrPos(in)))
						}
					}
				}
			case *ssa.Call:
				c := &x.Call
				name := an.CallName(c)
				if bi, ok := c.Value.(*ssa.Builtin); ok {
					if bi.Name() == "append" {
						// accumulator: fine only if sorted after the loop
						if ok, w := sortedBeforeUse(x, region); !ok {
							why = append(why, fmt.Sprintf("appends to a slice that escapes the loop unsorted (%s) at %s", w, p.Pos(an.InstrPos(in))))
						}
					}
					continue
				}
				if name == "reflect.Append" || name == "reflect.AppendSlice" {
					if ok, w := sortedBeforeUse(x, region); !ok {
						why = append(why, fmt.Sprintf("reflect.Append accumulates in iteration order (%s) at %s", w, p.Pos(an.InstrPos(in))))
					}
					continue
				}
				if wb, _ := writeBearing(c); wb {
					why = append(why, fmt.Sprintf("writes output (%s) at %s", nonEmpty(name, "dynamic call"), p.Pos(an.InstrPos(in))))
				}
			}
		}
	}
	return why
}

func flowsToPhiOutside(v ssa.Value, region []*ssa.BasicBlock) bool {
	refs := v.Referrers()
	if refs == nil {
		return false
	}
	for _, u := range *refs {
		if ph, ok := u.(*ssa.Phi); ok {
			_ = ph
			return true
		}
	}
	return false
}

func runD1(p *an.Prog, r *an.Result) {
	mapRangeProg = p
	for _, fn := range p.Funcs {
		if isMainPkg(fn) {
			continue
		}
		name := an.FuncName(fn)
		an.EachInstr(fn, func(in ssa.Instruction) {
			switch x := in.(type) {
			case *ssa.Range:
				if _, isMap := x.X.Type().Underlying().(*types.Map); !isMap {
					return
				}
				r.Counts["map iteration sites"]++
				construct := "range over map " + describe(p, x.X)
				// body: true successor of the If on the Next's ok
				var body *ssa.BasicBlock
				if refs := x.Referrers(); refs != nil {
					for _, u := range *refs {
						nx, ok := u.(*ssa.Next)
						if !ok || nx.Referrers() == nil {
							continue
						}
						for _, uu := range *nx.Referrers() {
							if ex, ok := uu.(*ssa.Extract); ok && ex.Index == 0 && ex.Referrers() != nil {
								for _, u3 := range *ex.Referrers() {
									if ifi, ok := u3.(*ssa.If); ok {
										body = ifi.Block().Succs[0]
									}
								}
							}
						}
					}
				}
				if body == nil {
					r.Bad(name, construct, x.Pos(), "loop body not found in the SSA form")
					return
				}
				why := orderSensitive(p, regionOf(body), x.X)
				if len(why) == 0 {
					r.OK(name, construct, x.Pos(), "the body only accumulates commutatively (map inserts, membership tests) or collects keys that are sorted before any other use")
				} else {
					r.Bad(name, construct, x.Pos(), fmt.Sprintf("%s iterates a Go map and %s: the result depends on Go's randomised map order", name, strings.Join(why, "; ")))
				}
			case *ssa.Call:
				cn := an.CallName(&x.Call)
				if i := strings.Index(cn, "["); i > 0 {
					cn = cn[:i]
				}
				if cn == "maps.Keys" || cn == "maps.Values" || cn == "maps.All" {
					// an iterator over a map: in Go's random order unless it goes straight into a sorter
					r.Counts["map iteration sites"]++
					okSorted := x.Referrers() != nil && len(*x.Referrers()) > 0
					if x.Referrers() != nil {
						for _, u := range *x.Referrers() {
							if _, dbg := u.(*ssa.DebugRef); dbg {
								continue
							}
							c2, isCall := u.(*ssa.Call)
							n2 := ""
							if isCall {
								n2 = an.CallName(&c2.Call)
								if i := strings.Index(n2, "["); i > 0 {
									n2 = n2[:i]
								}
							}
							if n2 != "slices.Sorted" && n2 != "slices.SortedFunc" && n2 != "slices.SortedStableFunc" {
								okSorted = false
							}
						}
					}
					if okSorted {
						r.OK(name, cn+"()", x.Pos(), "the iterator is consumed by slices.Sorted: the order of the result does not depend on the map's")
					} else {
						r.Bad(name, cn+"()", x.Pos(), fmt.Sprintf("%s iterates a Go map through %s without sorting the result at once: the order depends on Go's randomised map order", name, cn))
					}
					return
				}
				if cn != "(reflect.Value).MapKeys" && cn != "(reflect.Value).MapRange" {
					return
				}
				r.Counts["map iteration sites"]++
				construct := cn + "()"
				if cn == "(reflect.Value).MapRange" {
					if mapRangeCollectedAndSorted(fn, x) {
						r.OK(name, construct, x.Pos(), "the pairs are only collected into a slice, and that slice is sorted before any other use")
						return
					}
					r.Bad(name, construct, x.Pos(), "MapRange iterates in Go's randomised order, and the pairs are not merely collected into a slice that is sorted at once")
					return
				}
				if ok, _ := sortedBeforeUse(x, nil); ok {
					r.OK(name, construct, x.Pos(), "the key slice is sorted before any other use")
					return
				}
				// find loops over the key slice: element loads
				var why []string
				found := false
				seen := map[ssa.Value]bool{}
				var visit func(v ssa.Value)
				visit = func(v ssa.Value) {
					if seen[v] || v.Referrers() == nil {
						return
					}
					seen[v] = true
					for _, u := range *v.Referrers() {
						switch y := u.(type) {
						case *ssa.IndexAddr:
							found = true
							why = append(why, orderSensitive(p, regionOf(y.Block()), x)...)
						case *ssa.Index:
							found = true
							why = append(why, orderSensitive(p, regionOf(y.Block()), x)...)
						case *ssa.Range:
							found = true
							why = append(why, "is ranged over with an ssa.Range")
						case *ssa.Phi:
							visit(y)
						case *ssa.Slice:
							visit(y)
						case *ssa.Call:
							if b, ok := y.Call.Value.(*ssa.Builtin); ok && (b.Name() == "len" || b.Name() == "cap") {
								continue
							}
							why = append(why, "the unsorted key slice is passed to "+nonEmpty(an.CallName(&y.Call), "a call"))
						case *ssa.Return:
							why = append(why, "the unsorted key slice is returned")
						case *ssa.Store:
							if y.Val == v {
								why = append(why, "the unsorted key slice is stored")
							}
						}
					}
				}
				visit(x)
				if !found && len(why) == 0 {
					r.OK(name, construct, x.Pos(), "the keys are only counted")
					return
				}
				if len(why) == 0 {
					r.OK(name, construct, x.Pos(), "the loop over the keys only accumulates commutatively (map inserts)")
				} else {
					r.Bad(name, construct, x.Pos(), fmt.Sprintf("%s walks reflect.Value.MapKeys() unsorted and %s: the result depends on Go's randomised map order", name, strings.Join(dedup(why), "; ")))
				}
			}
		})
	}
	r.Floor("map iteration sites", 4)
}

func dedup(xs []string) []string {
	seen := map[string]bool{}
	var out []string
	for _, x := range xs {
		if !seen[x] {
			seen[x] = true
			out = append(out, x)
		}
	}
	return out
}

// ---------------------------------------------------------------------------
// D2

var nondetCalls = map[string]string{
	"time.Now": "the clock", "time.Since": "the clock", "time.Until": "the clock",
	"os.Getenv": "the environment", "os.Environ": "the environment", "os.LookupEnv": "the environment", "os.ExpandEnv": "the environment",
	"os.Getpid": "the process id", "os.Getppid": "the process id", "os.Hostname": "the host name", "os.Getwd": "the working directory",
	"os.Executable": "the executable path", "os.UserHomeDir": "the environment", "os.TempDir": "the environment",
	"runtime.NumGoroutine": "the scheduler", "runtime.Caller": "the call stack", "runtime.Callers": "the call stack", "runtime.Stack": "the call stack",
	"runtime/debug.Stack": "the call stack", "runtime.NumCPU": "the machine", "runtime.GOMAXPROCS": "the scheduler",
	"runtime.ReadMemStats": "the allocator", "runtime.GC": "the allocator",
}

func nondetSource(name string) string {
	if w, ok := nondetCalls[name]; ok {
		return w
	}
	for _, pfx := range []string{"math/rand.", "math/rand/v2.", "crypto/rand.", "(*math/rand.Rand).", "(*math/rand/v2.Rand)."} {
		if strings.HasPrefix(name, pfx) {
			return "a random source"
		}
	}
	return ""
}

func d2Core(p *an.Prog, r *an.Result) {
	roles := (*Roles)(nil)
	if p.Func("filters.AddStandardFilters") != nil {
		roles = GetRoles(p)
	}
	for _, fn := range p.Funcs {
		if isMainPkg(fn) {
			continue
		}
		name := an.FuncName(fn)
		an.EachInstr(fn, func(in ssa.Instruction) {
			switch x := in.(type) {
			case *ssa.Go:
				r.Bad(name, "go statement", x.Pos(), name+" starts a goroutine: the interleaving of its effects is not a function of the template and bindings")
			case *ssa.Select:
				if !x.Blocking || len(x.States) > 1 {
					r.Bad(name, "select", x.Pos(), name+" selects among channel operations: the choice is not deterministic")
				}
			case ssa.CallInstruction:
				c := x.Common()
				cn := an.CallName(c)
				// %p in constant format strings
				if strings.HasPrefix(cn, "fmt.") && len(c.Args) > 0 {
					for _, a := range c.Args {
						if s, ok := an.ConstString(a); ok && strings.Contains(s, "%p") {
							r.Bad(name, cn+" with %p", x.Pos(), name+" formats a pointer with %p: the output contains a memory address")
						}
					}
				}
				src := nondetSource(cn)
				if src == "" {
					return
				}
				r.Counts["nondeterminism sources"]++
				construct := cn + "()"
				switch {
				case an.IsInit(fn):
					r.Triv(name, construct, x.Pos(), "package initialiser (only the type of the value is used)")
				case cn == "time.Now" && guardedByNowLiteral(x):
					r.OK(name, construct, x.Pos(), "dominated by a comparison of a string parameter with the constant \"now\": the property's stated exception")
				case roles != nil && isBoundaryClosure(roles, fn) && strings.Contains(src, "stack"):
					r.OK(name, construct, x.Pos(), "inside the recover closure, on the re-raise path of an unhandled panic (reached only when C01 is already broken)")
				default:
					r.Bad(name, construct, x.Pos(), fmt.Sprintf("%s consults %s (%s): the output is no longer a function of the template text and the binding values", name, src, cn))
				}
			}
		})
	}
}

func isBoundaryClosure(roles *Roles, fn *ssa.Function) bool {
	for _, b := range roles.Boundaries {
		if b.Closure == fn {
			return true
		}
	}
	return false
}

// guardedByNowLiteral: the call is dominated by `s == "now"` for a string
// parameter s of the enclosing function.
func guardedByNowLiteral(in ssa.Instruction) bool {
	for _, g := range an.GuardsAtInstr(in) {
		b, ok := g.Cond.(*ssa.BinOp)
		if !ok || !(b.Op == token.EQL && g.True || b.Op == token.NEQ && !g.True) {
			continue
		}
		for _, pair := range [][2]ssa.Value{{b.X, b.Y}, {b.Y, b.X}} {
			if s, ok := an.ConstString(pair[1]); ok && s == "now" {
				if _, isParam := pair[0].(*ssa.Parameter); isParam {
					return true
				}
			}
		}
	}
	return false
}

func runD2(p *an.Prog, r *an.Result) {
	d2Core(p, r)
	checkFixture(r, d2Core, []string{"D2Bad"}, []string{"D2Good"})
	if r.Counts["nondeterminism sources"] == 0 {
		r.Bad("-", "no time.Now in ParseDate", token.NoPos, "the anchor of the stated exception (date \"now\") was not found")
	}
	bad := 0
	for _, o := range r.Obs {
		if o.Status == an.Violated {
			bad++
		}
	}
	if bad == 0 {
		r.OK("-", "module-wide scan", token.NoPos, fmt.Sprintf("%d calls to clock/random/environment/process/stack sources in non-test library code, each in the allowed set; no go statement, select or %%p verb", r.Counts["nondeterminism sources"]))
	}
}

// addrStepLocal walks an address/slice to the local allocation it is part of.
func addrStepLocal(v ssa.Value) []ssa.Value {
	switch x := v.(type) {
	case *ssa.Slice:
		return []ssa.Value{x.X}
	case *ssa.IndexAddr:
		return []ssa.Value{x.X}
	case *ssa.FieldAddr:
		return []ssa.Value{x.X}
	}
	return nil
}

// mapRangeCollectedAndSorted: the iterator's Key() and Value() results flow only into elements appended to
// one slice (directly or as fields of a struct literal), and that slice is handed to a sort call that
// dominates every return of the function.
func mapRangeCollectedAndSorted(fn *ssa.Function, it *ssa.Call) bool {
	var parts []ssa.Value
	if it.Referrers() == nil {
		return false
	}
	for _, u := range *it.Referrers() {
		c, ok := u.(*ssa.Call)
		if !ok {
			if _, dbg := u.(*ssa.DebugRef); dbg {
				continue
			}
			return false
		}
		switch an.CallName(&c.Call) {
		case "(*reflect.MapIter).Next":
		case "(*reflect.MapIter).Key", "(*reflect.MapIter).Value":
			parts = append(parts, c)
		default:
			return false
		}
	}
	if len(parts) == 0 {
		return false
	}
	// every part ends in an append
	var appends []*ssa.Call
	seen := map[ssa.Value]bool{}
	okFlow := true
	var follow func(v ssa.Value, depth int)
	follow = func(v ssa.Value, depth int) {
		if seen[v] || depth > 8 || v.Referrers() == nil {
			return
		}
		seen[v] = true
		for _, u := range *v.Referrers() {
			switch y := u.(type) {
			case *ssa.DebugRef:
			case *ssa.Store:
				// into a field / element of a local literal: follow the literal
				base := y.Addr
				for {
					switch b := base.(type) {
					case *ssa.FieldAddr:
						base = b.X
						continue
					case *ssa.IndexAddr:
						base = b.X
						continue
					}
					break
				}
				if al, isAl := base.(*ssa.Alloc); isAl {
					follow(al, depth+1)
				} else {
					okFlow = false
				}
			case *ssa.UnOp, *ssa.MakeInterface, *ssa.Slice, *ssa.Phi, *ssa.FieldAddr, *ssa.IndexAddr:
				follow(y.(ssa.Value), depth+1)
			case *ssa.Call:
				if b, isB := y.Call.Value.(*ssa.Builtin); isB && b.Name() == "append" {
					appends = append(appends, y)
					continue
				}
				okFlow = false
			default:
				okFlow = false
			}
		}
	}
	for _, pv := range parts {
		follow(pv, 0)
	}
	if !okFlow || len(appends) == 0 {
		return false
	}
	// the accumulated slice is sorted
	var sortCall *ssa.Call
	an.EachInstr(fn, func(in ssa.Instruction) {
		c, ok := in.(*ssa.Call)
		if !ok || !isSortCall(an.CallName(&c.Call)) || len(c.Call.Args) == 0 {
			return
		}
		for _, ap := range appends {
			if an.Reaches(c.Call.Args[0], an.StepValue, func(v ssa.Value) bool { return v == ssa.Value(ap) }) {
				sortCall = c
			}
		}
	})
	if sortCall == nil {
		// the function only collects and hands the slice back: every caller sorts it before any other use
		if mapRangeProg == nil {
			return false
		}
		retOK := true
		an.EachInstr(fn, func(in ssa.Instruction) {
			if ret, ok := in.(*ssa.Return); ok {
				hit := false
				for _, ap := range appends {
					if an.Reaches(resultsOf(ret)[0], an.StepValue, func(v ssa.Value) bool { return v == ssa.Value(ap) }) {
						hit = true
					}
				}
				// (an early return of the empty slice made before the loop is fine)
				if !hit {
					if _, isMk := an.Strip(resultsOf(ret)[0]).(*ssa.MakeSlice); !isMk {
						retOK = false
					}
				}
			}
		})
		sites := callSitesOf(mapRangeProg, fn)
		if !retOK || len(sites) == 0 {
			return false
		}
		for _, site := range sites {
			if ok, _ := sortedBeforeUse(site, nil); !ok {
				return false
			}
		}
		return true
	}
	okRet := true
	an.EachInstr(fn, func(in ssa.Instruction) {
		if ret, ok := in.(*ssa.Return); ok && !instrDominates(sortCall, ret) {
			okRet = false
		}
	})
	return okRet
}

// mapRangeProg is the program the D1 run is looking at (set by runD1): call sites of a collecting helper
// are looked up in it.
var mapRangeProg *an.Prog

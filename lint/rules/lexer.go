package rules

import (
	"fmt"
	"go/token"
	"go/types"
	"strings"

	"golang.org/x/tools/go/ssa"

	"lv/an"
)

func init() {
	register("X9", "the expression lexer gives every token its own text: a string literal is the token minus exactly its two quote bytes, names are slices of the token that drop at most one delimiter byte at either end, numbers are parsed from the whole token - no other function transforms token text", runX9)
}

// textVal is the abstract value of an expression in the lexer: a slice of the
// current token (a bytes dropped at the front, b at the back), a constant, a
// number parsed from the whole token, a boolean test of it, or something else.
type textVal struct {
	kind string // text | const | num | bool | bad
	a, b int64
	why  string
}

func (t textVal) String() string {
	if t.kind == "text" {
		return fmt.Sprintf("token[%d:len-%d]", t.a, t.b)
	}
	return t.kind
}

func runX9(p *an.Prog, r *an.Result) {
	fn := p.Func("(*expressions.lexer).Lex")
	if fn == nil || len(fn.Params) < 2 {
		r.Bad("-", "(*expressions.lexer).Lex not found", token.NoPos, "anchor not resolved")
		return
	}
	name := an.FuncName(fn)
	lexT := fn.Params[0].Type()
	isLexField := func(v ssa.Value, field string) bool {
		u, ok := v.(*ssa.UnOp)
		if !ok || u.Op != token.MUL {
			return false
		}
		fa, ok := u.X.(*ssa.FieldAddr)
		if !ok || !types.Identical(fa.X.Type(), lexT) {
			return false
		}
		st := lexT.Underlying().(*types.Pointer).Elem().Underlying().(*types.Struct)
		return st.Field(fa.Field).Name() == field
	}
	// offset of a bound relative to a ragel marker (ts / te): the form is 1*marker + c
	rel := func(v ssa.Value, marker string) (int64, bool) {
		lf := linOf(v, 0)
		n := 0
		for x, cf := range lf.coef {
			if cf == 0 {
				continue
			}
			if cf != 1 || !isLexField(x, marker) {
				return 0, false
			}
			n++
		}
		return lf.c, n == 1
	}
	bad := func(format string, a ...any) textVal { return textVal{kind: "bad", why: fmt.Sprintf(format, a...)} }
	var eval func(v ssa.Value, env map[*ssa.Parameter]textVal, depth int) textVal
	eval = func(v ssa.Value, env map[*ssa.Parameter]textVal, depth int) textVal {
		if depth > 12 {
			return bad("expression too deep")
		}
		switch x := v.(type) {
		case *ssa.Const:
			return textVal{kind: "const"}
		case *ssa.Parameter:
			if t, ok := env[x]; ok {
				return t
			}
			return bad("parameter %s is not token text", x.Name())
		case *ssa.MakeInterface:
			return eval(x.X, env, depth+1)
		case *ssa.ChangeType:
			return eval(x.X, env, depth+1)
		case *ssa.Convert:
			t := eval(x.X, env, depth+1)
			if t.kind == "num" && t.why == "float" {
				if b, ok := x.Type().Underlying().(*types.Basic); ok && b.Info()&types.IsInteger != 0 {
					return bad("an integer literal goes through a floating-point parse: integers above 2^53 lose their value")
				}
			}
			return t
		case *ssa.Phi:
			var out textVal
			for i, e := range x.Edges {
				t := eval(e, env, depth+1)
				if i > 0 && t != out {
					return bad("merges different pieces of text")
				}
				out = t
			}
			return out
		case *ssa.Extract:
			return eval(x.Tuple, env, depth+1)
		case *ssa.BinOp:
			if x.Op == token.EQL || x.Op == token.NEQ {
				a, b := eval(x.X, env, depth+1), eval(x.Y, env, depth+1)
				if (a.kind == "text" && a.a == 0 && a.b == 0 && b.kind == "const") || (b.kind == "text" && b.a == 0 && b.b == 0 && a.kind == "const") {
					return textVal{kind: "bool"}
				}
				return bad("comparison of something other than the whole token with a constant")
			}
			return bad("arithmetic on token text")
		case *ssa.Slice:
			if isLexField(x.X, "data") {
				if x.Low == nil || x.High == nil {
					return bad("slice of the input that is not bounded by ts and te")
				}
				a, ok1 := rel(x.Low, "ts")
				bb, ok2 := rel(x.High, "te")
				if !ok1 || !ok2 || a < 0 || bb > 0 {
					return bad("slice of the input whose bounds are not ts+a and te-b")
				}
				return textVal{kind: "text", a: a, b: -bb}
			}
			base := eval(x.X, env, depth+1)
			if base.kind != "text" {
				return bad("slice of %s", base)
			}
			var a, b int64
			if x.Low != nil {
				c, ok := an.ConstInt(x.Low)
				if !ok || c < 0 {
					return bad("low bound is not a constant")
				}
				a = c
			}
			if x.High != nil {
				lf := linOf(x.High, 0)
				n := 0
				for y, cf := range lf.coef {
					c := an.CallOf(y)
					if cf != 1 || c == nil || an.CallName(c) != "builtin.len" || !sameValue(c.Args[0], x.X) {
						return bad("high bound is not len(text)-b")
					}
					n++
				}
				if n != 1 || lf.c > 0 {
					return bad("high bound is not len(text)-b")
				}
				b = -lf.c
			}
			return textVal{kind: "text", a: base.a + a, b: base.b + b}
		case *ssa.Call:
			callee := x.Call.StaticCallee()
			if callee == nil {
				return bad("dynamic call")
			}
			switch an.FuncName(callee) {
			case "strconv.ParseInt", "strconv.ParseFloat", "strconv.Atoi", "strconv.ParseUint":
				t := eval(x.Call.Args[0], env, depth+1)
				if t.kind == "text" && t.a == 0 && t.b == 0 {
					if an.FuncName(callee) == "strconv.ParseFloat" {
						return textVal{kind: "num", why: "float"}
					}
					return textVal{kind: "num"}
				}
				return bad("number parsed from %s, not from the whole token", t)
			}
			if callee.Blocks == nil || !p.InModule(callee) {
				return bad("token text goes through %s", an.FuncName(callee))
			}
			env2 := map[*ssa.Parameter]textVal{}
			for i, prm := range callee.Params {
				if i < len(x.Call.Args) {
					if types.Identical(prm.Type(), lexT) {
						continue
					}
					if t := eval(x.Call.Args[i], env, depth+1); t.kind != "bad" {
						env2[prm] = t
					}
				}
			}
			var out textVal
			first := true
			okAll := true
			an.EachInstr(callee, func(in ssa.Instruction) {
				ret, ok := in.(*ssa.Return)
				if !ok || !okAll {
					return
				}
				res := resultsOf(ret)
				if len(res) == 0 {
					okAll = false
					return
				}
				t := eval(res[0], env2, depth+1)
				if !first && t != out {
					out = bad("%s returns different pieces of text", an.FuncName(callee))
					okAll = false
					return
				}
				out, first = t, false
			})
			if first {
				return bad("%s does not return", an.FuncName(callee))
			}
			return out
		}
		return bad("%T is not a piece of the token", v)
	}
	symT := fn.Params[1].Type()
	stores := 0
	for _, f := range unitWithHelpers(p, fn) {
		an.EachInstr(f, func(in ssa.Instruction) {
			st, ok := in.(*ssa.Store)
			if !ok {
				return
			}
			fa, ok := st.Addr.(*ssa.FieldAddr)
			if !ok || !types.Identical(fa.X.Type(), symT) {
				return
			}
			fld := symT.Underlying().(*types.Pointer).Elem().Underlying().(*types.Struct).Field(fa.Field)
			isStr := false
			if b, ok := fld.Type().Underlying().(*types.Basic); ok && b.Kind() == types.String {
				isStr = true
			}
			_, isIface := fld.Type().Underlying().(*types.Interface)
			if !isStr && !isIface {
				return
			}
			if f != fn {
				r.Bad(an.FuncName(f), "semantic value "+fld.Name()+" stored outside Lex", st.Pos(), "the rule evaluates token text in Lex; a store in a helper is not followed")
				return
			}
			stores++
			t := eval(st.Val, map[*ssa.Parameter]textVal{}, 0)
			construct := fmt.Sprintf("semantic value %s = %s", fld.Name(), t)
			switch {
			case t.kind == "bad":
				r.Bad(name, "semantic value "+fld.Name()+" is not the token's own text", st.Pos(), t.why+": a literal or name must denote exactly the characters written")
			case t.kind == "text" && isIface && (t.a != 1 || t.b != 1):
				r.Bad(name, "string literal does not drop exactly its two quotes", st.Pos(), fmt.Sprintf("the literal's value is %s; it must be the token without its first and last byte", t))
			case t.kind == "text" && (t.a > 1 || t.b > 1):
				r.Bad(name, "name drops more than one delimiter byte", st.Pos(), fmt.Sprintf("the name is %s", t))
			default:
				r.OK(name, construct, st.Pos(), "slice of the input between ts and te / number parsed from the whole token / constant")
			}
		})
	}
	r.Counts["semantic value stores"] = stores
	r.Floor("semantic value stores", 6)
}

// ---------------------------------------------------------------------------
// X10

func init() {
	register("X10", "the bracket form a[i] evaluates through IndexValue with the evaluated index and the dot form a.b through PropertyValue with the name fixed at parse time: no evaluation closure consults both, so first/last/size are reachable only by the dot form", runX10)
}

func runX10(p *an.Prog, r *an.Result) {
	pkg := p.Package("expressions")
	if pkg == nil {
		r.Bad("-", "package expressions not found", token.NoPos, "anchor not resolved")
		return
	}
	isLookup := func(c *ssa.CallCommon, method string) bool {
		return c.IsInvoke() && c.Method.Name() == method && isNamedIn(c.Value.Type(), "values", "Value")
	}
	for _, fn := range p.Funcs {
		if fn.Pkg != pkg && (fn.Parent() == nil || an.Outermost(fn).Pkg != pkg) {
			continue
		}
		var idx, prop []*ssa.Call
		an.EachInstr(fn, func(in ssa.Instruction) {
			if c, ok := in.(*ssa.Call); ok {
				if isLookup(&c.Call, "IndexValue") {
					idx = append(idx, c)
				}
				if isLookup(&c.Call, "PropertyValue") {
					prop = append(prop, c)
				}
			}
		})
		if len(idx)+len(prop) == 0 {
			continue
		}
		name := an.FuncName(fn)
		r.Counts["lookup closures"]++
		switch {
		case len(idx) > 0 && len(prop) > 0:
			r.Bad(name, "one evaluation step consults both IndexValue and PropertyValue", prop[0].Pos(), "a[\"first\"], a[\"size\"] would answer like a.first, a.size: the bracket form reads entries, only the dot form offers the built-in properties")
		case len(idx) > 1 || len(prop) > 1:
			r.Bad(name, "more than one lookup in one evaluation step", an.FuncPos(fn), "each bracket or dot is one lookup")
		case len(idx) == 1:
			// the index is evaluated at run time: the result of calling a captured function
			arg := idx[0].Call.Args[0]
			if c := an.CallOf(arg); c != nil && c.StaticCallee() == nil && !c.IsInvoke() {
				r.OK(name, "a[i]: IndexValue(evaluated index)", idx[0].Pos(), "")
			} else {
				r.Bad(name, "a[i]: the index is not the evaluated index expression", idx[0].Pos(), "the bracket form must look up the value of its index expression")
			}
		default:
			// the property name is fixed when the expression is built: a captured value
			arg := prop[0].Call.Args[0]
			fixed := false
			for _, o := range an.Origins(arg, an.StepValue) {
				if u, ok := o.(*ssa.UnOp); ok {
					if _, isFV := u.X.(*ssa.FreeVar); isFV {
						fixed = true
					}
				}
				if _, isFV := o.(*ssa.FreeVar); isFV {
					fixed = true
				}
				// or a field of the receiver, where the builders keep their operands in a struct and
				// return a method value
				if fn.Signature.Recv() != nil && len(fn.Params) > 0 {
					switch x := o.(type) {
					case *ssa.Field:
						if an.Deref(x.X) == ssa.Value(fn.Params[0]) || x.X == ssa.Value(fn.Params[0]) {
							fixed = true
						}
					case *ssa.UnOp:
						if fa, ok := x.X.(*ssa.FieldAddr); ok {
							if fa.X == ssa.Value(fn.Params[0]) {
								fixed = true
							}
							if al, ok := fa.X.(*ssa.Alloc); ok {
								for _, sv := range an.Stores(al) {
									if sv == ssa.Value(fn.Params[0]) {
										fixed = true
									}
								}
							}
						}
					}
				}
			}
			if fixed {
				r.OK(name, "a.b: PropertyValue(name fixed at parse time)", prop[0].Pos(), "")
			} else {
				r.Bad(name, "a.b: the property is not the parsed name", prop[0].Pos(), "the dot form must look up the name written in the template")
			}
		}
	}
	r.Floor("lookup closures", 2)
}

// ---------------------------------------------------------------------------
// F7

func init() {
	register("F7", "no value that can hold caller data is recognised as a container by asserting one particular Go container type (map[string]any, []any, ...): containers are recognised by kind, so that typed and generic containers of the same Liquid value take the same path; an assertion is accepted only as a fast path beside a test of the reflect kind", runF7)
}

func runF7(p *an.Prog, r *an.Result) {
	roles := GetRoles(p)
	for _, fn := range p.Funcs {
		if isMainPkg(fn) {
			continue
		}
		name := roles.Label(fn)
		an.EachInstr(fn, func(in ssa.Instruction) {
			ta, ok := in.(*ssa.TypeAssert)
			if !ok {
				return
			}
			if _, isNamed := ta.AssertedType.(*types.Named); isNamed {
				return
			}
			kind := int64(0)
			switch u := ta.AssertedType.Underlying().(type) {
			case *types.Map:
				kind = 21
			case *types.Slice:
				if b, ok := u.Elem().Underlying().(*types.Basic); ok && b.Kind() == types.Byte {
					return // bytes are text
				}
				kind = 23
			default:
				return
			}
			if it, ok := ta.X.Type().Underlying().(*types.Interface); !ok || it.NumMethods() > 0 {
				return
			}
			// the dynamic type is known: the value was boxed from that type in this function
			known := true
			for _, o := range an.Origins(ta.X, an.StepValue) {
				mi, ok := o.(*ssa.MakeInterface)
				if !ok || !types.Identical(mi.X.Type(), ta.AssertedType) {
					known = false
				}
			}
			if known {
				return
			}
			r.Counts["container type assertions"]++
			construct := fmt.Sprintf("%s.(%s)", describe(p, ta.X), an.TypeName(ta.AssertedType))
			// the module's own record: read back under the constant name under which the module
			// binds a value of exactly this type
			own := false
			for _, o := range an.Origins(ta.X, an.StepValue) {
				c := an.CallOf(o)
				if c == nil || an.CallName(c) != "(render.Context).Get" {
					continue
				}
				key, ok := an.ConstString(c.Args[0])
				if !ok {
					continue
				}
				for _, f := range p.Funcs {
					for _, sc := range callsNamed(f, "(render.Context).Set") {
						if k2, ok := an.ConstString(sc.Call.Args[0]); ok && k2 == key {
							if mi, ok := sc.Call.Args[1].(*ssa.MakeInterface); ok && types.Identical(mi.X.Type(), ta.AssertedType) {
								own = true
							}
						}
					}
				}
			}
			if own {
				r.OK(name, construct, ta.Pos(), "the value is read back under the name under which the module itself binds a value of exactly this type (its own record, not a caller's container)")
				return
			}
			// a fast path: the same function also recognises the kind reflectively
			byKind := false
			for _, f := range unitWithHelpers(p, an.Outermost(fn)) {
				an.EachInstr(f, func(x ssa.Instruction) {
					b, ok := x.(*ssa.BinOp)
					if !ok || b.Op != token.EQL {
						return
					}
					for _, pair := range [][2]ssa.Value{{b.X, b.Y}, {b.Y, b.X}} {
						if isPkgType(pair[0].Type(), "reflect", "Kind") {
							if c, ok := an.ConstInt(pair[1]); ok && (c == kind || kind == 23 && c == 17) {
								byKind = true
							}
						}
					}
				})
			}
			if byKind {
				r.OK(name, construct, ta.Pos(), "a fast path: the function also recognises the container by its reflect kind")
			} else {
				r.Bad(name, construct, ta.Pos(), fmt.Sprintf("%s recognises a container only if it has exactly the Go type %s: a typed container with the same Liquid value (another element or key type, a named type) takes the other path", an.FuncName(fn), an.TypeName(ta.AssertedType)))
			}
		})
	}
	if r.Counts["container type assertions"] == 0 {
		r.Triv("-", "no assertion of a concrete container type on an untyped value", token.NoPos, "containers are recognised by reflect kind or through the value layer")
	}
}

// ---------------------------------------------------------------------------
// X11

func init() {
	register("X11", "values.Equal compares arrays and slices element by element with itself: its two operands as wholes reach Go's == or reflect.DeepEqual only where one of them is nil or the joined kind has been found to be neither Array nor Slice", runX11)
}

func runX11(p *an.Prog, r *an.Result) {
	fn := p.Func("values.Equal")
	if fn == nil || len(fn.Params) != 2 {
		r.Bad("-", "values.Equal not found", token.NoPos, "anchor not resolved")
		return
	}
	name := an.FuncName(fn)
	// the operands: the parameters or what ToLiquid made of them (through phis and cells)
	isOperand := func(v ssa.Value, k int) bool {
		for _, o := range an.Origins(v, an.StepValue) {
			o = an.Deref(o)
			if o == ssa.Value(fn.Params[k]) {
				return true
			}
			if c := an.CallOf(o); c != nil && an.CallName(c) == "values.ToLiquid" {
				for _, oo := range an.Origins(c.Args[0], an.StepValue) {
					if an.Deref(oo) == ssa.Value(fn.Params[k]) {
						return true
					}
				}
			}
		}
		return false
	}
	both := func(x, y ssa.Value) bool {
		return isOperand(x, 0) && isOperand(y, 1) || isOperand(x, 1) && isOperand(y, 0)
	}
	notKind := func(k int64) func(ssa.Value, bool) bool {
		return func(cond ssa.Value, taken bool) bool {
			// a predicate over kinds of the module (isListKind(kind)), read as a table: its answer on this edge
			// differs from its answer for k
			if c := an.CallOf(cond); c != nil && len(c.Args) == 1 && isPkgType(c.Args[0].Type(), "reflect", "Kind") {
				if callee := c.StaticCallee(); callee != nil && p.InModule(callee) {
					if t := kindTableOf(p, callee, 0); t.ok {
						want := int64(0)
						if taken {
							want = 1
						}
						return t.val[[2]int64{k, 0}] != want
					}
				}
			}
			// the class of the kind compared with a constant (classOf(kind) == listClass), read as a table
			if _, in, known := kindTestOnEdge(p, cond, taken); known && !in[k] {
				return true
			}
			b, ok := cond.(*ssa.BinOp)
			if !ok || !(b.Op == token.EQL && !taken || b.Op == token.NEQ && taken) {
				return false
			}
			for _, pair := range [][2]ssa.Value{{b.X, b.Y}, {b.Y, b.X}} {
				if c, ok := an.ConstInt(pair[1]); ok && c == k && isPkgType(pair[0].Type(), "reflect", "Kind") {
					return true
				}
			}
			return false
		}
	}
	nilTest := func(cond ssa.Value, taken bool) bool {
		b, ok := cond.(*ssa.BinOp)
		if !ok || !(b.Op == token.EQL && taken || b.Op == token.NEQ && !taken) {
			return false
		}
		return an.IsNilConst(b.Y) && (isOperand(b.X, 0) || isOperand(b.X, 1)) || an.IsNilConst(b.X) && (isOperand(b.Y, 0) || isOperand(b.Y, 1))
	}
	check := func(in ssa.Instruction, what string) {
		r.Counts["whole-value comparisons"]++
		blk := in.Block()
		switch {
		case an.AllPathsGuarded(blk, nilTest):
			r.OK(name, what, an.InstrPos(in), "reached only when an operand is nil")
		case an.AllPathsGuarded(blk, notKind(17)) && an.AllPathsGuarded(blk, notKind(23)):
			r.OK(name, what, an.InstrPos(in), "reached only after the joined kind was found to be neither Array nor Slice")
		default:
			r.Bad(name, what+" can compare two arrays or slices as wholes", an.InstrPos(in), "arrays and slices are equal when their elements are equal in the Liquid sense (1 and int64(1), a Drop and its value); Go's == and DeepEqual compare Go representations")
		}
	}
	an.EachInstr(fn, func(in ssa.Instruction) {
		switch x := in.(type) {
		case *ssa.BinOp:
			if (x.Op == token.EQL || x.Op == token.NEQ) && an.IsInterface(x.X.Type()) && both(x.X, x.Y) {
				check(in, "a == b")
			}
		case *ssa.Call:
			if x.Call.StaticCallee() == fn {
				return
			}
			if len(x.Call.Args) >= 2 && both(x.Call.Args[0], x.Call.Args[1]) {
				check(in, nonEmpty(an.CallName(&x.Call), "call")+"(a, b)")
			}
		}
	})
	r.Floor("whole-value comparisons", 2)
}

// ---------------------------------------------------------------------------
// X12

func init() {
	register("X12", "strict-variables mode is one switch with one effect: the flag the engine's setter stores is read only where an object's evaluated value is tested against nil, and value == nil with the flag set leads to an error return located at the object; without the flag nothing changes", runX12)
}

func runX12(p *an.Prog, r *an.Result) {
	// the flag: the bool field into which an exported, parameterless engine method stores true
	var flagOwner types.Type
	flagIdx := -1
	var setter *ssa.Function
	for _, f := range p.Funcs {
		if f.Object() == nil || !f.Object().Exported() || f.Signature.Recv() == nil || f.Signature.Params().Len() != 0 || isMainPkg(f) {
			continue
		}
		if !strings.Contains(strings.ToLower(f.Name()), "strict") {
			continue
		}
		an.EachInstr(f, func(in ssa.Instruction) {
			st, ok := in.(*ssa.Store)
			if !ok {
				return
			}
			fa, ok := st.Addr.(*ssa.FieldAddr)
			if !ok {
				return
			}
			if c, isC := an.ConstBool(st.Val); isC && c {
				flagOwner, flagIdx, setter = derefT(fa.X.Type()), fa.Field, f
			}
		})
	}
	if setter == nil {
		r.Bad("-", "strict-mode setter not found", token.NoPos, "no exported method stores true into a configuration flag")
		return
	}
	r.OK(an.FuncName(setter), "sets the strict flag", an.FuncPos(setter), "stores true into the configuration field")
	isFlagRead := func(v ssa.Value) bool {
		switch x := v.(type) {
		case *ssa.Field:
			return x.Field == flagIdx && types.Identical(x.X.Type(), flagOwner)
		case *ssa.UnOp:
			if fa, ok := x.X.(*ssa.FieldAddr); ok && x.Op == token.MUL {
				return fa.Field == flagIdx && types.Identical(derefT(fa.X.Type()), flagOwner)
			}
		}
		return false
	}
	reads := 0
	for _, fn := range p.Funcs {
		if isMainPkg(fn) || fn == setter {
			continue
		}
		name := an.FuncName(fn)
		an.EachInstr(fn, func(in ssa.Instruction) {
			v, ok := in.(ssa.Value)
			if !ok || !isFlagRead(v) {
				return
			}
			reads++
			r.Counts["strict flag reads"]++
			// the read decides a branch whose true edge is an error return, and which is reached only
			// after the evaluated value was found nil
			var ifi *ssa.If
			if v.Referrers() != nil {
				for _, u := range *v.Referrers() {
					if x, ok := u.(*ssa.If); ok {
						ifi = x
					}
					// value == nil && flag used as a value (a case of a tagless switch): the flag is one edge of
					// a boolean phi, every other edge a constant, and the phi decides a branch
					if ph, ok := u.(*ssa.Phi); ok && ph.Referrers() != nil {
						onlyConsts := true
						for _, e := range ph.Edges {
							if _, isC := an.ConstBool(e); !isC && e != v {
								onlyConsts = false
							}
						}
						for _, pu := range *ph.Referrers() {
							if x, ok := pu.(*ssa.If); ok && onlyConsts && len(*ph.Referrers()) == 1 {
								ifi = x
							}
						}
					}
				}
			}
			if ifi == nil {
				r.Bad(name, "strict flag used for something other than a branch", an.InstrPos(in), "the flag may only decide whether a nil object value is an error")
				return
			}
			// an object's final value: the evaluated value that this function goes on to print
			printed := func(v ssa.Value) bool {
				if v.Referrers() == nil {
					return false
				}
				for _, u := range *v.Referrers() {
					if c, ok := u.(*ssa.Call); ok {
						for _, a := range c.Call.Args {
							if isWriterType(a.Type()) {
								return true
							}
						}
					}
				}
				return false
			}
			nilTrue := func(cond ssa.Value, taken bool) bool {
				b, ok := cond.(*ssa.BinOp)
				if !ok || !(b.Op == token.EQL && taken || b.Op == token.NEQ && !taken) {
					return false
				}
				for _, pair := range [][2]ssa.Value{{b.X, b.Y}, {b.Y, b.X}} {
					if !an.IsNilConst(pair[1]) {
						continue
					}
					for _, o := range an.Origins(pair[0], an.StepValue) {
						if ex, ok := o.(*ssa.Extract); ok && ex.Index == 0 {
							if _, ok := ex.Tuple.(*ssa.Call); ok && printed(ex) {
								return true
							}
						}
					}
				}
				return false
			}
			flagTrue := func(cond ssa.Value, taken bool) bool { return taken && cond == v }
			// the blocks entered with both conditions established, in either order of testing
			var targets []*ssa.BasicBlock
			for _, blk := range fn.Blocks {
				if len(blk.Preds) == 0 {
					continue
				}
				if an.AllPathsGuarded(blk, nilTrue) && an.AllPathsGuarded(blk, flagTrue) {
					both := false
					for _, pr := range blk.Preds {
						if !(an.AllPathsGuarded(pr, nilTrue) && an.AllPathsGuarded(pr, flagTrue)) {
							both = true // the edge into blk is where the second condition becomes known
						}
					}
					if both {
						targets = append(targets, blk)
					}
				}
			}
			nilFirst := len(targets) > 0
			// without the nil test the flag decides nothing: the false side of the nil test never reads it
			// (checked by requiring every path to the flag's branch... in either order, so only the joint target counts)
			errRet := true
			seen := map[*ssa.BasicBlock]bool{}
			var dfs func(b *ssa.BasicBlock)
			dfs = func(b *ssa.BasicBlock) {
				if seen[b] {
					return
				}
				seen[b] = true
				if ret, ok := b.Instrs[len(b.Instrs)-1].(*ssa.Return); ok {
					res := resultsOf(ret)
					if len(res) == 0 || an.IsNilConst(res[len(res)-1]) {
						errRet = false
					}
					return
				}
				for _, s := range b.Succs {
					dfs(s)
				}
			}
			for _, t := range targets {
				dfs(t)
			}
			// the flag alone changes nothing: what only the flag's true edge reaches, short of the joint
			// target, does nothing but test
			reachFrom := func(start *ssa.BasicBlock, stop map[*ssa.BasicBlock]bool) map[*ssa.BasicBlock]bool {
				out := map[*ssa.BasicBlock]bool{}
				var rf func(b *ssa.BasicBlock)
				rf = func(b *ssa.BasicBlock) {
					if out[b] || stop[b] {
						return
					}
					out[b] = true
					for _, x := range b.Succs {
						rf(x)
					}
				}
				rf(start)
				return out
			}
			tset := map[*ssa.BasicBlock]bool{}
			for _, t := range targets {
				tset[t] = true
			}
			onTrue := reachFrom(ifi.Block().Succs[0], tset)
			onFalse := reachFrom(ifi.Block().Succs[1], nil)
			for blk := range onTrue {
				if onFalse[blk] {
					continue
				}
				for _, x := range blk.Instrs {
					switch x.(type) {
					case *ssa.BinOp, *ssa.UnOp, *ssa.If, *ssa.Jump, *ssa.Phi, *ssa.Field, *ssa.FieldAddr, *ssa.Extract, *ssa.DebugRef:
					default:
						nilFirst = false
					}
				}
			}
			switch {
			case !nilFirst:
				r.Bad(name, "strict flag consulted without the printed value having been found nil", an.InstrPos(in), "strict mode must only turn an undefined (nil) object value - the value an object is about to print - into an error; conditions, case subjects and filter arguments may be nil")
			case !errRet:
				r.Bad(name, "nil value in strict mode does not fail", an.InstrPos(in), "with the flag set a nil object value must end in an error return")
			default:
				r.OK(name, "value == nil && strict -> error", an.InstrPos(in), "the flag is read only after the evaluated value was found nil, and its true edge leads only to error returns")
			}
		})
	}
	if reads == 0 {
		r.Bad("-", "the strict flag is never read", token.NoPos, "strict-variables mode has no effect")
	}
}

// ---------------------------------------------------------------------------
// F9

func init() {
	register("F9", "no number loses its fraction on the way: a floating-point value is converted to an integer type only after math.Floor/Ceil/Round/Trunc, or where the result is checked to convert back to the same value", runF9)
}

func runF9(p *an.Prog, r *an.Result) {
	roles := GetRoles(p)
	isFloat := func(t types.Type) bool {
		b, ok := t.Underlying().(*types.Basic)
		return ok && b.Info()&types.IsFloat != 0
	}
	isInt := func(t types.Type) bool {
		b, ok := t.Underlying().(*types.Basic)
		return ok && b.Info()&types.IsInteger != 0
	}
	indexUnit := map[*ssa.Function]bool{}
	for _, fn := range p.Funcs {
		if fn.Name() == "IndexValue" && fn.Signature.Recv() != nil && fn.Pkg != nil && an.RelPkg(fn.Pkg.Pkg.Path()) == "values" {
			for _, f := range unitWithHelpers(p, fn) {
				// a helper counts only if nothing outside the IndexValue methods calls it
				only := f == fn
				if !only {
					only = true
					for _, site := range callSitesOf(p, f) {
						if pf := an.Outermost(site.Parent()); pf.Name() != "IndexValue" && !indexUnit[pf] {
							only = false
						}
					}
				}
				if only {
					indexUnit[f] = true
				}
			}
		}
	}
	for _, fn := range p.Funcs {
		if isMainPkg(fn) || p9OutOfScope(p, fn) != "" {
			continue
		}
		pk := an.RelPkg(an.Outermost(fn).Pkg.Pkg.Path())
		if pk != "filters" && pk != "values" && pk != "tags" && pk != "render" && pk != "expressions" {
			continue
		}
		name := roles.Label(fn)
		an.EachInstr(fn, func(in ssa.Instruction) {
			cv, ok := in.(*ssa.Convert)
			if !ok || !isFloat(cv.X.Type()) || !isInt(cv.Type()) {
				return
			}
			if _, isConst := cv.X.(*ssa.Const); isConst {
				return
			}
			r.Counts["float to integer conversions"]++
			// (a parameter is named by position and type, not by its name: a rename must not orphan a table entry)
			operand := describe(p, cv.X)
			if par, ok := cv.X.(*ssa.Parameter); ok {
				for i, pp := range fn.Params {
					if pp == par {
						operand = fmt.Sprintf("parameter %d %s", i, an.TypeName(par.Type()))
					}
				}
			}
			construct := fmt.Sprintf("%s(%s)", an.TypeName(cv.Type()), operand)
			// (i) after a rounding function
			rounded := true
			n := 0
			for _, o := range an.Origins(cv.X, an.StepValue) {
				n++
				c := an.CallOf(o)
				if c == nil {
					rounded = false
					continue
				}
				switch an.CallName(c) {
				case "math.Floor", "math.Ceil", "math.Round", "math.Trunc", "math.RoundToEven":
				default:
					// a rounding function handed in as a value (an adapter integral(math.Ceil)): every function
					// that can be the callee is one of them
					cands := funcValueCandidates(p, fn, c)
					if len(cands) == 0 {
						rounded = false
					}
					for _, cf := range cands {
						switch an.FuncName(cf) {
						case "math.Floor", "math.Ceil", "math.Round", "math.Trunc", "math.RoundToEven":
						default:
							rounded = false
						}
					}
				}
			}
			if rounded && n > 0 {
				r.OK(name, construct, cv.Pos(), "the operand is the result of math.Floor/Ceil/Round/Trunc")
				return
			}
			// (ii) the result is converted back and compared with the original, and that comparison
			// guards every other use
			var back *ssa.BinOp
			if cv.Referrers() != nil {
				for _, u := range *cv.Referrers() {
					c2, ok := u.(*ssa.Convert)
					if !ok || !isFloat(c2.Type()) || c2.Referrers() == nil {
						continue
					}
					for _, uu := range *c2.Referrers() {
						if b, ok := uu.(*ssa.BinOp); ok && (b.Op == token.EQL || b.Op == token.NEQ) {
							other := b.X
							if other == ssa.Value(c2) {
								other = b.Y
							}
							if sameValue(other, cv.X) {
								back = b
							}
						}
					}
				}
			}
			if back != nil {
				okUses := true
				for _, u := range *cv.Referrers() {
					if _, isDbg := u.(*ssa.DebugRef); isDbg {
						continue
					}
					if c2, ok := u.(*ssa.Convert); ok && isFloat(c2.Type()) {
						continue
					}
					guarded := an.AllPathsGuarded(u.Block(), func(cond ssa.Value, taken bool) bool {
						return cond == ssa.Value(back) && (back.Op == token.EQL) == taken
					})
					if !guarded {
						okUses = false
					}
				}
				if okUses {
					r.OK(name, construct, cv.Pos(), "every use is guarded by float(result) == original")
					return
				}
			}
			// (iii) an array index: Liquid truncates a fractional index (a[1.9] is a[1]); the conversion is in the
			// unit of a wrapper's IndexValue and takes the index value itself (X19 holds it to that)
			if indexUnit[an.Outermost(fn)] {
				direct := true
				for _, o := range an.Origins(cv.X, an.StepValue) {
					switch o.(type) {
					case *ssa.TypeAssert, *ssa.Extract, *ssa.Parameter, *ssa.Call:
					default:
						direct = false
					}
				}
				if direct {
					r.OK(name, construct, cv.Pos(), "the truncation of a fractional array index, of the index value itself")
					return
				}
			}
			r.Bad(name, construct, cv.Pos(), fmt.Sprintf("%s converts a floating-point value to an integer without rounding it first or checking that nothing was lost: 2.5 becomes 2", an.FuncName(fn)))
		})
	}
	// no number takes a detour through text: a float formatted and parsed back (to 'tidy' 0.30000000000000004)
	// keeps at most the digits of the format and changes every value that needs more
	roles = GetRoles(p)
	for _, fn := range p.Funcs {
		if fn.Blocks == nil || fn.Pkg == nil || isMainPkg(fn) {
			continue
		}
		if rp := an.RelPkg(fn.Pkg.Pkg.Path()); rp != "filters" && rp != "values" {
			continue
		}
		an.EachInstr(fn, func(in ssa.Instruction) {
			c, ok := in.(*ssa.Call)
			if !ok || an.CallName(&c.Call) != "strconv.ParseFloat" {
				return
			}
			fromFormat := an.Reaches(c.Call.Args[0], an.StepValue, func(o ssa.Value) bool {
				fc := an.CallOf(o)
				if fc == nil {
					return false
				}
				switch an.CallName(fc) {
				case "strconv.FormatFloat", "fmt.Sprint", "fmt.Sprintf", "strconv.AppendFloat":
					return true
				}
				return false
			})
			if fromFormat {
				r.Bad(roles.Label(fn), "a number formatted and parsed back", c.Pos(), fmt.Sprintf("%s parses text that it (or its caller) has just formatted from a number: the round trip keeps only the digits of the format, so exact results with more digits are changed", an.FuncName(fn)))
			}
		})
	}
}

// ---------------------------------------------------------------------------
// X13

func init() {
	register("X13", "whether a map has a key is never judged by whether the entry is nil: in the map wrappers no branch compares the result of an entry lookup (IndexValue, PropertyValue, MapIndex(..).Interface(), an ordered map's item value) with nil - presence is IsValid() of the reflective lookup or a key comparison", runX13)
}

func runX13(p *an.Prog, r *an.Result) {
	pkg := p.Package("values")
	if pkg == nil {
		r.Bad("-", "package values not found", token.NoPos, "anchor not resolved")
		return
	}
	// the map wrappers: value types whose methods look entries up by key
	isMapWrapper := func(t types.Type) bool {
		n := an.NamedOf(t)
		if n == nil || n.Obj().Pkg() != pkg.Pkg {
			return false
		}
		st, ok := n.Underlying().(*types.Struct)
		if !ok {
			return false
		}
		name := strings.ToLower(n.Obj().Name())
		_ = st
		return strings.Contains(name, "map")
	}
	var nilValueG *ssa.Global
	if g, ok := pkg.Members["nilValue"].(*ssa.Global); ok {
		nilValueG = g
	}
	isNilish := func(v ssa.Value) bool {
		if an.IsNilConst(v) {
			return true
		}
		for _, o := range an.Origins(v, an.StepValue) {
			if u, ok := o.(*ssa.UnOp); ok && nilValueG != nil && u.X == ssa.Value(nilValueG) {
				return true
			}
		}
		return false
	}
	var isEntry func(v ssa.Value) string
	isEntry = func(v ssa.Value) string {
		for _, o := range an.Origins(v, an.StepValue) {
			c := an.CallOf(o)
			if c == nil {
				continue
			}
			// entry.Interface()
			if c.IsInvoke() && c.Method.Name() == "Interface" {
				if w := isEntry(c.Value); w != "" {
					return w + ".Interface()"
				}
			}
			if f := c.StaticCallee(); f != nil && f.Signature.Recv() != nil && isMapWrapper(f.Signature.Recv().Type()) && (f.Name() == "IndexValue" || f.Name() == "PropertyValue") {
				return an.FuncName(f)
			}
			if an.CallName(c) == "(reflect.Value).Interface" {
				if mc := an.CallOf(c.Args[0]); mc != nil && an.CallName(mc) == "(reflect.Value).MapIndex" {
					return "MapIndex(..).Interface()"
				}
			}
		}
		return ""
	}
	for _, fn := range p.Funcs {
		if fn.Signature.Recv() == nil || !isMapWrapper(fn.Signature.Recv().Type()) {
			continue
		}
		name := an.FuncName(fn)
		r.Counts["map wrapper methods"]++
		bad := false
		an.EachInstr(fn, func(in ssa.Instruction) {
			b, ok := in.(*ssa.BinOp)
			if !ok || (b.Op != token.EQL && b.Op != token.NEQ) {
				return
			}
			for _, pair := range [][2]ssa.Value{{b.X, b.Y}, {b.Y, b.X}} {
				if !isNilish(pair[1]) {
					continue
				}
				if what := isEntry(pair[0]); what != "" {
					bad = true
					r.Bad(name, "presence judged by comparing an entry with nil", b.Pos(), fmt.Sprintf("%s compares the result of %s with nil: a key that is present with a nil value is treated as missing (contains answers false, .size answers the entry count)", name, what))
				}
			}
		})
		if !bad {
			r.OK(name, "no entry is compared with nil to decide presence", an.FuncPos(fn), "")
		}
	}
	r.Floor("map wrapper methods", 4)
}

// ---------------------------------------------------------------------------
// F8

func init() {
	register("F8", "a result slice is either made with its final length and filled by index, or made empty and appended to: no slice created with a non-zero length is then grown with append (which would leave that many zero elements in front)", runF8)
}

func runF8(p *an.Prog, r *an.Result) {
	roles := GetRoles(p)
	for _, fn := range p.Funcs {
		if isMainPkg(fn) || p9OutOfScope(p, fn) != "" {
			continue
		}
		name := roles.Label(fn)
		an.EachInstr(fn, func(in ssa.Instruction) {
			ms, ok := in.(*ssa.MakeSlice)
			if !ok {
				return
			}
			if c, isC := an.ConstInt(ms.Len); isC && c == 0 {
				return
			}
			r.Counts["slices made with a length"]++
			// does it (through phis) become the first operand of an append?
			appended := false
			var pos token.Pos
			seen := map[ssa.Value]bool{}
			var walk func(v ssa.Value)
			walk = func(v ssa.Value) {
				if seen[v] || v.Referrers() == nil || appended {
					return
				}
				seen[v] = true
				for _, u := range *v.Referrers() {
					switch x := u.(type) {
					case *ssa.Phi:
						walk(x)
					case *ssa.Call:
						if b, ok := x.Call.Value.(*ssa.Builtin); ok && b.Name() == "append" && x.Call.Args[0] == v {
							appended, pos = true, x.Pos()
						}
					case *ssa.Store:
						if al, ok := x.Addr.(*ssa.Alloc); ok && x.Val == v && al.Referrers() != nil {
							for _, l := range *al.Referrers() {
								if ld, ok := l.(*ssa.UnOp); ok {
									walk(ld)
								}
							}
						}
					}
				}
			}
			walk(ms)
			if appended {
				r.Bad(name, "make with a length, then append", pos, fmt.Sprintf("%s creates the slice with %s elements and then appends: the result starts with that many zero values", an.FuncName(fn), describe(p, ms.Len)))
			} else {
				r.OK(name, "slice made with a length is not appended to", ms.Pos(), "")
			}
		})
	}
	r.Floor("slices made with a length", 3)
	f8Filled(p, r)
}

// f8Filled: in a filter, a result slice made with a length has every element assigned: it is the
// destination of a copy, or it is stored into at index i or len-1-i for every i of a forward loop
// over the whole of a collection of that length. (A loop that stops where two indices meet leaves
// the middle element of an odd-length result nil.)
func f8Filled(p *an.Prog, r *an.Result) {
	roles := GetRoles(p)
	doneFn := map[*ssa.Function]bool{}
	for _, f := range roles.Filters {
		if !f.InMod || f.Fn == nil {
			continue
		}
		for _, fn := range unitWithHelpers(p, f.Fn) {
			if doneFn[fn] || fn.Pkg == nil || an.RelPkg(fn.Pkg.Pkg.Path()) != "filters" {
				continue
			}
			doneFn[fn] = true
			an.EachInstr(fn, func(in ssa.Instruction) {
				ms, ok := in.(*ssa.MakeSlice)
				if !ok {
					return
				}
				if c, isC := an.ConstInt(ms.Len); isC && c == 0 {
					return
				}
				lenOf := lenOperand(norm(ms.Len).v)
				r.Counts["filter results made with a length"]++
				copied, stores, bad := false, 0, ""
				seen := map[ssa.Value]bool{}
				var walk func(v ssa.Value)
				walk = func(v ssa.Value) {
					if seen[v] || v.Referrers() == nil {
						return
					}
					seen[v] = true
					for _, u := range *v.Referrers() {
						switch x := u.(type) {
						case *ssa.Phi:
							walk(x)
						case *ssa.Call:
							if b, ok := x.Call.Value.(*ssa.Builtin); ok && b.Name() == "copy" && x.Call.Args[0] == v {
								copied = true
							}
						case *ssa.IndexAddr:
							if x.X != v || len(an.Stores(x)) == 0 && !hasStore(x) {
								continue
							}
							stores++
							lf := linOf(x.Index, 0)
							var ri ssa.Value
							var riCoef, lenCoef int64
							okForm := true
							cst := lf.c
							for a, cf := range lf.coef {
								switch {
								case cf == 0:
								case lenOperand(a) != nil && (eqVal(lenOperand(a), v) || lenOf != nil && eqVal(lenOperand(a), lenOf)):
									lenCoef += cf
								default:
									// the index of a loop over the whole length: r = a + k runs from 0 to the bound
									k, full := fullLoopIndex(a, lenOf, ms.Len)
									if !full {
										okForm = false
										continue
									}
									ri, riCoef = a, cf
									cst -= cf * k // in terms of r
								}
							}
							switch {
							case !okForm || ri == nil:
								bad = "an index that is not the index of a loop over its whole length, or the mirror image of one"
							case riCoef == 1 && lenCoef == 0 && cst == 0, riCoef == -1 && lenCoef == 1 && cst == -1:
							default:
								bad = "an index that is not the index of a loop over its whole length, or the mirror image of one"
							}
						}
					}
				}
				walk(ms)
				name := roles.Label(fn)
				switch {
				case copied:
					r.OK(name, "result slice filled by copy", ms.Pos(), "")
				case stores > 0 && bad == "":
					r.OK(name, "result slice filled element by element over its whole length", ms.Pos(), "stored at i or len-1-i for every i of a forward loop over a collection of the same length")
				case stores == 0:
					r.OK(name, "result slice handed on unfilled", ms.Pos(), "no element store and no copy in this function: filled by a callee, if at all (not decided here)")
				default:
					r.Bad(name, "result slice not filled completely", ms.Pos(), fmt.Sprintf("filter %q makes its result with %s elements and fills it with %s: some element may keep its zero value (nil) - the middle one of an odd-length array when two indices meet", f.Name, describe(p, ms.Len), bad))
				}
			})
		}
	}
	r.Floor("filter results made with a length", 1)
}

func hasStore(ia *ssa.IndexAddr) bool {
	if ia.Referrers() == nil {
		return false
	}
	for _, u := range *ia.Referrers() {
		if st, ok := u.(*ssa.Store); ok && st.Addr == ssa.Value(ia) {
			return true
		}
	}
	return false
}

// fullLoopIndex: a is the induction variable of a loop such that r = a + k starts at 0, steps by 1 and
// goes on while r < n, with n the length the result was made with (the same value, or len of the same
// collection). For a range loop a starts at -1 and k is 1; for a three-clause loop k is 0.
func fullLoopIndex(a ssa.Value, lenOf ssa.Value, n ssa.Value) (int64, bool) {
	ph, ok := a.(*ssa.Phi)
	if !ok {
		return 0, false
	}
	inits, steps := 0, 0
	var init int64
	for _, e := range ph.Edges {
		et := norm(e)
		switch {
		case et.v == nil:
			inits++
			init = et.off
		case et.v == ssa.Value(ph) && et.off == 1:
			steps++
		default:
			return 0, false
		}
	}
	if inits != 1 || steps < 1 {
		return 0, false
	}
	k := -init
	// the loop test: r < bound, in the block of the phi
	b := ph.Block()
	ifi, ok := b.Instrs[len(b.Instrs)-1].(*ssa.If)
	if !ok {
		return 0, false
	}
	cmp, ok := ifi.Cond.(*ssa.BinOp)
	if !ok || cmp.Op != token.LSS {
		return 0, false
	}
	lt, bt := norm(cmp.X), norm(cmp.Y)
	if lt.v != ssa.Value(ph) || bt.v == nil {
		return 0, false
	}
	// (ph + lt.off) < bound + bt.off  <=>  r < bound + bt.off + k - lt.off
	if bt.off+k-lt.off != 0 {
		return 0, false
	}
	if eqVal(bt.v, norm(n).v) {
		return k, true
	}
	if lx := lenOperand(bt.v); lx != nil && lenOf != nil && eqVal(lx, lenOf) {
		return k, true
	}
	return 0, false
}

// ---------------------------------------------------------------------------
// X14

func init() {
	register("X14", "outside the conversion routine itself, a value is reflect-converted to a type taken from another run-time value (a map's key type, an array's element type) only losslessly: to an interface it implements, or with the result converted back and compared with the original", runX14)
}

func runX14(p *an.Prog, r *an.Result) {
	// the conversion routine and the helpers that only it calls (convertToMap, ...): converting is their
	// purpose, to the type the caller of Convert names
	routine := map[*ssa.Function]bool{}
	for _, n := range []string{"values.Convert", "values.MustConvert"} {
		if f := p.Func(n); f != nil {
			routine[f] = true
		}
	}
	if cf := p.Func("values.Convert"); cf != nil {
		for changed := true; changed; {
			changed = false
			for _, h := range unitWithHelpers(p, cf) {
				if routine[h] || h.Pkg != cf.Pkg {
					continue
				}
				sites := callSitesOf(p, h)
				all := len(sites) > 0
				for _, cs := range sites {
					if !routine[an.Outermost(cs.Parent())] {
						all = false
					}
				}
				if all {
					routine[h] = true
					changed = true
				}
			}
		}
	}
	for _, fn := range p.Funcs {
		if isMainPkg(fn) || p9OutOfScope(p, fn) != "" {
			continue
		}
		o := an.Outermost(fn)
		if routine[o] {
			continue
		}
		name := an.FuncName(fn)
		an.EachInstr(fn, func(in ssa.Instruction) {
			c, ok := in.(*ssa.Call)
			if !ok || an.CallName(&c.Call) != "(reflect.Value).Convert" {
				return
			}
			typ := c.Call.Args[1]
			// the second leg of a round trip (converting a converted value back) is the check, not a conversion of data
			if inner := an.CallOf(c.Call.Args[0]); inner != nil && an.CallName(inner) == "(reflect.Value).Convert" {
				return
			}
			// a fixed type held in a package-level variable
			fixed := true
			for _, o := range an.Origins(typ, an.StepValue) {
				u, ok := o.(*ssa.UnOp)
				if !ok {
					fixed = false
					continue
				}
				if _, isG := u.X.(*ssa.Global); !isG {
					fixed = false
				}
			}
			if fixed {
				return
			}
			r.Counts["conversions to a run-time type"]++
			construct := fmt.Sprintf("%s.Convert(%s)", describe(p, c.Call.Args[0]), describe(p, typ))
			// (a) to an interface the value's type implements
			if an.AllPathsGuarded(c.Block(), func(cond ssa.Value, taken bool) bool {
				cc := an.CallOf(cond)
				if cc == nil || !taken {
					return false
				}
				n := an.CallName(cc)
				return (strings.HasSuffix(n, ").Implements") || strings.HasSuffix(n, ").AssignableTo")) && len(an.Args(cc)) == 2 && sameValue(an.Args(cc)[1], typ)
			}) {
				r.OK(name, construct, c.Pos(), "the value's type implements / is assignable to the target: nothing is lost")
				return
			}
			// (a') a Go string converted to a type that a dominating test found to be of kind String: a named
			// string type holds every string
			if b, isB := c.Call.Args[0].Type().Underlying().(*types.Basic); isB || true {
				_ = b
				fromString := false
				for _, o := range an.Origins(c.Call.Args[0], an.StepValue) {
					if vc := an.CallOf(o); vc != nil && an.CallName(vc) == "reflect.ValueOf" {
						if mi, ok := vc.Args[0].(*ssa.MakeInterface); ok {
							if bt, ok := mi.X.Type().Underlying().(*types.Basic); ok && bt.Kind() == types.String {
								fromString = true
							}
						}
					}
				}
				if fromString && an.AllPathsGuarded(c.Block(), func(cond ssa.Value, taken bool) bool {
					bo, ok := cond.(*ssa.BinOp)
					if !ok || !(bo.Op == token.EQL && taken || bo.Op == token.NEQ && !taken) {
						return false
					}
					for _, pair := range [][2]ssa.Value{{bo.X, bo.Y}, {bo.Y, bo.X}} {
						k, isC := an.ConstInt(pair[1])
						if !isC || k != 24 {
							continue
						}
						if kc := an.CallOf(pair[0]); kc != nil && strings.HasSuffix(an.CallName(kc), ").Kind") {
							recv := kc.Value
							if !kc.IsInvoke() && len(kc.Args) > 0 {
								recv = kc.Args[0]
							}
							if sameValue(recv, typ) || eqVal(recv, typ) || sameTypeExpr(recv, typ) {
								return true
							}
						}
					}
					return false
				}) {
					r.OK(name, construct, c.Pos(), "a string converted to a type of kind String: nothing is lost")
					return
				}
			}
			// (b) converted back and compared
			rt := false
			if c.Referrers() != nil {
				for _, u := range *c.Referrers() {
					bc, ok := u.(*ssa.Call)
					if !ok || an.CallName(&bc.Call) != "(reflect.Value).Convert" || bc.Call.Args[0] != ssa.Value(c) {
						continue
					}
					// bc.Interface() == orig.Interface() decides a branch that guards the other uses of c
					var cmp *ssa.BinOp
					var walk func(v ssa.Value, d int)
					walk = func(v ssa.Value, d int) {
						if d > 3 || v.Referrers() == nil {
							return
						}
						for _, uu := range *v.Referrers() {
							switch y := uu.(type) {
							case *ssa.Call:
								walk(y, d+1)
							case *ssa.BinOp:
								if y.Op == token.EQL || y.Op == token.NEQ {
									cmp = y
								}
							}
						}
					}
					walk(bc, 0)
					if cmp == nil {
						continue
					}
					okUses := true
					for _, u2 := range *c.Referrers() {
						if u2 == ssa.Instruction(bc) {
							continue
						}
						if _, dbg := u2.(*ssa.DebugRef); dbg {
							continue
						}
						if !an.AllPathsGuarded(u2.Block(), func(cond ssa.Value, taken bool) bool {
							return cond == ssa.Value(cmp) && (cmp.Op == token.EQL) == taken
						}) {
							okUses = false
						}
					}
					if okUses {
						rt = true
					}
				}
			}
			if rt {
				r.OK(name, construct, c.Pos(), "used only where converting back gave the original value")
			} else {
				r.Bad(name, construct, c.Pos(), fmt.Sprintf("%s converts a value to a type taken from other data without checking that nothing was lost: 2.5 becomes 2, 257 becomes int8(1), 65 becomes \"A\"", name))
			}
		})
	}
	// the operators of the generic value layer (Contains, IndexValue, PropertyValue, Equal, Less of the value
	// wrappers) do not decide through the call layer's conversion routine: Convert is for handing a value to a
	// Go function of a declared type, and it turns 1.5 into 1 and "2" into 2 on the way
	var valueIface *types.Interface
	for _, n := range moduleNamedTypes(p) {
		if n.Obj().Pkg() != nil && an.RelPkg(n.Obj().Pkg().Path()) == "values" && n.Obj().Name() == "Value" {
			valueIface, _ = n.Underlying().(*types.Interface)
		}
	}
	for _, fn := range p.Funcs {
		if valueIface == nil || fn.Blocks == nil || fn.Pkg == nil || an.RelPkg(an.Outermost(fn).Pkg.Pkg.Path()) != "values" {
			continue
		}
		o := an.Outermost(fn)
		if o.Signature.Recv() == nil || !(types.Implements(o.Signature.Recv().Type(), valueIface) || types.Implements(types.NewPointer(o.Signature.Recv().Type()), valueIface)) {
			continue
		}
		an.EachInstr(fn, func(in ssa.Instruction) {
			c, ok := in.(*ssa.Call)
			if !ok {
				return
			}
			switch an.CallName(&c.Call) {
			case "values.Convert", "values.MustConvert", "values.MustConvertItem":
				r.Counts["conversion routine in a value operator"]++
				r.Bad(an.FuncName(fn), "a value operator decides through "+an.CallName(&c.Call), c.Pos(), fmt.Sprintf("%s converts an operand with the call layer's conversion routine before comparing or looking up: membership, equality and lookup are decided on the values themselves (values.Equal), and the routine is lossy - [1, 2] would contain 1.5 and \"2\"", an.FuncName(fn)))
			}
		})
	}
	r.Floor("conversions to a run-time type", 2)
}

// ---------------------------------------------------------------------------
// P12

func init() {
	register("P12", "struct fields of caller data are read reflectively without the two panics reflect reserves for them: Interface() on a field value only where the field is known exported (IsExported / CanInterface / PkgPath), and no FieldByName / FieldByIndex / FieldByNameFunc on a reflect.Value, which panic when the path runs through a nil embedded pointer (FieldByIndexErr reports it instead)", runP12)
}

func runP12(p *an.Prog, r *an.Result) {
	roles := GetRoles(p)
	fieldGetters := map[string]bool{
		"(reflect.Value).Field": true, "(reflect.Value).FieldByName": true, "(reflect.Value).FieldByIndex": true,
		"(reflect.Value).FieldByIndexErr": true, "(reflect.Value).FieldByNameFunc": true,
	}
	for _, fn := range p.Funcs {
		if isMainPkg(fn) || p9OutOfScope(p, fn) != "" {
			continue
		}
		name := roles.Label(fn)
		an.EachInstr(fn, func(in ssa.Instruction) {
			c, ok := in.(*ssa.Call)
			if !ok {
				return
			}
			cn := an.CallName(&c.Call)
			switch cn {
			case "(reflect.Value).FieldByName", "(reflect.Value).FieldByIndex", "(reflect.Value).FieldByNameFunc":
				r.Counts["reflective field reads"]++
				r.Bad(name, strings.TrimPrefix(cn, "(reflect.Value).")+" on a value", c.Pos(), fmt.Sprintf("%s panics (\"indirection through nil pointer to embedded struct\") when the field is promoted through an embedded pointer that is nil; a binding of such a struct type would panic instead of yielding nil - use FieldByIndexErr", cn))
				return
			case "(reflect.Value).Interface":
			default:
				return
			}
			// is the receiver a field value?
			var getter *ssa.Call
			for _, o := range an.Origins(c.Call.Args[0], an.StepValue) {
				oc, ok := o.(*ssa.Call)
				if ex, isEx := o.(*ssa.Extract); isEx {
					oc, ok = ex.Tuple.(*ssa.Call)
				}
				if ok && fieldGetters[an.CallName(&oc.Call)] {
					getter = oc
				}
			}
			if getter == nil {
				return
			}
			r.Counts["reflective field reads"]++
			construct := "Interface() of a struct field value"
			guarded := an.AllPathsGuarded(c.Block(), func(cond ssa.Value, taken bool) bool {
				cc := an.CallOf(cond)
				if cc != nil && taken {
					switch an.CallName(cc) {
					case "(reflect.StructField).IsExported", "(reflect.Value).CanInterface":
						return true
					}
				}
				// field.PkgPath == ""
				if b, ok := cond.(*ssa.BinOp); ok && (b.Op == token.EQL && taken || b.Op == token.NEQ && !taken) {
					for _, pair := range [][2]ssa.Value{{b.X, b.Y}, {b.Y, b.X}} {
						if s, isC := an.ConstString(pair[1]); isC && s == "" && strings.HasSuffix(describe(p, pair[0]), ".PkgPath") {
							return true
						}
					}
				}
				return false
			})
			if guarded {
				r.OK(name, construct, c.Pos(), "every path established that the field is exported (IsExported / CanInterface / PkgPath == \"\")")
			} else {
				r.Bad(name, construct+" without an exportedness test", c.Pos(), fmt.Sprintf("%s reads a struct field value with Interface(); for an unexported field reflect panics (\"cannot return value obtained from unexported field\"), so a binding whose struct type has such a field panics when a template names it", an.FuncName(fn)))
			}
		})
	}
	r.Floor("reflective field reads", 1)
}

// ---------------------------------------------------------------------------
// F10

func init() {
	register("F10", "no filter judges whether two values are the same by their printed form: no map in the filter package is keyed by the text fmt made of a value (1, \"1\" and 1.0 print alike and are different values)", runF10)
}

func runF10(p *an.Prog, r *an.Result) {
	roles := GetRoles(p)
	printed := func(v ssa.Value) bool {
		return an.Reaches(v, an.StepValue, func(o ssa.Value) bool {
			c := an.CallOf(o)
			if c == nil {
				return false
			}
			switch an.CallName(c) {
			case "fmt.Sprint", "fmt.Sprintf", "fmt.Sprintln":
				return true
			}
			return false
		})
	}
	seenFn := map[*ssa.Function]bool{}
	for _, f := range roles.Filters {
		if !f.InMod || f.Fn == nil {
			continue
		}
		for _, fn := range unitWithHelpers(p, f.Fn) {
			if seenFn[fn] || fn.Pkg == nil || an.RelPkg(fn.Pkg.Pkg.Path()) != "filters" {
				continue
			}
			seenFn[fn] = true
			name := roles.Label(fn)
			an.EachInstr(fn, func(in ssa.Instruction) {
				var key ssa.Value
				var what string
				switch x := in.(type) {
				case *ssa.MapUpdate:
					key, what = x.Key, "map update"
				case *ssa.Lookup:
					if _, isMap := x.X.Type().Underlying().(*types.Map); isMap {
						key, what = x.Index, "map lookup"
					}
				}
				if key == nil {
					return
				}
				r.Counts["map accesses in filters"]++
				if printed(key) {
					r.Bad(name, what+" keyed by printed form", an.InstrPos(in), fmt.Sprintf("%s keys a map by the text fmt makes of a value: values that are different but print alike (1 and \"1\", nil and \"<nil>\") share an entry", an.FuncName(fn)))
				} else {
					r.OK(name, what+" keyed by the value itself", an.InstrPos(in), "")
				}
			})
		}
	}
	r.Floor("map accesses in filters", 1)
}

// ---------------------------------------------------------------------------
// F11

func init() {
	register("F11", "a wrapped drop behaves as the value it resolves to, in every respect: each method of the Value interface on the drop wrapper returns what the same method of Resolve() returns, with the same arguments", runF11)
}

func runF11(p *an.Prog, r *an.Result) {
	var valueIface *types.Interface
	var wrapperT *types.Named
	for _, n := range moduleNamedTypes(p) {
		if an.RelPkg(n.Obj().Pkg().Path()) != "values" {
			continue
		}
		if n.Obj().Name() == "Value" {
			valueIface, _ = n.Underlying().(*types.Interface)
		}
		if n.Obj().Name() == "dropWrapper" {
			wrapperT = n
		}
	}
	if valueIface == nil || wrapperT == nil {
		r.Bad("-", "values.Value or the drop wrapper not found", token.NoPos, "anchor not resolved")
		return
	}
	for i := 0; i < valueIface.NumMethods(); i++ {
		m := valueIface.Method(i)
		impl := methodImpl(p, types.NewPointer(wrapperT), m.Name())
		if impl == nil {
			impl = methodImpl(p, wrapperT, m.Name())
		}
		if impl == nil || impl.Blocks == nil {
			r.Bad("dropWrapper."+m.Name(), "method not found", token.NoPos, "anchor not resolved")
			continue
		}
		name := an.FuncName(impl)
		r.Counts["drop wrapper methods"]++
		good, n := true, 0
		why := ""
		an.EachInstr(impl, func(in ssa.Instruction) {
			ret, ok := in.(*ssa.Return)
			if !ok {
				return
			}
			for _, rv := range resultsOf(ret) {
				n++
				for _, o := range an.Origins(rv, an.StepValue) {
					c := an.CallOf(o)
					if c == nil || !c.IsInvoke() || c.Method.Name() != m.Name() {
						good, why = false, "a result does not come from Resolve()."+m.Name()
						continue
					}
					rc := an.CallOf(c.Value)
					if rc == nil || rc.StaticCallee() == nil || rc.StaticCallee().Name() != "Resolve" || len(rc.Args) == 0 || rc.Args[0] != ssa.Value(impl.Params[0]) {
						good, why = false, "the method is not invoked on this wrapper's Resolve()"
						continue
					}
					for k, a := range c.Args {
						if k+1 >= len(impl.Params) || a != ssa.Value(impl.Params[k+1]) {
							good, why = false, "the arguments are not passed on as given"
						}
					}
				}
			}
		})
		if good && n > 0 {
			r.OK(name, "delegates to Resolve()."+m.Name(), an.FuncPos(impl), "")
		} else {
			r.Bad(name, "does not delegate to Resolve()."+m.Name(), an.FuncPos(impl), fmt.Sprintf("%s answers for the drop itself (%s): a drop nested in a map or an array, which is still wrapped when an operator looks at it, behaves differently from the value it stands for", an.FuncName(impl), why))
		}
	}
	r.Floor("drop wrapper methods", 8)
}

// ---------------------------------------------------------------------------
// F12

func init() {
	register("F12", "a filter that takes its argument as it comes (any) and recognises sequences by their reflect kind also recognises the module's own sequence that is not a slice: a Range reaches such a filter unconverted, and its kind is Struct", runF12)
}

func runF12(p *an.Prog, r *an.Result) {
	roles := GetRoles(p)
	for _, f := range roles.Filters {
		if !f.InMod || f.Fn == nil || f.Sig.Params().Len() == 0 {
			continue
		}
		if !an.IsInterface(f.Sig.Params().At(0).Type()) {
			continue
		}
		label := f.Label()
		seqKind, rangeSeen := false, false
		var pos token.Pos
		for _, fn := range unitWithHelpers(p, f.Fn) {
			if fn.Pkg == nil || !p.InModule(fn) {
				continue
			}
			an.EachInstr(fn, func(in ssa.Instruction) {
				switch x := in.(type) {
				case *ssa.BinOp:
					if x.Op != token.EQL {
						return
					}
					for _, pair := range [][2]ssa.Value{{x.X, x.Y}, {x.Y, x.X}} {
						if k, ok := an.ConstInt(pair[1]); ok && (k == 17 || k == 23) && isPkgType(pair[0].Type(), "reflect", "Kind") {
							seqKind = true
							if pos == token.NoPos {
								pos = an.InstrPos(in)
							}
						}
					}
				case *ssa.TypeAssert:
					if isNamedIn(x.AssertedType, "values", "Range") {
						rangeSeen = true
					}
				case *ssa.Call:
					// or hands the value to the call layer's conversion, which knows ranges
					if cn := an.CallName(&x.Call); cn == "values.Convert" || cn == "values.MustConvert" {
						rangeSeen = true
					}
				}
			})
		}
		if !seqKind {
			continue
		}
		r.Counts["filters that test for a sequence kind"]++
		if rangeSeen {
			r.OK(label, "tests the kind for Array/Slice and knows Range", pos, "")
		} else {
			r.Bad(label, "tests the kind for Array/Slice but not for Range", pos, fmt.Sprintf("filter %q looks at the reflect kind of its argument to find sequences; a range (a..b) is a struct to reflect, so it is treated as a scalar: its size is 0, it has no elements", f.Name))
		}
	}
	r.Floor("filters that test for a sequence kind", 1)
}

// ---------------------------------------------------------------------------
// X17

func init() {
	register("X17", "the text the expression lexer is started on is the caller's expression (with the statement selector in front and the end marker behind) and nothing else: on the way from Parse/ParseStatement to the lexer it is only concatenated with constants - no replacement, trimming or splitting, which cannot tell a string literal's content from syntax", runX17)
}

func runX17(p *an.Prog, r *an.Result) {
	var sites []*ssa.Call
	for _, fn := range p.Funcs {
		if fn.Pkg == nil || an.RelPkg(fn.Pkg.Pkg.Path()) != "expressions" || p9OutOfScope(p, fn) != "" {
			continue
		}
		an.EachInstr(fn, func(in ssa.Instruction) {
			if c, ok := in.(*ssa.Call); ok {
				if callee := c.Call.StaticCallee(); callee != nil && isLexerStart(p, callee) {
					sites = append(sites, c)
				}
			}
		})
	}
	for _, c := range sites {
		name := an.FuncName(c.Parent())
		r.Counts["lexer starts"]++
		bad := ""
		seen := map[ssa.Value]bool{}
		var walk func(v ssa.Value, depth int)
		walk = func(v ssa.Value, depth int) {
			if v == nil || seen[v] || bad != "" {
				return
			}
			if depth > 12 {
				bad = "a value the rule could not follow"
				return
			}
			seen[v] = true
			switch x := v.(type) {
			case *ssa.Const:
			case *ssa.BinOp:
				if x.Op != token.ADD {
					bad = "the result of " + x.Op.String()
					return
				}
				walk(x.X, depth+1)
				walk(x.Y, depth+1)
			case *ssa.Convert:
				walk(x.X, depth+1)
			case *ssa.Phi:
				for _, e := range x.Edges {
					walk(e, depth+1)
				}
			case *ssa.UnOp:
				if al, ok := x.X.(*ssa.Alloc); ok {
					for _, sv := range an.Stores(al) {
						walk(sv, depth+1)
					}
					return
				}
				bad = "a loaded value " + describe(p, v)
			case *ssa.Parameter:
				fn := x.Parent()
				if fn.Object() != nil && fn.Object().Exported() {
					return // the caller's text
				}
				cs := callSitesOf(p, fn)
				if len(cs) == 0 {
					return
				}
				for i, pp := range fn.Params {
					if pp == x {
						for _, site := range cs {
							if i < len(site.Call.Args) {
								walk(site.Call.Args[i], depth+1)
							}
						}
					}
				}
			case *ssa.Call:
				if an.CallName(&x.Call) == "fmt.Sprintf" {
					// a constant format with the pieces as arguments
					for _, a := range x.Call.Args {
						if sl, ok := a.(*ssa.Slice); ok {
							if al, ok := sl.X.(*ssa.Alloc); ok && al.Referrers() != nil {
								for _, au := range *al.Referrers() {
									if ia, ok := au.(*ssa.IndexAddr); ok {
										for _, sv := range an.Stores(ia) {
											if mi, ok := sv.(*ssa.MakeInterface); ok {
												walk(mi.X, depth+1)
											} else {
												walk(sv, depth+1)
											}
										}
									}
								}
							}
							continue
						}
						walk(a, depth+1)
					}
					return
				}
				bad = "the result of " + nonEmpty(an.CallName(&x.Call), "a call")
			default:
				bad = describe(p, v)
			}
		}
		walk(c.Call.Args[0], 0)
		if bad == "" {
			r.OK(name, "the lexer is started on the caller's text between constants", c.Pos(), "")
		} else {
			r.Bad(name, "the lexer is started on rewritten text", c.Pos(), fmt.Sprintf("the text handed to the lexer contains %s: a rewrite of the source before lexing cannot tell the inside of a string literal from syntax (\"rock or roll\" is one value)", bad))
		}
	}
	r.Floor("lexer starts", 1)
}

// isLexerStart: a function of package expressions that takes the text as []byte (or string) and returns
// the lexer: a pointer to a type with a Lex method (what the generated parser calls).
func isLexerStart(p *an.Prog, f *ssa.Function) bool {
	if f.Pkg == nil || an.RelPkg(f.Pkg.Pkg.Path()) != "expressions" || f.Signature.Results().Len() != 1 || f.Signature.Params().Len() == 0 {
		return false
	}
	rt := f.Signature.Results().At(0).Type()
	ms := p.SSA.MethodSets.MethodSet(rt)
	hasLex := false
	for i := 0; i < ms.Len(); i++ {
		if ms.At(i).Obj().Name() == "Lex" {
			hasLex = true
		}
	}
	if !hasLex {
		return false
	}
	pt := f.Signature.Params().At(0).Type()
	if sl, ok := pt.Underlying().(*types.Slice); ok {
		b, ok := sl.Elem().Underlying().(*types.Basic)
		return ok && b.Kind() == types.Uint8
	}
	b, ok := pt.Underlying().(*types.Basic)
	return ok && b.Kind() == types.String
}

// ---------------------------------------------------------------------------
// X18

func init() {
	register("X18", "the contains operator is answered by the left value's Contains method applied to the right value, and by nothing else: every result of the evaluation step that calls Contains is that call's result", runX18)
}

// runX18: `a contains b` is substring, membership by == or map key - all of it decided inside the value
// wrappers' Contains. The evaluation step of package expressions that invokes Contains must return that
// call's result on every path (a shortcut for a nil, empty or ill-typed operand answers without asking
// the wrapper, and differently from ==), with the left operand as the receiver and the right one as the
// argument.
func runX18(p *an.Prog, r *an.Result) {
	pkg := p.Package("expressions")
	if pkg == nil {
		r.Bad("-", "package expressions not found", token.NoPos, "anchor not resolved")
		return
	}
	for _, fn := range p.Funcs {
		if fn.Pkg != pkg && (fn.Parent() == nil || an.Outermost(fn).Pkg != pkg) {
			continue
		}
		if p.IsGenerated(an.FuncPos(fn)) {
			continue
		}
		var calls []*ssa.Call
		an.EachInstr(fn, func(in ssa.Instruction) {
			if c, ok := in.(*ssa.Call); ok && c.Call.IsInvoke() && c.Call.Method.Name() == "Contains" && isNamedIn(c.Call.Value.Type(), "values", "Value") {
				calls = append(calls, c)
			}
		})
		if len(calls) == 0 {
			continue
		}
		name := an.FuncName(fn)
		r.Counts["contains evaluation steps"]++
		if len(calls) > 1 {
			r.Bad(name, "more than one Contains call in one evaluation step", calls[1].Pos(), "one operator, one question to the left value")
			continue
		}
		call := calls[0]
		fromCall := func(v ssa.Value) bool {
			seen := map[ssa.Value]bool{}
			var visit func(v ssa.Value, d int) bool
			visit = func(v ssa.Value, d int) bool {
				if v == nil || seen[v] || d > 8 {
					return false
				}
				seen[v] = true
				if v == ssa.Value(call) {
					return true
				}
				switch x := v.(type) {
				case *ssa.MakeInterface:
					return visit(x.X, d+1)
				case *ssa.ChangeInterface:
					return visit(x.X, d+1)
				case *ssa.ChangeType:
					return visit(x.X, d+1)
				case *ssa.Call:
					// a wrapper of the boolean: values.ValueOf(b), a module helper handed b alone
					if callee := x.Call.StaticCallee(); callee != nil && p.InModule(callee) && len(x.Call.Args) == 1 {
						return visit(x.Call.Args[0], d+1)
					}
				}
				return false
			}
			return visit(v, 0)
		}
		an.EachInstr(fn, func(in ssa.Instruction) {
			ret, ok := in.(*ssa.Return)
			if !ok {
				return
			}
			res := resultsOf(ret)
			if len(res) == 0 {
				return
			}
			if fromCall(res[0]) {
				r.OK(name, "contains result is the Contains call's", ret.Pos(), "ValueOf(left.Contains(right))")
				return
			}
			// every origin is the call (a phi of nothing else)
			all := true
			os := an.Origins(res[0], an.StepValue)
			for _, o := range os {
				if !fromCall(o) {
					all = false
				}
			}
			if all && len(os) > 0 {
				r.OK(name, "contains result is the Contains call's", ret.Pos(), "every origin of the result is the call")
			} else {
				r.Bad(name, "contains answered without the left value's Contains", ret.Pos(), fmt.Sprintf("%s returns a result that is not %s's: a shortcut decides `contains` for some operands (nil, empty, ill-typed) without asking the wrapper, which is where substring, membership by == and map key are defined", name, "(values.Value).Contains"))
			}
		})
		// receiver = the first operand, argument = the second: by the order of the captured evaluators
		evalOf := func(v ssa.Value) ssa.Value {
			for _, o := range an.Origins(v, an.StepValue) {
				if c, ok := o.(*ssa.Call); ok && c.Call.StaticCallee() == nil && !c.Call.IsInvoke() {
					f := c.Call.Value
					if u, ok := f.(*ssa.UnOp); ok {
						f = u.X
					}
					return f
				}
			}
			return nil
		}
		recv, arg := evalOf(call.Call.Value), evalOf(call.Call.Args[0])
		fvIndex := func(v ssa.Value) int {
			for i, fv := range fn.FreeVars {
				if v == ssa.Value(fv) {
					return i
				}
			}
			return -1
		}
		ri, ai := fvIndex(recv), fvIndex(arg)
		if ri < 0 || ai < 0 {
			r.Triv(name, "operand order of contains", call.Pos(), "operands are not both captured evaluators: not decided here")
			continue
		}
		// the captures are the builder's parameters, in order
		par := fn.Parent()
		order := func(fv int) int {
			if par == nil {
				return -1
			}
			var bound ssa.Value
			an.EachInstr(par, func(in ssa.Instruction) {
				if mc, ok := in.(*ssa.MakeClosure); ok && mc.Fn == ssa.Value(fn) && fv < len(mc.Bindings) {
					bound = mc.Bindings[fv]
				}
			})
			for _, o := range an.Origins(bound, an.StepBase) {
				for i, pp := range par.Params {
					if o == ssa.Value(pp) {
						return i
					}
				}
				if al, ok := o.(*ssa.Alloc); ok {
					for _, st := range an.Stores(al) {
						for i, pp := range par.Params {
							if st == ssa.Value(pp) {
								return i
							}
						}
					}
				}
			}
			return -1
		}
		ro, ao := order(ri), order(ai)
		switch {
		case ro < 0 || ao < 0:
			r.Triv(name, "operand order of contains", call.Pos(), "captures are not the builder's parameters: not decided here")
		case ro < ao:
			r.OK(name, "operand order of contains", call.Pos(), "left.Contains(right)")
		default:
			r.Bad(name, "operand order of contains", call.Pos(), "the receiver of Contains is the builder's later operand: `a contains b` asks b whether it contains a")
		}
	}
	r.Floor("contains evaluation steps", 1)
}

// funcValueCandidates: the functions a dynamic call in fn can reach when its function value is a parameter
// of fn, or a variable captured from the enclosing function that is that function's parameter - read off
// the arguments at every call site. Empty when it cannot be enumerated.
func funcValueCandidates(p *an.Prog, fn *ssa.Function, c *ssa.CallCommon) []*ssa.Function {
	if c.IsInvoke() || c.StaticCallee() != nil {
		return nil
	}
	v := c.Value
	var par *ssa.Parameter
	if pp, ok := v.(*ssa.Parameter); ok {
		par = pp
	} else if ld, ok := v.(*ssa.UnOp); ok {
		if fv, ok := ld.X.(*ssa.FreeVar); ok && fn.Parent() != nil {
			if al, ok := cellOfFreeVar(fn.Parent(), fn, fv).(*ssa.Alloc); ok {
				if st := an.Stores(al); len(st) == 1 {
					par, _ = st[0].(*ssa.Parameter)
				}
			}
		}
	}
	if par == nil {
		return nil
	}
	owner := par.Parent()
	idx := -1
	for i, pp := range owner.Params {
		if pp == par {
			idx = i
		}
	}
	sites := callSitesOf(p, owner)
	if idx < 0 || len(sites) == 0 {
		return nil
	}
	var out []*ssa.Function
	for _, s := range sites {
		if idx >= len(s.Call.Args) {
			return nil
		}
		f, ok := an.Strip(s.Call.Args[idx]).(*ssa.Function)
		if !ok {
			f = boundMethodOf(an.Strip(s.Call.Args[idx]))
		}
		if f == nil {
			return nil
		}
		out = append(out, f)
	}
	return out
}

// boundMethodOf: the method behind a method value x.m (a closure over the
// compiler-made bound-method wrapper), or nil.
func boundMethodOf(v ssa.Value) *ssa.Function {
	mc, ok := v.(*ssa.MakeClosure)
	if !ok {
		return nil
	}
	w, ok := mc.Fn.(*ssa.Function)
	if !ok || !strings.HasPrefix(w.Synthetic, "bound method wrapper") {
		return nil
	}
	var out *ssa.Function
	n := 0
	an.EachCall(w, func(ci ssa.CallInstruction) {
		n++
		out = ci.Common().StaticCallee()
	})
	if n != 1 {
		return nil
	}
	return out
}

// sameTypeExpr: two reflect.Type expressions built the same way from the same value: rt.Type().Key() twice.
func sameTypeExpr(a, b ssa.Value) bool {
	if a == b || sameValue(a, b) {
		return true
	}
	ca, cb := an.CallOf(a), an.CallOf(b)
	if ca == nil || cb == nil || an.CallName(ca) != an.CallName(cb) {
		return false
	}
	ra, rb := ca.Value, cb.Value
	if !ca.IsInvoke() {
		if len(ca.Args) == 0 || len(cb.Args) == 0 {
			return false
		}
		ra, rb = ca.Args[0], cb.Args[0]
	}
	if ra == rb || sameValue(ra, rb) || sameRV(ra, rb) {
		return true
	}
	return sameTypeExpr(ra, rb)
}

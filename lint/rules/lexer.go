package rules

import (
	"fmt"
	"go/token"
	"go/types"

	"golang.org/x/tools/go/ssa"

	"lv/an"
)

func init() {
	register("X9", "the expression lexer gives every token its own text: a string literal is the token minus exactly its two quote bytes, names are slices of the token that drop at most one delimiter byte at either end, numbers are parsed from the whole token - no other function transforms token text", runX9)
}

// textVal is the abstract value of an expression in the lexer: a slice of the
// current token (a bytes dropped at the front, b at the back), a constant, a
// number parsed from the whole token, a boolean test of it, or something else.
type textVal struct {
	kind string // text | const | num | bool | bad
	a, b int64
	why  string
}

func (t textVal) String() string {
	if t.kind == "text" {
		return fmt.Sprintf("token[%d:len-%d]", t.a, t.b)
	}
	return t.kind
}

func runX9(p *an.Prog, r *an.Result) {
	fn := p.Func("(*expressions.lexer).Lex")
	if fn == nil || len(fn.Params) < 2 {
		r.Bad("-", "(*expressions.lexer).Lex not found", token.NoPos, "anchor not resolved")
		return
	}
	name := an.FuncName(fn)
	lexT := fn.Params[0].Type()
	isLexField := func(v ssa.Value, field string) bool {
		u, ok := v.(*ssa.UnOp)
		if !ok || u.Op != token.MUL {
			return false
		}
		fa, ok := u.X.(*ssa.FieldAddr)
		if !ok || !types.Identical(fa.X.Type(), lexT) {
			return false
		}
		st := lexT.Underlying().(*types.Pointer).Elem().Underlying().(*types.Struct)
		return st.Field(fa.Field).Name() == field
	}
	// offset of a bound relative to a ragel marker (ts / te): the form is 1*marker + c
	rel := func(v ssa.Value, marker string) (int64, bool) {
		lf := linOf(v, 0)
		n := 0
		for x, cf := range lf.coef {
			if cf == 0 {
				continue
			}
			if cf != 1 || !isLexField(x, marker) {
				return 0, false
			}
			n++
		}
		return lf.c, n == 1
	}
	bad := func(format string, a ...any) textVal { return textVal{kind: "bad", why: fmt.Sprintf(format, a...)} }
	var eval func(v ssa.Value, env map[*ssa.Parameter]textVal, depth int) textVal
	eval = func(v ssa.Value, env map[*ssa.Parameter]textVal, depth int) textVal {
		if depth > 12 {
			return bad("expression too deep")
		}
		switch x := v.(type) {
		case *ssa.Const:
			return textVal{kind: "const"}
		case *ssa.Parameter:
			if t, ok := env[x]; ok {
				return t
			}
			return bad("parameter %s is not token text", x.Name())
		case *ssa.MakeInterface:
			return eval(x.X, env, depth+1)
		case *ssa.ChangeType:
			return eval(x.X, env, depth+1)
		case *ssa.Convert:
			return eval(x.X, env, depth+1)
		case *ssa.Phi:
			var out textVal
			for i, e := range x.Edges {
				t := eval(e, env, depth+1)
				if i > 0 && t != out {
					return bad("merges different pieces of text")
				}
				out = t
			}
			return out
		case *ssa.Extract:
			return eval(x.Tuple, env, depth+1)
		case *ssa.BinOp:
			if x.Op == token.EQL || x.Op == token.NEQ {
				a, b := eval(x.X, env, depth+1), eval(x.Y, env, depth+1)
				if (a.kind == "text" && a.a == 0 && a.b == 0 && b.kind == "const") || (b.kind == "text" && b.a == 0 && b.b == 0 && a.kind == "const") {
					return textVal{kind: "bool"}
				}
				return bad("comparison of something other than the whole token with a constant")
			}
			return bad("arithmetic on token text")
		case *ssa.Slice:
			if isLexField(x.X, "data") {
				if x.Low == nil || x.High == nil {
					return bad("slice of the input that is not bounded by ts and te")
				}
				a, ok1 := rel(x.Low, "ts")
				bb, ok2 := rel(x.High, "te")
				if !ok1 || !ok2 || a < 0 || bb > 0 {
					return bad("slice of the input whose bounds are not ts+a and te-b")
				}
				return textVal{kind: "text", a: a, b: -bb}
			}
			base := eval(x.X, env, depth+1)
			if base.kind != "text" {
				return bad("slice of %s", base)
			}
			var a, b int64
			if x.Low != nil {
				c, ok := an.ConstInt(x.Low)
				if !ok || c < 0 {
					return bad("low bound is not a constant")
				}
				a = c
			}
			if x.High != nil {
				lf := linOf(x.High, 0)
				n := 0
				for y, cf := range lf.coef {
					c := an.CallOf(y)
					if cf != 1 || c == nil || an.CallName(c) != "builtin.len" || !sameValue(c.Args[0], x.X) {
						return bad("high bound is not len(text)-b")
					}
					n++
				}
				if n != 1 || lf.c > 0 {
					return bad("high bound is not len(text)-b")
				}
				b = -lf.c
			}
			return textVal{kind: "text", a: base.a + a, b: base.b + b}
		case *ssa.Call:
			callee := x.Call.StaticCallee()
			if callee == nil {
				return bad("dynamic call")
			}
			switch an.FuncName(callee) {
			case "strconv.ParseInt", "strconv.ParseFloat", "strconv.Atoi", "strconv.ParseUint":
				t := eval(x.Call.Args[0], env, depth+1)
				if t.kind == "text" && t.a == 0 && t.b == 0 {
					return textVal{kind: "num"}
				}
				return bad("number parsed from %s, not from the whole token", t)
			}
			if callee.Blocks == nil || !p.InModule(callee) {
				return bad("token text goes through %s", an.FuncName(callee))
			}
			env2 := map[*ssa.Parameter]textVal{}
			for i, prm := range callee.Params {
				if i < len(x.Call.Args) {
					if types.Identical(prm.Type(), lexT) {
						continue
					}
					if t := eval(x.Call.Args[i], env, depth+1); t.kind != "bad" {
						env2[prm] = t
					}
				}
			}
			var out textVal
			first := true
			okAll := true
			an.EachInstr(callee, func(in ssa.Instruction) {
				ret, ok := in.(*ssa.Return)
				if !ok || !okAll {
					return
				}
				res := resultsOf(ret)
				if len(res) == 0 {
					okAll = false
					return
				}
				t := eval(res[0], env2, depth+1)
				if !first && t != out {
					out = bad("%s returns different pieces of text", an.FuncName(callee))
					okAll = false
					return
				}
				out, first = t, false
			})
			if first {
				return bad("%s does not return", an.FuncName(callee))
			}
			return out
		}
		return bad("%T is not a piece of the token", v)
	}
	symT := fn.Params[1].Type()
	stores := 0
	for _, f := range unitWithHelpers(p, fn) {
		an.EachInstr(f, func(in ssa.Instruction) {
			st, ok := in.(*ssa.Store)
			if !ok {
				return
			}
			fa, ok := st.Addr.(*ssa.FieldAddr)
			if !ok || !types.Identical(fa.X.Type(), symT) {
				return
			}
			fld := symT.Underlying().(*types.Pointer).Elem().Underlying().(*types.Struct).Field(fa.Field)
			isStr := false
			if b, ok := fld.Type().Underlying().(*types.Basic); ok && b.Kind() == types.String {
				isStr = true
			}
			_, isIface := fld.Type().Underlying().(*types.Interface)
			if !isStr && !isIface {
				return
			}
			if f != fn {
				r.Bad(an.FuncName(f), "semantic value "+fld.Name()+" stored outside Lex", st.Pos(), "the rule evaluates token text in Lex; a store in a helper is not followed")
				return
			}
			stores++
			t := eval(st.Val, map[*ssa.Parameter]textVal{}, 0)
			construct := fmt.Sprintf("semantic value %s = %s", fld.Name(), t)
			switch {
			case t.kind == "bad":
				r.Bad(name, "semantic value "+fld.Name()+" is not the token's own text", st.Pos(), t.why+": a literal or name must denote exactly the characters written")
			case t.kind == "text" && isIface && (t.a != 1 || t.b != 1):
				r.Bad(name, "string literal does not drop exactly its two quotes", st.Pos(), fmt.Sprintf("the literal's value is %s; it must be the token without its first and last byte", t))
			case t.kind == "text" && (t.a > 1 || t.b > 1):
				r.Bad(name, "name drops more than one delimiter byte", st.Pos(), fmt.Sprintf("the name is %s", t))
			default:
				r.OK(name, construct, st.Pos(), "slice of the input between ts and te / number parsed from the whole token / constant")
			}
		})
	}
	r.Counts["semantic value stores"] = stores
	r.Floor("semantic value stores", 6)
}

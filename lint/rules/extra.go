package rules

import (
	"fmt"
	"go/constant"
	"go/token"
	"go/types"
	"math"
	"reflect"
	"strings"

	"golang.org/x/tools/go/ssa"

	"lv/an"
)

// Rules added after the first round of independently seeded faults.

func init() {
	register("M5b", "a map held in a field of a shared (compile-time) struct is, at run phase, only looked up, measured or ranged over - never boxed, stored, passed on or returned, where it could be written", runM5b)
	register("M8", "an object taken from a sync.Pool is reset before its first use, or reset on every path before it is put back", runM8)
	register("D1c", "the order used to sort map keys is injective: the comparator compares the keys themselves (through reflect accessors or fmt.Sprint), never a lossy image of them", runD1c)
	register("X8", "the numeric join used by Equal and Less maps integer x integer to an integer kind and any pairing that involves a float - including float x float - to a float kind", runX8)
	register("B12", "an integer range has length max(0, end+1-start), item i is start+i, and its array form walks start..end", runB12)
	register("F5", "a string operand of a numeric conversion is parsed as a whole by strconv.ParseFloat / ParseInt, whose error is returned", runF5)
	register("F6", "the entry points that inspect a value's Go representation (Equal, Less, Convert, Length, IsEmpty, writeObject, sort by property) unwrap it with ToLiquid first", runF6)
}

// ---------------------------------------------------------------------------
// M5b

func runM5b(p *an.Prog, r *an.Result) {
	shared := sharedWithCaptures(p)
	for _, fn := range p.Funcs {
		if isMainPkg(fn) || an.IsInit(fn) || isConfigPhase(fn) {
			continue
		}
		name := an.FuncName(fn)
		an.EachInstr(fn, func(in ssa.Instruction) {
			v, ok := in.(ssa.Value)
			if !ok {
				return
			}
			if _, isMap := v.Type().Underlying().(*types.Map); !isMap {
				return
			}
			// a map loaded from a field of a shared struct type
			var owner *types.Named
			var fname string
			switch x := v.(type) {
			case *ssa.Field:
				owner = an.NamedOf(x.X.Type())
				if st, ok := x.X.Type().Underlying().(*types.Struct); ok {
					fname = st.Field(x.Field).Name()
				}
			case *ssa.UnOp:
				if fa, ok := x.X.(*ssa.FieldAddr); ok && x.Op == token.MUL {
					owner = an.NamedOf(fa.X.Type())
					fname = fieldName(fa)
				}
			}
			if owner == nil || !shared[owner] {
				return
			}
			// freshly built owner (constructor) is fine
			r.Counts["shared map reads"]++
			construct := "map " + an.TypeName(owner) + "." + fname
			if v.Referrers() == nil {
				return
			}
			for _, u := range *v.Referrers() {
				switch y := u.(type) {
				case *ssa.DebugRef, *ssa.Lookup, *ssa.Range:
				case *ssa.MapUpdate:
					// writes are M5's business
				case *ssa.Call:
					if b, ok := y.Call.Value.(*ssa.Builtin); ok && (b.Name() == "len") {
						continue
					}
					// the read-only helpers of package maps (iterate, compare, copy out of)
					if cn := an.CallName(&y.Call); strings.HasPrefix(cn, "maps.") {
						base := cn
						if i := strings.Index(base, "["); i > 0 {
							base = base[:i]
						}
						switch base {
						case "maps.Keys", "maps.Values", "maps.All", "maps.Equal", "maps.EqualFunc", "maps.Clone":
							continue
						case "maps.Copy":
							if len(y.Call.Args) == 2 && y.Call.Args[1] == v && y.Call.Args[0] != v {
								continue // the source of a copy
							}
						}
					}
					r.Bad(name, construct+" passed to "+nonEmpty(an.CallName(&y.Call), "a call"), y.Pos(), fmt.Sprintf("%s hands the shared map %s.%s to another function at run phase: once it leaves the structure that owns it, it can be written by any render", name, an.TypeName(owner), fname))
				case *ssa.BinOp:
					// comparison with nil
				case *ssa.Store:
					if y.Val == v {
						if fa, ok := y.Addr.(*ssa.FieldAddr); ok {
							if _, fresh := fa.X.(*ssa.Alloc); fresh && shared[an.NamedOf(fa.X.Type())] {
								continue // copying a configuration struct field by field
							}
						}
						r.Bad(name, construct+" stored elsewhere", y.Pos(), fmt.Sprintf("%s copies the shared map %s.%s into another location at run phase, where it can be written by any render", name, an.TypeName(owner), fname))
					}
				default:
					r.Bad(name, construct+fmt.Sprintf(" escapes (%T)", u), an.InstrPos(u), fmt.Sprintf("%s lets the shared map %s.%s escape (boxed into an interface, returned or stored) at run phase: whoever receives it can write state that every render of the template shares", name, an.TypeName(owner), fname))
				}
			}
		})
	}
	bad := false
	for _, o := range r.Obs {
		if o.Status == an.Violated {
			bad = true
		}
	}
	if !bad {
		r.OK("-", "module-wide scan", token.NoPos, fmt.Sprintf("%d run-phase reads of maps held by shared structs: each is only looked up, measured or ranged over", r.Counts["shared map reads"]))
	}
	r.Floor("shared map reads", 4)
}

// ---------------------------------------------------------------------------
// M8

func runM8(p *an.Prog, r *an.Result) {
	m8Core(p, r)
	checkFixture(r, m8Core, []string{"M8Bad"}, []string{"M8Good"})
	if r.Counts["pool gets"] == 0 {
		r.Triv("-", "no sync.Pool in the module", token.NoPos, "nothing is recycled between calls")
	}
}

func m8Core(p *an.Prog, r *an.Result) {
	for _, fn := range p.Funcs {
		if isMainPkg(fn) {
			continue
		}
		name := an.FuncName(fn)
		for _, get := range callsNamed(fn, "(*sync.Pool).Get") {
			r.Counts["pool gets"]++
			// the object: the asserted value(s) of the Get result
			var objs []ssa.Value
			seen := map[ssa.Value]bool{}
			var follow func(v ssa.Value)
			follow = func(v ssa.Value) {
				if seen[v] || v.Referrers() == nil {
					return
				}
				seen[v] = true
				for _, u := range *v.Referrers() {
					switch x := u.(type) {
					case *ssa.TypeAssert:
						if x.CommaOk {
							follow(x)
						} else {
							objs = append(objs, x)
						}
					case *ssa.Extract:
						if x.Index == 0 {
							objs = append(objs, x)
						}
					case *ssa.Phi:
						follow(x)
					}
				}
			}
			follow(get)
			isReset := func(c *ssa.CallCommon) bool {
				f := c.StaticCallee()
				n := ""
				if f != nil {
					n = f.Name()
				} else if c.IsInvoke() {
					n = c.Method.Name()
				}
				return n == "Reset" || n == "Truncate" || n == "reset"
			}
			okAll := len(objs) > 0
			for _, obj := range objs {
				// (a) a Reset on the object dominates every other method call on it
				var resets, others []ssa.Instruction
				var puts []ssa.Instruction
				var walk func(v ssa.Value)
				wseen := map[ssa.Value]bool{}
				walk = func(v ssa.Value) {
					if wseen[v] || v.Referrers() == nil {
						return
					}
					wseen[v] = true
					for _, u := range *v.Referrers() {
						switch x := u.(type) {
						case ssa.CallInstruction:
							c := x.Common()
							if an.CallName(c) == "(*sync.Pool).Put" {
								puts = append(puts, x)
								continue
							}
							if len(c.Args) > 0 && c.Args[0] == v && isReset(c) {
								resets = append(resets, x)
							} else {
								others = append(others, x)
							}
						case *ssa.MakeInterface:
							walk(x)
						case *ssa.Phi:
							walk(x)
						case *ssa.Store:
							if a, ok := x.Addr.(*ssa.Alloc); ok && x.Val == v && a.Referrers() != nil {
								for _, l := range *a.Referrers() {
									if ld, ok := l.(*ssa.UnOp); ok {
										walk(ld)
									}
								}
							}
						}
					}
				}
				walk(obj)
				first := false
				for _, rs := range resets {
					dom := true
					for _, o := range others {
						if !instrDominates(rs, o) {
							dom = false
						}
					}
					if dom {
						first = true
					}
				}
				beforePut := len(puts) > 0
				for _, pt := range puts {
					if _, deferred := pt.(*ssa.Defer); deferred {
						beforePut = false // runs at every exit, also those that skipped the reset
						continue
					}
					okp := false
					for _, rs := range resets {
						if instrDominates(rs, pt) {
							okp = true
						}
					}
					if !okp {
						beforePut = false
					}
				}
				if !first && !beforePut {
					okAll = false
				}
				// a module-defined reset must reset all of the object
				for _, rs := range resets {
					callee := rs.(ssa.CallInstruction).Common().StaticCallee()
					if callee == nil || !p.InModule(callee) || callee.Blocks == nil || len(callee.Params) == 0 {
						continue
					}
					pt, ok := callee.Params[0].Type().Underlying().(*types.Pointer)
					if !ok {
						continue
					}
					st, ok := pt.Elem().Underlying().(*types.Struct)
					if !ok {
						continue
					}
					touched := map[int]bool{}
					whole := false
					an.EachInstr(callee, func(in ssa.Instruction) {
						switch x := in.(type) {
						case *ssa.Store:
							if x.Addr == ssa.Value(callee.Params[0]) {
								whole = true
							}
							if fa, ok := x.Addr.(*ssa.FieldAddr); ok && fa.X == ssa.Value(callee.Params[0]) {
								touched[fa.Field] = true
							}
						case *ssa.Call:
							if len(x.Call.Args) > 0 {
								if fa, ok := x.Call.Args[0].(*ssa.FieldAddr); ok && fa.X == ssa.Value(callee.Params[0]) && isReset(&x.Call) {
									touched[fa.Field] = true
								}
							}
						}
					})
					for i := 0; i < st.NumFields() && !whole; i++ {
						if _, isMutex := st.Field(i).Type().(*types.Named); isMutex && strings.HasPrefix(an.TypeName(st.Field(i).Type()), "sync.") {
							continue
						}
						if !touched[i] {
							r.Bad(name, "reset of the pooled object leaves field "+st.Field(i).Name()+" as it was", rs.Pos(), fmt.Sprintf("%s is used to clean an object taken from a sync.Pool but does not assign %s: what the previous user left there carries over into the next render", an.FuncName(callee), st.Field(i).Name()))
						}
					}
				}
				// nothing that aliases the pooled object's memory leaves the function
				for _, o := range others {
					cv, ok := o.(*ssa.Call)
					if !ok || len(cv.Call.Args) == 0 {
						continue
					}
					switch cv.Type().Underlying().(type) {
					case *types.Slice, *types.Pointer, *types.Map:
					default:
						continue
					}
					escapes := false
					eseen := map[ssa.Value]bool{}
					var ew func(v ssa.Value)
					ew = func(v ssa.Value) {
						if eseen[v] || v.Referrers() == nil {
							return
						}
						eseen[v] = true
						for _, u := range *v.Referrers() {
							switch x := u.(type) {
							case *ssa.Return:
								escapes = true
							case *ssa.Phi:
								ew(x)
							case *ssa.MakeInterface:
								ew(x)
							case *ssa.ChangeType:
								ew(x)
							case *ssa.Slice:
								ew(x)
							case *ssa.Store:
								if _, local := x.Addr.(*ssa.Alloc); !local && x.Val == v {
									escapes = true
								} else if al, ok := x.Addr.(*ssa.Alloc); ok && al.Referrers() != nil {
									for _, l := range *al.Referrers() {
										if ld, ok := l.(*ssa.UnOp); ok {
											ew(ld)
										}
									}
								}
							}
						}
					}
					ew(cv)
					if escapes && len(puts) > 0 {
						r.Bad(name, "memory of a pooled object leaves the function", cv.Pos(), fmt.Sprintf("%s returns (or stores) the result of %s on an object that goes back into a sync.Pool: the next user of the pool overwrites what this caller was given", name, an.CallName(&cv.Call)))
					}
				}
			}
			if okAll {
				r.OK(name, "pooled object reset before use or before every Put", get.Pos(), "")
			} else {
				r.Bad(name, "pooled object may be reused dirty", get.Pos(), fmt.Sprintf("%s takes an object from a sync.Pool and neither resets it before first use nor resets it on every path before putting it back: what an earlier (possibly failed) call left in it leaks into a later, unrelated render", name))
			}
		}
	}
}

// ---------------------------------------------------------------------------
// D1c

func runD1c(p *an.Prog, r *an.Result) {
	for _, fn := range p.Funcs {
		if isMainPkg(fn) {
			continue
		}
		name := an.FuncName(fn)
		keyLists := callsNamed(fn, "(reflect.Value).MapKeys")
		ranges := callsNamed(fn, "(reflect.Value).MapRange")
		for _, mk := range append(keyLists, ranges...) {
			// the sort call that orders this key slice (or the slice of pairs collected from the iterator)
			var sortCall *ssa.Call
			isRange := an.CallName(&mk.Call) == "(reflect.Value).MapRange"
			an.EachInstr(fn, func(in ssa.Instruction) {
				c, ok := in.(*ssa.Call)
				if !ok || !isSortCall(an.CallName(&c.Call)) {
					return
				}
				if isRange && mapRangeCollectedAndSorted(fn, mk) {
					sortCall = c
					return
				}
				if eqVal(an.Deref(c.Call.Args[0]), mk) || an.Reaches(c.Call.Args[0], an.StepValue, func(v ssa.Value) bool { return v == ssa.Value(mk) }) {
					sortCall = c
				}
			})
			if sortCall == nil {
				continue // D1 decides whether an unsorted walk is harmless
			}
			r.Counts["sorted key lists"]++
			cn := an.CallName(&sortCall.Call)
			if len(sortCall.Call.Args) < 2 {
				r.OK(name, cn+" of the map keys", sortCall.Pos(), "natural order of the element type")
				continue
			}
			less := funcValue(sortCall.Call.Args[1])
			if less == nil {
				r.Bad(name, cn+" with an unresolved comparator", sortCall.Pos(), "the comparator could not be resolved")
				continue
			}
			// comparator unit: the closure and the module functions it calls (two levels)
			unit := map[*ssa.Function]bool{less: true}
			for depth := 0; depth < 2; depth++ {
				for f := range unit {
					an.EachCall(f, func(ci ssa.CallInstruction) {
						if c := ci.Common().StaticCallee(); c != nil && p.InModule(c) {
							unit[c] = true
						}
					})
				}
			}
			var lossy []string
			for f := range unit {
				an.EachInstr(f, func(in ssa.Instruction) {
					b, ok := in.(*ssa.BinOp)
					if !ok || (b.Op != token.LSS && b.Op != token.GTR && b.Op != token.LEQ && b.Op != token.GEQ) {
						return
					}
					for _, opnd := range []ssa.Value{b.X, b.Y} {
						for _, o := range an.Origins(opnd, an.StepValue) {
							c := an.CallOf(o)
							if c == nil {
								continue
							}
							n := an.CallName(c)
							if strings.HasPrefix(n, "(reflect.Value).") || strings.HasPrefix(n, "(reflect.Type).") || strings.HasPrefix(n, "(*reflect.rtype).") || n == "fmt.Sprint" || n == "fmt.Sprintf" || (c.StaticCallee() != nil && unit[c.StaticCallee()]) {
								continue
							}
							lossy = append(lossy, n+" at "+p.Pos(o.Pos()))
						}
					}
				})
			}
			if len(lossy) == 0 {
				r.OK(name, cn+" of the map keys with an injective comparator", sortCall.Pos(), "every ordered comparison is between reflect accessor results (or printed forms) of the keys themselves")
			} else {
				r.Bad(name, cn+" of the map keys with a lossy comparator", sortCall.Pos(), fmt.Sprintf("the comparator orders the keys by %s: distinct keys with the same image compare equal and stay in Go's random map order", strings.Join(dedup(lossy), ", ")))
			}
		}
	}
	r.Floor("sorted key lists", 1)
}

// ---------------------------------------------------------------------------
// X8

func runX8(p *an.Prog, r *an.Result) {
	// the join: a function (reflect.Kind, reflect.Kind) reflect.Kind in package values
	var join *ssa.Function
	for _, fn := range p.Funcs {
		sig := fn.Signature
		if fn.Pkg != nil && an.RelPkg(fn.Pkg.Pkg.Path()) == "values" && sig.Params().Len() == 2 && sig.Results().Len() == 1 &&
			isPkgType(sig.Params().At(0).Type(), "reflect", "Kind") && isPkgType(sig.Params().At(1).Type(), "reflect", "Kind") && isPkgType(sig.Results().At(0).Type(), "reflect", "Kind") {
			join = fn
		}
	}
	if join == nil {
		r.Triv("-", "no kind join function", token.NoPos, "Equal/Less do not join kinds through a helper; X2 covers their dispatch")
		return
	}
	name := an.FuncName(join)
	a, b := join.Params[0], join.Params[1]
	intK := map[int64]bool{2: true, 3: true, 4: true, 5: true, 6: true, 7: true, 8: true, 9: true, 10: true, 11: true}
	floatK := map[int64]bool{13: true, 14: true}
	// the join as a table over all pairs of kinds, when it is written in the small language of
	// comparisons, kind predicates and constant results (kindeval.go)
	if kt := kindTableOf(p, join, 0); kt.ok {
		famOf := func(k int64) string {
			switch {
			case intK[k]:
				return "int"
			case floatK[k]:
				return "float"
			}
			return ""
		}
		want := map[[2]string]string{{"int", "int"}: "int", {"int", "float"}: "float", {"float", "int"}: "float", {"float", "float"}: "float"}
		bad := map[[2]string]string{}
		for ka := int64(0); ka < kindCount; ka++ {
			for kb := int64(0); kb < kindCount; kb++ {
				fa, fb := famOf(ka), famOf(kb)
				w, isNum := want[[2]string{fa, fb}]
				if !isNum {
					continue
				}
				if got := famOf(kt.val[[2]int64{ka, kb}]); got != w {
					bad[[2]string{fa, fb}] = fmt.Sprintf("%s x %s joins to %s", reflect.Kind(ka), reflect.Kind(kb), reflect.Kind(kt.val[[2]int64{ka, kb}]))
				}
			}
		}
		for c, w := range want {
			r.Counts["family pairs"]++
			construct := fmt.Sprintf("%s x %s", c[0], c[1])
			if why, isBad := bad[c]; isBad {
				r.Bad(name, construct+" does not join to a "+w+" kind", an.FuncPos(join), fmt.Sprintf("%s must join %s with %s to a %s kind (integers compare exactly as integers; anything involving a float compares as float64); the table of the function over all pairs of kinds has %s", name, c[0], c[1], w, why))
			} else {
				r.OK(name, construct+" joins to a "+w+" kind", an.FuncPos(join), "for every pair of kinds of these families, by the table of the function over all 27 x 27 pairs")
			}
		}
		// and the converse, on which the integer and float arms of Equal and Less rely when they read
		// their operands with Int/Uint/Float: an integer join only for two integers, a float join only
		// for two numbers
		conv := ""
		for ka := int64(0); ka < kindCount; ka++ {
			for kb := int64(0); kb < kindCount; kb++ {
				res := kt.val[[2]int64{ka, kb}]
				if ka == kb {
					continue // the join of a kind with itself is that kind, whatever it is
				}
				if intK[res] && !(intK[ka] && intK[kb]) || floatK[res] && !((intK[ka] || floatK[ka]) && (intK[kb] || floatK[kb])) {
					conv = fmt.Sprintf("%s x %s joins to %s", reflect.Kind(ka), reflect.Kind(kb), reflect.Kind(res))
				}
			}
		}
		r.Counts["family pairs"]++
		if conv == "" {
			r.OK(name, "a numeric join only for two numbers", an.FuncPos(join), "over all pairs of different kinds: the result is an integer kind only for two integer kinds and a float kind only for two numeric kinds")
		} else {
			r.Bad(name, "a numeric join for operands that are not numbers", an.FuncPos(join), fmt.Sprintf("%s: the numeric arm of Equal/Less would read a non-numeric operand with Int/Float and panic", conv))
		}
		r.Floor("family pairs", 4)
		return
	}
	// classify a condition: what it says about which family a parameter belongs to
	type fact struct {
		par *ssa.Parameter
		fam string
	}
	famOfCond := func(cond ssa.Value, taken bool) *fact {
		if !taken {
			return nil
		}
		if bo, ok := cond.(*ssa.BinOp); ok && bo.Op == token.EQL {
			for _, pair := range [][2]ssa.Value{{bo.X, bo.Y}, {bo.Y, bo.X}} {
				par, isPar := pair[0].(*ssa.Parameter)
				k, isC := an.ConstInt(pair[1])
				if isPar && isC {
					switch {
					case intK[k]:
						return &fact{par, "int"}
					case floatK[k]:
						return &fact{par, "float"}
					}
				}
			}
		}
		if c := an.CallOf(cond); c != nil && c.StaticCallee() != nil && len(c.Args) == 1 {
			par, isPar := c.Args[0].(*ssa.Parameter)
			if !isPar {
				return nil
			}
			// what family the predicate accepts: the kinds its true-returning switch lists
			fams := map[string]bool{}
			an.EachInstr(c.StaticCallee(), func(in ssa.Instruction) {
				if bo, ok := in.(*ssa.BinOp); ok && bo.Op == token.EQL {
					if k, ok := an.ConstInt(bo.Y); ok {
						if intK[k] {
							fams["int"] = true
						}
						if floatK[k] {
							fams["float"] = true
						}
					}
				}
			})
			if len(fams) == 1 {
				for f := range fams {
					return &fact{par, f}
				}
			}
		}
		return nil
	}
	// for each return of a constant kind: which (family of a, family of b) combinations can reach it
	type combo struct{ fa, fb string }
	reached := map[combo]map[string]bool{}
	var walk func(blk *ssa.BasicBlock, fa, fb string, seen map[*ssa.BasicBlock]bool)
	walk = func(blk *ssa.BasicBlock, fa, fb string, seen map[*ssa.BasicBlock]bool) {
		if seen[blk] {
			return
		}
		seen[blk] = true
		for _, in := range blk.Instrs {
			if ret, ok := in.(*ssa.Return); ok {
				res := "other"
				if k, ok := an.ConstInt(ret.Results[0]); ok {
					switch {
					case intK[k]:
						res = "int"
					case floatK[k]:
						res = "float"
					case k == 0:
						res = "invalid"
					}
				} else if ret.Results[0] == ssa.Value(a) || ret.Results[0] == ssa.Value(b) {
					res = "same"
				}
				c := combo{fa, fb}
				if reached[c] == nil {
					reached[c] = map[string]bool{}
				}
				reached[c][res] = true
				return
			}
		}
		if ifi, ok := blk.Instrs[len(blk.Instrs)-1].(*ssa.If); ok {
			for k, s := range blk.Succs {
				nfa, nfb := fa, fb
				// boolean phis of || conditions: be conservative, only direct conditions refine
				if f := famOfCond(ifi.Cond, k == 0); f != nil {
					if f.par == a {
						if fa != "" && fa != f.fam {
							continue // contradictory: a was established to be of the other family
						}
						nfa = f.fam
					} else if f.par == b {
						if fb != "" && fb != f.fam {
							continue
						}
						nfb = f.fam
					}
				}
				s2 := map[*ssa.BasicBlock]bool{}
				for x := range seen {
					s2[x] = true
				}
				walk(s, nfa, nfb, s2)
			}
			return
		}
		for _, s := range blk.Succs {
			walk(s, fa, fb, seen)
		}
	}
	walk(join.Blocks[0], "", "", map[*ssa.BasicBlock]bool{})
	want := map[combo]string{{"int", "int"}: "int", {"int", "float"}: "float", {"float", "int"}: "float", {"float", "float"}: "float"}
	for c, w := range want {
		r.Counts["family pairs"]++
		got := reached[c]
		construct := fmt.Sprintf("%s x %s", c.fa, c.fb)
		switch {
		case got == nil:
			r.Bad(name, construct+" is never recognised", an.FuncPos(join), fmt.Sprintf("no path of %s establishes that the first kind is %s and the second %s: values of these families have no common kind, so they never compare equal or ordered", name, c.fa, c.fb))
		case len(got) == 1 && got[w]:
			r.OK(name, construct+" joins to a "+w+" kind", an.FuncPos(join), "the only constant returned on the paths that establish this pairing")
		default:
			var gs []string
			for g := range got {
				gs = append(gs, g)
			}
			r.Bad(name, construct+" joins to "+strings.Join(gs, "/"), an.FuncPos(join), fmt.Sprintf("%s must join %s with %s to a %s kind (integers compare exactly as 64-bit integers; anything involving a float compares as float64)", name, c.fa, c.fb, w))
		}
	}
	r.Floor("family pairs", 4)
}

// ---------------------------------------------------------------------------
// B12

func runB12(p *an.Prog, r *an.Result) {
	lenFn := p.Func("(values.Range).Len")
	idxFn := p.Func("(values.Range).Index")
	arrFn := p.Func("(values.Range).AsArray")
	if lenFn == nil || idxFn == nil || arrFn == nil {
		r.Bad("-", "Range methods not found", token.NoPos, "anchor not resolved")
		return
	}
	paramField := map[ssa.Value]string{}
	fieldOf := func(fn *ssa.Function, v ssa.Value) string {
		if f, ok := paramField[v]; ok {
			return f
		}
		d := describe(p, v)
		switch {
		case strings.HasSuffix(d, ".b"):
			return "b"
		case strings.HasSuffix(d, ".e"):
			return "e"
		}
		return ""
	}
	// Len may delegate to a function of the two ends (spanLen(r.b, r.e)): its parameters are the fields
	lenBody := lenFn
	{
		var rets []*ssa.Return
		an.EachInstr(lenFn, func(in ssa.Instruction) {
			if ret, ok := in.(*ssa.Return); ok {
				rets = append(rets, ret)
			}
		})
		if len(rets) == 1 {
			if c, ok := resultsOf(rets[0])[0].(*ssa.Call); ok {
				if h := c.Call.StaticCallee(); h != nil && h.Blocks != nil && p.InModule(h) && len(h.Params) == len(c.Call.Args) {
					all := true
					for i, a := range c.Call.Args {
						if f := fieldOf(lenFn, a); f != "" {
							paramField[h.Params[i]] = f
						} else {
							all = false
						}
					}
					if all {
						lenBody = h
					}
				}
			}
		}
	}
	// Len: every return is 0 under e < b, or e+1-b under !(e < b), or max(0, e+1-b)
	okLen := true
	an.EachInstr(lenBody, func(in ssa.Instruction) {
		ret, ok := in.(*ssa.Return)
		if !ok {
			return
		}
		r.Counts["range results"]++
		v := ret.Results[0]
		lin := func(v ssa.Value) (int64, map[string]int64, bool) {
			lf := linOf(v, 0)
			out := map[string]int64{}
			for a, c := range lf.coef {
				if c == 0 {
					continue
				}
				f := fieldOf(lenFn, a)
				if f == "" {
					return 0, nil, false
				}
				out[f] += c
			}
			return lf.c, out, true
		}
		isDiff := func(v ssa.Value) bool {
			c, m, ok := lin(v)
			return ok && c == 1 && m["e"] == 1 && m["b"] == -1 && len(m) == 2
		}
		// one (value, block) pair per way the result comes about: the return itself, or each edge of a phi
		judge := func(v ssa.Value, blk *ssa.BasicBlock) (bool, string) {
			guards := an.GuardsAt(blk)
			// which side of e < b are we on?
			side := ""
			for _, g := range guards {
				if bo, ok := g.Cond.(*ssa.BinOp); ok {
					x, y := fieldOf(lenFn, bo.X), fieldOf(lenFn, bo.Y)
					lt := (bo.Op == token.LSS && x == "e" && y == "b") || (bo.Op == token.GTR && x == "b" && y == "e")
					ge := (bo.Op == token.GEQ && x == "e" && y == "b") || (bo.Op == token.LEQ && x == "b" && y == "e")
					if lt {
						if g.True {
							side = "empty"
						} else {
							side = "nonempty"
						}
					}
					if ge {
						if g.True {
							side = "nonempty"
						} else {
							side = "empty"
						}
					}
				}
			}
			good := false
			if c, ok := an.ConstInt(v); ok && c == 0 && side == "empty" {
				good = true
			}
			if isDiff(v) && side == "nonempty" {
				good = true
			}
			// saturation: on the non-empty side, where the difference was found not to be positive (it wrapped
			// around: more elements than an int counts), the largest int is returned
			if c, ok := an.ConstInt(v); ok && (c == math.MaxInt64 || c == math.MaxInt32) && side == "nonempty" {
				for _, g := range guards {
					if bo, ok := g.Cond.(*ssa.BinOp); ok && isDiff(bo.X) {
						if z, isC := an.ConstInt(bo.Y); isC && z == 0 && (bo.Op == token.GTR && !g.True || bo.Op == token.LEQ && g.True) {
							good = true
						}
					}
				}
			}
			if cc := an.CallOf(v); cc != nil && an.CallName(cc) == "builtin.max" && len(cc.Args) == 2 {
				z, d := false, false
				for _, a := range cc.Args {
					if c, ok := an.ConstInt(a); ok && c == 0 {
						z = true
					} else if isDiff(a) {
						d = true
					}
				}
				good = z && d
			}
			return good, side
		}
		good, side := judge(v, ret.Block())
		if ph, isPhi := v.(*ssa.Phi); isPhi && !good {
			good = len(ph.Edges) > 0
			for i, e := range ph.Edges {
				if g, _ := judge(e, ph.Block().Preds[i]); !g {
					good = false
				}
			}
			side = "phi"
		}
		if good {
			r.OK(an.FuncName(lenFn), "returns "+describe(p, v)+" on the "+nonEmpty(side, "clamped")+" side", ret.Pos(), "max(0, e+1-b) as linear forms over the two endpoints")
		} else {
			okLen = false
			r.Bad(an.FuncName(lenFn), "result is not max(0, end+1-start)", ret.Pos(), "the integers of (a..b) are b-a+1 many, none when b < a")
		}
	})
	_ = okLen
	// Index(i) = b + i
	an.EachInstr(idxFn, func(in ssa.Instruction) {
		if ret, ok := in.(*ssa.Return); ok {
			r.Counts["range results"]++
			lf := linOf(an.Strip(ret.Results[0]), 0)
			okI := lf.c == 0
			n := 0
			for a, c := range lf.coef {
				if c == 0 {
					continue
				}
				n++
				if !(c == 1 && (fieldOf(idxFn, a) == "b" || a == ssa.Value(idxFn.Params[1]))) {
					okI = false
				}
			}
			if okI && n == 2 {
				r.OK(an.FuncName(idxFn), "Index(i) = start + i", ret.Pos(), "")
			} else {
				r.Bad(an.FuncName(idxFn), "Index(i) is not start + i", ret.Pos(), "")
			}
		}
	})
	// AsArray lists start, start+1, ..., end by counting: k runs from 0 while k < Len() and start + k is
	// appended. The other natural form, i = start; i <= end; i++, lists the same numbers but never ends
	// when end is the largest int (i <= end cannot become false), appending for ever.
	r.Counts["range results"]++
	var byCount, byValue bool
	// the loop may sit in a helper of AsArray (rangeToArray(r))
	for _, f := range unitWithHelpers(p, arrFn) {
		var lenCall *ssa.Call
		boundIsLen := func(v ssa.Value) bool {
			if lenCall != nil && v == ssa.Value(lenCall) {
				return true
			}
			// len(a) for a := make([]any, Len())
			if lc := an.CallOf(v); lc != nil {
				if bi, ok := lc.Value.(*ssa.Builtin); ok && bi.Name() == "len" && len(lc.Args) == 1 {
					for _, o := range an.Origins(lc.Args[0], an.StepValue) {
						mk, ok := o.(*ssa.MakeSlice)
						if !ok || lenCall == nil || mk.Len != ssa.Value(lenCall) {
							return false
						}
					}
					return true
				}
			}
			return false
		}
		an.EachInstr(f, func(in ssa.Instruction) {
			if c, ok := in.(*ssa.Call); ok && c.Call.StaticCallee() == lenFn {
				lenCall = c
			}
		})
		an.EachInstr(f, func(in ssa.Instruction) {
			ph, ok := in.(*ssa.Phi)
			if !ok {
				return
			}
			step := false
			var init ssa.Value
			for _, e := range ph.Edges {
				if t := norm(e); t.v == ssa.Value(ph) && t.off == 1 {
					step = true
				} else {
					init = e
				}
			}
			if !step || init == nil || ph.Referrers() == nil {
				return
			}
			// the loop test compares the counter - or, in a rotated loop, the counter just stepped - with the bound
			var tests []*ssa.BinOp
			an.EachInstr(f, func(x ssa.Instruction) {
				if bo, ok := x.(*ssa.BinOp); ok {
					if t := norm(bo.X); t.v == ssa.Value(ph) && (t.off == 0 || t.off == 1) {
						switch bo.Op {
						case token.LSS, token.LEQ:
							tests = append(tests, bo)
						}
					}
				}
			})
			for _, bo := range tests {
				// k from 0 tested k < n, or the compiler's form of `for k := range a`: k from -1, stepped, then tested k+1 < len(a)
				c0, isC := an.ConstInt(init)
				stepped := norm(bo.X).off == 1
				if isC && (c0 == 0 || c0 == -1 && stepped) && bo.Op == token.LSS && lenCall != nil && boundIsLen(bo.Y) {
					// what is appended is start + k
					an.EachInstr(f, func(in2 ssa.Instruction) {
						// ... or Index(k), which is start + k (checked above)
						if c2, ok := in2.(*ssa.Call); ok && c2.Call.StaticCallee() == idxFn && len(c2.Call.Args) == 2 && norm(c2.Call.Args[1]).v == ssa.Value(ph) && norm(c2.Call.Args[1]).off == 0 {
							byCount = true
						}
						if mi, ok := in2.(*ssa.MakeInterface); ok {
							lf := linOf(mi.X, 0)
							okForm := lf.c == -c0 && len(lf.coef) == 2
							for at, cf := range lf.coef {
								if cf != 1 || !(at == ssa.Value(ph) || fieldOf(f, at) == "b") {
									okForm = false
								}
							}
							if okForm {
								byCount = true
							}
						}
					})
				}
				if fieldOf(f, init) == "b" && (bo.Op == token.LEQ || bo.Op == token.LSS) && fieldOf(f, norm(bo.Y).v) == "e" {
					byValue = true
				}
			}
		})
	}
	switch {
	case byValue:
		r.Bad(an.FuncName(arrFn), "walks i = start; i <= end; i++", an.FuncPos(arrFn), "a loop that runs while i <= end never ends when end is the largest int: the counter wraps around and the array grows until memory is exhausted; count the elements instead (k < Len(), start + k)")
	case byCount:
		r.OK(an.FuncName(arrFn), "lists start + k for k < Len()", an.FuncPos(arrFn), "terminates for every range, the largest int included")
	default:
		r.Bad(an.FuncName(arrFn), "does not walk start..end", an.FuncPos(arrFn), "the array form of a range must list start, start+1, …, end")
	}
	r.Floor("range results", 3)
}

// ---------------------------------------------------------------------------
// F5

func runF5(p *an.Prog, r *an.Result) {
	for _, fname := range []string{"values.convertValueToFloat", "values.convertValueToInt"} {
		fn := p.Func(fname)
		if fn == nil {
			r.Bad(fname, "not found", token.NoPos, "anchor not resolved")
			continue
		}
		want := "strconv.ParseFloat"
		if strings.HasSuffix(fname, "Int") {
			want = "strconv.ParseInt"
		}
		an.EachInstr(fn, func(in ssa.Instruction) {
			ret, ok := in.(*ssa.Return)
			if !ok {
				return
			}
			res := resultsOf(ret)
			if !an.IsNilConst(res[1]) {
				return // failure return
			}
			r.Counts["numeric success returns"]++
			good := f5Checked(p, ret, res[0], want, 0)
			if good {
				r.OK(fname, "success value comes from "+want+" with its error checked", ret.Pos(), "whole-string parse: trailing text is an error")
			} else {
				r.Bad(fname, "success value does not come from "+want, ret.Pos(), fmt.Sprintf("%s can succeed with a number that is not the result of a checked %s: a string that merely starts with (or loosely resembles) a number is computed on instead of being reported", fname, want))
			}
		})
	}
	r.Floor("numeric success returns", 4)
}

// f5Checked: at return ret, v is a constant, the result of a call of want whose
// error was found nil on the way to ret, or the first result of a module helper
// found successful on the way to ret (error nil, or ok true) every successful
// return of which is itself f5Checked.
func f5Checked(p *an.Prog, ret *ssa.Return, v ssa.Value, want string, depth int) bool {
	if depth > 3 {
		return false
	}
	for _, o := range an.Origins(v, an.StepValue) {
		switch x := o.(type) {
		case *ssa.Const:
			// bool -> 0/1, and the zero beside a failure
		case *ssa.Extract:
			c, isCall := x.Tuple.(*ssa.Call)
			if !isCall || x.Index != 0 {
				return false
			}
			sig := c.Call.Signature()
			if sig.Results().Len() != 2 {
				return false
			}
			// the second result was found good: err == nil, or ok
			second := errorValueOf(c, 1)
			if second == nil {
				return false
			}
			found := false
			for _, g := range an.GuardsAtInstr(ret) {
				if bo, ok := g.Cond.(*ssa.BinOp); ok && bo.X == second && an.IsNilConst(bo.Y) {
					if (bo.Op == token.NEQ && !g.True) || (bo.Op == token.EQL && g.True) {
						found = true
					}
				}
				if g.Cond == second && g.True && isBoolType(second.Type()) {
					found = true
				}
			}
			if !found {
				return false
			}
			if an.CallName(&c.Call) == want {
				continue
			}
			h := c.Call.StaticCallee()
			if h == nil || !p.InModule(h) || h.Blocks == nil {
				return false
			}
			okAll, n := true, 0
			an.EachInstr(h, func(in ssa.Instruction) {
				hr, isRet := in.(*ssa.Return)
				if !isRet {
					return
				}
				hres := resultsOf(hr)
				if len(hres) != 2 {
					okAll = false
					return
				}
				if b, isC := an.ConstBool(hres[1]); isC && !b {
					return // failure
				}
				if !isBoolType(hres[1].Type()) && !an.IsNilConst(hres[1]) {
					return // failure: an error is returned
				}
				n++
				if !f5Checked(p, hr, hres[0], want, depth+1) {
					okAll = false
				}
			})
			if !okAll || n == 0 {
				return false
			}
		default:
			return false
		}
	}
	return true
}

// ---------------------------------------------------------------------------
// F6

func runF6(p *an.Prog, r *an.Result) {
	entries := []string{"values.Equal", "values.Less", "values.Convert", "values.Length", "values.IsEmpty", "render.writeObject"}
	check := func(fn *ssa.Function, pars []ssa.Value, label string) {
		for _, par := range pars {
			it, isI := par.Type().Underlying().(*types.Interface)
			if !isI || it.NumMethods() != 0 {
				continue
			}
			r.Counts["value parameters"]++
			construct := "parameter " + describe(p, par)
			var raw []string
			unwrapped := false
			if par.Referrers() != nil {
				for _, u := range *par.Referrers() {
					switch x := u.(type) {
					case *ssa.DebugRef:
					case *ssa.Call:
						cn := an.CallName(&x.Call)
						if cn == "values.ToLiquid" {
							unwrapped = true
							continue
						}
						if callee := x.Call.StaticCallee(); callee != nil && p.InModule(callee) {
							continue // handed to another module function, which has its own obligation or is an entry itself
						}
						raw = append(raw, cn+" at "+p.Pos(x.Pos()))
					case *ssa.BinOp:
						if !an.IsNilConst(x.X) && !an.IsNilConst(x.Y) {
							raw = append(raw, "== at "+p.Pos(x.Pos()))
						}
					case *ssa.TypeAssert:
						raw = append(raw, "type assertion at "+p.Pos(x.Pos()))
					case *ssa.MakeInterface, *ssa.ChangeInterface:
						raw = append(raw, "conversion at "+p.Pos(u.Pos()))
					case *ssa.Phi, *ssa.Store:
					default:
					}
				}
			}
			switch {
			case len(raw) > 0:
				r.Bad(label, construct+" inspected before ToLiquid", an.FuncPos(fn), fmt.Sprintf("%s looks at its argument's Go representation (%s) without unwrapping it first: a Drop is treated as its Go struct, not as its Liquid value", label, strings.Join(raw, ", ")))
			case !unwrapped:
				r.Bad(label, construct+" never unwrapped", an.FuncPos(fn), fmt.Sprintf("%s does not apply ToLiquid to its argument: a Drop (in particular one nested in an array, which only this function sees) is treated as its Go struct", label))
			default:
				r.OK(label, construct+" is only passed to ToLiquid", an.FuncPos(fn), "every inspection uses the unwrapped value")
			}
		}
	}
	for _, e := range entries {
		fn := p.Func(e)
		if fn == nil {
			r.Bad(e, "not found", token.NoPos, "an entry point the property's mechanism names no longer exists")
			continue
		}
		var pars []ssa.Value
		for _, par := range fn.Params {
			pars = append(pars, par)
		}
		check(fn, pars, e)
	}
	// sort by property: the element taken out of the array
	if fn := p.Func("(values.sortableByProperty).Less"); fn != nil {
		for _, cl := range unitOf(fn) {
			an.EachInstr(cl, func(in ssa.Instruction) {
				u, ok := in.(*ssa.UnOp)
				if !ok || u.Op != token.MUL || !an.IsInterface(u.Type()) {
					return
				}
				if ia, ok := u.X.(*ssa.IndexAddr); ok && strings.HasSuffix(describe(p, ia.X), ".data") {
					check(cl, []ssa.Value{u}, an.FuncName(fn))
				}
			})
		}
	}
	r.Floor("value parameters", 7)
}

// ---------------------------------------------------------------------------
// B14

func init() {
	register("B14", "what a loop decoration opens per iteration it closes in the same iteration: after the opening call every way out of the iteration - next item, break, continue, normal end - passes the closing call, except an error return", runB14)
}

// loopFn: the function in package tags that runs the item loop (renders children and sets variables).
func loopFn(p *an.Prog) *ssa.Function {
	var fn *ssa.Function
	for _, f := range p.Funcs {
		if isLoopFunction(f) {
			fn = f
		}
	}
	return fn
}

func runB14(p *an.Prog, r *an.Result) {
	fn := loopFn(p)
	if fn == nil {
		r.Bad("-", "loop function not found", token.NoPos, "anchor not resolved")
		return
	}
	name := an.FuncName(fn)
	// decoration calls: invocations, inside a loop, of a module interface all of whose methods take a writer
	var calls []*ssa.Call
	helperMode := false
	collect := func(fn *ssa.Function, needLoop bool) []*ssa.Call {
		var calls []*ssa.Call
		an.EachInstr(fn, func(in ssa.Instruction) {
			c, ok := in.(*ssa.Call)
			if !ok || !c.Call.IsInvoke() || needLoop && !reachesBlock(c.Block(), c.Block()) {
				return
			}
			n := an.NamedOf(c.Call.Value.Type())
			if n == nil || !an.IsModulePkg(n.Obj().Pkg()) {
				return
			}
			it, ok := n.Underlying().(*types.Interface)
			if !ok || it.NumMethods() < 2 {
				return
			}
			for i := 0; i < it.NumMethods(); i++ {
				sig := it.Method(i).Type().(*types.Signature)
				if sig.Params().Len() == 0 || !isIOWriter(sig.Params().At(0).Type()) {
					return
				}
			}
			calls = append(calls, c)
		})
		return calls
	}
	if len(collect(fn, true)) < 2 {
		// one iteration split off into a function of the package that the loop calls: that function is the iteration
		an.EachInstr(fn, func(in ssa.Instruction) {
			site, ok := in.(*ssa.Call)
			if !ok || !reachesBlock(site.Block(), site.Block()) {
				return
			}
			if h := site.Call.StaticCallee(); h != nil && h.Pkg == fn.Pkg && h.Blocks != nil && len(collect(h, false)) >= 2 && !helperMode {
				fn, helperMode = h, true
				name = an.FuncName(h)
			}
		})
	}
	an.EachInstr(fn, func(in ssa.Instruction) {
		c, ok := in.(*ssa.Call)
		if !ok || !c.Call.IsInvoke() || !helperMode && !reachesBlock(c.Block(), c.Block()) {
			return
		}
		n := an.NamedOf(c.Call.Value.Type())
		if n == nil || !an.IsModulePkg(n.Obj().Pkg()) {
			return
		}
		it, ok := n.Underlying().(*types.Interface)
		if !ok || it.NumMethods() < 2 {
			return
		}
		for i := 0; i < it.NumMethods(); i++ {
			sig := it.Method(i).Type().(*types.Signature)
			if sig.Params().Len() == 0 || !isIOWriter(sig.Params().At(0).Type()) {
				return
			}
		}
		calls = append(calls, c)
	})
	r.Counts["decoration calls"] = len(calls)
	if len(calls) < 2 {
		r.Bad(name, "loop decoration not found", an.FuncPos(fn), "expected an opening and a closing call of the loop decorator inside the item loop")
		return
	}
	for _, open := range calls {
		for _, cls := range calls {
			if open == cls || open.Call.Method == cls.Call.Method || !instrDominates(open, cls) {
				continue
			}
			// the loop: blocks that can get back to the opening call
			inLoop := func(b *ssa.BasicBlock) bool { return helperMode || reachesBlock(b, open.Block()) }
			bad := ""
			var badPos token.Pos
			seen := map[*ssa.BasicBlock]bool{}
			var dfs func(b *ssa.BasicBlock, first bool)
			dfs = func(b *ssa.BasicBlock, first bool) {
				if bad != "" || (!first && (seen[b] || b == cls.Block())) {
					return
				}
				if !first {
					seen[b] = true
				}
				start := 0
				if first {
					for k, x := range b.Instrs {
						if x == ssa.Instruction(open) {
							start = k + 1
						}
					}
					if b == cls.Block() {
						return // the closing call follows in the same block
					}
				}
				for _, x := range b.Instrs[start:] {
					if ret, ok := x.(*ssa.Return); ok {
						res := resultsOf(ret)
						if len(res) > 0 && an.IsNilConst(res[len(res)-1]) {
							bad, badPos = "returns success", ret.Pos()
						}
						return
					}
				}
				for _, s := range b.Succs {
					switch {
					case s == open.Block() || s.Dominates(open.Block()) && inLoop(s):
						bad, badPos = "goes on to the next iteration", b.Instrs[len(b.Instrs)-1].Pos()
					case !inLoop(s):
						// leaving the loop: a return block is examined, anything else is an exit without closing
						if _, isRet := s.Instrs[len(s.Instrs)-1].(*ssa.Return); isRet {
							dfs(s, false)
						} else {
							bad, badPos = "leaves the loop", b.Instrs[len(b.Instrs)-1].Pos()
						}
					default:
						dfs(s, false)
					}
					if bad != "" {
						return
					}
				}
			}
			dfs(open.Block(), true)
			construct := fmt.Sprintf("%s ... %s", open.Call.Method.Name(), cls.Call.Method.Name())
			if bad == "" {
				r.OK(name, construct+": closed on every way out of the iteration", cls.Pos(), "no path from the opening call to the next iteration, the loop exit or a successful return avoids the closing call")
			} else {
				if !badPos.IsValid() {
					badPos = cls.Pos()
				}
				r.Bad(name, construct+": an iteration can end without the closing call", badPos, fmt.Sprintf("after %s the iteration %s without calling %s: markup opened for this item (a table cell, a row) is never closed", open.Call.Method.Name(), bad, cls.Call.Method.Name()))
			}
		}
	}
	r.Floor("decoration calls", 2)
}

// ---------------------------------------------------------------------------
// M9

func init() {
	register("M9", "outside the configuration phase nothing mutates a package-level variable or an object shared by all renders through a library method (sync.Map.Store, atomic adds, buffer writes ...); the one accepted form is a memo table whose key is the looked-up input itself - parameters or their fields, never a computed image of them", runM9)
}

// readOnlyLibMethods: pointer-receiver methods of library types that do not change the receiver
// in a way one call can observe from another, or that are decided by their own rule.
var readOnlyLibMethods = map[string]bool{
	"(*sync.Once).Do":    true, // M6
	"(*sync.Mutex).Lock": true, "(*sync.Mutex).Unlock": true, "(*sync.Mutex).TryLock": true,
	"(*sync.RWMutex).Lock": true, "(*sync.RWMutex).Unlock": true, "(*sync.RWMutex).RLock": true, "(*sync.RWMutex).RUnlock": true,
	"(*sync.Pool).Get": true, "(*sync.Pool).Put": true, // M8
	"(*sync.Map).Load": true, "(*sync.Map).Range": true,
	"(*sync.WaitGroup).Add": true, "(*sync.WaitGroup).Done": true, "(*sync.WaitGroup).Wait": true,
	"(*regexp.Regexp).FindAllStringSubmatchIndex": true, "(*regexp.Regexp).FindStringSubmatch": true, "(*regexp.Regexp).MatchString": true,
	"(*regexp.Regexp).ReplaceAllString": true, "(*regexp.Regexp).FindAllString": true, "(*regexp.Regexp).Split": true, "(*regexp.Regexp).String": true,
	"(*regexp.Regexp).ReplaceAllStringFunc": true, "(*regexp.Regexp).FindStringIndex": true, "(*regexp.Regexp).FindString": true,
	"(*regexp.Regexp).FindAllStringSubmatch": true, "(*regexp.Regexp).FindStringSubmatchIndex": true, "(*regexp.Regexp).SubexpNames": true,
	"(*regexp.Regexp).NumSubexp": true, "(*regexp.Regexp).ReplaceAllLiteralString": true, "(*regexp.Regexp).FindAllStringIndex": true,
	"(*strings.Replacer).Replace": true, "(*strings.Replacer).WriteString": true,
	"(*time.Location).String": true,
}

func m9Core(p *an.Prog, r *an.Result) {
	shared := sharedWithCaptures(p)
	for _, fn := range p.Funcs {
		if isMainPkg(fn) || an.IsInit(fn) || isConfigPhase(fn) {
			continue
		}
		name := an.FuncName(fn)
		an.EachCall(fn, func(ci ssa.CallInstruction) {
			c := ci.Common()
			callee := c.StaticCallee()
			if callee == nil || callee.Pkg == nil || an.IsModulePkg(callee.Pkg.Pkg) || callee.Signature.Recv() == nil || len(c.Args) == 0 {
				return
			}
			if _, isPtr := callee.Signature.Recv().Type().Underlying().(*types.Pointer); !isPtr {
				return
			}
			cn := an.CallName(c)
			if readOnlyLibMethods[cn] || strings.Contains(cn, ").Load") && strings.HasPrefix(cn, "(*sync/atomic.") {
				return
			}
			recv := c.Args[0]
			// where does the receiver live?
			where := ""
			root := recv
			for {
				switch x := root.(type) {
				case *ssa.FieldAddr:
					root = x.X
					continue
				case *ssa.IndexAddr:
					root = x.X
					continue
				}
				break
			}
			if g, ok := root.(*ssa.Global); ok {
				where = "the package-level variable " + g.Name()
			} else if u, ok := root.(*ssa.UnOp); ok && u.Op == token.MUL {
				if g, ok := u.X.(*ssa.Global); ok {
					where = "the package-level variable " + g.Name()
				}
			}
			if where == "" {
				{
					info := ownersOf(recv, false)
					fresh := len(info.bases) > 0
					for _, b := range info.bases {
						if !isFresh(p, b, 0) {
							fresh = false
						}
					}
					if u, ok := recv.(*ssa.UnOp); ok && u.Op == token.MUL {
						// a pointer read out of a struct: the pointee belongs to every struct on the way,
						// however local the copy of the struct it was read from
						info = ownersOf(u.X, true)
						fresh = false
					}
					if !fresh {
						for _, n := range info.shared {
							if shared[n] {
								where = "a " + an.TypeName(n) + " shared by all renders"
								break
							}
						}
					}
				}
			}
			if where == "" {
				return
			}
			r.Counts["library mutations of shared state"]++
			construct := cn + " on " + describe(p, recv)
			// a memo table keyed by the input itself
			if cn == "(*sync.Map).Store" || cn == "(*sync.Map).LoadOrStore" {
				if why := identityKey(c.Args[1], 0); why == "" {
					r.OK(name, construct, ci.Pos(), "memo table whose key is made of the function's own inputs (no computed image): two different inputs cannot share an entry")
					return
				} else {
					r.Bad(name, construct, ci.Pos(), fmt.Sprintf("%s stores into %s under a key that %s: different inputs can map to one entry, and then the result of one call depends on which other call came first", name, where, why))
					return
				}
			}
			r.Bad(name, construct, ci.Pos(), fmt.Sprintf("%s changes %s at parse or render time through %s: state that outlives the call makes renders depend on each other", name, where, cn))
		})
	}
}

// identityKey: "" if v is built only from parameters, their fields, constants and composites of
// those; otherwise what makes it a computed image.
func identityKey(v ssa.Value, depth int) string {
	if depth > 6 {
		return "is too deeply nested to follow"
	}
	switch x := v.(type) {
	case *ssa.Parameter, *ssa.Const, *ssa.FreeVar:
		return ""
	case *ssa.MakeInterface:
		return identityKey(x.X, depth+1)
	case *ssa.ChangeType:
		return identityKey(x.X, depth+1)
	case *ssa.Convert:
		return identityKey(x.X, depth+1)
	case *ssa.Field:
		return identityKey(x.X, depth+1)
	case *ssa.FieldAddr:
		return identityKey(x.X, depth+1)
	case *ssa.IndexAddr:
		if w := identityKey(x.X, depth+1); w != "" {
			return w
		}
		return identityKey(x.Index, depth+1)
	case *ssa.Phi:
		for _, e := range x.Edges {
			if w := identityKey(e, depth+1); w != "" {
				return w
			}
		}
		return ""
	case *ssa.UnOp:
		if x.Op == token.MUL {
			if al, ok := x.X.(*ssa.Alloc); ok {
				// a composite literal or a spilled parameter: everything stored into it
				var visit func(a ssa.Value) string
				visit = func(a ssa.Value) string {
					if a.Referrers() == nil {
						return ""
					}
					for _, u := range *a.Referrers() {
						switch y := u.(type) {
						case *ssa.Store:
							if y.Addr == a {
								if w := identityKey(y.Val, depth+1); w != "" {
									return w
								}
							}
						case *ssa.FieldAddr:
							if w := visit(y); w != "" {
								return w
							}
						case *ssa.IndexAddr:
							if w := visit(y); w != "" {
								return w
							}
						}
					}
					return ""
				}
				return visit(al)
			}
			return identityKey(x.X, depth+1)
		}
	case *ssa.Call:
		return "is computed by " + nonEmpty(an.CallName(&x.Call), "a call")
	case *ssa.BinOp:
		return "is computed with " + x.Op.String()
	}
	return fmt.Sprintf("is a %T", v)
}

func runM9(p *an.Prog, r *an.Result) {
	m9Core(p, r)
	checkFixture(r, m9Core, []string{"M9BadKey", "M9Counter"}, []string{"M9GoodKey"})
	if r.Counts["library mutations of shared state"] == 0 {
		r.Triv("-", "no library-container mutation of shared state outside the configuration phase", token.NoPos, "no memo table, counter or shared buffer is written at parse or render time")
	}
}

// ---------------------------------------------------------------------------
// M5c

func init() {
	register("M5c", "a slice, map or pointer read out of an object shared by all renders (engine, configuration, template) is never handed, outside the configuration phase, to a function that writes through that parameter", runM5c)
}

func runM5c(p *an.Prog, r *an.Result) {
	ma := getMut(p)
	shared := sharedWithCaptures(p)
	for _, fn := range p.Funcs {
		if isMainPkg(fn) || an.IsInit(fn) || isConfigPhase(fn) {
			continue
		}
		name := an.FuncName(fn)
		an.EachCall(fn, func(ci ssa.CallInstruction) {
			c := ci.Common()
			callee := c.StaticCallee()
			if callee == nil || !p.InModule(callee) || callee.Blocks == nil {
				return
			}
			off := 0
			if c.IsInvoke() {
				return
			}
			for i, a := range c.Args {
				if !isRefType(a.Type()) {
					continue
				}
				// the argument is read out of a field of a shared object
				var owner *types.Named
				for _, o := range an.Origins(a, an.StepValue) {
					var addr ssa.Value
					switch x := o.(type) {
					case *ssa.UnOp:
						if x.Op == token.MUL {
							addr = x.X
						}
					case *ssa.Field:
						addr = x
					}
					if addr == nil {
						continue
					}
					if _, isFA := addr.(*ssa.FieldAddr); !isFA {
						if _, isF := addr.(*ssa.Field); !isF {
							continue
						}
					}
					for _, n := range ownersOf(addr, true).shared {
						if shared[n] {
							owner = n
						}
					}
				}
				if owner == nil {
					continue
				}
				r.Counts["shared values handed on"]++
				s := ma.sums[callee]
				pi := i + off
				construct := fmt.Sprintf("%s of %s passed to %s", describe(p, a), an.TypeName(owner), an.FuncName(callee))
				if s != nil && s.mutFrom[pi] != nil && len(s.mutFrom[pi][0]) > 0 {
					var what, via string
					for _, src := range s.mutFrom[pi][0] {
						what, via = src.what+" at "+p.Pos(src.pos), src.via
						break
					}
					r.Bad(name, construct, ci.Pos(), fmt.Sprintf("%s hands %s, which belongs to a %s shared by all renders, to %s, which writes through that parameter (%s; %s): parsing or rendering changes the shared object, and concurrent calls race on it", name, describe(p, a), an.TypeName(owner), an.FuncName(callee), what, via))
				} else {
					r.OK(name, construct, ci.Pos(), "the callee's mutation summary has no write into that parameter's own storage")
				}
			}
		})
	}
	if r.Counts["shared values handed on"] == 0 {
		r.Triv("-", "no shared slice, map or pointer is handed to a module function outside the configuration phase", token.NoPos, "")
	}
}

// ---------------------------------------------------------------------------
// L1

func init() {
	register("L1", "no loop stores one and the same slice or map into a collection on every iteration while overwriting it: an object that is filled inside a loop and kept per iteration is allocated inside that loop", runL1)
}

func runL1(p *an.Prog, r *an.Result) {
	l1Core(p, r)
	checkFixture(r, l1Core, []string{"L1Bad"}, []string{"L1Good", "L1Spread"})
	if r.Counts["reused objects"] == 0 {
		r.Triv("-", "no object allocated outside a loop is both overwritten and stored per iteration inside it", token.NoPos, "")
	}
}

func l1Core(p *an.Prog, r *an.Result) {
	roles := GetRoles(p)
	for _, fn := range p.Funcs {
		if isMainPkg(fn) || p9OutOfScope(p, fn) != "" && !strings.Contains(p9OutOfScope(p, fn), "Scan") {
			continue
		}
		name := roles.Label(fn)
		an.EachInstr(fn, func(in ssa.Instruction) {
			v, ok := in.(ssa.Value)
			if !ok {
				return
			}
			switch in.(type) {
			case *ssa.MakeSlice, *ssa.MakeMap:
			case *ssa.Alloc:
				// a composite literal of slice/array/map type whose address is taken
				if !in.(*ssa.Alloc).Heap {
					return
				}
			default:
				return
			}
			// aliases of v: itself, slices of it
			aliases := map[ssa.Value]bool{v: true}
			var grow func(x ssa.Value)
			grow = func(x ssa.Value) {
				if x.Referrers() == nil {
					return
				}
				for _, u := range *x.Referrers() {
					switch y := u.(type) {
					case *ssa.Slice:
						if !aliases[y] {
							aliases[y] = true
							grow(y)
						}
					case *ssa.MakeInterface:
						if !aliases[y] {
							aliases[y] = true
							grow(y)
						}
					}
				}
			}
			grow(v)
			// written and kept inside a loop that v's allocation is outside of
			var writes, keeps []ssa.Instruction
			for a := range aliases {
				if a.Referrers() == nil {
					continue
				}
				for _, u := range *a.Referrers() {
					switch y := u.(type) {
					case *ssa.IndexAddr:
						if y.X == a && y.Referrers() != nil {
							for _, uu := range *y.Referrers() {
								if st, ok := uu.(*ssa.Store); ok && st.Addr == ssa.Value(y) {
									writes = append(writes, st)
								}
							}
						}
					case *ssa.MapUpdate:
						if y.Map == a {
							writes = append(writes, y)
						}
						if y.Value == a {
							keeps = append(keeps, y)
						}
					case *ssa.Store:
						if y.Val == a {
							if _, isElem := y.Addr.(*ssa.IndexAddr); isElem {
								keeps = append(keeps, y)
							}
						}
					}
				}
			}
			if len(writes) == 0 || len(keeps) == 0 {
				return
			}
			for _, k := range keeps {
				kb := k.Block()
				if !reachesBlock(kb, kb) {
					continue // not in a loop
				}
				// v is allocated outside the loop that contains the keep
				if reachesBlock(kb, in.Block()) && reachesBlock(in.Block(), kb) {
					continue // allocated in the same loop
				}
				wIn := false
				for _, w := range writes {
					if reachesBlock(w.Block(), kb) && reachesBlock(kb, w.Block()) {
						wIn = true
					}
				}
				if !wIn {
					continue
				}
				r.Counts["reused objects"]++
				r.Bad(name, "one "+an.TypeName(v.Type())+" is stored on every iteration and overwritten in between", an.InstrPos(k), fmt.Sprintf("%s allocates it once, before the loop, fills it inside the loop and stores it into a collection each time round: all the stored entries are the same object and end up with the last iteration's content", an.FuncName(fn)))
			}
		})
	}
}

// ---------------------------------------------------------------------------
// M10

func init() {
	register("M10", "the expression evaluation context is not written once it is made: evaluation re-enters it (a filter argument is itself an expression evaluated in the same context), so a field that one application of a filter fills is overwritten by the application nested in its arguments", runM10)
}

func runM10(p *an.Prog, r *an.Result) {
	var ctxT *types.Named
	for _, n := range moduleNamedTypes(p) {
		if an.RelPkg(n.Obj().Pkg().Path()) == "expressions" && n.Obj().Name() == "context" {
			ctxT = n
		}
	}
	if ctxT == nil {
		r.Bad("-", "expressions.context not found", token.NoPos, "anchor not resolved")
		return
	}
	for _, fn := range p.Funcs {
		if fn.Blocks == nil || isMainPkg(fn) {
			continue
		}
		name := an.FuncName(fn)
		an.EachInstr(fn, func(in ssa.Instruction) {
			st, ok := in.(*ssa.Store)
			if !ok {
				return
			}
			// a store into a field of a context (directly or into a field of an embedded struct)
			addr := st.Addr
			var top *ssa.FieldAddr
			for {
				fa, ok := addr.(*ssa.FieldAddr)
				if !ok {
					break
				}
				top = fa
				addr = fa.X
			}
			if top == nil {
				return
			}
			pt, ok := top.X.Type().Underlying().(*types.Pointer)
			if !ok || !types.Identical(pt.Elem(), ctxT) {
				return
			}
			r.Counts["stores into context fields"]++
			// construction: the object is a literal being filled in this function
			fresh := true
			for _, o := range an.Origins(top.X, an.StepValue) {
				if al, ok := o.(*ssa.Alloc); !ok || !strings.Contains(al.Comment, "complit") && !strings.Contains(al.Comment, "new") {
					fresh = false
				}
			}
			if fresh {
				r.OK(name, "context field set while the context is being made", st.Pos(), "a composite literal of this function")
			} else {
				r.Bad(name, "context field "+fieldName(top)+" written after construction", st.Pos(), fmt.Sprintf("%s stores into a field of an evaluation context it did not just make: the context is shared by every expression evaluated during the call, including the ones nested in a filter's arguments, which then overwrite each other's state", an.FuncName(fn)))
			}
		})
	}
	r.Floor("stores into context fields", 2)
}

// ---------------------------------------------------------------------------
// F13, F14, X19

func init() {
	register("F13", "the round filter rounds half up: it does not hand a number of unknown sign to math.Round (half away from zero), math.RoundToEven or math.Trunc", runF13)
	register("F14", "a number becomes text the way it is printed: a strconv formatter applied to a value is the one fmt.Sprint uses (FormatFloat with 'g' and the shortest precision, FormatInt/FormatUint in base 10)", runF14)
	register("X19", "a fractional array index is truncated first: in the wrappers' IndexValue a float becomes an int directly from the index value, before the negative index is wrapped, not after arithmetic on the float", runX19)
}

func runF13(p *an.Prog, r *an.Result) {
	roles := GetRoles(p)
	var round *Filter
	for _, f := range roles.Filters {
		if f.Name == "round" {
			round = f
		}
	}
	if round == nil || round.Fn == nil || !round.InMod {
		r.Bad("filter:round", "registration", token.NoPos, "the round filter was not resolved to a function of the module")
		return
	}
	for _, fn := range unitWithHelpers(p, round.Fn) {
		an.EachInstr(fn, func(in ssa.Instruction) {
			c, ok := in.(*ssa.Call)
			if !ok {
				return
			}
			cn := an.CallName(&c.Call)
			switch cn {
			case "math.Floor", "math.Ceil":
				r.Counts["rounding calls"]++
				r.OK(round.Label(), "rounds with "+cn, c.Pos(), "a floor or ceiling has no half rule of its own")
			case "math.Round", "math.RoundToEven", "math.Trunc":
				r.Counts["rounding calls"]++
				// accepted only where the operand has been found non-negative (there half away from zero is half up)
				nonNeg := false
				for _, g := range an.GuardsAt(c.Block()) {
					b, ok := g.Cond.(*ssa.BinOp)
					if !ok {
						continue
					}
					if z, isC := b.Y.(*ssa.Const); isC && z.Value != nil && isFloatType(b.X.Type()) && constIsZero(z) {
						if (b.Op == token.GEQ || b.Op == token.GTR) && g.True || (b.Op == token.LSS || b.Op == token.LEQ) && !g.True {
							nonNeg = true
						}
					}
				}
				if cn == "math.Round" && nonNeg {
					r.OK(round.Label(), "math.Round of a non-negative number", c.Pos(), "half away from zero is half up there")
				} else {
					r.Bad(round.Label(), "rounds with "+cn, c.Pos(), fmt.Sprintf("filter round calls %s on a number whose sign is not known: it rounds -2.5 to -3 (away from zero), to -2 only by accident of parity (to even) or cuts the fraction (Trunc); the documented rule is half up, floor(x + 0.5)", cn))
				}
			}
		})
	}
	r.Floor("rounding calls", 1)
}

func isFloatType(t types.Type) bool {
	b, ok := t.Underlying().(*types.Basic)
	return ok && b.Info()&types.IsFloat != 0
}

func constIsZero(c *ssa.Const) bool {
	if c.Value == nil {
		return false
	}
	if f, ok := constFloat(c); ok {
		return f == 0
	}
	return false
}

func constFloat(c *ssa.Const) (float64, bool) {
	if c.Value == nil {
		return 0, false
	}
	switch c.Value.Kind() {
	case constant.Int, constant.Float:
		f, _ := constant.Float64Val(constant.ToFloat(c.Value))
		return f, true
	}
	return 0, false
}

func runF14(p *an.Prog, r *an.Result) {
	for _, fn := range p.Funcs {
		if isMainPkg(fn) || fn.Blocks == nil || p.IsGenerated(an.FuncPos(fn)) {
			continue
		}
		name := an.FuncName(fn)
		an.EachInstr(fn, func(in ssa.Instruction) {
			c, ok := in.(*ssa.Call)
			if !ok {
				return
			}
			cn := an.CallName(&c.Call)
			switch cn {
			case "strconv.FormatFloat", "strconv.AppendFloat":
				off := 0
				if cn == "strconv.AppendFloat" {
					off = 1
				}
				r.Counts["strconv formatter calls"]++
				f, okF := an.ConstInt(c.Call.Args[off+1])
				pr, okP := an.ConstInt(c.Call.Args[off+2])
				// the bit size is the operand's own: a float32 printed as a 64-bit number shows the digits of its
				// binary expansion (0.1 becomes 0.10000000149011612), which fmt.Sprint does not
				bits, okBits := an.ConstInt(c.Call.Args[off+3])
				wantBits := int64(64)
				if cv, isConv := c.Call.Args[off].(*ssa.Convert); isConv {
					if b, isB := cv.X.Type().Underlying().(*types.Basic); isB && b.Kind() == types.Float32 {
						wantBits = 32
					}
				}
				if okF && okP && f == 'g' && pr == -1 && (!okBits || bits != wantBits) {
					r.Bad(name, cn+" with the bit size of another type", c.Pos(), fmt.Sprintf("%s formats a %d-bit float with bit size %d: fmt.Sprint prints a float32 with the shortest digits that identify it as a float32, so the number reads differently as a filter argument or receiver than printed", name, wantBits, bits))
				} else if okF && okP && f == 'g' && pr == -1 {
					r.OK(name, cn+" in fmt's own format", c.Pos(), "'g' with the shortest precision is what fmt.Sprint prints")
				} else {
					r.Bad(name, cn+" in a format fmt.Sprint does not use", c.Pos(), fmt.Sprintf("%s formats a float with %s in a format other than ('g', -1): the same number then reads differently as a filter argument or receiver (0.00001) than printed ({{ x }} gives 1e-05)", name, cn))
				}
			case "strconv.FormatInt", "strconv.FormatUint", "strconv.AppendInt", "strconv.AppendUint":
				r.Counts["strconv formatter calls"]++
				base, okB := an.ConstInt(c.Call.Args[len(c.Call.Args)-1])
				if okB && base == 10 {
					r.OK(name, cn+" in base 10", c.Pos(), "what fmt.Sprint prints")
				} else {
					r.Bad(name, cn+" in another base", c.Pos(), "an integer is printed in base 10")
				}
			}
		})
	}
}

func runX19(p *an.Prog, r *an.Result) {
	pkg := p.Package("values")
	if pkg == nil {
		r.Bad("-", "package values not found", token.NoPos, "anchor not resolved")
		return
	}
	for _, fn := range p.Funcs {
		if fn.Pkg != pkg || fn.Name() != "IndexValue" || fn.Signature.Recv() == nil {
			continue
		}
		for _, f := range unitWithHelpers(p, fn) {
			an.EachInstr(f, func(in ssa.Instruction) {
				cv, ok := in.(*ssa.Convert)
				if !ok || !isFloatType(cv.X.Type()) {
					return
				}
				if b, ok := cv.Type().Underlying().(*types.Basic); !ok || b.Info()&types.IsInteger == 0 {
					return
				}
				r.Counts["float index truncations"]++
				// the operand is the index itself: no arithmetic between the value and the truncation
				arith := false
				seen := map[ssa.Value]bool{}
				var visit func(v ssa.Value, d int)
				visit = func(v ssa.Value, d int) {
					if v == nil || seen[v] || d > 8 {
						return
					}
					seen[v] = true
					switch x := v.(type) {
					case *ssa.BinOp:
						arith = true
					case *ssa.Phi:
						for _, e := range x.Edges {
							visit(e, d+1)
						}
					case *ssa.Convert:
						visit(x.X, d+1)
					case *ssa.ChangeType:
						visit(x.X, d+1)
					}
				}
				visit(cv.X, 0)
				if arith {
					r.Bad(an.FuncName(f), "a float index is truncated after arithmetic", cv.Pos(), "the index is wrapped (index + length) or otherwise computed as a float and truncated afterwards: a[-1.5] then reads a[len-2] instead of a[-1]; Liquid truncates the index toward zero first")
				} else {
					r.OK(an.FuncName(f), "a float index is truncated at once", cv.Pos(), "int(index) of the index value itself")
				}
			})
		}
	}
	r.Floor("float index truncations", 1)
}

// ---------------------------------------------------------------------------
// F15

func init() {
	register("F15", "where the kind of a value is tested to find sequences, a fixed array counts like a slice: a comparison of a value's kind with reflect.Slice has a comparison of the same kind with reflect.Array beside it", runF15)
}

func runF15(p *an.Prog, r *an.Result) {
	for _, fn := range p.Funcs {
		if fn.Blocks == nil || isMainPkg(fn) || fn.Pkg == nil || p.IsGenerated(an.FuncPos(fn)) {
			continue
		}
		switch an.RelPkg(an.Outermost(fn).Pkg.Pkg.Path()) {
		case "values", "filters", "tags", "render", "expressions":
		default:
			continue
		}
		// kind value -> constants it is compared with
		type cmp struct {
			k   ssa.Value
			c   int64
			pos token.Pos
		}
		var cmps []cmp
		an.EachInstr(fn, func(in ssa.Instruction) {
			b, ok := in.(*ssa.BinOp)
			if !ok || (b.Op != token.EQL && b.Op != token.NEQ) {
				return
			}
			for _, pair := range [][2]ssa.Value{{b.X, b.Y}, {b.Y, b.X}} {
				if c, ok := an.ConstInt(pair[1]); ok && isPkgType(pair[0].Type(), "reflect", "Kind") && kindOfWhole(pair[0], 0) {
					cmps = append(cmps, cmp{pair[0], c, b.Pos()})
				}
			}
		})
		for _, s := range cmps {
			if s.c != 23 {
				continue
			}
			r.Counts["slice kind tests"]++
			hasArray, nilableSet := false, false
			for _, o := range cmps {
				if o.k == s.k || sameValue(o.k, s.k) || eqVal(o.k, s.k) {
					if o.c == 17 {
						hasArray = true
					}
					if o.c == 18 || o.c == 19 {
						nilableSet = true // the kinds that can be nil: a slice is one, an array is not
					}
				}
			}
			name := an.FuncName(fn)
			switch {
			case hasArray:
				r.OK(name, "kind == Slice beside kind == Array", s.pos, "")
			case nilableSet:
				r.Triv(name, "kind == Slice among the kinds that can be nil", s.pos, "not a test for sequences")
			default:
				r.Bad(name, "kind == Slice without kind == Array", s.pos, fmt.Sprintf("%s recognises a slice by its kind but not a fixed array: [3]int then has no size, no elements, is not iterated", name))
			}
		}
	}
	r.Floor("slice kind tests", 3)
}

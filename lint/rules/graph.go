package rules

import (
	"encoding/json"
	"fmt"
	"go/types"
	"golang.org/x/tools/go/ssa/ssautil"
	"os"
	"path/filepath"
	"sort"
	"strings"

	"golang.org/x/tools/go/ssa"

	"lv/an"
)

// callees returns the CHA callees of fn plus the reflective hops the call
// graph cannot see: values.Call invokes every registered filter.
func callees(p *an.Prog, roles *Roles, fn *ssa.Function) []*ssa.Function {
	var out []*ssa.Function
	seen := map[*ssa.Function]bool{}
	callerMain := fn.Pkg != nil && fn.Pkg.Pkg.Name() == "main"
	if n := p.CHA().Nodes[fn]; n != nil {
		for _, e := range n.Out {
			c := e.Callee.Func
			if c != nil && !callerMain {
				// library code never calls into a program's main package; CHA
				// only believes so because of signature-matched function values.
				if o := an.Outermost(c); o.Pkg != nil && o.Pkg.Pkg.Name() == "main" {
					continue
				}
			}
			if c != nil && !seen[c] {
				seen[c] = true
				out = append(out, c)
			}
		}
	}
	if an.FuncName(fn) == "values.Call" {
		for _, f := range roles.Filters {
			if !seen[f.Fn] {
				seen[f.Fn] = true
				out = append(out, f.Fn)
			}
		}
	}
	return out
}

// reach computes the functions reachable from roots; stop(fn) prevents
// traversal *through* fn (fn itself is still marked). The result maps each
// reached function to the function it was first reached from (nil for roots).
func reach(p *an.Prog, roles *Roles, roots []*ssa.Function, stop func(*ssa.Function) bool) map[*ssa.Function]*ssa.Function {
	parent := map[*ssa.Function]*ssa.Function{}
	var queue []*ssa.Function
	for _, r := range roots {
		if _, ok := parent[r]; !ok {
			parent[r] = nil
			queue = append(queue, r)
		}
	}
	for len(queue) > 0 {
		f := queue[0]
		queue = queue[1:]
		if stop != nil && stop(f) {
			continue
		}
		for _, c := range callees(p, roles, f) {
			if _, ok := parent[c]; !ok {
				parent[c] = f
				queue = append(queue, c)
			}
		}
		// closures created in f are only reachable when called; CHA has
		// those edges from the call sites.
	}
	return parent
}

func pathTo(parent map[*ssa.Function]*ssa.Function, fn *ssa.Function) string {
	var names []string
	for f := fn; f != nil; f = parent[f] {
		names = append(names, an.FuncName(f))
		if len(names) > 12 {
			names = append(names, "…")
			break
		}
	}
	for i, j := 0, len(names)-1; i < j; i, j = i+1, j-1 {
		names[i], names[j] = names[j], names[i]
	}
	return strings.Join(names, " → ")
}

// ---------------------------------------------------------------------------
// Phases (table tables/api_phases.json).

type phaseTable struct {
	ConfigPhase []string `json:"config_phase"`
	Reason      string   `json:"reason"`
}

var phaseCache *phaseTable

func verifDir() string {
	if d := os.Getenv("LV_VERIF"); d != "" {
		return d
	}
	exe, err := os.Executable()
	if err == nil {
		d := filepath.Dir(filepath.Dir(exe))
		if _, err := os.Stat(filepath.Join(d, "properties.jsonl")); err == nil {
			return d
		}
	}
	return "/verif"
}

func phases() *phaseTable {
	if phaseCache != nil {
		return phaseCache
	}
	b, err := os.ReadFile(filepath.Join(verifDir(), "tables", "api_phases.json"))
	if err != nil {
		panic(fmt.Errorf("tables/api_phases.json: %w", err))
	}
	var t phaseTable
	if err := json.Unmarshal(b, &t); err != nil {
		panic(fmt.Errorf("tables/api_phases.json: %w", err))
	}
	phaseCache = &t
	return phaseCache
}

// isConfigPhase reports whether fn (or the function it is nested in) is a
// configuration-phase function.
func isConfigPhase(fn *ssa.Function) bool {
	o := an.Outermost(fn)
	if listedConfigPhase(o) {
		return true
	}
	return configHelpers(o.Prog)[o]
}

func listedConfigPhase(o *ssa.Function) bool {
	name := an.FuncName(o)
	for _, c := range phases().ConfigPhase {
		if c == name {
			return true
		}
	}
	return false
}

var configHelperCache = map[*ssa.Program]map[*ssa.Function]bool{}

// configHelpers: unexported module functions all of whose (static) call sites are in
// configuration-phase functions are configuration-phase themselves (a registration routine split
// into helpers), to a fixpoint.
func configHelpers(prog *ssa.Program) map[*ssa.Function]bool {
	if m, ok := configHelperCache[prog]; ok {
		return m
	}
	out := map[*ssa.Function]bool{}
	configHelperCache[prog] = out
	callers := map[*ssa.Function][]*ssa.Function{}
	escapes := map[*ssa.Function]bool{} // used as a value: callers unknown
	var fns []*ssa.Function
	for f := range ssautil.AllFunctions(prog) {
		if f.Pkg == nil || !an.IsModulePkg(f.Pkg.Pkg) || f.Blocks == nil {
			continue
		}
		fns = append(fns, f)
	}
	for _, f := range fns {
		for _, b := range f.Blocks {
			for _, in := range b.Instrs {
				if ci, ok := in.(ssa.CallInstruction); ok {
					if callee := ci.Common().StaticCallee(); callee != nil {
						callers[callee] = append(callers[callee], an.Outermost(f))
					}
				}
				for _, op := range in.Operands(nil) {
					if op == nil || *op == nil {
						continue
					}
					if g, ok := (*op).(*ssa.Function); ok {
						if ci, isCall := in.(ssa.CallInstruction); !isCall || ci.Common().Value != ssa.Value(g) {
							escapes[g] = true
						}
					}
				}
			}
		}
	}
	for changed := true; changed; {
		changed = false
		for _, f := range fns {
			if f.Parent() != nil || out[f] || listedConfigPhase(f) || escapes[f] {
				continue
			}
			if f.Object() != nil && f.Object().Exported() {
				continue
			}
			cs := callers[f]
			if len(cs) == 0 {
				continue
			}
			all := true
			for _, c := range cs {
				if !listedConfigPhase(c) && !out[c] {
					all = false
				}
			}
			if all {
				out[f] = true
				changed = true
			}
		}
	}
	return out
}

// runPhaseEntries are the exported functions and methods of the root package
// that are not configuration-phase: whatever a caller may invoke concurrently
// on a configured engine.
func runPhaseEntries(p *an.Prog) []*ssa.Function {
	var out []*ssa.Function
	for _, f := range p.Funcs {
		if f.Parent() != nil || f.Pkg == nil || f.Pkg.Pkg.Path() != an.ModPath {
			continue
		}
		if f.Object() == nil || !f.Object().Exported() {
			continue
		}
		if recv := f.Signature.Recv(); recv != nil {
			n := an.NamedOf(recv.Type())
			if n == nil || !n.Obj().Exported() {
				continue
			}
		}
		if isConfigPhase(f) {
			continue
		}
		out = append(out, f)
	}
	return out
}

// ---------------------------------------------------------------------------
// Shared types: everything reachable through fields from Engine and Template.

var sharedCache = map[*an.Prog]map[*types.Named]bool{}

func moduleNamedTypes(p *an.Prog) []*types.Named {
	var out []*types.Named
	for _, pkg := range p.Pkgs {
		sc := pkg.Types.Scope()
		for _, n := range sc.Names() {
			if tn, ok := sc.Lookup(n).(*types.TypeName); ok && !tn.IsAlias() {
				if nt, ok := tn.Type().(*types.Named); ok {
					out = append(out, nt)
				}
			}
		}
	}
	return out
}

func sharedTypes(p *an.Prog) map[*types.Named]bool {
	if s := sharedCache[p]; s != nil {
		return s
	}
	shared := map[*types.Named]bool{}
	all := moduleNamedTypes(p)
	seen := map[types.Type]bool{}
	var visit func(t types.Type)
	implementers := func(it *types.Interface) {
		if it.NumMethods() == 0 {
			return
		}
		for _, n := range all {
			if an.IsInterface(n) {
				continue
			}
			if types.Implements(n, it) || types.Implements(types.NewPointer(n), it) {
				visit(n)
			}
		}
	}
	visit = func(t types.Type) {
		if t == nil || seen[t] {
			return
		}
		seen[t] = true
		switch x := t.(type) {
		case *types.Named:
			if !an.IsModulePkg(x.Obj().Pkg()) {
				if it, ok := x.Underlying().(*types.Interface); ok {
					implementers(it)
				}
				return
			}
			switch u := x.Underlying().(type) {
			case *types.Struct:
				shared[x] = true
				visit(u)
			case *types.Interface:
				implementers(u)
			default:
				visit(u)
			}
		case *types.Pointer:
			visit(x.Elem())
		case *types.Slice:
			visit(x.Elem())
		case *types.Array:
			visit(x.Elem())
		case *types.Map:
			visit(x.Key())
			visit(x.Elem())
		case *types.Chan:
			visit(x.Elem())
		case *types.Struct:
			for i := 0; i < x.NumFields(); i++ {
				visit(x.Field(i).Type())
			}
		case *types.Interface:
			implementers(x)
		}
	}
	root := p.Package("")
	if root != nil {
		for _, name := range []string{"Engine", "Template"} {
			if m, ok := root.Members[name].(*ssa.Type); ok {
				visit(m.Type())
			}
		}
	}
	sharedCache[p] = shared
	return shared
}

func sharedNames(s map[*types.Named]bool) []string {
	var out []string
	for n := range s {
		out = append(out, an.TypeName(n))
	}
	sort.Strings(out)
	return out
}

// unitWithHelpers: fn, the closures nested in it, and the functions of the same package they call
// statically (two levels): what a maintainer would regard as "this function", however it is cut up.
func unitWithHelpers(p *an.Prog, fn *ssa.Function) []*ssa.Function {
	return unitWithHelpersDepth(p, fn, 2)
}

// unitWithHelpersDepth is unitWithHelpers with the number of levels of helpers given.
func unitWithHelpersDepth(p *an.Prog, fn *ssa.Function, levels int) []*ssa.Function {
	seen := map[*ssa.Function]bool{}
	var out []*ssa.Function
	var add func(f *ssa.Function, depth int)
	add = func(f *ssa.Function, depth int) {
		if f == nil || seen[f] || f.Blocks == nil {
			return
		}
		seen[f] = true
		out = append(out, f)
		for _, a := range f.AnonFuncs {
			add(a, depth)
		}
		if depth >= levels {
			return
		}
		an.EachCall(f, func(ci ssa.CallInstruction) {
			c := ci.Common().StaticCallee()
			if c != nil {
				if o := c.Origin(); o != nil {
					c = o // an instance of a generic helper: its body is the generic's
				}
			}
			if c != nil && p.InModule(c) && c.Pkg != nil && an.Outermost(fn).Pkg == c.Pkg && c.Parent() == nil {
				add(c, depth+1)
			}
		})
	}
	add(fn, 0)
	return out
}

// callSitesOf: the static call sites of fn in the module.
func callSitesOf(p *an.Prog, fn *ssa.Function) []*ssa.Call {
	var out []*ssa.Call
	for _, f := range p.Funcs {
		an.EachInstr(f, func(in ssa.Instruction) {
			if c, ok := in.(*ssa.Call); ok {
				callee := c.Call.StaticCallee()
				if callee != nil && callee.Origin() != nil {
					callee = callee.Origin()
				}
				if callee == fn {
					out = append(out, c)
				}
			}
		})
	}
	return out
}

// stepIP is StepValue made interprocedural within the module: the result of a call to a module
// function comes from that function's returns; a parameter comes from the arguments at the
// function's call sites.
func stepIP(p *an.Prog) an.StepFn {
	return func(v ssa.Value) []ssa.Value {
		if r := an.StepValue(v); r != nil {
			return r
		}
		retsOf := func(callee *ssa.Function, idx int) []ssa.Value {
			var out []ssa.Value
			an.EachInstr(callee, func(in ssa.Instruction) {
				if ret, ok := in.(*ssa.Return); ok && idx < len(ret.Results) {
					out = append(out, resultsOf(ret)[idx])
				}
			})
			return out
		}
		switch x := v.(type) {
		case *ssa.Call:
			if callee := x.Call.StaticCallee(); callee != nil && p.InModule(callee) && callee.Blocks != nil && callee.Signature.Results().Len() == 1 {
				if out := retsOf(callee, 0); len(out) > 0 {
					return out
				}
			}
		case *ssa.Extract:
			if c, ok := x.Tuple.(*ssa.Call); ok {
				if callee := c.Call.StaticCallee(); callee != nil && p.InModule(callee) && callee.Blocks != nil {
					if out := retsOf(callee, x.Index); len(out) > 0 {
						return out
					}
				}
			}
		case *ssa.Parameter:
			fn := x.Parent()
			if fn != nil && fn.Object() == nil && fn.Parent() != nil {
				// a local closure that is only ever called directly: its call sites are all there are
				if sites, ok := onlyCalled(p, fn); ok {
					var out []ssa.Value
					for i, pp := range fn.Params {
						if pp == x {
							for _, cs := range sites {
								if i < len(cs.Call.Args) {
									out = append(out, cs.Call.Args[i])
								}
							}
						}
					}
					if len(out) > 0 {
						return out
					}
				}
				return nil
			}
			if fn == nil || fn.Object() == nil || (fn.Object().Exported() && fn.Signature.Recv() == nil) {
				return nil // exported functions have callers we cannot see
			}
			idx := -1
			for i, pp := range fn.Params {
				if pp == x {
					idx = i
				}
			}
			var out []ssa.Value
			for _, cs := range callSitesOf(p, fn) {
				if idx >= 0 && idx < len(cs.Call.Args) {
					out = append(out, cs.Call.Args[idx])
				}
			}
			if len(out) > 0 {
				return out
			}
		}
		return nil
	}
}

// findCallIP finds the single call named name in fn or in one of its same-package helpers; bind
// maps a value used at that call back to fn's own values (a helper's parameter -> the argument fn passes).
func findCallIP(p *an.Prog, fn *ssa.Function, name string) (*ssa.Call, func(ssa.Value) ssa.Value) {
	id := func(v ssa.Value) ssa.Value { return v }
	if cs := callsNamed(fn, name); len(cs) == 1 {
		return cs[0], id
	} else if len(cs) > 1 {
		return nil, id
	}
	var found *ssa.Call
	var bind func(ssa.Value) ssa.Value
	n := 0
	an.EachInstr(fn, func(in ssa.Instruction) {
		site, ok := in.(*ssa.Call)
		if !ok {
			return
		}
		h := site.Call.StaticCallee()
		if h == nil || !p.InModule(h) || h.Pkg != fn.Pkg || h.Blocks == nil {
			return
		}
		cs := callsNamed(h, name)
		if len(cs) != 1 {
			return
		}
		n++
		found = cs[0]
		bind = func(v ssa.Value) ssa.Value {
			v = an.Strip(v)
			if par, ok := v.(*ssa.Parameter); ok {
				for i, pp := range h.Params {
					if pp == par && i < len(site.Call.Args) {
						return site.Call.Args[i]
					}
				}
			}
			return v
		}
	})
	if n == 1 {
		return found, bind
	}
	// or in a closure of fn (handed to a helper that calls it): a captured variable stands for what fn stored in it
	if n == 0 {
		for _, af := range fn.AnonFuncs {
			cs := callsNamed(af, name)
			if len(cs) != 1 {
				continue
			}
			n++
			found = cs[0]
			af := af
			bind = func(v ssa.Value) ssa.Value {
				v = an.Strip(v)
				ld, ok := v.(*ssa.UnOp)
				if !ok {
					return v
				}
				fv, ok := ld.X.(*ssa.FreeVar)
				if !ok {
					return v
				}
				if al, ok := cellOfFreeVar(fn, af, fv).(*ssa.Alloc); ok {
					if st := an.Stores(al); len(st) == 1 {
						return st[0]
					}
				}
				return v
			}
		}
		if n == 1 {
			return found, bind
		}
	}
	return nil, id
}

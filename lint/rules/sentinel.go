package rules

import (
	"go/token"

	"golang.org/x/tools/go/ssa"

	"lv/an"
)

// What the loop does with a break or continue sentinel, decided by carrying the one abstract
// fact "the body's error has this sentinel as its cause" through the code that follows the body
// call: comparisons of the error with nil and of its Cause() with the sentinels become known
// booleans, a module function applied to it is carried through in the same way (a classifier
// that turns the error into an enum, a helper that turns it into a "stop" result), and every
// branch whose condition stays unknown is followed both ways. The outcomes are: the loop goes
// round again, the function returns success, it returns the body's error, it returns another
// error (the failure of a later write).

type absKind int

const (
	absUnknown absKind = iota
	absErr             // the body's error (class: which sentinel)
	absCause           // its Cause()
	absGlobal          // the value of a package-level error variable
	absBool
	absInt
	absNil
	absTuple
	absOther // an error known to be non-nil that is not the body's
)

type absVal struct {
	k     absKind
	class int // absErr/absCause: 1 break, 2 continue
	g     *ssa.Global
	b     bool
	i     int64
	tuple []absVal
}

type sentinelWalk struct {
	p        *an.Prog
	gb, gc   *ssa.Global
	class    int
	steps    int
	outcomes map[string]token.Pos
	inconcl  bool
}

func (w *sentinelWalk) eval(v ssa.Value, env map[ssa.Value]absVal, depth int) absVal {
	if a, ok := env[v]; ok {
		return a
	}
	if depth > 12 {
		return absVal{}
	}
	switch x := v.(type) {
	case *ssa.Const:
		if x.Value == nil {
			return absVal{k: absNil}
		}
		if b, ok := an.ConstBool(x); ok {
			return absVal{k: absBool, b: b}
		}
		if i, ok := an.ConstInt(x); ok {
			return absVal{k: absInt, i: i}
		}
	case *ssa.MakeInterface:
		return w.eval(x.X, env, depth+1)
	case *ssa.ChangeInterface:
		return w.eval(x.X, env, depth+1)
	case *ssa.ChangeType:
		return w.eval(x.X, env, depth+1)
	case *ssa.Convert:
		return w.eval(x.X, env, depth+1)
	case *ssa.UnOp:
		switch x.Op {
		case token.NOT:
			if a := w.eval(x.X, env, depth+1); a.k == absBool {
				return absVal{k: absBool, b: !a.b}
			}
		case token.MUL:
			if g, ok := x.X.(*ssa.Global); ok {
				return absVal{k: absGlobal, g: g}
			}
		}
	case *ssa.Extract:
		if t := w.eval(x.Tuple, env, depth+1); t.k == absTuple && x.Index < len(t.tuple) {
			return t.tuple[x.Index]
		}
	case *ssa.BinOp:
		if x.Op != token.EQL && x.Op != token.NEQ {
			return absVal{}
		}
		a, b := w.eval(x.X, env, depth+1), w.eval(x.Y, env, depth+1)
		eq, known := false, false
		for _, pr := range [][2]absVal{{a, b}, {b, a}} {
			l, r := pr[0], pr[1]
			switch {
			case (l.k == absErr || l.k == absOther) && r.k == absNil:
				eq, known = false, true // a sentinel error is not nil, nor is an error that a test found non-nil
			case l.k == absCause && r.k == absGlobal:
				eq, known = (l.class == 1 && r.g == w.gb) || (l.class == 2 && r.g == w.gc), true
			case l.k == absBool && r.k == absBool:
				eq, known = l.b == r.b, true
			case l.k == absInt && r.k == absInt:
				eq, known = l.i == r.i, true
			case l.k == absNil && r.k == absNil:
				eq, known = true, true
			}
			if known {
				break
			}
		}
		if known {
			return absVal{k: absBool, b: eq == (x.Op == token.EQL)}
		}
	case *ssa.Call:
		if x.Call.IsInvoke() {
			if x.Call.Method.Name() == "Cause" {
				if a := w.eval(x.Call.Value, env, depth+1); a.k == absErr {
					return absVal{k: absCause, class: a.class}
				}
			}
			return absVal{}
		}
		callee := x.Call.StaticCallee()
		if callee == nil || !w.p.InModule(callee) || callee.Blocks == nil || len(callee.Params) != len(x.Call.Args) {
			return absVal{}
		}
		// only functions that are handed the error (or something computed from it)
		cenv := map[ssa.Value]absVal{}
		carries := false
		for i, a := range x.Call.Args {
			av := w.eval(a, env, depth+1)
			if av.k != absUnknown {
				cenv[callee.Params[i]] = av
				if av.k == absErr || av.k == absCause {
					carries = true
				}
			}
		}
		if !carries {
			return absVal{}
		}
		if res, ok := w.constResult(callee, cenv, depth+1); ok {
			return res
		}
	}
	return absVal{}
}

// constResult: the one result the function returns under the abstract arguments, if every path agrees.
func (w *sentinelWalk) constResult(f *ssa.Function, env map[ssa.Value]absVal, depth int) (absVal, bool) {
	var results []absVal
	ok := true
	var walk func(b, prev *ssa.BasicBlock, env map[ssa.Value]absVal, n int)
	walk = func(b, prev *ssa.BasicBlock, env map[ssa.Value]absVal, n int) {
		w.steps++
		if n > 60 || w.steps > 20000 {
			ok = false
			return
		}
		for _, in := range b.Instrs {
			switch x := in.(type) {
			case *ssa.Phi:
				for i, pb := range b.Preds {
					if pb == prev {
						env[x] = w.eval(x.Edges[i], env, depth)
					}
				}
			case *ssa.Return:
				var t []absVal
				for _, rv := range resultsOf(x) {
					t = append(t, refineResult(w.eval(rv, env, depth), rv, b))
				}
				if len(t) == 1 {
					results = append(results, t[0])
				} else {
					results = append(results, absVal{k: absTuple, tuple: t})
				}
				return
			case *ssa.If:
				c := w.eval(x.Cond, env, depth)
				if c.k == absBool {
					if c.b {
						walk(b.Succs[0], b, env, n+1)
					} else {
						walk(b.Succs[1], b, env, n+1)
					}
					return
				}
				for _, s := range b.Succs {
					walk(s, b, copyAbs(env), n+1)
				}
				return
			case *ssa.Jump:
				walk(b.Succs[0], b, env, n+1)
				return
			case *ssa.Panic:
				ok = false
				return
			}
		}
	}
	walk(f.Blocks[0], nil, env, 0)
	if !ok || len(results) == 0 {
		return absVal{}, false
	}
	for _, r := range results[1:] {
		if !absEqual(r, results[0]) {
			return absVal{}, false
		}
	}
	if results[0].k == absUnknown {
		return absVal{}, false
	}
	return results[0], true
}

func copyAbs(m map[ssa.Value]absVal) map[ssa.Value]absVal {
	out := make(map[ssa.Value]absVal, len(m))
	for k, v := range m {
		out[k] = v
	}
	return out
}

func absEqual(a, b absVal) bool {
	if a.k != b.k || a.class != b.class || a.g != b.g || a.b != b.b || a.i != b.i || len(a.tuple) != len(b.tuple) {
		return false
	}
	for i := range a.tuple {
		if !absEqual(a.tuple[i], b.tuple[i]) {
			return false
		}
	}
	return true
}

// sentinelOutcomes walks from the body call under "the body's error is sentinel class".
// loopBlk is the block (of loopFn) whose re-entry means "the loop goes round again"; when the
// body call sits in a helper without a loop, the walk continues at the helper's one call site.
func sentinelOutcomes(p *an.Prog, gb, gc *ssa.Global, class int) (map[string]token.Pos, bool) {
	// the body call
	var body *ssa.Call
	n := 0
	for _, f := range p.Funcs {
		if f.Pkg == nil || an.RelPkg(f.Pkg.Pkg.Path()) != "tags" {
			continue
		}
		for _, c := range callsNamed(f, "(render.Context).RenderChildren") {
			// the one whose error meets the sentinels: in a loop, or in a function called from a loop
			inLoop := reachesBlock(c.Block(), c.Block())
			viaSite := false
			for _, s := range callSitesOf(p, f) {
				if reachesBlock(s.Block(), s.Block()) {
					viaSite = true
				}
			}
			if inLoop || viaSite {
				body = c
				n++
			}
		}
	}
	if n != 1 {
		return nil, false
	}
	w := &sentinelWalk{p: p, gb: gb, gc: gc, class: class, outcomes: map[string]token.Pos{}}
	bodyFn := body.Parent()
	var site *ssa.Call // where the walk continues when bodyFn returns
	loopAnchor := body.Block()
	if !reachesBlock(body.Block(), body.Block()) {
		sites := callSitesOf(p, bodyFn)
		if len(sites) != 1 {
			return nil, false
		}
		site = sites[0]
		loopAnchor = site.Block()
	}
	// the head of the Go loop around the anchor: the block of the cycle that dominates the rest of it
	var loopBlocks []*ssa.BasicBlock
	for _, b := range loopAnchor.Parent().Blocks {
		if b == loopAnchor || reachesBlock(b, loopAnchor) && reachesBlock(loopAnchor, b) {
			loopBlocks = append(loopBlocks, b)
		}
	}
	for _, h := range loopBlocks {
		all := true
		for _, b := range loopBlocks {
			if !h.Dominates(b) {
				all = false
			}
		}
		if all {
			loopAnchor = h
			break
		}
	}
	var walk func(fn *ssa.Function, b, prev *ssa.BasicBlock, from int, env map[ssa.Value]absVal, depth int, started bool)
	walk = func(fn *ssa.Function, b, prev *ssa.BasicBlock, from int, env map[ssa.Value]absVal, depth int, started bool) {
		w.steps++
		if depth > 80 || w.steps > 20000 {
			w.inconcl = true
			return
		}
		if started && b == loopAnchor && from == 0 {
			w.outcomes["again"] = an.InstrPos(b.Instrs[0])
			return
		}
		for idx := from; idx < len(b.Instrs); idx++ {
			switch x := b.Instrs[idx].(type) {
			case *ssa.Phi:
				for i, pb := range b.Preds {
					if pb == prev {
						env[x] = w.eval(x.Edges[i], env, 0)
					}
				}
			case *ssa.Return:
				var t []absVal
				for _, rv := range resultsOf(x) {
					t = append(t, refineResult(w.eval(rv, env, 0), rv, b))
				}
				if fn == bodyFn && site != nil {
					// continue in the caller, after the call
					cenv := map[ssa.Value]absVal{}
					if len(t) == 1 {
						cenv[site] = t[0]
					} else {
						cenv[site] = absVal{k: absTuple, tuple: t}
					}
					sidx := 0
					for i, in := range site.Block().Instrs {
						if in == ssa.Instruction(site) {
							sidx = i
						}
					}
					walk(site.Parent(), site.Block(), nil, sidx+1, cenv, depth+1, true)
					return
				}
				last := absVal{k: absNil}
				if len(t) > 0 {
					last = t[len(t)-1]
				}
				switch last.k {
				case absNil:
					w.outcomes["return-nil"] = x.Pos()
				case absErr:
					w.outcomes["return-e"] = x.Pos()
				default:
					w.outcomes["return-other"] = x.Pos()
				}
				return
			case *ssa.If:
				c := w.eval(x.Cond, env, 0)
				if c.k == absBool {
					k := 1
					if c.b {
						k = 0
					}
					walk(fn, b.Succs[k], b, 0, env, depth+1, true)
					return
				}
				for _, s := range b.Succs {
					walk(fn, s, b, 0, copyAbs(env), depth+1, true)
				}
				return
			case *ssa.Jump:
				walk(fn, b.Succs[0], b, 0, env, depth+1, true)
				return
			case *ssa.Panic:
				w.outcomes["panic"] = x.Pos()
				return
			}
		}
	}
	env := map[ssa.Value]absVal{body: {k: absErr, class: class}}
	bidx := 0
	for i, in := range body.Block().Instrs {
		if in == ssa.Instruction(body) {
			bidx = i
		}
	}
	walk(bodyFn, body.Block(), nil, bidx+1, env, 0, false)
	if w.inconcl || len(w.outcomes) == 0 {
		return nil, false
	}
	return w.outcomes, true
}

// refineResult: an unknown value returned where a dominating test found it non-nil is "another error".
func refineResult(a absVal, v ssa.Value, blk *ssa.BasicBlock) absVal {
	if a.k != absUnknown {
		return a
	}
	for _, g := range an.GuardsAt(blk) {
		b, ok := g.Cond.(*ssa.BinOp)
		if !ok || !(b.Op == token.NEQ && g.True || b.Op == token.EQL && !g.True) {
			continue
		}
		for _, pr := range [][2]ssa.Value{{b.X, b.Y}, {b.Y, b.X}} {
			if an.IsNilConst(pr[1]) && (pr[0] == v || sameValue(pr[0], v) || an.Reaches(v, an.StepValue, func(o ssa.Value) bool { return o == pr[0] })) {
				return absVal{k: absOther}
			}
		}
	}
	return a
}

package rules

import (
	"fmt"
	"go/token"
	"path/filepath"
	"strings"

	"lv/an"
)

var fixtureProg *an.Prog
var fixtureErr error
var fixtureLoaded bool

// fixture loads the positive/negative examples under lint/testdata/fixtures.
func fixture() (*an.Prog, error) {
	if !fixtureLoaded {
		fixtureLoaded = true
		fixtureProg, fixtureErr = an.Load(an.LoadOpts{Dir: filepath.Join(verifDir(), "lint", "testdata", "fixtures"), MinPkgs: 1})
	}
	return fixtureProg, fixtureErr
}

// checkFixture runs core on the fixture package and requires that every
// function named in mustFire has a violated obligation and none of mustPass has.
func checkFixture(r *an.Result, core func(*an.Prog, *an.Result), mustFire, mustPass []string) {
	fp, err := fixture()
	if err != nil {
		r.Bad("-", "fixture", token.NoPos, "positive fixture could not be loaded: "+err.Error())
		return
	}
	fr := an.NewResult(fp, r.Rule)
	core(fp, fr)
	fired := map[string]bool{}
	for _, o := range fr.Obs {
		if o.Status == an.Violated {
			fired[strings.SplitN(o.Func, "$", 2)[0]] = true
		}
	}
	for _, f := range mustFire {
		if !fired["lvfixture."+f] {
			r.Bad("-", "fixture:"+f, token.NoPos, fmt.Sprintf("rule %s no longer reports its positive fixture %s: the rule has gone blind", r.Rule, f))
		} else {
			r.Counts["fixtures fired"]++
		}
	}
	for _, f := range mustPass {
		if fired["lvfixture."+f] {
			r.Bad("-", "fixture:"+f, token.NoPos, fmt.Sprintf("rule %s reports its negative fixture %s: the rule raises false alarms", r.Rule, f))
		} else {
			r.Counts["fixtures silent"]++
		}
	}
}

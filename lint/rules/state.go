package rules

import (
	"fmt"
	"go/token"
	"go/types"
	"sort"
	"strings"

	"golang.org/x/tools/go/ssa"

	"lv/an"
)

// Rules M3–M7: nobody writes what is shared (C02, C03, C04).

func init() {
	register("M3", "a closure that outlives the call that created it never writes a variable it captured (nor anything reached through one)", runM3)
	register("M4", "package-level variables are written only by package initialisers", runM4)
	register("M5", "objects shared by all renders (engine, template, render nodes, compiled expressions, configuration maps) are written only while being built or in the configuration phase", runM5)
	register("M6", "a field initialised lazily under sync.Once is written nowhere else and read only after Do", runM6)
	register("M7", "no configuration-phase mutator is reachable from a run-phase entry point", runM7)
}

func isMainPkg(fn *ssa.Function) bool {
	o := an.Outermost(fn)
	return o.Pkg != nil && o.Pkg.Pkg.Name() == "main"
}

// ---------------------------------------------------------------------------
// closure escape

var localOnlyCallees = map[string]bool{
	"(*sync.Once).Do": true,
	"sort.Slice":      true, "sort.SliceStable": true, "sort.Search": true,
	"strings.Map": true, "strings.FieldsFunc": true, "strings.TrimFunc": true,
	"strings.TrimLeftFunc": true, "strings.TrimRightFunc": true, "strings.IndexFunc": true, "strings.LastIndexFunc": true,
	"bytes.Map": true, "bytes.FieldsFunc": true, "bytes.TrimFunc": true,
	"bytes.TrimLeftFunc": true, "bytes.TrimRightFunc": true, "bytes.IndexFunc": true,
	"slices.SortFunc": true, "slices.SortStableFunc": true, "slices.IndexFunc": true, "slices.ContainsFunc": true,
}

// valueEscapes reports how a function value leaves the activation that
// created it ("" if it does not): returned, stored, sent, started as a
// goroutine, captured by an escaping closure, or passed to a callee that may
// keep it.
func valueEscapes(v ssa.Value, seen map[ssa.Value]bool) string {
	if seen[v] {
		return ""
	}
	seen[v] = true
	refs := v.Referrers()
	if refs == nil {
		return ""
	}
	for _, r := range *refs {
		switch x := r.(type) {
		case *ssa.DebugRef:
		case *ssa.Call:
			if x.Call.Value == v && !x.Call.IsInvoke() {
				continue // called directly
			}
			if !localOnlyCallees[an.CallName(&x.Call)] {
				// handed to a function of the module that only calls it (renderToString(func(w) error)): the
				// closure lives no longer than that call
				if callee := x.Call.StaticCallee(); callee != nil && callee.Blocks != nil && callee.Pkg != nil && an.IsModulePkg(callee.Pkg.Pkg) && len(callee.Params) == len(x.Call.Args) {
					kept := ""
					for k, a := range x.Call.Args {
						if a == v {
							if why := valueEscapes(callee.Params[k], seen); why != "" {
								kept = why
							}
						}
					}
					if kept == "" {
						continue
					}
				}
				return "passed to " + nonEmpty(an.CallName(&x.Call), "a dynamic call")
			}
		case *ssa.Defer:
			if x.Call.Value == v && !x.Call.IsInvoke() {
				continue
			}
			if !localOnlyCallees[an.CallName(&x.Call)] {
				return "passed to deferred " + nonEmpty(an.CallName(&x.Call), "call")
			}
		case *ssa.Go:
			return "started as a goroutine"
		case *ssa.Return:
			return "returned"
		case *ssa.Store:
			if x.Val != v {
				continue
			}
			if a, ok := x.Addr.(*ssa.Alloc); ok && !a.Heap {
				// local cell: follow its loads
				if ar := a.Referrers(); ar != nil {
					for _, l := range *ar {
						if u, ok := l.(*ssa.UnOp); ok && u.Op == token.MUL {
							if why := valueEscapes(u, seen); why != "" {
								return why
							}
						}
					}
				}
				continue
			}
			if a, ok := x.Addr.(*ssa.Alloc); ok && a.Heap {
				// captured local holding the closure (e.g. a recursive helper): follow loads here and in closures
				if why := heapCellEscapes(a, seen); why != "" {
					return why
				}
				continue
			}
			return "stored to " + x.Addr.Name()
		case *ssa.MapUpdate:
			return "stored in a map"
		case *ssa.Send:
			return "sent on a channel"
		case *ssa.MakeInterface, *ssa.ChangeType, *ssa.Phi, *ssa.ChangeInterface:
			if why := valueEscapes(x.(ssa.Value), seen); why != "" {
				return why
			}
		case *ssa.MakeClosure:
			// captured by value? closures capture cells, so v itself as a binding is unusual; be conservative
			if why := valueEscapes(x, seen); why != "" {
				return "captured by a closure that is " + why
			}
		default:
			return fmt.Sprintf("used by %T", r)
		}
	}
	return ""
}

func heapCellEscapes(a *ssa.Alloc, seen map[ssa.Value]bool) string {
	ar := a.Referrers()
	if ar == nil {
		return ""
	}
	for _, l := range *ar {
		switch x := l.(type) {
		case *ssa.UnOp:
			if x.Op == token.MUL {
				if why := valueEscapes(x, seen); why != "" {
					return why
				}
			}
		case *ssa.MakeClosure:
			// the cell is captured; loads inside the closure
			fn := x.Fn.(*ssa.Function)
			for i, b := range x.Bindings {
				if b == a {
					fv := fn.FreeVars[i]
					if fr := fv.Referrers(); fr != nil {
						for _, u := range *fr {
							if ld, ok := u.(*ssa.UnOp); ok && ld.Op == token.MUL {
								if why := valueEscapes(ld, seen); why != "" {
									return why
								}
							}
						}
					}
				}
			}
		}
	}
	return ""
}

func nonEmpty(s, d string) string {
	if s == "" {
		return d
	}
	return s
}

// closureSites maps each anonymous function to its MakeClosure instructions.
func closureSites(p *an.Prog) map[*ssa.Function][]*ssa.MakeClosure {
	out := map[*ssa.Function][]*ssa.MakeClosure{}
	for _, f := range p.Funcs {
		an.EachInstr(f, func(in ssa.Instruction) {
			if mc, ok := in.(*ssa.MakeClosure); ok {
				fn := mc.Fn.(*ssa.Function)
				out[fn] = append(out[fn], mc)
			}
		})
	}
	return out
}

type escapeInfo struct {
	p     *an.Prog
	sites map[*ssa.Function][]*ssa.MakeClosure
	why   map[*ssa.Function]string // "" = does not escape
}

var escapeCache = map[*an.Prog]*escapeInfo{}

func escapes(p *an.Prog) *escapeInfo {
	if e := escapeCache[p]; e != nil {
		return e
	}
	e := &escapeInfo{p: p, sites: closureSites(p), why: map[*ssa.Function]string{}}
	for fn, sites := range e.sites {
		for _, mc := range sites {
			if why := valueEscapes(mc, map[ssa.Value]bool{}); why != "" {
				e.why[fn] = why
				break
			}
		}
	}
	escapeCache[p] = e
	return e
}

// sharedFreeVar reports whether free variable i of closure fn is a cell that
// can be written after the activation that allocated it has returned: the
// closure itself escapes, or the cell is a free variable of the enclosing
// closure for which the same holds.
func (e *escapeInfo) sharedFreeVar(fn *ssa.Function, i int, depth int) (bool, string) {
	if why := e.why[fn]; why != "" {
		return true, fmt.Sprintf("%s is %s", an.FuncName(fn), why)
	}
	if depth > 8 {
		return false, ""
	}
	for _, mc := range e.sites[fn] {
		if i >= len(mc.Bindings) {
			continue
		}
		if fv, ok := mc.Bindings[i].(*ssa.FreeVar); ok {
			parent := mc.Parent()
			for k, pfv := range parent.FreeVars {
				if pfv == fv {
					if sh, why := e.sharedFreeVar(parent, k, depth+1); sh {
						return true, why
					}
				}
			}
		}
	}
	return false, ""
}

// addrStep walks from an address or container value towards what it is part of.
func addrStep(v ssa.Value) []ssa.Value {
	switch x := v.(type) {
	case *ssa.FieldAddr:
		return []ssa.Value{x.X}
	case *ssa.IndexAddr:
		return []ssa.Value{x.X}
	case *ssa.Field:
		return []ssa.Value{x.X}
	case *ssa.Index:
		return []ssa.Value{x.X}
	case *ssa.Slice:
		return []ssa.Value{x.X}
	case *ssa.Lookup:
		return []ssa.Value{x.X}
	case *ssa.UnOp:
		if x.Op == token.MUL {
			if a, ok := x.X.(*ssa.Alloc); ok && !a.Heap {
				if st := an.Stores(a); len(st) > 0 {
					return st
				}
			}
			return []ssa.Value{x.X}
		}
	case *ssa.Phi:
		return x.Edges
	case *ssa.ChangeType:
		return []ssa.Value{x.X}
	case *ssa.Convert:
		return []ssa.Value{x.X}
	case *ssa.Extract:
		switch t := x.Tuple.(type) {
		case *ssa.Lookup:
			return []ssa.Value{t.X}
		case *ssa.TypeAssert:
			return []ssa.Value{t.X}
		}
	case *ssa.TypeAssert:
		return []ssa.Value{x.X}
	case *ssa.MakeInterface:
		return []ssa.Value{x.X}
	case *ssa.ChangeInterface:
		return []ssa.Value{x.X}
	}
	return nil
}

// writes enumerates the memory writes of fn: (instruction, address-or-container written, description).
type memWrite struct {
	in   ssa.Instruction
	dst  ssa.Value
	what string
}

func writesOf(fn *ssa.Function) []memWrite {
	var out []memWrite
	an.EachInstr(fn, func(in ssa.Instruction) {
		switch x := in.(type) {
		case *ssa.Store:
			out = append(out, memWrite{in, x.Addr, "store"})
		case *ssa.MapUpdate:
			out = append(out, memWrite{in, x.Map, "map update"})
		case *ssa.Call:
			// builtin delete / clear / copy(dst, …) / append's in-place growth write to their first operand
			if b, ok := x.Call.Value.(*ssa.Builtin); ok {
				switch b.Name() {
				case "delete", "clear", "copy":
					out = append(out, memWrite{in, x.Call.Args[0], b.Name() + "()"})
				}
			}
		}
	})
	return out
}

func describe(p *an.Prog, v ssa.Value) string {
	switch x := v.(type) {
	case *ssa.FieldAddr:
		st := x.X.Type().Underlying().(*types.Pointer).Elem().Underlying().(*types.Struct)
		return describe(p, x.X) + "." + st.Field(x.Field).Name()
	case *ssa.Field:
		st := x.X.Type().Underlying().(*types.Struct)
		return describe(p, x.X) + "." + st.Field(x.Field).Name()
	case *ssa.IndexAddr:
		return describe(p, x.X) + "[…]"
	case *ssa.UnOp:
		if x.Op == token.MUL {
			return describe(p, x.X)
		}
	case *ssa.FreeVar:
		return x.Name()
	case *ssa.Global:
		return x.Name()
	case *ssa.Parameter:
		return x.Name()
	case *ssa.Alloc:
		if x.Comment != "" {
			return x.Comment
		}
	case *ssa.Lookup:
		return describe(p, x.X) + "[…]"
	case *ssa.Slice:
		return describe(p, x.X) + "[:]"
	case *ssa.Phi:
		if x.Comment != "" {
			return x.Comment
		}
	case *ssa.Call:
		return nonEmpty(an.CallName(&x.Call), "call") + "()"
	case *ssa.TypeAssert:
		return describe(p, x.X) + ".(" + an.TypeName(x.AssertedType) + ")"
	case *ssa.Extract:
		return describe(p, x.Tuple)
	case *ssa.ChangeType:
		return describe(p, x.X)
	case *ssa.MakeInterface:
		return describe(p, x.X)
	}
	return v.Name()
}

// ---------------------------------------------------------------------------
// M3

func runM3(p *an.Prog, r *an.Result) {
	m3Core(p, r)
	r.Floor("escaping closures with captures", 25)
	checkFixture(r, m3Core, []string{"M3Bad"}, []string{"M3Good", "(*lazy).Get"})
}

func m3Core(p *an.Prog, r *an.Result) {
	esc := escapes(p)
	for _, fn := range p.Funcs {
		if fn.Parent() == nil || isMainPkg(fn) {
			continue
		}
		name := an.FuncName(fn)
		if len(fn.FreeVars) == 0 {
			r.Counts["closures without captures"]++
			continue
		}
		r.Counts["closures with captures"]++
		if esc.why[fn] != "" {
			r.Counts["escaping closures with captures"]++
		}
		bad := 0
		for _, w := range writesOf(fn) {
			for _, o := range an.Origins(w.dst, addrStep) {
				fv, ok := o.(*ssa.FreeVar)
				if !ok {
					continue
				}
				idx := -1
				for i, x := range fn.FreeVars {
					if x == fv {
						idx = i
					}
				}
				shared, why := esc.sharedFreeVar(fn, idx, 0)
				if !shared {
					continue
				}
				// a closure run under sync.Once.Do may initialise through its capture (M6 checks it)
				if underOnceDo(esc, fn) {
					continue
				}
				bad++
				r.Bad(name, w.what+" through captured "+fv.Name()+" ("+describe(p, w.dst)+")", an.InstrPos(w.in),
					fmt.Sprintf("%s writes %s, which is reached through the captured variable %q; %s, so the cell is shared by every later invocation (every render of the template, from any goroutine)", name, describe(p, w.dst), fv.Name(), why))
			}
		}
		// a captured slice, map or pointer handed to a function that writes through that parameter
		// is written just the same (the argument vector made once per expression and filled per call)
		if esc.why[fn] != "" && !underOnceDo(esc, fn) {
			ma := getMut(p)
			an.EachInstr(fn, func(in ssa.Instruction) {
				ci, ok := in.(ssa.CallInstruction)
				if !ok {
					return
				}
				c := ci.Common()
				if _, isB := c.Value.(*ssa.Builtin); isB {
					return
				}
				args := an.Args(c)
				for i, a := range args {
					if !isRefType(a.Type()) {
						continue
					}
					var fv *ssa.FreeVar
					for _, o := range an.Origins(a, addrStep) {
						if x, ok := o.(*ssa.FreeVar); ok {
							fv = x
						}
					}
					if fv == nil {
						continue
					}
					idx := -1
					for k, x := range fn.FreeVars {
						if x == fv {
							idx = k
						}
					}
					shared, why := esc.sharedFreeVar(fn, idx, 0)
					if !shared {
						continue
					}
					for _, t := range ma.targets(ci, map[*ssa.Function]bool{}) {
						sm := ma.sums[t]
						if sm == nil || sm.mutFrom[i] == nil || len(sm.mutFrom[i][0]) == 0 {
							continue
						}
						for _, src := range sm.mutFrom[i][0] {
							bad++
							r.Bad(name, "captured "+fv.Name()+" handed to "+an.FuncName(t)+", which writes through it", an.InstrPos(in),
								fmt.Sprintf("%s passes %s, reached through the captured variable %q, to %s, which performs a %s at %s; %s, so every invocation (every render, from any goroutine) writes the same storage", name, describe(p, a), fv.Name(), an.FuncName(t), src.what, p.Pos(src.pos), why))
							break
						}
					}
				}
			})
		}
		if bad == 0 {
			if why := esc.why[fn]; why != "" {
				r.OK(name, "captures "+fvNames(fn), an.FuncPos(fn), "escaping closure ("+why+"): no store or map update is rooted at a captured variable")
			} else {
				r.Triv(name, "captures "+fvNames(fn), an.FuncPos(fn), "closure does not outlive the activation that created it")
			}
		}
	}
}

func fvNames(fn *ssa.Function) string {
	var n []string
	for _, fv := range fn.FreeVars {
		n = append(n, fv.Name())
	}
	return strings.Join(n, ",")
}

func underOnceDo(esc *escapeInfo, fn *ssa.Function) bool {
	// a method passed as a method value (once.Do(w.resolve)): the closure is of the synthetic wrapper
	// that calls it; the method itself must not be called from anywhere else
	for wrapper := range esc.sites {
		if wrapper == fn || wrapper.Synthetic == "" || unwrapBound(wrapper) != fn {
			continue
		}
		if !underOnceDo(esc, wrapper) {
			continue
		}
		direct := false
		for _, f := range esc.p.Funcs {
			if f == wrapper {
				continue
			}
			an.EachInstr(f, func(in ssa.Instruction) {
				if c, ok := in.(ssa.CallInstruction); ok && c.Common().StaticCallee() == fn {
					direct = true
				}
			})
		}
		if !direct {
			return true
		}
	}
	for _, mc := range esc.sites[fn] {
		refs := mc.Referrers()
		if refs == nil {
			continue
		}
		for _, r := range *refs {
			if c, ok := r.(*ssa.Call); ok && an.CallName(&c.Call) == "(*sync.Once).Do" {
				return true
			}
		}
	}
	return false
}

// ---------------------------------------------------------------------------
// M4

func runM4(p *an.Prog, r *an.Result) {
	m4Core(p, r)
	r.Floor("package-level variables", 10)
	checkFixture(r, m4Core, []string{"M4Bad"}, []string{"M4Good"})
	if r.Counts["writes rooted at a global outside init"] == 0 {
		r.OK("-", "module-wide scan", token.NoPos, fmt.Sprintf("no store, map update, delete/clear/copy or atomic/sort call is rooted at any of the %d package-level variables outside package initialisers", r.Counts["package-level variables"]))
	}
}

func m4Core(p *an.Prog, r *an.Result) {
	globals := 0
	for _, pkg := range p.Pkgs {
		sp := p.SSA.Package(pkg.Types)
		for _, m := range sp.Members {
			if _, ok := m.(*ssa.Global); ok {
				globals++
			}
		}
	}
	r.Counts["package-level variables"] = globals
	for _, fn := range p.Funcs {
		name := an.FuncName(fn)
		if isMainPkg(fn) {
			continue
		}
		for _, w := range writesOf(fn) {
			for _, o := range an.Origins(w.dst, addrStep) {
				g, ok := o.(*ssa.Global)
				if !ok {
					continue
				}
				r.Counts["writes rooted at a global"]++
				construct := w.what + " to " + g.Name() + " (" + describe(p, w.dst) + ")"
				if an.IsInit(fn) {
					r.Counts["writes in package initialisers"]++
					continue
				}
				r.Counts["writes rooted at a global outside init"]++
				r.Bad(name, construct, an.InstrPos(w.in),
					fmt.Sprintf("%s writes package-level variable %s after initialisation: state shared by every engine, template and goroutine", name, g.Name()))
			}
		}
		// calls that hand a global's address to a mutator
		an.EachCall(fn, func(ci ssa.CallInstruction) {
			c := ci.Common()
			cn := an.CallName(c)
			if !strings.HasPrefix(cn, "sync/atomic.") && !strings.HasPrefix(cn, "(*sync/atomic.") && !knownSliceMutator(cn) {
				return
			}
			for _, a := range an.Args(c) {
				for _, o := range an.Origins(a, addrStep) {
					if g, ok := o.(*ssa.Global); ok && !an.IsInit(fn) {
						r.Bad(name, cn+" on "+g.Name(), ci.Pos(), fmt.Sprintf("%s passes package-level variable %s to %s, which writes it", name, g.Name(), cn))
					}
				}
			}
		})
	}
}

func knownSliceMutator(cn string) bool {
	switch cn {
	case "sort.Sort", "sort.Stable", "sort.Slice", "sort.SliceStable", "sort.Strings", "sort.Ints", "sort.Float64s",
		"slices.Sort", "slices.SortFunc", "slices.SortStableFunc", "slices.Reverse", "math/rand.Shuffle":
		return true
	}
	return false
}

// ---------------------------------------------------------------------------
// M5

// sharedRoots extends the field-reachability closure of Engine/Template with
// what escaping closures capture and what package-level variables hold.
func sharedWithCaptures(p *an.Prog) map[*types.Named]bool {
	base := sharedTypes(p)
	out := map[*types.Named]bool{}
	for k := range base {
		out[k] = true
	}
	all := moduleNamedTypes(p)
	seen := map[types.Type]bool{}
	var visit func(t types.Type)
	impl := func(it *types.Interface) {
		if it.NumMethods() == 0 {
			return
		}
		for _, n := range all {
			if an.IsInterface(n) {
				continue
			}
			if types.Implements(n, it) || types.Implements(types.NewPointer(n), it) {
				visit(n)
			}
		}
	}
	visit = func(t types.Type) {
		if t == nil || seen[t] {
			return
		}
		seen[t] = true
		switch x := t.(type) {
		case *types.Named:
			if !an.IsModulePkg(x.Obj().Pkg()) {
				if it, ok := x.Underlying().(*types.Interface); ok {
					impl(it)
				}
				return
			}
			switch u := x.Underlying().(type) {
			case *types.Struct:
				out[x] = true
				visit(u)
			case *types.Interface:
				impl(u)
			default:
				visit(u)
			}
		case *types.Pointer:
			visit(x.Elem())
		case *types.Slice:
			visit(x.Elem())
		case *types.Array:
			visit(x.Elem())
		case *types.Map:
			visit(x.Key())
			visit(x.Elem())
		case *types.Struct:
			for i := 0; i < x.NumFields(); i++ {
				visit(x.Field(i).Type())
			}
		case *types.Interface:
			impl(x)
		}
	}
	esc := escapes(p)
	for _, fn := range p.Funcs {
		if fn.Parent() == nil || esc.why[fn] == "" || isMainPkg(fn) {
			continue
		}
		// only closures made at configuration/compile time hold state across
		// renders; closures made while rendering capture per-render objects.
		if !compileTimeClosure(p, fn) {
			continue
		}
		for _, fv := range fn.FreeVars {
			visit(fv.Type())
		}
	}
	for _, pkg := range p.Pkgs {
		if pkg.Types.Name() == "main" {
			continue
		}
		sp := p.SSA.Package(pkg.Types)
		for _, m := range sp.Members {
			if g, ok := m.(*ssa.Global); ok {
				gt := g.Type().(*types.Pointer).Elem()
				if an.IsInterface(gt) {
					// what an interface-typed variable holds is what its initialiser stores (M4: nobody else writes it)
					for _, v := range an.GlobalStores(g) {
						visit(an.Strip(v).Type())
					}
					continue
				}
				visit(gt)
			}
		}
	}
	return out
}

// compileTimeClosure: the closure (or an enclosing one) is a renderer or an
// evaluator, or is created in a configuration-phase function or in the
// expression parser: it is built once and then invoked by every render.
func compileTimeClosure(p *an.Prog, fn *ssa.Function) bool {
	for f := fn; f != nil; f = f.Parent() {
		if f.Parent() == nil {
			break
		}
		if IsRendererSig(f.Signature) || IsEvaluatorSig(f.Signature) {
			return true
		}
	}
	o := an.Outermost(fn)
	if isConfigPhase(o) {
		return true
	}
	pkg := ""
	if o.Pkg != nil {
		pkg = an.RelPkg(o.Pkg.Pkg.Path())
	}
	return pkg == "expressions" || pkg == "tags"
}

// isFresh reports whether the object at base was allocated by the current
// function: an Alloc, make/new, a composite literal, or the result of a
// module function all of whose returns are such allocations.
func isFresh(p *an.Prog, base ssa.Value, depth int) bool {
	return isFreshSeen(p, base, depth, map[ssa.Value]bool{})
}

func isFreshSeen(p *an.Prog, base ssa.Value, depth int, seen map[ssa.Value]bool) bool {
	if seen[base] {
		return true // cycle through a phi or cell: decided by the other edges
	}
	seen[base] = true
	switch x := base.(type) {
	case *ssa.Alloc, *ssa.MakeMap, *ssa.MakeSlice, *ssa.MakeChan:
		return true
	case *ssa.Const:
		return true
	case *ssa.Phi:
		for _, e := range x.Edges {
			if !isFreshSeen(p, e, depth, seen) {
				return false
			}
		}
		return true
	case *ssa.Call:
		if b, ok := x.Call.Value.(*ssa.Builtin); ok {
			return b.Name() == "append" && len(x.Call.Args) > 0 && isFreshSeen(p, x.Call.Args[0], depth, seen)
		}
		callee := x.Call.StaticCallee()
		if callee == nil || !p.InModule(callee) || depth > 3 {
			return false
		}
		return returnsFresh(p, callee, 0, depth+1)
	case *ssa.Extract:
		if c, ok := x.Tuple.(*ssa.Call); ok {
			callee := c.Call.StaticCallee()
			if callee == nil || !p.InModule(callee) || depth > 3 {
				return false
			}
			return returnsFresh(p, callee, x.Index, depth+1)
		}
	case *ssa.UnOp:
		if x.Op == token.MUL {
			if a, ok := x.X.(*ssa.Alloc); ok {
				st := an.Stores(a)
				if len(st) == 0 {
					return false
				}
				for _, s := range st {
					if !isFreshSeen(p, s, depth, seen) {
						return false
					}
				}
				return true
			}
		}
	case *ssa.ChangeType:
		return isFreshSeen(p, x.X, depth, seen)
	case *ssa.Slice:
		return isFreshSeen(p, x.X, depth, seen)
	case *ssa.MakeInterface:
		return isFreshSeen(p, x.X, depth, seen)
	case *ssa.TypeAssert:
		return isFreshSeen(p, x.X, depth, seen)
	}
	// an element read back out of a slice this function is building from new objects
	if u, ok := base.(*ssa.UnOp); ok && u.Op == token.MUL {
		if ia, ok := u.X.(*ssa.IndexAddr); ok {
			return sliceElemsFresh(p, ia.X, depth, map[ssa.Value]bool{})
		}
	}
	if ex, ok := base.(*ssa.Extract); ok {
		if ta, ok := ex.Tuple.(*ssa.TypeAssert); ok && ex.Index == 0 {
			return isFreshSeen(p, ta.X, depth, seen)
		}
	}
	return false
}

// sliceElemsFresh: the slice s was made in this function and everything put into it - by append or
// by element store - was allocated in this call (directly or by a callee that returns new objects).
func sliceElemsFresh(p *an.Prog, s ssa.Value, depth int, seen map[ssa.Value]bool) bool {
	if seen[s] {
		return true
	}
	seen[s] = true
	elemsOK := func(v ssa.Value) bool {
		if v.Referrers() == nil {
			return true
		}
		for _, u := range *v.Referrers() {
			if ia, ok := u.(*ssa.IndexAddr); ok && ia.X == v {
				for _, sv := range an.Stores(ia) {
					if !isFresh(p, sv, depth+1) {
						return false
					}
				}
			}
		}
		return true
	}
	switch x := s.(type) {
	case *ssa.MakeSlice:
		return elemsOK(x)
	case *ssa.Const:
		return true
	case *ssa.Phi:
		for _, e := range x.Edges {
			if !sliceElemsFresh(p, e, depth, seen) {
				return false
			}
		}
		return elemsOK(x)
	case *ssa.Slice:
		if al, ok := x.X.(*ssa.Alloc); ok {
			// a literal or a variadic argument list: the values stored into its backing array
			if al.Referrers() != nil {
				for _, u := range *al.Referrers() {
					if ia, ok := u.(*ssa.IndexAddr); ok {
						for _, sv := range an.Stores(ia) {
							if !isFresh(p, sv, depth+1) {
								return false
							}
						}
					}
				}
			}
			return true
		}
		return sliceElemsFresh(p, x.X, depth, seen)
	case *ssa.Call:
		if b, ok := x.Call.Value.(*ssa.Builtin); ok && b.Name() == "append" && len(x.Call.Args) == 2 {
			return sliceElemsFresh(p, x.Call.Args[0], depth, seen) && sliceElemsFresh(p, x.Call.Args[1], depth, seen) && elemsOK(x)
		}
	}
	return false
}

func returnsFresh(p *an.Prog, fn *ssa.Function, idx, depth int) bool {
	ok := true
	n := 0
	an.EachInstr(fn, func(in ssa.Instruction) {
		if ret, isRet := in.(*ssa.Return); isRet && idx < len(ret.Results) {
			n++
			v := ret.Results[idx]
			if an.IsNilConst(v) {
				return
			}
			if !isFresh(p, v, depth) {
				ok = false
			}
		}
	})
	return ok && n > 0
}

type ownerInfo struct {
	shared []*types.Named // shared struct types written into
	bases  []ssa.Value    // object identities (pointer values / value roots)
	viaRef bool           // the written storage was reached through a reference read out of memory
}

// ownersOf walks from a written address or container up to the object(s) it
// belongs to, collecting the struct types whose fields are traversed.
func ownersOf(dst ssa.Value, isContainer bool) ownerInfo {
	var info ownerInfo
	seen := map[ssa.Value]bool{}
	addNamed := func(t types.Type) {
		if n := an.NamedOf(t); n != nil {
			info.shared = append(info.shared, n)
		}
	}
	var walk func(v ssa.Value, container bool)
	walk = func(v ssa.Value, container bool) {
		if v == nil || seen[v] {
			return
		}
		seen[v] = true
		switch x := v.(type) {
		case *ssa.FieldAddr:
			// the field belongs to the struct x.X points to
			if container {
				addNamed(x.X.Type())
			}
			switch x.X.(type) {
			case *ssa.FieldAddr, *ssa.IndexAddr:
				walk(x.X, container)
			default:
				// x.X is the pointer identifying the object
				addNamed(x.X.Type())
				info.bases = append(info.bases, x.X)
			}
		case *ssa.Field:
			if container {
				addNamed(x.X.Type())
			}
			walk(x.X, container)
		case *ssa.IndexAddr:
			if _, isPtr := x.X.Type().Underlying().(*types.Pointer); isPtr {
				walk(x.X, container) // pointer to array: same object
			} else {
				walk(x.X, true) // element of a slice: write into the container
			}
		case *ssa.Index:
			walk(x.X, container)
		case *ssa.Slice:
			walk(x.X, true)
		case *ssa.Lookup:
			walk(x.X, true)
		case *ssa.UnOp:
			if x.Op != token.MUL {
				info.bases = append(info.bases, v)
				return
			}
			if a, ok := x.X.(*ssa.Alloc); ok {
				st := an.Stores(a)
				if len(st) > 0 {
					for _, s := range st {
						walk(s, container)
					}
					return
				}
				info.bases = append(info.bases, a)
				return
			}
			if container {
				// a slice/map loaded from memory: it belongs to whatever holds that memory - and to
				// every copy of the struct it was read from
				info.viaRef = true
				walk(x.X, true)
				return
			}
			info.bases = append(info.bases, v)
		case *ssa.Phi:
			for _, e := range x.Edges {
				walk(e, container)
			}
		case *ssa.ChangeType:
			walk(x.X, container)
		case *ssa.Convert:
			walk(x.X, container)
		case *ssa.MakeInterface:
			walk(x.X, container)
		case *ssa.TypeAssert:
			walk(x.X, container)
		case *ssa.Extract:
			switch t := x.Tuple.(type) {
			case *ssa.Lookup:
				walk(t.X, true)
			case *ssa.TypeAssert:
				walk(t.X, container)
			default:
				info.bases = append(info.bases, v)
			}
		default:
			info.bases = append(info.bases, v)
		}
	}
	walk(dst, isContainer)
	return info
}

func runM5(p *an.Prog, r *an.Result) {
	shared := sharedWithCaptures(p)
	r.Counts["shared struct types"] = len(shared)
	r.Notef("shared struct types (reachable from Engine/Template fields, captured by compile-time closures, or held in package-level variables): %s", strings.Join(sharedNames(shared), ", "))
	esc := escapes(p)
	for _, fn := range p.Funcs {
		if isMainPkg(fn) || an.IsInit(fn) {
			continue
		}
		name := an.FuncName(fn)
		if underOnceDo(esc, fn) {
			continue // M6
		}
		for _, w := range writesOf(fn) {
			_, isStore := w.in.(*ssa.Store)
			info := ownersOf(w.dst, !isStore)
			var hit *types.Named
			for _, n := range info.shared {
				if shared[n] {
					hit = n
					break
				}
			}
			if hit == nil {
				continue
			}
			r.Counts["writes into shared types"]++
			construct := w.what + " into " + an.TypeName(hit) + " (" + describe(p, w.dst) + ")"
			fresh := len(info.bases) > 0
			for _, b := range info.bases {
				if !isFresh(p, b, 0) {
					fresh = false
				}
				// a local copy of a struct is new, the maps/slices/pointers inside it are not
				if al, ok := b.(*ssa.Alloc); ok && info.viaRef && copiedStruct(p, al) {
					fresh = false
				}
			}
			switch {
			case fresh:
				r.OK(name, construct, an.InstrPos(w.in), "the object is allocated by this function (under construction)")
			case isConfigPhase(fn):
				r.OK(name, construct, an.InstrPos(w.in), "configuration-phase function (tables/api_phases.json); M7 shows it is unreachable from run-phase entry points")
			default:
				r.Bad(name, construct, an.InstrPos(w.in),
					fmt.Sprintf("%s writes %s, part of a %s that every render of the template / every user of the engine shares, and the object is neither built here nor is this a configuration-phase function", name, describe(p, w.dst), an.TypeName(hit)))
			}
		}
	}
	r.Floor("shared struct types", 12)
	r.Floor("writes into shared types", 8)
}

// ---------------------------------------------------------------------------
// M6

func runM6(p *an.Prog, r *an.Result) {
	type guarded struct {
		typ   *types.Named
		field int
		name  string
	}
	var gs []guarded
	doClosures := map[*ssa.Function]bool{}
	for _, fn := range p.Funcs {
		an.EachCall(fn, func(ci ssa.CallInstruction) {
			c := ci.Common()
			if an.CallName(c) != "(*sync.Once).Do" || len(c.Args) != 2 {
				return
			}
			cl := funcValue(c.Args[1])
			if cl == nil {
				return
			}
			doClosures[cl] = true
			an.EachInstr(cl, func(in ssa.Instruction) {
				st, ok := in.(*ssa.Store)
				if !ok {
					return
				}
				fa, ok := st.Addr.(*ssa.FieldAddr)
				if !ok {
					return
				}
				n := an.NamedOf(fa.X.Type())
				if n == nil || !an.IsModulePkg(n.Obj().Pkg()) {
					return
				}
				fname := n.Underlying().(*types.Struct).Field(fa.Field).Name()
				for _, g := range gs {
					if g.typ == n && g.field == fa.Field {
						return
					}
				}
				gs = append(gs, guarded{n, fa.Field, fname})
			})
		})
	}
	r.Counts["once-guarded fields"] = len(gs)
	if len(gs) == 0 {
		r.Triv("-", "no sync.Once-guarded field", token.NoPos, "nothing is initialised lazily under sync.Once; lazily written shared fields are M5's business")
		return
	}
	for _, g := range gs {
		label := an.TypeName(g.typ) + "." + g.name
		writes, reads := 0, 0
		for _, fn := range p.Funcs {
			name := an.FuncName(fn)
			an.EachInstr(fn, func(in ssa.Instruction) {
				fa, ok := in.(*ssa.FieldAddr)
				if !ok || fa.Field != g.field || an.NamedOf(fa.X.Type()) != g.typ {
					return
				}
				if fa.Referrers() == nil {
					return
				}
				for _, u := range *fa.Referrers() {
					switch x := u.(type) {
					case *ssa.Store:
						if x.Addr != fa {
							continue
						}
						writes++
						if doClosures[fn] {
							r.OK(name, "write of "+label, x.Pos(), "inside the closure passed to Once.Do")
						} else if _, isAlloc := fa.X.(*ssa.Alloc); isAlloc {
							r.OK(name, "write of "+label, x.Pos(), "initialisation of a freshly allocated object")
						} else {
							r.Bad(name, "write of "+label, x.Pos(), fmt.Sprintf("%s is initialised under sync.Once elsewhere but written here without it", label))
						}
					case *ssa.UnOp:
						reads++
						if doClosures[fn] {
							r.OK(name, "read of "+label, x.Pos(), "inside the Once.Do closure")
							continue
						}
						// must be dominated by a Do call on the same object
						ok := false
						an.EachCall(fn, func(ci ssa.CallInstruction) {
							c := ci.Common()
							if an.CallName(c) != "(*sync.Once).Do" {
								return
							}
							oa, isFA := c.Args[0].(*ssa.FieldAddr)
							if !isFA || !sameObject(oa.X, fa.X) {
								return
							}
							cb, xb := ci.Block(), x.Block()
							if cb == xb {
								for _, i := range cb.Instrs {
									if i == ci.(ssa.Instruction) {
										ok = true
										break
									}
									if i == ssa.Instruction(x) {
										break
									}
								}
							} else if cb.Dominates(xb) {
								ok = true
							}
						})
						if ok {
							r.OK(name, "read of "+label, x.Pos(), "dominated by Once.Do on the same object")
						} else {
							r.Bad(name, "read of "+label, x.Pos(), fmt.Sprintf("%s is read without a preceding Once.Do on the same object: a concurrent first use races with the initialisation", label))
						}
					}
				}
			})
		}
		r.Counts["writes"] += writes
		r.Counts["reads"] += reads
	}
}

// ---------------------------------------------------------------------------
// M7

func runM7(p *an.Prog, r *an.Result) {
	roles := GetRoles(p)
	tbl := phases()
	// every table entry must resolve
	cfg := map[*ssa.Function]bool{}
	for _, n := range tbl.ConfigPhase {
		f := p.Func(n)
		if f == nil {
			r.Notef("configuration-phase entry %s no longer exists (ignored)", n)
			continue
		}
		cfg[f] = true
	}
	r.Counts["config-phase functions"] = len(cfg)
	entries := runPhaseEntries(p)
	r.Counts["run-phase entry points"] = len(entries)
	parent := reach(p, roles, entries, nil)
	r.Counts["functions reachable from run-phase entries"] = len(parent)
	var names []string
	for f := range cfg {
		names = append(names, an.FuncName(f))
	}
	sort.Strings(names)
	for _, n := range names {
		f := p.Func(n)
		if _, ok := parent[f]; ok {
			r.Bad(n, "reachable from run phase", an.FuncPos(f),
				fmt.Sprintf("configuration mutator %s is reachable from a run-phase entry point: %s", n, pathTo(parent, f)))
		} else {
			r.OK(n, "unreachable from run phase", an.FuncPos(f), fmt.Sprintf("not reachable (CHA + reflective filter edges) from any of the %d run-phase entry points", len(entries)))
		}
	}
	var en []string
	for _, e := range entries {
		en = append(en, an.FuncName(e))
	}
	sort.Strings(en)
	r.Notef("run-phase entry points: %s", strings.Join(en, ", "))
	r.Floor("config-phase functions", 12)
	r.Floor("run-phase entry points", 8)
}

// sameObject reports whether two pointer values denote the same object: the
// same SSA value, or loads of the same single-assignment cell.
func sameObject(a, b ssa.Value) bool {
	if a == b {
		return true
	}
	la, ok1 := a.(*ssa.UnOp)
	lb, ok2 := b.(*ssa.UnOp)
	if ok1 && ok2 && la.Op == token.MUL && lb.Op == token.MUL && la.X == lb.X {
		switch c := la.X.(type) {
		case *ssa.Alloc:
			return len(an.Stores(c)) <= 1
		case *ssa.FreeVar:
			return len(an.Stores(c)) == 0
		}
	}
	return false
}

// copiedStruct: the local al receives a whole struct value that was not built in this function
// (a parameter, a receiver, a load from elsewhere): its reference-typed fields alias the original's.
func copiedStruct(p *an.Prog, al *ssa.Alloc) bool {
	for _, sv := range an.Stores(al) {
		if !isFresh(p, sv, 0) {
			return true
		}
	}
	return false
}

package rules

import (
	"go/token"

	"golang.org/x/tools/go/ssa"
	"lv/an"
)

// toCaller maps a value of the callee tf, as seen from the call site, to the caller's value: a
// parameter to its argument, a load of a captured variable to the one value the caller stored in it
// (nil when the variable is written more than once or inside the closure). Other values map to nil.
func toCaller(tf *ssa.Function, site *ssa.Call, v ssa.Value) ssa.Value {
	// a field of a struct parameter: the value the caller put into that field of the argument
	if par, field, ok := paramField(tf, v); ok {
		for i, pp := range tf.Params {
			if pp == par && i < len(site.Call.Args) {
				return fieldOfStructValue(site.Call.Args[i], field)
			}
		}
		return nil
	}
	switch x := v.(type) {
	case *ssa.Const:
		return x
	case *ssa.Parameter:
		for i, pp := range tf.Params {
			if pp == x && i < len(site.Call.Args) {
				return site.Call.Args[i]
			}
		}
	case *ssa.UnOp:
		if x.Op != token.MUL {
			return nil
		}
		fv, ok := x.X.(*ssa.FreeVar)
		if !ok {
			return nil
		}
		mc, ok := site.Call.Value.(*ssa.MakeClosure)
		if !ok {
			return nil
		}
		for i, f := range tf.FreeVars {
			if f == fv && i < len(mc.Bindings) {
				if len(an.Stores(fv)) > 0 {
					return nil
				}
				st := an.Stores(mc.Bindings[i])
				if len(st) == 1 {
					return st[0]
				}
			}
		}
	}
	return nil
}

// onlyCalled: every use of the function is a direct call: the sites are returned. For a closure, the
// closure value is used only as the callee; for a named unexported function, every reference is a call.
func onlyCalled(p *an.Prog, tf *ssa.Function) ([]*ssa.Call, bool) {
	var sites []*ssa.Call
	if tf.Parent() != nil {
		ok := true
		n := 0
		an.EachInstr(tf.Parent(), func(in ssa.Instruction) {
			mc, isMC := in.(*ssa.MakeClosure)
			if !isMC || mc.Fn != ssa.Value(tf) {
				return
			}
			n++
			if mc.Referrers() == nil {
				return
			}
			for _, u := range *mc.Referrers() {
				switch c := u.(type) {
				case *ssa.Call:
					if c.Call.Value == ssa.Value(mc) {
						sites = append(sites, c)
						for _, a := range c.Call.Args {
							if a == ssa.Value(mc) {
								ok = false
							}
						}
						continue
					}
					ok = false
				case *ssa.DebugRef:
				default:
					ok = false
				}
			}
		})
		return sites, ok && n == 1 && len(sites) > 0
	}
	if tf.Object() == nil || tf.Object().Exported() || tf.Signature.Recv() != nil {
		return nil, false
	}
	ok := true
	for _, f := range p.Funcs {
		an.EachInstr(f, func(in ssa.Instruction) {
			for _, op := range in.Operands(nil) {
				if *op != ssa.Value(tf) {
					continue
				}
				if c, isCall := in.(*ssa.Call); isCall && c.Call.Value == ssa.Value(tf) {
					direct := true
					for _, a := range c.Call.Args {
						if a == ssa.Value(tf) {
							direct = false
						}
					}
					if direct {
						sites = append(sites, c)
						continue
					}
				}
				ok = false
			}
		})
	}
	return sites, ok && len(sites) > 0
}

// paramField: v is par.f for a struct parameter par of tf - read directly, through the local copy the
// parameter was spilled to, or through a local variable that holds that value.
func paramField(tf *ssa.Function, v ssa.Value) (*ssa.Parameter, int, bool) {
	v = an.Deref(v)
	switch x := v.(type) {
	case *ssa.Field:
		if par, ok := an.Deref(x.X).(*ssa.Parameter); ok && par.Parent() == tf {
			return par, x.Field, true
		}
	case *ssa.UnOp:
		if x.Op != token.MUL {
			return nil, 0, false
		}
		fa, ok := x.X.(*ssa.FieldAddr)
		if !ok {
			return nil, 0, false
		}
		al, ok := fa.X.(*ssa.Alloc)
		if !ok {
			return nil, 0, false
		}
		st := an.Stores(al)
		if len(st) != 1 {
			return nil, 0, false
		}
		// no store into a field of the copy either
		if al.Referrers() != nil {
			for _, u := range *al.Referrers() {
				if f2, ok := u.(*ssa.FieldAddr); ok && len(an.Stores(f2)) > 0 {
					return nil, 0, false
				}
			}
		}
		if par, ok := st[0].(*ssa.Parameter); ok && par.Parent() == tf {
			return par, fa.Field, true
		}
	}
	return nil, 0, false
}

// fieldOfStructValue: the one value stored into field f of the struct value v, which is a load of a
// local struct (a literal, or a variable filled field by field): nil when it is not unique.
func fieldOfStructValue(v ssa.Value, f int) ssa.Value {
	ld, ok := v.(*ssa.UnOp)
	if !ok || ld.Op != token.MUL {
		return nil
	}
	al, ok := ld.X.(*ssa.Alloc)
	if !ok || al.Referrers() == nil {
		return nil
	}
	var vals []ssa.Value
	for _, u := range *al.Referrers() {
		switch x := u.(type) {
		case *ssa.FieldAddr:
			if x.Field == f {
				vals = append(vals, an.Stores(x)...)
			}
		case *ssa.Store:
			if x.Addr == ssa.Value(al) {
				return nil // assigned as a whole
			}
		}
	}
	if len(vals) == 1 {
		return vals[0]
	}
	return nil
}

package rules

import (
	"go/token"

	"golang.org/x/tools/go/ssa"
	"lv/an"
)

// toCaller maps a value of the callee tf, as seen from the call site, to the caller's value: a
// parameter to its argument, a load of a captured variable to the one value the caller stored in it
// (nil when the variable is written more than once or inside the closure). Other values map to nil.
func toCaller(tf *ssa.Function, site *ssa.Call, v ssa.Value) ssa.Value {
	switch x := v.(type) {
	case *ssa.Const:
		return x
	case *ssa.Parameter:
		for i, pp := range tf.Params {
			if pp == x && i < len(site.Call.Args) {
				return site.Call.Args[i]
			}
		}
	case *ssa.UnOp:
		if x.Op != token.MUL {
			return nil
		}
		fv, ok := x.X.(*ssa.FreeVar)
		if !ok {
			return nil
		}
		mc, ok := site.Call.Value.(*ssa.MakeClosure)
		if !ok {
			return nil
		}
		for i, f := range tf.FreeVars {
			if f == fv && i < len(mc.Bindings) {
				if len(an.Stores(fv)) > 0 {
					return nil
				}
				st := an.Stores(mc.Bindings[i])
				if len(st) == 1 {
					return st[0]
				}
			}
		}
	}
	return nil
}

// onlyCalled: every use of the function is a direct call: the sites are returned. For a closure, the
// closure value is used only as the callee; for a named unexported function, every reference is a call.
func onlyCalled(p *an.Prog, tf *ssa.Function) ([]*ssa.Call, bool) {
	var sites []*ssa.Call
	if tf.Parent() != nil {
		ok := true
		n := 0
		an.EachInstr(tf.Parent(), func(in ssa.Instruction) {
			mc, isMC := in.(*ssa.MakeClosure)
			if !isMC || mc.Fn != ssa.Value(tf) {
				return
			}
			n++
			if mc.Referrers() == nil {
				return
			}
			for _, u := range *mc.Referrers() {
				switch c := u.(type) {
				case *ssa.Call:
					if c.Call.Value == ssa.Value(mc) {
						sites = append(sites, c)
						for _, a := range c.Call.Args {
							if a == ssa.Value(mc) {
								ok = false
							}
						}
						continue
					}
					ok = false
				case *ssa.DebugRef:
				default:
					ok = false
				}
			}
		})
		return sites, ok && n == 1 && len(sites) > 0
	}
	if tf.Object() == nil || tf.Object().Exported() || tf.Signature.Recv() != nil {
		return nil, false
	}
	ok := true
	for _, f := range p.Funcs {
		an.EachInstr(f, func(in ssa.Instruction) {
			for _, op := range in.Operands(nil) {
				if *op != ssa.Value(tf) {
					continue
				}
				if c, isCall := in.(*ssa.Call); isCall && c.Call.Value == ssa.Value(tf) {
					direct := true
					for _, a := range c.Call.Args {
						if a == ssa.Value(tf) {
							direct = false
						}
					}
					if direct {
						sites = append(sites, c)
						continue
					}
				}
				ok = false
			}
		})
	}
	return sites, ok && len(sites) > 0
}

package rules

import (
	"fmt"
	"go/token"
	"go/types"
	"sort"
	"strings"

	"golang.org/x/tools/go/ssa"
	"lv/an"
)

// The contract of package regexp that the bounds prover uses for the scanner (documented in the
// package: "Submatch ... Index": result[2*n:2*n+2] identifies the indexes of the nth submatch; a
// negative index means the subexpression did not take part):
//
//	R1  every element m of FindAll(String)SubmatchIndex has len(m) == 2*(NumSubexp+1)
//	R2  m[k] <= len(searched text)
//	R3  m[2j] <= m[2j+1]
//	R4  m[0], m[1] >= 0; m[2j], m[2j+1] >= 0 once a test has established that group j took part
//	R5  when a group of one alternative of the pattern took part, that alternative matched, and the
//	    match m[1]-m[0] is at least as long as the least match of that alternative (constant text,
//	    character classes, and the quoted delimiters, each of which matches exactly itself)
//
// The number of groups and the alternatives are read from the pattern the code compiles
// (readTokenPat), so a change to the pattern changes what is proved.

var patOfFuncMemo = map[*ssa.Function]*tokenPat{}

// patOfMatch: the pattern behind a match call: its regexp is the result of a module function
// that compiles a readable pattern.
func patOfMatch(p *an.Prog, c *ssa.CallCommon) (*tokenPat, *ssa.CallCommon) {
	if c == nil || len(c.Args) < 2 {
		return nil, nil
	}
	for _, o := range an.Origins(c.Args[0], an.StepValue) {
		mk := an.CallOf(o)
		if mk == nil {
			continue
		}
		callee := mk.StaticCallee()
		if callee == nil || callee.Blocks == nil || !p.InModule(callee) {
			continue
		}
		tp, ok := patOfFuncMemo[callee]
		if !ok {
			tp = readTokenPat(p, callee)
			patOfFuncMemo[callee] = tp
		}
		if tp.problem == "" {
			return tp, mk
		}
	}
	return nil, nil
}

// matchElemLoose: v is m[k] (a load) of a match slice, k constant.
func matchLen(p *an.Prog, x ssa.Value) (int64, bool) {
	c := matchCallOf(x)
	if c == nil {
		return 0, false
	}
	tp, _ := patOfMatch(p, c)
	if tp == nil {
		return 0, false
	}
	return int64(2 * (tp.ncap + 1)), true
}

// matchWritten: some store in fn goes into an element of a []int that may be the match slice
// (the regexp package hands out fresh slices; only the function itself could change them).
func matchWritten(fn *ssa.Function, m ssa.Value) bool {
	found := false
	an.EachInstr(fn, func(in ssa.Instruction) {
		if st, ok := in.(*ssa.Store); ok {
			if ia, ok := st.Addr.(*ssa.IndexAddr); ok && types.Identical(ia.X.Type(), m.Type()) {
				found = true
			}
		}
	})
	return found
}

// sameMatchElem: a and b are loads of the same element of the same (unwritten) match slice.
func sameMatchElem(a, b ssa.Value) bool {
	ma, ka, ok1 := matchElem(a)
	mb, kb, ok2 := matchElem(b)
	if !ok1 || !ok2 || ka != kb || ma != mb {
		return false
	}
	return !matchWritten(a.(*ssa.UnOp).Parent(), ma)
}

// groupTookPart: a test dominating blk establishes that group g of match m took part.
func groupTookPart(blk *ssa.BasicBlock, m ssa.Value, g int) bool {
	for _, gd := range an.GuardsAt(blk) {
		if mm, gg, ok := matchGroupGuard(gd.Cond, gd.True); ok && mm == m && gg == g {
			return true
		}
	}
	return false
}

// matchLower: R4.
func (pr *prover) matchLower(v ssa.Value, pt point) (int64, bool) {
	m, k, ok := matchElem(v)
	if !ok || matchWritten(v.(*ssa.UnOp).Parent(), m) {
		return 0, false
	}
	if k < 2 {
		return 0, true
	}
	if groupTookPart(pt.blk, m, int(k/2)) {
		return 0, true
	}
	return 0, false
}

// matchLe: R2 and R3 for a <= b.
func (pr *prover) matchLe(a, b term) bool {
	if a.v == nil || b.v == nil || a.off > b.off {
		return false
	}
	m, k, ok := matchElem(a.v)
	if !ok || matchWritten(a.v.(*ssa.UnOp).Parent(), m) {
		return false
	}
	// R3
	if m2, k2, ok := matchElem(b.v); ok && m2 == m && k%2 == 0 && k2 == k+1 {
		return true
	}
	// R2
	if lx := lenOperand(b.v); lx != nil {
		if c := matchCallOf(m); c != nil && eqVal(lx, c.Args[1]) {
			return true
		}
	}
	return false
}

// delimsStable: the list handed to the pattern function is not changed afterwards: no store into an
// element of it that the call can reach, and the pattern function only reads its parameter. Then
// len(delims[d]) in the scanner is the length of the text hole d of the pattern was quoted from.
func delimsStable(fn *ssa.Function, mk *ssa.CallCommon, mkInstr ssa.Instruction) bool {
	callee := mk.StaticCallee()
	if callee == nil || len(mk.Args) == 0 || len(callee.Params) == 0 {
		return false
	}
	// the callee only reads its list: loads of elements, len, range
	par := callee.Params[0]
	if par.Referrers() != nil {
		for _, u := range *par.Referrers() {
			switch x := u.(type) {
			case *ssa.IndexAddr:
				if x.Referrers() != nil {
					for _, uu := range *x.Referrers() {
						if ld, ok := uu.(*ssa.UnOp); !ok || ld.Op != token.MUL {
							if _, dbg := uu.(*ssa.DebugRef); !dbg {
								return false
							}
						}
					}
				}
			case *ssa.DebugRef:
			case *ssa.Call:
				if bi, ok := x.Call.Value.(*ssa.Builtin); !ok || bi.Name() != "len" {
					return false
				}
			default:
				return false
			}
		}
	}
	bases := map[ssa.Value]bool{}
	for _, o := range an.Origins(mk.Args[0], an.StepValue) {
		bases[o] = true
	}
	bases[mk.Args[0]] = true
	// blocks the call reaches
	reach := map[*ssa.BasicBlock]bool{}
	var dfs func(b *ssa.BasicBlock)
	dfs = func(b *ssa.BasicBlock) {
		for _, s := range b.Succs {
			if !reach[s] {
				reach[s] = true
				dfs(s)
			}
		}
	}
	dfs(mkInstr.Block())
	stable := true
	an.EachInstr(fn, func(in ssa.Instruction) {
		st, ok := in.(*ssa.Store)
		if !ok {
			return
		}
		ia, ok := st.Addr.(*ssa.IndexAddr)
		if !ok {
			return
		}
		hit := bases[ia.X]
		for _, o := range an.Origins(ia.X, an.StepValue) {
			if bases[o] {
				hit = true
			}
		}
		if !hit {
			return
		}
		if reach[st.Block()] {
			stable = false
		}
		if st.Block() == mkInstr.Block() {
			after := false
			for _, x := range st.Block().Instrs {
				if x == mkInstr {
					after = true
				}
				if x == ssa.Instruction(st) && after {
					stable = false
				}
			}
		}
	})
	return stable
}

// matchLinear: R5. Proves a <= b where both are sums of a constant, of lengths of delimiters and of the
// length of base, the whole-match text subject[m[0]:m[1]], at a place where a dominating test says
// which alternative of the pattern matched. Returns the reason when it follows.
func (pr *prover) matchLinear(fn *ssa.Function, in ssa.Instruction, base ssa.Value, a, b term) string {
	toLF := func(t term) linForm {
		lf := linForm{coef: map[ssa.Value]int64{}}
		if t.v != nil {
			lf = linOf(t.v, 0)
		}
		lf.c += t.off
		return lf
	}
	return pr.matchLinearLF(fn, in, base, toLF(a), toLF(b))
}

// matchLinearLF is matchLinear for two sides given as linear forms.
func (pr *prover) matchLinearLF(fn *ssa.Function, in ssa.Instruction, base ssa.Value, la, lb linForm) string {
	if base == nil {
		return ""
	}
	sl, ok := an.Deref(base).(*ssa.Slice)
	if !ok || sl.Low == nil || sl.High == nil {
		return ""
	}
	m, k0, ok0 := matchElem(sl.Low)
	m1, k1, ok1 := matchElem(sl.High)
	if !ok0 || !ok1 || m != m1 || k0 != 0 || k1 != 1 || matchWritten(fn, m) {
		return ""
	}
	mc := matchCallOf(m)
	if mc == nil || !eqVal(mc.Args[1], sl.X) {
		return ""
	}
	tp, mk := patOfMatch(pr.p, mc)
	if tp == nil {
		return ""
	}
	var mkInstr ssa.Instruction
	an.EachInstr(fn, func(x ssa.Instruction) {
		if c, ok := x.(*ssa.Call); ok && &c.Call == mk {
			mkInstr = c
		}
	})
	if mkInstr == nil || !delimsStable(fn, mk, mkInstr) {
		return ""
	}
	// the alternative that matched
	var alt *patAlt
	for _, gd := range an.GuardsAtInstr(in) {
		if mm, g, ok := matchGroupGuard(gd.Cond, gd.True); ok && mm == m {
			if ai, ok := tp.groupAlt[g]; ok {
				alt = tp.alts[ai]
			}
		}
	}
	if alt == nil {
		return ""
	}
	// b - a as a linear form over len(base) and len(delims[d])
	var s, c int64            // coefficient of len(base); constant
	rest := map[int64]int64{} // coefficient of len(delims[d])
	listBases := map[ssa.Value]bool{mk.Args[0]: true}
	for _, o := range an.Origins(mk.Args[0], an.StepValue) {
		listBases[o] = true
	}
	addTerm := func(lf linForm, sign int64) bool {
		c += sign * lf.c
		for at, cf := range lf.coef {
			if cf == 0 {
				continue
			}
			var lx ssa.Value
			if vl, ok := at.(virtualLen); ok {
				lx = vl.x
			} else {
				lx = lenOperand(at)
			}
			if lx == nil {
				return false
			}
			if eqVal(an.Deref(lx), an.Deref(base)) || an.Deref(lx) == ssa.Value(sl) {
				s += sign * cf
				continue
			}
			u, ok := an.Deref(lx).(*ssa.UnOp)
			if !ok || u.Op != token.MUL {
				return false
			}
			ia, ok := u.X.(*ssa.IndexAddr)
			if !ok || !listBases[ia.X] {
				return false
			}
			d, ok := an.ConstInt(ia.Index)
			if !ok {
				return false
			}
			rest[d] += sign * cf
		}
		return true
	}
	if !addTerm(lb, 1) || !addTerm(la, -1) {
		return ""
	}
	if s < 0 {
		return "" // the match has no upper bound to offer
	}
	// b - a = s*len(base) + rest + c >= s*M + rest + c
	if c+s*alt.minConst < 0 {
		return ""
	}
	for d, cf := range rest {
		if cf+s*alt.minDelims[d] < 0 {
			return ""
		}
	}
	var ds []string
	var keys []int64
	for d := range alt.minDelims {
		keys = append(keys, d)
	}
	sort.Slice(keys, func(i, j int) bool { return keys[i] < keys[j] })
	for _, d := range keys {
		ds = append(ds, fmt.Sprintf("len(delims[%d])", d))
	}
	return fmt.Sprintf("regexp match contract: a group of this alternative of the token pattern took part, so the match is at least %s+%d bytes long (the least match of the alternative, read from the compiled pattern)", strings.Join(ds, "+"), alt.minConst)
}

// lenTermIn: len(x) as a term of function fn: an existing len call on an equal operand, else a virtual one.
func lenTermIn(fn *ssa.Function, x ssa.Value) term {
	var found ssa.Value
	an.EachInstr(fn, func(in ssa.Instruction) {
		if c, ok := in.(*ssa.Call); ok {
			if bi, ok := c.Call.Value.(*ssa.Builtin); ok && bi.Name() == "len" && eqVal(c.Call.Args[0], x) {
				found = c
			}
		}
	})
	if found != nil {
		return norm(found)
	}
	if ms, ok := x.(*ssa.MakeSlice); ok {
		return norm(ms.Len)
	}
	return term{v: virtualLen{x}}
}

// callerProves: a bound of a helper that is only ever called directly (a local closure, an unexported
// function) is decided where it is called: parameters become the arguments, captured variables the
// values the caller stored, and a <= b must follow at every call site.
func (pr *prover) callerProves(fn *ssa.Function, base ssa.Value, a, b term) string {
	sites, ok := onlyCalled(pr.p, fn)
	if !ok {
		return ""
	}
	for _, site := range sites {
		caller := site.Parent()
		conv := func(t term) (term, bool) {
			if t.v == nil {
				return t, true
			}
			var lx ssa.Value
			if vl, ok := t.v.(virtualLen); ok {
				lx = vl.x
			} else {
				lx = lenOperand(t.v)
			}
			if lx != nil {
				cx := toCaller(fn, site, lx)
				if cx == nil {
					return term{}, false
				}
				lt := lenTermIn(caller, an.Deref(cx))
				lt.off += t.off
				return lt, true
			}
			cv := toCaller(fn, site, t.v)
			if cv == nil {
				return term{}, false
			}
			ct := norm(cv)
			ct.off += t.off
			return ct, true
		}
		ta, ok1 := conv(a)
		tb, ok2 := conv(b)
		if ok1 && ok2 && pr.le(ta, tb, point{blk: site.Block()}, 0, map[[2]ssa.Value]bool{}) {
			continue
		}
		// as linear forms: every atom (a length, a parameter) carried over to the caller
		convLF := func(t term) (linForm, bool) {
			out := linForm{coef: map[ssa.Value]int64{}, c: t.off}
			if t.v == nil {
				return out, true
			}
			lf := linOf(t.v, 0)
			out.c += lf.c
			for at, cf := range lf.coef {
				if cf == 0 {
					continue
				}
				ct, ok := conv(term{v: at})
				if !ok {
					return out, false
				}
				out.c += cf * ct.off
				if ct.v != nil {
					sub := linOf(ct.v, 0)
					out.c += cf * sub.c
					for a2, c2 := range sub.coef {
						out.coef[a2] += cf * c2
					}
				}
			}
			return out, true
		}
		la, okA := convLF(a)
		lb, okB := convLF(b)
		if okA && okB && base != nil {
			if cb := toCaller(fn, site, base); cb != nil && pr.matchLinearLF(caller, site, an.Deref(cb), la, lb) != "" {
				continue
			}
		}
		return ""
	}
	return fmt.Sprintf("holds at each of the %d places this helper is called from, with the arguments and captured variables of each", len(sites))
}

// calleeProves: the bound is computed by a helper of the module - `lo, hi := charRange(len(s), a, n)`,
// `i, ok := r.selectBranch(ctx)` - and is proved inside that helper, at each of its returns: a result
// component of the call stands for what that return hands back, an argument of the call (or its length, or a
// field of it) for the corresponding parameter. Returns whose boolean component contradicts a test of the
// same call's result that dominates the use are skipped (the `ok == false` return of an (index, ok) pair).
func (pr *prover) calleeProves(fn *ssa.Function, in ssa.Instruction, a, b term) string {
	var call *ssa.Call
	pick := func(t term) {
		if ex, ok := t.v.(*ssa.Extract); ok {
			if c, ok := ex.Tuple.(*ssa.Call); ok {
				call = c
			}
		} else if c, ok := t.v.(*ssa.Call); ok && c.Call.StaticCallee() != nil {
			call = c
		}
	}
	pick(a)
	if call == nil {
		pick(b)
	}
	if call == nil {
		return ""
	}
	h := call.Call.StaticCallee()
	if h == nil || !pr.p.InModule(h) || h.Blocks == nil || len(h.Params) != len(call.Call.Args) || h == fn {
		return ""
	}
	// caller value -> callee value, at a given return
	toCallee := func(t term, ret *ssa.Return) (term, bool) {
		if t.v == nil {
			return t, true
		}
		res := resultsOf(ret)
		if ex, ok := t.v.(*ssa.Extract); ok && ex.Tuple == ssa.Value(call) {
			if ex.Index >= len(res) {
				return term{}, false
			}
			ct := norm(res[ex.Index])
			ct.off += t.off
			return ct, true
		}
		if t.v == ssa.Value(call) && len(res) == 1 {
			ct := norm(res[0])
			ct.off += t.off
			return ct, true
		}
		// an argument itself
		for j, arg := range call.Call.Args {
			if arg == t.v || eqVal(arg, t.v) {
				return term{h.Params[j], t.off}, true
			}
		}
		// a length: of an argument, or of a field of an argument
		var lx ssa.Value
		if vl, ok := t.v.(virtualLen); ok {
			lx = vl.x
		} else {
			lx = lenOperand(t.v)
		}
		if lx != nil {
			for j, arg := range call.Call.Args {
				if arg == lx || eqVal(arg, lx) {
					lt := lenTermIn(h, h.Params[j])
					lt.off += t.off
					return lt, true
				}
				// field of the argument: find the same field read off the parameter in the callee
				sameStruct := func(base, arg ssa.Value) bool {
					if base == arg || eqVal(base, arg) || an.Deref(base) == an.Deref(arg) {
						return true
					}
					// the argument is a copy loaded from the local the field is read from
					if u, ok := arg.(*ssa.UnOp); ok && u.Op == token.MUL && u.X == base {
						return true
					}
					return false
				}
				isParam := func(b2 ssa.Value, par *ssa.Parameter) bool {
					if b2 == ssa.Value(par) || an.Deref(b2) == ssa.Value(par) {
						return true
					}
					if al, ok := b2.(*ssa.Alloc); ok {
						st := an.Stores(al)
						return len(st) == 1 && st[0] == ssa.Value(par)
					}
					return false
				}
				if fld, base, ok := fieldRead(lx); ok && sameStruct(base, arg) {
					var cv ssa.Value
					an.EachInstr(h, func(in2 ssa.Instruction) {
						if v2, isV := in2.(ssa.Value); isV && cv == nil {
							if f2, b2, ok2 := fieldRead(v2); ok2 && f2 == fld && isParam(b2, h.Params[j]) {
								cv = v2
							}
						}
					})
					if cv != nil {
						lt := lenTermIn(h, cv)
						lt.off += t.off
						return lt, true
					}
				}
			}
		}
		return term{}, false
	}
	// tests of the same call's boolean results that dominate the use
	type want struct {
		idx int
		val bool
	}
	var wants []want
	for _, g := range an.GuardsAtInstr(in) {
		if ex, ok := g.Cond.(*ssa.Extract); ok && ex.Tuple == ssa.Value(call) {
			wants = append(wants, want{ex.Index, g.True})
		}
	}
	n := 0
	ok := true
	an.EachInstr(h, func(in2 ssa.Instruction) {
		ret, isRet := in2.(*ssa.Return)
		if !isRet || !ok {
			return
		}
		res := resultsOf(ret)
		for _, w := range wants {
			if w.idx < len(res) {
				if cb, isC := an.ConstBool(res[w.idx]); isC && cb != w.val {
					return // this return is excluded by the caller's test
				}
			}
		}
		ta, ok1 := toCallee(a, ret)
		tb, ok2 := toCallee(b, ret)
		if !ok1 || !ok2 || !pr.le(ta, tb, point{blk: ret.Block()}, 0, map[[2]ssa.Value]bool{}) {
			ok = false
			return
		}
		n++
	})
	if ok && n > 0 {
		return fmt.Sprintf("proved inside %s, which computes the bound, at each of its %d returns (those the caller's test of its result excludes apart)", an.FuncName(h), n)
	}
	return ""
}

// fieldRead: v reads field k of some value: Field(x, k) or *FieldAddr(x, k).
func fieldRead(v ssa.Value) (int, ssa.Value, bool) {
	switch x := v.(type) {
	case *ssa.Field:
		return x.Field, x.X, true
	case *ssa.UnOp:
		if fa, ok := x.X.(*ssa.FieldAddr); ok && x.Op == token.MUL {
			return fa.Field, fa.X, true
		}
	}
	return 0, nil, false
}

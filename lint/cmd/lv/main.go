// Command lv decides the structural clauses of the liquid properties by
// static analysis of the source tree in /repo.
package main

import (
	"encoding/json"
	"flag"
	"fmt"
	"os"
	"path/filepath"
	"sort"
	"strconv"
	"strings"
	"time"

	"lv/an"
	"lv/rules"
)

func verifDir() string {
	if d := os.Getenv("LV_VERIF"); d != "" {
		return d
	}
	exe, err := os.Executable()
	if err == nil {
		d := filepath.Dir(filepath.Dir(exe))
		if _, err := os.Stat(filepath.Join(d, "properties.jsonl")); err == nil {
			return d
		}
	}
	return "/verif"
}

func repoDir() string {
	if d := os.Getenv("LV_REPO"); d != "" {
		return d
	}
	return "/repo"
}

func main() {
	if len(os.Args) < 2 {
		usage()
	}
	switch os.Args[1] {
	case "check":
		os.Exit(cmdCheck(os.Args[2:]))
	case "rule":
		os.Exit(cmdRule(os.Args[2:]))
	case "replay":
		os.Exit(cmdReplay(os.Args[2:]))
	case "selftest":
		os.Exit(cmdSelftest(os.Args[2:]))
	case "rules":
		for _, id := range rules.IDs() {
			fmt.Printf("%s\t%s\n", id, rules.Get(id).Doc)
		}
	case "describe":
		// machine-readable description of rules and properties, used by tools/mkdesign.py
		type pd struct {
			ID          string   `json:"id"`
			Rules       []string `json:"rules"`
			Explanation string   `json:"explanation"`
			Assumptions []string `json:"assumptions"`
		}
		out := struct {
			Rules map[string]string `json:"rules"`
			Props []pd              `json:"properties"`
		}{Rules: map[string]string{}}
		for _, id := range rules.IDs() {
			out.Rules[id] = rules.Get(id).Doc
		}
		for _, id := range rules.PropIDs() {
			p := rules.GetProp(id)
			out.Props = append(out.Props, pd{p.ID, p.Rules, p.Explanation, p.Assumptions})
		}
		b, _ := json.MarshalIndent(out, "", " ")
		fmt.Println(string(b))
	case "manifest":
		os.Exit(cmdManifest())
	case "roles":
		os.Exit(cmdRoles())
	case "list":
		for _, id := range rules.PropIDs() {
			fmt.Println(id, strings.Join(rules.GetProp(id).Rules, " "))
		}
	default:
		usage()
	}
}

func usage() {
	fmt.Fprintln(os.Stderr, "usage: lv check <ID> [--tier quick|thorough] | lv rule <RULE> [-v] | lv replay <file> | lv selftest | lv list")
	os.Exit(2)
}

func load(extra ...string) (*an.Prog, error) {
	return an.Load(an.LoadOpts{Dir: repoDir(), MinPkgs: 9, ExtraEnv: extra})
}

func cmdRule(args []string) int {
	fs := flag.NewFlagSet("rule", flag.ExitOnError)
	verbose := fs.Bool("v", false, "print discharged obligations too")
	if len(args) < 1 {
		usage()
	}
	id := args[0]
	fs.Parse(args[1:])
	rule := rules.Get(id)
	if rule == nil {
		fmt.Fprintln(os.Stderr, "unknown rule", id)
		return 2
	}
	p, err := load()
	if err != nil {
		fmt.Println("ANALYSIS-ERROR:", err)
		return 2
	}
	res := rules.RunRule(p, rule)
	an.SortObs(res.Obs)
	bad := 0
	for _, o := range res.Obs {
		if o.Status == an.Violated {
			bad++
		}
		if *verbose || o.Status == an.Violated {
			fmt.Printf("%-10s %s %s  %s :: %s\n    %s\n", o.Status, o.Rule, o.Pos, o.Func, o.Construct, o.Reason)
		}
	}
	for _, n := range res.Notes {
		fmt.Println("note:", n)
	}
	fmt.Printf("rule %s: %d obligations, %d violated; counts %v\n", id, len(res.Obs), bad, res.Counts)
	if bad > 0 {
		return 1
	}
	return 0
}

type replayDoc struct {
	Property   string        `json:"property"`
	Obligation an.Obligation `json:"obligation"`
	Doc        string        `json:"rule_doc"`
}

func cmdCheck(args []string) int {
	if len(args) < 1 {
		usage()
	}
	id := args[0]
	fs := flag.NewFlagSet("check", flag.ExitOnError)
	tier := fs.String("tier", "", "quick or thorough")
	noWrite := fs.Bool("no-write", false, "do not write evidence/replay files")
	fs.Parse(args[1:])
	if *tier == "" {
		*tier = os.Getenv("VERIF_TIER")
	}
	if *tier != "thorough" {
		*tier = "quick"
	}
	seed, _ := strconv.Atoi(os.Getenv("VERIF_SEED"))
	start := time.Now()
	prop := rules.GetProp(id)
	if prop == nil {
		fmt.Printf("lv: property %s has no registered rules\n", id)
		return 2
	}
	vd := verifDir()
	tables, err := an.LoadTables(vd)
	if err != nil {
		fmt.Println("ANALYSIS-ERROR:", err)
		return 2
	}
	out := runProperty(prop, *tier, tables, nil)
	if *tier == "thorough" {
		thoroughExtras(prop, tables, out)
	}
	return finish(prop, *tier, seed, start, out, vd, *noWrite)
}

type propRun struct {
	obs      []an.Obligation
	notes    []string
	counts   map[string]int
	funcs    int
	pkgs     int
	loadErr  error
	rulesRun []string
	extraCov map[string]any
}

func runProperty(prop *rules.Prop, tier string, tables *an.Tables, extraEnv []string) *propRun {
	pr := &propRun{counts: map[string]int{}, extraCov: map[string]any{}}
	p, err := load(extraEnv...)
	if err != nil {
		pr.loadErr = err
		return pr
	}
	pr.funcs, pr.pkgs = len(p.Funcs), len(p.Pkgs)
	for _, rid := range prop.Rules {
		rule := rules.Get(rid)
		if rule == nil {
			pr.obs = append(pr.obs, an.Obligation{Rule: rid, Func: "-", Construct: "missing-rule", Status: an.Violated, Reason: "rule not registered"})
			continue
		}
		if rule.Thorough && tier != "thorough" {
			continue
		}
		res := rules.RunRule(p, rule)
		pr.rulesRun = append(pr.rulesRun, rid)
		pr.obs = append(pr.obs, res.Obs...)
		for _, n := range res.Notes {
			pr.notes = append(pr.notes, rid+": "+n)
		}
		for k, v := range res.Counts {
			pr.counts[rid+"."+k] = v
		}
	}
	pr.obs = tables.Apply(prop.ID, pr.obs)
	an.SortObs(pr.obs)
	return pr
}

func finish(prop *rules.Prop, tier string, seed int, start time.Time, pr *propRun, vd string, noWrite bool) int {
	id := prop.ID
	if pr.loadErr != nil {
		// A tree that cannot be loaded decides nothing; that is a failure of the check.
		fmt.Println("ANALYSIS-ERROR:", pr.loadErr)
		pr.obs = append(pr.obs, an.Obligation{Rule: "load", Func: "-", Construct: "load", Status: an.Violated, Reason: pr.loadErr.Error()})
	}
	byStatus := map[string]int{}
	perRule := map[string][2]int{}
	distinct := map[string]bool{}
	for _, o := range pr.obs {
		byStatus[o.Status]++
		c := perRule[o.Rule]
		c[0]++
		if o.Status == an.Violated {
			c[1]++
		}
		perRule[o.Rule] = c
		if o.Status == an.Discharged {
			distinct[o.Key()] = true
		}
	}
	fmt.Printf("lv check %s tier=%s: %d packages, %d functions analysed\n", id, tier, pr.pkgs, pr.funcs)
	var rids []string
	for r := range perRule {
		rids = append(rids, r)
	}
	sort.Strings(rids)
	for _, r := range rids {
		doc := ""
		if rule := rules.Get(r); rule != nil {
			doc = rule.Doc
		}
		fmt.Printf("  rule %-5s %3d obligations, %d violated  — %s\n", r, perRule[r][0], perRule[r][1], doc)
	}
	for _, n := range pr.notes {
		fmt.Println("  note:", n)
	}
	exit := 0
	var samples []any
	for _, o := range pr.obs {
		switch o.Status {
		case an.Known:
			fmt.Printf("KNOWN-FINDING: property=%s %s %s in %s (%s): %s\n", id, o.Rule, o.Construct, o.Func, o.Pos, o.Reason)
		case an.Violated:
			exit = 1
			rp := filepath.Join(vd, "replay", id+"-"+an.ShortHash(o.Key())+".json")
			doc := ""
			if rule := rules.Get(o.Rule); rule != nil {
				doc = rule.Doc
			}
			if !noWrite {
				_ = an.WriteJSON(rp, replayDoc{Property: id, Obligation: o, Doc: doc})
			}
			fmt.Printf("rule %s violated at %s in %s: %s\n    obligation: %s\n    why: %s\n", o.Rule, o.Pos, o.Func, o.Construct, doc, o.Reason)
			fmt.Printf("VIOLATION property=%s replay=%s\n", id, rp)
		}
	}
	// samples: a few obligations of each status, discharged-by-argument first
	want := []string{an.Discharged, an.Justified, an.Trivial, an.Known, an.Violated}
	for _, st := range want {
		n := 0
		seenRule := map[string]int{}
		for _, o := range pr.obs {
			if o.Status == st && seenRule[o.Rule] < 2 && n < 24 {
				samples = append(samples, o)
				seenRule[o.Rule]++
				n++
			}
		}
	}
	total := len(pr.obs)
	discharged := total - byStatus[an.Violated] - byStatus[an.Known]
	cov := map[string]any{
		"explanation":         prop.Explanation,
		"obligations":         total,
		"discharged":          discharged,
		"evaluations":         total,
		"distinct_nontrivial": len(distinct),
		"rule":                "one obligation per rule instance (rule, enclosing function, construct); non-trivial = discharged by a dominating guard, dataflow or structural argument rather than by type, constant or the justification table; distinct = distinct (rule, function, construct) keys",
		"samples":             samples,
		"rules_run":           pr.rulesRun,
		"rule_counts":         pr.counts,
		"by_status":           byStatus,
		"functions_analysed":  pr.funcs,
		"packages":            pr.pkgs,
		"justified_by_table":  byStatus[an.Justified],
		"known_findings":      byStatus[an.Known],
		"callgraph":           "CHA (golang.org/x/tools/go/callgraph/cha) where reachability is used",
		"notes":               pr.notes,
		"repo":                repoDir(),
	}
	for k, v := range pr.extraCov {
		cov[k] = v
	}
	ev := an.Evidence{
		PropertyID: id, Tier: tier, Seed: seed, Level: "other", Coverage: cov,
		Assumptions: prop.Assumptions, WallS: time.Since(start).Seconds(), Violations: byStatus[an.Violated],
	}
	if !noWrite {
		if err := an.WriteJSON(filepath.Join(vd, "evidence", id+".json"), ev); err != nil {
			fmt.Println("ANALYSIS-ERROR: cannot write evidence:", err)
			return 1
		}
	}
	fmt.Printf("lv check %s: %d obligations, %d discharged (%d by argument, %d trivially, %d by table), %d known findings, %d violations, %.1fs\n",
		id, total, discharged, byStatus[an.Discharged], byStatus[an.Trivial], byStatus[an.Justified], byStatus[an.Known], byStatus[an.Violated], time.Since(start).Seconds())
	return exit
}

func cmdReplay(args []string) int {
	if len(args) < 1 {
		usage()
	}
	b, err := os.ReadFile(args[0])
	if err != nil {
		fmt.Println(err)
		return 2
	}
	var doc replayDoc
	if err := json.Unmarshal(b, &doc); err != nil {
		fmt.Println(err)
		return 2
	}
	rule := rules.Get(doc.Obligation.Rule)
	if rule == nil {
		fmt.Println("unknown rule", doc.Obligation.Rule)
		return 2
	}
	p, err := load()
	if err != nil {
		fmt.Println("ANALYSIS-ERROR:", err)
		return 2
	}
	tables, err := an.LoadTables(verifDir())
	if err != nil {
		fmt.Println("ANALYSIS-ERROR:", err)
		return 2
	}
	res := rules.RunRule(p, rule)
	obs := tables.Apply(doc.Property, res.Obs)
	for _, o := range obs {
		if o.Key() == doc.Obligation.Key() {
			fmt.Printf("%s %s at %s in %s: %s\n    obligation: %s\n    why: %s\n", o.Status, o.Rule, o.Pos, o.Func, o.Construct, rule.Doc, o.Reason)
			if o.Status == an.Violated {
				fmt.Printf("VIOLATION property=%s replay=%s\n", doc.Property, args[0])
				return 1
			}
			return 0
		}
	}
	fmt.Printf("obligation %s no longer exists on this tree\n", doc.Obligation.Key())
	return 0
}

func cmdRoles() int {
	p, err := load()
	if err != nil {
		fmt.Println("ANALYSIS-ERROR:", err)
		return 2
	}
	r := rules.GetRoles(p)
	fmt.Printf("%d packages, %d functions\n", len(p.Pkgs), len(p.Funcs))
	for _, f := range r.Filters {
		fmt.Printf("filter %-16s %s %s\n", f.Name, an.FuncName(f.Fn), f.Sig)
	}
	for _, t := range r.Tags {
		fmt.Printf("tag %-10s compiler=%s renderer=%s\n", t.Name, an.FuncName(t.Compiler), an.FuncName(t.Renderer))
	}
	for _, b := range r.Blocks {
		fmt.Printf("block %-10s clauses=%v compiler=%s renderer=%s args=%v\n", b.Name, b.Clauses, an.FuncName(b.Compiler), an.FuncName(b.Renderer), b.CompilerArgs)
	}
	fmt.Printf("%d renderers, %d evaluators\n", len(r.Renderers), len(r.Evaluators))
	for _, b := range r.Boundaries {
		var hs []string
		for _, h := range b.Handled {
			hs = append(hs, an.TypeName(h))
		}
		fmt.Printf("boundary %s closure=%s early=%v handled=%v\n", an.FuncName(b.Fn), an.FuncName(b.Closure), b.DeferEarly, hs)
	}
	for _, pr := range r.Problems {
		fmt.Println("PROBLEM:", pr)
	}
	return 0
}

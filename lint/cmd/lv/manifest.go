package main

import (
	"bufio"
	"encoding/json"
	"fmt"
	"os"
	"path/filepath"
	"strings"

	"lv/an"
	"lv/rules"
)

// cmdManifest regenerates /verif/MANIFEST.json from the registered
// properties: one source of truth for claims, levels and commands.
func cmdManifest() int {
	vd := verifDir()
	f, err := os.Open(filepath.Join(vd, "properties.jsonl"))
	if err != nil {
		fmt.Println(err)
		return 2
	}
	defer f.Close()
	var ids []string
	sc := bufio.NewScanner(f)
	sc.Buffer(make([]byte, 1<<20), 1<<22)
	for sc.Scan() {
		var rec struct {
			ID string `json:"id"`
		}
		if json.Unmarshal(sc.Bytes(), &rec) == nil && rec.ID != "" {
			ids = append(ids, rec.ID)
		}
	}
	var checks []map[string]any
	var na []map[string]any
	var served []string
	for _, id := range ids {
		prop := rules.GetProp(id)
		if prop == nil {
			na = append(na, map[string]any{"property_id": id, "reason": rules.NotApplicable[id]})
			continue
		}
		served = append(served, id)
		var docs []string
		for _, rid := range prop.Rules {
			if r := rules.Get(rid); r != nil {
				docs = append(docs, rid+": "+r.Doc)
			}
		}
		checks = append(checks, map[string]any{
			"property_id":         id,
			"quick_cmd":           "./lvcheck " + id + " quick",
			"thorough_cmd":        "./lvcheck " + id + " thorough",
			"evidence_file":       "/verif/evidence/" + id + ".json",
			"replay_cmd_template": "./bin/lv replay {path}",
			"engine":              "lv",
			"level_claimed": map[string]any{
				"category":   "other",
				"text":       "Static analysis of /repo's current source (go/packages + go/ssa, nothing executed): a set of structural NECESSARY conditions of the property, each decided for all inputs/schedules/histories at once; the behavioural remainder is not decided. " + prop.Explanation + " Rules: " + strings.Join(docs, "; ") + ".",
				"design_ref": "DESIGN.md section 5 (" + id + "), rules in section 4",
			},
			"level_note": strings.Join(prop.Assumptions, "; "),
			"technique":  "static analysis: repository-specific SSA/CFG/call-graph rules (" + strings.Join(prop.Rules, ", ") + ")",
		})
	}
	m := map[string]any{
		"version":   1,
		"setup_cmd": "cd /verif/lint && GOFLAGS=-mod=mod GOPROXY=off GOSUMDB=off GOTOOLCHAIN=local GOWORK=off go build -o /verif/bin/lv ./cmd/lv",
		"hooks": map[string]any{
			"guard":            "verif",
			"enable":           "none needed: the checks analyse /repo's source statically; no hook or instrumentation was added to /repo",
			"baseline_off_cmd": "cd /repo && go test -mod=mod -json -vet=off -count=1 -timeout 25m ./...",
			"source_commits":   []string{},
			"add_only":         true,
		},
		"engines": []map[string]any{{
			"name": "lv", "path": "/verif/lint", "serves_properties": served,
			"kind_free_text": "repository-specific static analyser: go/packages loader, go/ssa, dominator/guard facts, CHA call graph, error-type provenance, parameter-mutation summaries; rules and tables in /verif/lint/rules and /verif/tables",
		}},
		"checks":         checks,
		"not_applicable": na,
		"notes":          "Technique family: static analysis only. Every claimed property is claimed at level 'other' for its structural necessary conditions; DESIGN.md section 5 lists, per property, what is and is not decided. Genuine defects found by the rules were repaired in 'fix:' commits in /repo and are listed in /verif/KNOWN_FINDINGS.txt.",
	}
	if len(na) == 0 {
		m["not_applicable"] = []map[string]any{}
	}
	if err := an.WriteJSON(filepath.Join(vd, "MANIFEST.json"), m); err != nil {
		fmt.Println(err)
		return 2
	}
	fmt.Printf("MANIFEST.json: %d checks, %d not applicable\n", len(checks), len(na))
	return 0
}
